#!/bin/bash
# every claimed check, thorough tier, one after the other (evidence diverted: the committed evidence is the quick tier's)
cd "$(dirname "$0")/.."
ids="${*:-C13 C18 C09 C12 C02 C04 C08 C07 C05 C06 C03 C10 C11 C14 C15 C16 C17 C19 C20 C01 G01 G02 G03}"
for id in $ids; do
  s=$(date +%s)
  out=$(VERIF_NO_EVIDENCE=1 ./check "$id" thorough 2>&1); r=$?
  echo "$id thorough rc=$r $(( $(date +%s) - s ))s | $(echo "$out" | tail -1)"
  if [ $r -ne 0 ]; then echo "$out" | grep -E "VIOLATION|DEVIATION|key=|MACHINERY" | head -8; fi
done
