#!/usr/bin/env python3
import json, glob, jsonschema, sys
sch = json.load(open("/root/.vp/EVIDENCE.schema.json"))
man = json.load(open("/verif/MANIFEST.json"))
ok = True
for c in man["checks"]:
    p = c["evidence_file"]
    try:
        e = json.load(open(p))
        jsonschema.validate(e, sch)
        lvl_ok = e["level"] == c["level_claimed"]["category"]
        cov = e["coverage"]
        print(f"{c['property_id']}: valid level={e['level']}{'' if lvl_ok else ' (!= claimed ' + c['level_claimed']['category'] + ')'} tier={e['tier']} "
              f"states={cov.get('states')} traces={cov.get('traces_validated_against_impl')} samples={len(cov.get('samples', []))} viol={e.get('violations')}")
        ok &= lvl_ok
    except Exception as ex:
        ok = False
        print(f"{c['property_id']}: INVALID {type(ex).__name__}: {str(ex)[:200]}")
sys.exit(0 if ok else 1)
