#!/bin/bash
# tools/seed_test.sh <patch.diff> <ID> [tier]  -- applies a seeded change to a scratch worktree of /repo
# and runs ./check <ID> against it (VERIF_REPO), then removes the worktree. Prints DETECTED / MISSED.
set -u
patch="$(realpath "$1")"; id="$2"; tier="${3:-quick}"
wt="$(mktemp -d /tmp/seedwt.XXXXXX)"; rmdir "$wt"
git -C /repo worktree add -q --detach "$wt" HEAD || exit 2
if ! git -C "$wt" apply "$patch"; then echo "PATCH-DOES-NOT-APPLY $patch"; git -C /repo worktree remove --force "$wt"; exit 2; fi
cd "$(dirname "$0")/.."
out=$(VERIF_REPO="$wt" VERIF_NO_EVIDENCE=1 ./check "$id" "$tier" 2>&1); rc=$?
git -C /repo worktree remove --force "$wt"
echo "$out" | grep -E "^VIOLATION|key=|MACHINERY|^\[" | head -${SEED_LINES:-8}
if [ $rc -eq 1 ] && echo "$out" | grep -q "^VIOLATION"; then echo "DETECTED $id $patch"; elif [ $rc -eq 1 ]; then echo "CRASH(rc=1,no VIOLATION line) $id $patch"; elif [ $rc -eq 0 ]; then echo "MISSED $id $patch"; else echo "ERROR(rc=$rc) $id $patch"; fi
exit 0
