#!/usr/bin/env python3
"""tools/gen_iface.py -- record the argument/result NAMES of every exported ca.Function of the pinned tree
(harness/iface_names.json).  The names are part of the interface the specifications talk about (a_b, omega_b, ...):
harness/cas.py uses this table to call functions BY NAME and compares with the call by position."""
import json, os, sys, io, contextlib
sys.path.insert(0, os.environ.get("VERIF_REPO", "/repo"))
import casadi as ca
out = {}


def add(d, where):
    for k, f in d.items():
        if isinstance(f, ca.Function):
            out[f.name()] = {"in": [f.name_in(i) for i in range(f.n_in())], "out": [f.name_out(i) for i in range(f.n_out())], "from": where}


with contextlib.redirect_stdout(io.StringIO()):
    from cyecca.models import rdd2, rdd2_loglinear, bezier, mr_ref_traj, quadrotor
    from cyecca.estimate.attitude import algorithms
    for mod in (rdd2, rdd2_loglinear, bezier, mr_ref_traj):
        for n in dir(mod):
            if n.startswith("derive_"):
                try:
                    r = getattr(mod, n)()
                except Exception:
                    continue
                if isinstance(r, dict):
                    add(r, f"{mod.__name__}.{n}")
    m = quadrotor.derive_model()
    add({k: v for k, v in m.items() if isinstance(v, ca.Function)}, "cyecca.models.quadrotor.derive_model")
    for s, d in algorithms.eqs().items():
        for k, f in d.items():
            out[f"{s}:{f.name()}"] = {"in": [f.name_in(i) for i in range(f.n_in())], "out": [f.name_out(i) for i in range(f.n_out())], "from": f"algorithms.eqs()[{s}]"}
json.dump(out, open(os.path.join(os.path.dirname(__file__), "..", "harness", "iface_names.json"), "w"), indent=1, sort_keys=True)
print(len(out), "functions")
