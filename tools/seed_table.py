#!/usr/bin/env python3
"""regenerates the seeded-change table in DESIGN.md (between the SEEDED_TABLE markers) from /verif/seeded/*/meta.json"""
import glob, json, os, re
rows = []
for d in sorted(glob.glob("/verif/seeded/*")):
    if not os.path.isdir(d):
        continue
    m = json.load(open(os.path.join(d, "meta.json")))
    note = m.get("note", "")
    first = "missed first, detected after strengthening" if note.startswith(("initially MISSED", "missed at first")) else ("NOT detected" if not m.get("detected_by_checks") else "detected")
    what = (m.get("what_breaks") or "").replace("|", "/").replace("\n", " ")
    what = what[:150] + ("..." if len(what) > 150 else "")
    rows.append(f"| {os.path.basename(d)} | {', '.join(m.get('files_changed', []))[:60]} | {what} | {', '.join(m.get('detected_by_checks', []))} | {first} |")
table = "<!-- SEEDED_TABLE_BEGIN -->\n| seeded change | files | what breaks | detected by | status |\n|---|---|---|---|---|\n" + "\n".join(rows) + "\n<!-- SEEDED_TABLE_END -->"
p = "/verif/DESIGN.md"
s = open(p).read()
if "SEEDED_TABLE_PLACEHOLDER" in s:
    s = s.replace("SEEDED_TABLE_PLACEHOLDER", table)
else:
    s = re.sub(r"<!-- SEEDED_TABLE_BEGIN -->.*?<!-- SEEDED_TABLE_END -->", lambda _: table, s, flags=re.S)
open(p, "w").write(s)
print(len(rows), "rows")
