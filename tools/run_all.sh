#!/bin/bash
# runs every claimed check's quick (or $1) command, prints one status line per property
cd "$(dirname "$0")/.."
tier="${1:-quick}"
ids=$(python3 -c "import json;print(' '.join(c['property_id'] for c in json.load(open('MANIFEST.json'))['checks']))")
rc=0
for id in $ids; do
  s=$(date +%s)
  out=$(./check "$id" "$tier" 2>&1); r=$?
  e=$(( $(date +%s) - s ))
  echo "$id rc=$r ${e}s $(echo "$out" | grep -cE '^VIOLATION') violations $(echo "$out" | grep -cE '^KNOWN-FINDING') known | $(echo "$out" | tail -1)"
  [ $r -ne 0 ] && rc=1
done
exit $rc
