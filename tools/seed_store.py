#!/usr/bin/env python3
"""tools/seed_store.py <ID> <mutdir> <confirm-json-line> <detected_by csv> [note]
copies a confirmed seeded change into /verif/seeded/<ID>-<name>/ with an augmented meta.json"""
import json, os, shutil, sys
pid, d, conf, det = sys.argv[1], sys.argv[2].rstrip("/"), json.loads(sys.argv[3]), sys.argv[4]
note = sys.argv[5] if len(sys.argv) > 5 else ""
name = os.environ.get("SEED_NAME") or os.path.basename(d)
dst = f"/verif/seeded/{pid}-{name}"
os.makedirs(dst, exist_ok=True)
for f in ("patch.diff", "demo.py"):
    shutil.copy(os.path.join(d, f), os.path.join(dst, f))
meta = json.load(open(os.path.join(d, "meta.json")))
meta["property"] = pid
meta["confirmed_by_main"] = {"scratch_worktree": True, "clean_demo_rc": conf["clean_demo_rc"], "patch_applies": conf["applies"],
                             "test_suite_with_change": conf["tests"], "demo_rc_with_change": conf["mut_demo_rc"],
                             "commands": ["tools/seed_confirm.sh <dir>", "tools/seed_test.sh <dir>/patch.diff <ID>"]}
meta["detected_by_checks"] = [x for x in det.split(",") if x]
if note:
    meta["note"] = note
json.dump(meta, open(os.path.join(dst, "meta.json"), "w"), indent=1)
print("stored", dst)
