#!/bin/bash
# tools/seed_confirm.sh <mutdir>  : independent confirmation of a seeded change in a fresh scratch worktree:
#  demo passes on the clean tree, patch applies, existing test-suite still passes, demo fails with the patch.
set -u
d="$(realpath "$1")"
wt="$(mktemp -d /tmp/seedcf.XXXXXX)"; rmdir "$wt"
git -C /repo worktree add -q --detach "$wt" HEAD || exit 2
cd "$wt"
# the demo is run from a copy INSIDE the scratch tree (as its author ran it: <tree>/mutX/demo.py), so that demos which
# locate the tree relative to their own path exercise the scratch tree and not the author's
cp -r "$d" "$wt/_seed"
res() { echo "{\"dir\":\"$d\",\"clean_demo_rc\":$1,\"applies\":$2,\"tests\":\"$3\",\"mut_demo_rc\":$4}"; }
PYTHONPATH="$wt" timeout 600 /venv/bin/python "$wt/_seed/demo.py" >/dev/null 2>&1; c=$?
if ! git apply "$d/patch.diff" 2>/dev/null; then res $c false "n/a" -1; cd /; git -C /repo worktree remove --force "$wt"; exit 0; fi
t=$(PYTHONPATH="$wt" timeout 1500 /venv/bin/python -m pytest -q -p no:cacheprovider --timeout=900 tests 2>&1 | tail -1)
PYTHONPATH="$wt" timeout 600 /venv/bin/python "$wt/_seed/demo.py" >/dev/null 2>&1; m=$?
res $c true "$t" $m
cd /; git -C /repo worktree remove --force "$wt"
