#!/bin/bash
# tools/ben_cross.sh <benign-dir> [ids...] : a stored property-preserving change against EVERY claimed check (quick tier), not only its own
set -u
d="$(realpath "$1")"; shift
cd "$(dirname "$0")/.."
ids="${*:-$(python3 -c "import json;print(' '.join(c['property_id'] for c in json.load(open('MANIFEST.json'))['checks']))")}"
wt="$(mktemp -d /tmp/bencr.XXXXXX)"; rmdir "$wt"
git -C /repo worktree add -q --detach "$wt" HEAD || exit 2
if ! git -C "$wt" apply "$d/patch.diff" 2>/dev/null; then echo "CROSS $(basename $d) PATCH-DOES-NOT-APPLY"; git -C /repo worktree remove --force "$wt"; exit 0; fi
res=""
for id in $ids; do
  out=$(VERIF_REPO="$wt" VERIF_NO_EVIDENCE=1 ./check "$id" quick 2>&1); rc=$?
  res="$res $id:$rc"
  if [ $rc -ne 0 ]; then echo "$out" | grep -E "^VIOLATION|key=|MACHINERY" | head -6 > "$d/cross_$id.txt"; fi
done
git -C /repo worktree remove --force "$wt"
echo "CROSS $(basename $d)$res"
