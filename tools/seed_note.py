#!/usr/bin/env python3
"""tools/seed_note.py <seed-name> <detected,ids> <note>  -- record that a first-missed seeded change is now detected"""
import json, sys
p = f"/verif/seeded/{sys.argv[1]}/meta.json"
m = json.load(open(p))
m["detected_by_checks"] = [x for x in sys.argv[2].split(",") if x]
m["note"] = sys.argv[3]
json.dump(m, open(p, "w"), indent=1)
print("updated", p)
