#!/bin/bash
# growth specs (outside the listed properties, not in MANIFEST.json): ./check G01 / G02
cd "$(dirname "$0")/.."
tier="${1:-quick}"; rc=0
for id in G01 G02 G03; do
  out=$(./check "$id" "$tier" 2>&1); r=$?
  echo "$id rc=$r $(echo "$out" | grep -cE '^DEVIATION') deviations $(echo "$out" | grep -cE '^KNOWN-FINDING') known | $(echo "$out" | tail -1)"
  [ $r -ne 0 ] && rc=1
done
exit $rc
