#!/bin/bash
# tools/seed_auto.sh <ID> <mutdir> <storename> [extra check ids...]
# confirm in a fresh worktree, run ./check <ID> (and extra ids) against the patch, store if confirmed.
id="$1"; d="$2"; name="$3"; shift 3
cd "$(dirname "$0")/.."
conf=$(tools/seed_confirm.sh "$d" | tail -1)
echo "CONFIRM $conf"
ok=$(python3 -c "import json,sys; c=json.loads(sys.argv[1]); print(int(c['clean_demo_rc']==0 and c['applies'] and 'passed' in c['tests'] and c['mut_demo_rc']!=0 and c['tests'].split(' failed')[0].strip() in ('1','2') ))" "$conf")
det=""
for c in "$id" "$@"; do
  out=$(SEED_LINES=2 tools/seed_test.sh "$d/patch.diff" "$c" 2>&1 | grep -vE "^<class|python:|SPEC-DRIFT|KNOWN")
  echo "$out" | tail -2
  echo "$out" | grep -q "^DETECTED" && det="$det,$c"
done
det="${det#,}"
if [ "$ok" = "1" ]; then SEED_NAME="$name" tools/seed_store.py "$id" "$d" "$conf" "$det"; else echo "NOT-CONFIRMED $d"; fi
echo "SUMMARY $id $name detected_by=[$det]"
