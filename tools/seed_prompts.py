#!/usr/bin/env python3
"""Regenerates the prompts given to the seeded-change agents of a round (documentation of what they were told).

usage: tools/seed_prompts.py <round> <template_dir> <out_dir>
The template is the previous round's prompt for the same property (everything outside the DIVERSITY NOTE is kept: the
property text from properties.jsonl, the scratch tree, the rules); the DIVERSITY NOTE is rebuilt from the `what_breaks`
of every change already stored under /verif/seeded (first 110 characters only: the site, not how it is detected) plus a
list of KINDS of change used so far.  Nothing about /verif's checks goes into a prompt.
"""
import glob
import json
import os
import re
import sys

CLUSTER = {f"C{i:02d}": [f"C{j:02d}" for j in range(1, 9)] for i in range(1, 9)}

USED = (
    "sign / index slips in rarely taken branches; thresholds and bands widened or moved; a formula valid only in part of the "
    "domain (atan for atan2, sqrt(1-x^2) for cos, small-angle forms, principal-value round trips); dropped normalisation or "
    "shadow switch; shortcuts keyed on is_zero()/sparsity of the argument; results memoised or Functions cached on group "
    "objects / class-level dicts / module-level dicts (keyed by dimension, by printed parameters, by first argument's "
    "sparsity, by axis letters, by repr); a result object shared between calls; per-element memo slots; in-place mutation "
    "of a module-level object; two call sites that drift apart; name list of a ca.Function reordered (keyword vs "
    "positional); dictionary order of defaults; defaults lost when options are passed partially; file names / export keys "
    "mixed up; relative paths / cwd; regeneration into a used directory; rate limiters referenced to the wrong time; float "
    "== instead of <=; round() of a time step; a parameter silently ignored; integer dtype truncation; loop bound off by "
    "one; swapped same-shape arguments; a unit/scale factor at one site; transposes that matter only for non-symmetric "
    "input; clamp limits swapped or wrong; operator precedence slips; broadcasting slips; stale loop variables; shadowed "
    "module constants; early `continue`/indentation skipping an update; copy-paste leftovers between the x/y or start/end "
    "blocks; fmod/floor wrap with the wrong period; guards removed (0/0) or blends that evaluate the unused branch; dedup "
    "of 'equal' objects; init_params re-run. Also used in the last round: absolute tolerances where a relative one is "
    "needed (sparsify(M, 1e-6), isclose shortcuts, pivots > 1e-9, floats 'close to an integer'); list.index() on repeated "
    "objects; a group recognised by n_param; fabs()/sign() applied to the scalar part of a quaternion only; a conversion "
    "applied twice (double transpose, lossy round trip as 'canonicalisation'); try/except falling back to a wrong closed "
    "form; a cancellation-free rewrite that is not the same function; sum over the wrong axis; an accumulator hoisted one "
    "loop level; an error code treated as a 0/1 flag; a result of a pure function thrown away; the unclipped value used "
    "after clipping; row-major vs column-major; w*|w| for w^2; sign(0)=0; clamping a time argument; snapshot taken before "
    "the write; type hints rejecting ints; an assert rejecting a legal option combination; Functions rebuilt with other "
    "options before code generation.")

FRESH = (
    "a tuple/return order swapped between two same-shaped results; `>=` vs `>` exactly AT a documented closed bound; using "
    "the previous step's value instead of the current one (off-by-one in time) or updating two coupled states sequentially "
    "instead of simultaneously; saturating before instead of after adding a feed-forward term; a default value changed at "
    "one of two definition sites; a mutable default argument; iteration over a set / dict whose order differs between "
    "runs or depends on insertion history; float32 cast or integer division (// for /) that only bites for some "
    "magnitudes; a symmetric matrix filled from the wrong triangle or symmetrised with the wrong factor; NaN handling "
    "(fmax/fmin swallowing NaN, nan_to_num); comparison of the wrong component (x[1] for x[2]) in a guard; a "
    "degrees/radians slip at one rarely used entry point; an `abs()` dropped in a guard so that only negative inputs "
    "misbehave; an alias (B = A without copy) mutated later; a generator/iterator consumed twice; a late-binding closure in "
    "a loop (all lambdas see the last value); string formatting that loses precision (%g, round(x, 6)) on the way into "
    "generated code or parameters; a time stamp taken from the wrong message; an `is` comparison on numbers or strings; "
    "`or` used for a default so that a legitimate 0 / 0.0 / empty value is replaced; a chained comparison that does not "
    "mean what it seems (a < b == c); an in-place operator (+=, *=) on an array that is shared with the caller; wrong "
    "associativity in a product of non-commuting factors that only shows when both factors are non-trivial; "
    "an interpolation / blend weight evaluated at the wrong end; a cached property invalidated on one of two setters.")


USED8 = (
    " Also used in round 7: in-place operators on the caller's objects (x[0:3] = ..., q[0] *= s, groups += [other], expB = B "
    "then writing the diagonal, self.param *= right); late-binding closures in a loop; a generator consumed twice; glob patterns "
    "that match a sibling's files; a guard negated with the wrong strictness (> for not <); strict vs non-strict ties between "
    "branch selectors; saturating before instead of after adding a term; fmin/fmax caps and 'floors' on series coefficients or "
    "covariance factors; 'cancellation-free' rewrites with a new cancellation elsewhere (1 + cos); Poly.coeffs() vs all_coeffs(); "
    "a block shortcut of a Kalman update; tril(Q) for Q; previous stage reused in a Runge-Kutta step; stale snapshot of a state; "
    "status fields read outside the branch that binds them; early return before initialisation; Lt for Le; tuple targets in the wrong order; "
    "base case of a recursion (deriv(0)); Horner / power-basis evaluation of a Bernstein polynomial; re-entrancy guards that drop messages.")

FRESH8 = (
    "a quantity cached on first use that should follow a later parameter change (gains, dt, geometry captured at construction); "
    "a unit-norm or orthogonality assumption used where the input is only approximately normalised; an index computed from a "
    "float (int(t/dt), round) that is off by one for some magnitudes; a condition on a sum of squares that underflows or "
    "overflows; a comparison against a constant in the wrong units at one site; min/max over an axis of the wrong array; a sign "
    "taken from the wrong operand in an atan2 / copysign; symmetric limits assumed for asymmetric ones; a swap of two outputs "
    "that coincide in the tested configuration (roll/pitch symmetric vehicles, equal gains); a formula specialised to the "
    "default parameter values (diagonal inertia, equal arm lengths, g = 9.8, CM/CT ratio, dt = 0.005) that is wrong for other "
    "physically meaningful values; a wrong but plausible frame (body vs world) for a quantity that is zero or aligned in the "
    "tested cases; a time argument evaluated at the start instead of the end of a step; a correction applied with the prior's "
    "instead of the posterior's value; an error code returned but the state still overwritten (or the reverse); a loop over "
    "range(n - 1) dropping the last row/rotor/state; zero-based vs one-based derivative order; a matrix exponential / series "
    "truncated one term early for ONE of several table entries; fmod / atan2 wrap applied to a difference instead of the "
    "angle; option dictionaries merged in the wrong precedence (user value overridden by a default for ONE key); a file opened "
    "in append mode; messages delivered to subscribers registered AFTER the publish started; parameters declared twice with "
    "different defaults; a logger sampling one period late/early at a boundary tick.")


def sites(pid):
    ids = CLUSTER.get(pid, [pid])
    out = []
    for d in sorted(glob.glob("/verif/seeded/C*-mut*")):
        if os.path.basename(d).split("-")[0] in ids:
            try:
                m = json.load(open(d + "/meta.json"))
            except Exception:
                continue
            w = re.sub(r"\s+", " ", str(m.get("what_breaks", "")))[:110]
            if w:
                out.append(w)
    return out


def main():
    rnd, tdir, odir = sys.argv[1], sys.argv[2], sys.argv[3]
    os.makedirs(odir, exist_ok=True)
    for i in range(1, 21):
        pid = f"C{i:02d}"
        t = open(os.path.join(tdir, f"mutprompt6_{pid}.txt")).read()
        t = t.replace("mut6_", f"mut{rnd}_")
        a = t.index("DIVERSITY NOTE")
        b = t.index("FINAL REPORT")
        used, fresh = (USED + USED8, FRESH8) if rnd == "8" else (USED, FRESH)
        note = ("DIVERSITY NOTE: earlier rounds already used changes at these sites, so do NOT use them (or near variants "
                "of them) again: " + " || ".join(sites(pid)) + ". Kinds of change already used in earlier rounds (find a "
                "DIFFERENT kind, do not reuse these): " + used + " Kinds NOT yet used that you might consider: " + fresh +
                "\n\nKeep every message you write short (a few hundred words at most); never paste whole files or long "
                "outputs into a message.\n\n")
        open(os.path.join(odir, f"mutprompt{rnd}_{pid}.txt"), "w").write(t[:a] + note + t[b:])
    print("written", odir)


if __name__ == "__main__":
    main()
