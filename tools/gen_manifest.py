#!/usr/bin/env python3
"""Regenerates /verif/MANIFEST.json from the table below (single source of truth)."""
import json, os, sys
HERE = os.path.dirname(os.path.dirname(os.path.abspath(__file__)))

CHECKS = {
 "C13": dict(
   technique="TLA+ spec Alloc.tla (property-level oracle + implementation-shaped refinement) model-checked by TLC; every TLC state replayed into the real control_allocation (spec->code conformance)",
   category="model_checking",
   text="TLC exhaustively enumerates an integer demand lattice (thrust from below 0 to above 4 F_max, moments to far beyond saturation, several F_max and geometries), proves on every state that the implementation-shaped model refines the property-level oracle (bounds; exact moment + least thrust shift whenever the moment spread fits) and that the oracle realises the demanded moment; each state is then one exact test of the real CasADi function (two thrust coefficients), so boundary cells of measure zero (C1=0, C2=0) are hit exactly.",
   design_ref="6/C13",
   note="Trusted: the 30-line numpy embedding (integers -> doubles, all exact dyadics), CasADi numeric evaluation. Not decided: demands between lattice points, non-dyadic geometry constants.",
 ),
}

CHECKS["C01"] = dict(
   technique="TLA+ spec LieCalc.tla/LieGroups.tla (exact rational group elements, matrix semantics) model-checked by TLC; every TLC state (operation, operands, exact expected matrix) replayed into the public cyecca.lie singletons",
   category="model_checking",
   text="TLC enumerates exact lattices of elements of all 12 singleton groups and 4 direct products (signed integer quaternions incl. 180 deg and both signs / shadow MRPs, Pythagorean angles, rational translations), proves homomorphism, inverse, identity, neutrality and associativity of the textbook semidirect formulas against the matrix semantics on every state, and hands each state to the real code: the matrix of the code's product/inverse/identity/from_Matrix result must equal the exact matrix product of the operands' matrices (two-sided, 1e-9).",
   design_ref="6/C01",
   note="Trusted: harness/lie.py embedding (60 lines, textbook parameterisations), CasADi evaluation. Not decided: irrational rotations/translations between lattice points; MRP products near (not at) the 360-degree singularity.",
)

CHECKS["C07"] = dict(
   technique="TLA+ spec Convert.tla (conversion = identity on the signed integer quaternion + representative rule; Euler triples proved equal to Rz Ry Rx by TLC) model-checked by TLC; every state replayed into from_Quat/from_Mrp/from_Dcm/from_Euler/from_Matrix/shadow_if_necessary",
   category="model_checking",
   text="TLC enumerates all 12 ordered representation pairs, the 4 from-matrix entry points and the shadow switch over primitive integer quaternions of QLat(2) (quick) / QLat(3) (thorough) plus special cells: both signs, exactly 180 deg, near identity on both sides of -1, near 180 deg, exact gimbal poles, inside the 1e-3 band, just outside it, all four Shepperd branches (coverage-checked). The code's result must have the exact rational rotation matrix (1e-9; 2e-3 inside the documented band for Euler targets) and be a valid representative.",
   design_ref="6/C07",
   note="Trusted: harness/lie.py embedding. Not decided: irrational rotations between lattice points.",
)
CHECKS["C04"] = dict(
   technique="TLA+ spec Adjoint.tla (Ad by matrix conjugation, ad/bracket by commutators, textbook closed forms proved equal by TLC, Jacobi/antisymmetry/homomorphism invariants) model-checked by TLC; every state replayed into Ad(), ad(), bracket, algebra to_Matrix",
   category="model_checking",
   text="TLC computes Ad_X column-by-column as vee(Mat(X) E_k Mat(X)^-1) in exact rationals for all 12 singleton groups, ad_x and brackets as commutators for all 7 algebras and 3 direct sums, and proves on every state: closed-form block Ad = conjugation, Ad(XY)=Ad(X)Ad(Y), Ad(X^-1)Ad(X)=I, ad_x y=[x,y], antisymmetry, Jacobi. Each state is one two-sided test of the code (shape must be n_param x n_param, values within 1e-9).",
   design_ref="6/C04",
   note="Ad and bracket on direct products raise NotImplementedError (out of scope, counted). The clause Ad_exp(x)=expm(ad_x) is decided with the ExpLog vectors of C02 (op AdExp). Not decided: irrational elements.",
)

NOT_YET = {}

ALL = [f"C{i:02d}" for i in range(1, 21)]

def main():
    na_reasons = json.load(open(os.path.join(HERE, "tools", "not_applicable.json")))
    checks = []
    for pid in ALL:
        if pid not in CHECKS:
            continue
        c = CHECKS[pid]
        checks.append({
            "property_id": pid,
            "quick_cmd": f"./check {pid} quick",
            "thorough_cmd": f"./check {pid} thorough",
            "evidence_file": f"/verif/evidence/{pid}.json",
            "replay_cmd_template": f"./check {pid} quick --replay {{path}}",
            "engine": c.get("engine", "tlc+replay"),
            "level_claimed": {"category": c["category"], "text": c["text"], "design_ref": c["design_ref"]},
            "level_note": c["note"],
            "technique": c["technique"],
        })
    na = [{"property_id": p, "reason": na_reasons.get(p, "check not built yet (work in progress; see DESIGN.md section 11)")}
          for p in ALL if p not in CHECKS]
    man = {
        "version": 1,
        "setup_cmd": "./setup.sh",
        "hooks": {
            "guard": "CYECCA_VERIF",
            "enable": "environment variable CYECCA_VERIF=1 (set by ./check); python sources are imported from /repo's working tree, nothing is built",
            "baseline_off_cmd": "cd /repo && env -u CYECCA_VERIF /venv/bin/python -m pytest -ra -q -p no:cacheprovider --timeout=900 --continue-on-collection-errors",
            "source_commits": json.load(open(os.path.join(HERE, "tools", "hook_commits.json"))),
            "add_only": True,
        },
        "engines": [
            {"name": "tlc+replay", "path": "/verif/harness", "serves_properties": sorted(CHECKS),
             "kind_free_text": "TLA+ specifications in /verif/spec model-checked with TLC; TLC states/behaviours replayed into the python implementation (spec->code) and recorded executions validated by TLC trace specs (code->spec)"},
        ],
        "checks": checks,
        "not_applicable": na,
        "notes": "All checks: ./check <ID> <quick|thorough> [--replay file]. Known findings: /verif/known_findings.jsonl. Design: /verif/DESIGN.md.",
    }
    json.dump(man, open(os.path.join(HERE, "MANIFEST.json"), "w"), indent=1)
    import jsonschema
    jsonschema.validate(man, json.load(open("/root/.vp/MANIFEST.schema.json")))
    print("MANIFEST.json ok:", len(checks), "checks,", len(na), "not claimed")

if __name__ == "__main__":
    main()
