#!/usr/bin/env python3
"""Regenerates /verif/MANIFEST.json from the table below (single source of truth)."""
import json, os, sys
HERE = os.path.dirname(os.path.dirname(os.path.abspath(__file__)))

CHECKS = {
 "C13": dict(
   technique="TLA+ spec Alloc.tla (property-level oracle + implementation-shaped refinement) model-checked by TLC; every TLC state replayed into the real control_allocation (spec->code conformance)",
   category="model_checking",
   text="TLC exhaustively enumerates an integer demand lattice (thrust from below 0 to above 4 F_max, moments to far beyond saturation, several F_max and geometries), proves on every state that the implementation-shaped model refines the property-level oracle (bounds; exact moment + least thrust shift whenever the moment spread fits) and that the oracle realises the demanded moment; each state is then one exact test of the real CasADi function (two thrust coefficients), so boundary cells of measure zero (C1=0, C2=0) are hit exactly.",
   design_ref="6/C13",
   note="Trusted: the 30-line numpy embedding (integers -> doubles, all exact dyadics), CasADi numeric evaluation. Not decided: demands between lattice points, non-dyadic geometry constants.",
 ),
}

CHECKS["C01"] = dict(
   technique="TLA+ spec LieCalc.tla/LieGroups.tla (exact rational group elements, matrix semantics) model-checked by TLC; every TLC state (operation, operands, exact expected matrix) replayed into the public cyecca.lie singletons; call histories (spec LieHistory.tla: which maker every group/operation sees first, order of operations and groups, equal-value makers) executed in fresh interpreters by harness/history.py",
   category="model_checking",
   text="TLC enumerates exact lattices of elements of all 12 singleton groups and 4 direct products (signed integer quaternions incl. 180 deg and both signs / shadow MRPs, Pythagorean angles, rational translations), proves homomorphism, inverse, identity, neutrality and associativity of the textbook semidirect formulas against the matrix semantics on every state, and hands each state to the real code: the matrix of the code's product/inverse/identity/from_Matrix result must equal the exact matrix product of the operands' matrices (two-sided, 1e-9).",
   design_ref="6/C01",
   note="Trusted: harness/lie.py embedding (60 lines, textbook parameterisations), CasADi evaluation. Not decided: irrational rotations/translations between lattice points; MRP products near (not at) the 360-degree singularity.",
)

CHECKS["C07"] = dict(
   technique="TLA+ spec Convert.tla (conversion = identity on the signed integer quaternion + representative rule; Euler triples proved equal to Rz Ry Rx by TLC) model-checked by TLC; every state replayed into from_Quat/from_Mrp/from_Dcm/from_Euler/from_Matrix/shadow_if_necessary; call histories (spec LieHistory.tla: which maker every group/operation sees first, order of operations and groups, equal-value makers) executed in fresh interpreters by harness/history.py",
   category="model_checking",
   text="TLC enumerates all 12 ordered representation pairs, the 4 from-matrix entry points and the shadow switch over primitive integer quaternions of QLat(2) (quick) / QLat(3) (thorough) plus special cells: both signs, exactly 180 deg, near identity on both sides of -1, near 180 deg, exact gimbal poles, inside the 1e-3 band, just outside it, all four Shepperd branches (coverage-checked). The code's result must have the exact rational rotation matrix (1e-9; 2e-3 inside the documented band for Euler targets) and be a valid representative.",
   design_ref="6/C07",
   note="Trusted: harness/lie.py embedding. Not decided: irrational rotations between lattice points.",
)
CHECKS["C04"] = dict(
   technique="TLA+ spec Adjoint.tla (Ad by matrix conjugation, ad/bracket by commutators, textbook closed forms proved equal by TLC, Jacobi/antisymmetry/homomorphism invariants) model-checked by TLC; every state replayed into Ad(), ad(), bracket, algebra to_Matrix; call histories (spec LieHistory.tla: which maker every group/operation sees first, order of operations and groups, equal-value makers) executed in fresh interpreters by harness/history.py",
   category="model_checking",
   text="TLC computes Ad_X column-by-column as vee(Mat(X) E_k Mat(X)^-1) in exact rationals for all 12 singleton groups, ad_x and brackets as commutators for all 7 algebras and 3 direct sums, and proves on every state: closed-form block Ad = conjugation, Ad(XY)=Ad(X)Ad(Y), Ad(X^-1)Ad(X)=I, ad_x y=[x,y], antisymmetry, Jacobi. Each state is one two-sided test of the code (shape must be n_param x n_param, values within 1e-9).",
   design_ref="6/C04",
   note="Ad and bracket on direct products raise NotImplementedError (out of scope, counted). The clause Ad_exp(x)=expm(ad_x) is decided with the ExpLog vectors of C02 (op AdExp). Not decided: irrational elements.",
)

CHECKS["C02"] = dict(
   technique="TLA+ spec ExpLog.tla (half-angle algebra elements with exact quaternion exponentials, symbolic V-matrix V0+mu*V1 characterised by V[x]x=R-I and Vx=x, rational screw-form one-parameter subgroups) model-checked by TLC; every state replayed into LieAlgebraElement.exp for every algebra/group/representation; call histories (spec LieHistory.tla: which maker every group/operation sees first, order of operations and groups, equal-value makers) executed in fresh interpreters by harness/history.py",
   category="model_checking",
   text="TLC enumerates algebra elements whose exponential is exactly representable: rotation vectors theta*v/|v| with theta = 2 atan2(|v|, w) for integer (w, v) (exactly 0, 5e-4 rad, both neighbours of both Taylor switches, 90/120/180 degrees, beyond pi up to 2 pi - 0.5 and, through integer multiples s*x, beyond 2 pi), translations in general form (expectation V0 rho + mu V1 rho with the single transcendental scalar mu supplied by the harness) and in screw form (expectation fully rational for every integer multiple). TLC proves the dexp characterisation of V, V V^-1 = I and the one-parameter-subgroup laws E(s)E(t)=E(s+t), E(0)=Id, E(-s)=E(s)^-1 on every point; the code's exp, exp(-x), inverse, exp((s+t)x) and exp(sx)exp(tx) must reproduce the exact matrices within 1e-9 for so(3)->quat/mrp/dcm/euler, se(3), se_2(3), so(2), se(2), r^n and two direct sums.",
   design_ref="6/C02",
   note="Trusted: embedding doubles nu=theta/sigma, mu=1/(theta*sigma) (self-tested against mpmath.expm, 40 digits, at every run). Not decided: angles not of rational half-angle type (dense countable subset only); Euler targets at an exact gimbal pole are excluded.",
)
CHECKS["C03"] = dict(
   technique="TLA+ spec ExpLog.tla (principal representative, symbolic V^-1 = V0 + nu*W1 proven inverse of V by TLC) model-checked by TLC; every state replayed into LieGroupElement.log and the exp/log round trips in every representation and quaternion sign; call histories (spec LieHistory.tla: which maker every group/operation sees first, order of operations and groups, equal-value makers) executed in fresh interpreters by harness/history.py",
   category="model_checking",
   text="For every lattice rotation in all four SO(3) representations and both quaternion signs (hence shadow and non-shadow MRPs), with translations for SE(3)/SE_2(3)/SE(2), the code's log must equal the exact principal element (angle <= pi, translation V^-1 p in symbolic-nu form) within 1e-9, exp(log X) must have X's exact matrix, and log(exp x) = x for angles below pi. Representation independence follows because all representations are compared with the same exact vector.",
   design_ref="6/C03",
   note="Excluded exactly as the property states: angles within 0.01 rad of pi (nearest kept points pi-0.02..pi-0.18), shadow-set MRP inputs only for exp(log X)=X. Trusted: embedding doubles (mpmath self-test).",
)

CHECKS["C05"] = dict(
   technique="TLA+ spec Jacobians.tla (so(3) closed forms in symbolic mu/nu proven by TLC to satisfy the dexp characterisation; se(3)/se_2(3) Jacobians characterised by J ad = Ad_exp - I and J k = k on ker ad with exact rational right-hand sides from screw-form elements; group-level quaternion kinematics as polynomial identities) model-checked by TLC; code Jacobians inserted into the exact equations; call histories (spec LieHistory.tla: which maker every group/operation sees first, order of operations and groups, equal-value makers) executed in fresh interpreters by harness/history.py",
   category="model_checking",
   text="For so(3) the code's J_l, J_r and inverses are compared entry-wise with closed forms that TLC proves to be the unique solution of J[x]x = R - I, Jx = x (and J J^-1 = I, J_l = R J_r). For se(3) and se_2(3) no closed form is trusted: the code's matrices must satisfy J_l ad = Ad_exp - I, J_r ad = I - Ad_exp(-xi), J k = k on the kernel (consistency of the system proven by TLC), J J^-1 = I, J_l = Ad J_r, J_r(xi) = J_l(-xi), at angles from 5e-4 rad to 5.4 rad incl. both sides of the Taylor switch and beyond pi, and exactly zero (J = I +- ad/2). Group-level quaternion (body/world) and MRP Jacobians must give q' = 1/2 q(x)(0,w), R' = R[w]x resp. [w]x R (through casadi.jacobian of the code's own to_Matrix) and q.q' = 0, with the polynomial identities proven by TLC for all lattice quaternions. Rotation angles up to 2 pi - 0.02 and translational parts scaled by 4e-7 (the coupling blocks are linear in them) are included.",
   design_ref="6/C05",
   note="A matrix identity covers all perturbation directions by linearity, but only at lattice points x. Trusted: embedding doubles nu, mu (mpmath self-test).",
)
CHECKS["C06"] = dict(
   technique="TLA+ spec SmallAngle.tla (half-angle lattice with both integer neighbours of every Taylor/closed-form switch on six axes, dyadic second-order enclosures down to denormals, exact zero, generators at the identity) model-checked by TLC; states replayed into exp/log/Jacobians and their casadi.jacobian; call histories (spec LieHistory.tla: which maker every group/operation sees first, order of operations and groups, equal-value makers) executed in fresh interpreters by harness/history.py",
   category="model_checking",
   text="TLC generates, for six axes, the two integer half-angle neighbours of every switch point (theta=1e-3, theta/2=1e-3, theta^2=1e-3, theta^2/4=1e-3, |mrp|^2=1e-3) and a logarithmic ladder 1 rad .. 2e-4 rad with exact closed-form expectations (same records as C02/C03/C05), dyadic vectors 2^-12 .. 2^-1074 with the sound enclosure |f - f2| <= |x|^3, and exactly zero. The code must be within 1e-9 on both sides of each switch (so no jump > 2e-9), inside every enclosure, finite at zero, and its AD derivatives must be finite at/around zero with D exp(0) = generators, D(log o exp)(0) = I, J(0) = I, d/dx to_Matrix(exp x) = [J_l e_i]x R.",
   design_ref="6/C06",
   note="Not a continuum sweep: about 105 (magnitude, axis) lattice points + 40 dyadic vectors; raw SERIES coefficients are compared with mpmath only as SPEC-DRIFT information.",
)

CHECKS["C08"] = dict(
   technique="TLA+ spec Strapdown.tla (INS state as polynomial vectors in the symbolic scalar mu; closed-form flow S1, S2 proven by TLC to satisfy the ODE characterisation; semigroup law Tick;Tick = Tick2 proven as a polynomial identity; multi-step behaviours) model-checked by TLC; every step of every behaviour replayed into strapdown_ins_propagate",
   category="model_checking",
   text="TLC explores behaviours of up to 3 consecutive propagation steps (same angular rate, changing specific force and gravity) from 4 initial states and 21 rotation-per-step elements (zero, 1e-3 rad, both sides of the small-angle switch, 90/120/180 degrees, beyond pi), proving on the spec that (S1,S2) solve S2[phi]x = S1 - I, S1[phi]x = R - I and that two unit steps equal one double step. For every visited step the real CasADi function must return the exact post-state (position, velocity as polynomials in mu evaluated by the harness, attitude as exact rotation, unit norm) for dt = T, under time rescaling dt = T/100, composed 0.3T + 0.7T on the code itself, and dt = 0 must be the identity. Long schedules (800 steps with the output fed back, piecewise-constant inputs, four step sizes) are compared with the exact flow of every segment and the quaternion norm is checked at every step.",
   design_ref="6/C08",
   note="Steps with different non-parallel angular rates are composed code-vs-code only. Trusted: embedding double mu (mpmath self-test).",
)
CHECKS["C10"] = dict(
   technique="TLA+ spec FilterNum.tla (exact rational RK4 oracles, LDL/UDU recursions, unique lower-triangular sqrt-covariance derivative, sqrt measurement update with Joseph form and PSD via exact pivots) model-checked by TLC; every state replayed into cyecca.util functions",
   category="model_checking",
   text="TLC proves on every state (n <= 3, m <= 2, integer entries) the laws that pin each expectation: LDL^T = P, UDU^T = P with unit-triangular factors and positive pivots; W' lower triangular with W'W^T + WW'^T = FP + PF^T + Q; S = HPH^T + RsRs^T symmetric, KS = PH^T, P - P+ = KSK^T, Joseph form, P+ PSD, trace(P+) <= trace(P); RK4 exact on cubics in time, stability polynomial on y' = lambda y and a 2x2 linear system. Each state is replayed into rk4, sqrt_covariance_predict, sqrt_correct, ldl/udu and compared entry-wise where unique (1e-9) and through the defining identities otherwise; a harness-generated identity-residual family with exact integer right-hand sides extends this to n = 4..6 and the estimator's sparse shapes. Scale disparity (measurement 1e-5 .. 1e-9 of the prior) is checked in exact rational arithmetic relative to the size of each result.",
   design_ref="6/C10",
   note="n > 3 only through identity residuals; RK4 exactness decided on fields where every order-4 four-stage method is exact plus an order test on one nonlinear field. Not decided: values between lattice points.",
)

CHECKS["C11"] = dict(
   technique="TLA+ spec EstimatorStep.tla (step contracts; measurements generated in the spec from the true attitude and proven consistent by TLC; exact post-attitude Q(x)h for predict) model-checked by TLC and replayed into initialize/predict/correct_accel/correct_mag; the same contracts evaluated by TLC trace validation (AttitudeLoopTrace.tla) on every estimator step of recorded closed-loop runs",
   category="model_checking",
   text="TLC enumerates attitudes (integer quaternions incl. 180 degrees), declinations/inclinations on Pythagorean angles, biases, five covariance factors, step sizes 1-20 ms, rotation-per-step elements up to 0.4 rad, accelerometer magnitudes on both sides of and exactly on the rejection gate plus grossly wrong ones, tilted and yawed measurement directions. Contracts checked on the real CasADi functions: initialize returns the attitude that produced the (spec-generated, exact) measurements or a non-zero code, never NaN; predict keeps |mrp| <= 1, W lower triangular/finite, bias constant and the attitude within 1e-9 + 0.01 theta^5 of the exact Q(x)h; a rejected correction returns x and W bit-for-bit; an accepted one is finite with P - P+ PSD; gross accelerometer magnitudes are rejected. Vacuity guard: every outcome (accept/reject per function) must occur. The recorded closed-loop runs add thousands of real steps validated by the trace spec.",
   design_ref="6/C11",
   note="Fourth-order accuracy is an error bound at lattice steps, not an asymptotic order; P+ <= P decided numerically. Gate positions are implementation detail (SPEC-DRIFT only).",
)
CHECKS["C12"] = dict(
   technique="TLA+ specs AttitudeLoop.tla (configuration lattice with the 'box' made precise, enumerated by TLC) and AttitudeLoopTrace.tla (phase envelope, measurement model, step contracts and non-vacuity as a monitor evaluated by TLC on every line of NDJSON traces recorded from the real launch_sim) - trace validation, code -> spec",
   category="model_checking",
   text="Each chosen configuration of the TLC lattice (true attitude, gyro bias, initialise-or-zero start, declination/inclination, five rate settings incl. magnetometer periods that are not a multiple of the IMU period, zero-state starts with heading errors up to 113 degrees; sample stratified by (cell, init) and by rate setting, seeded by VERIF_SEED: 16 quick / 200 thorough) is one real 20 s launch_sim run with recording proxies around the estimator equations. TLC consumes the whole history (about 8-14k lines per run): no NaN/exception, accelerometer and magnetometer magnitudes and directions equal to the truth-rotated references to 1e-6, attitude error <= 0.03 rad from 5 s on, every bias component error <= max(0.01, initial/4) from 15 s on, initialisation by the second IMU message, at least one accepted accel and mag correction per second (non-vacuity), plus the C11 step contracts at every step. A self-test corrupts recorded fields / drops lines / truncates a trace and requires rejection.",
   design_ref="6/C12",
   note="Monitoring, not prediction: nothing is claimed about configurations that were not executed. Envelope constants are read off the property text, not tuned.",
)
CHECKS["C16"] = dict(
   technique="TLA+ spec Quadrotor.tla (Newton-Euler rotor-sum dynamics in exact rational arithmetic, sqrt(2) and rotor-speed unit carried symbolically; ten physical laws as TLC invariants) model-checked by TLC; every state replayed into quadrotor.derive_model() f, g_accel, g_gyro over default and non-default parameter sets",
   category="model_checking",
   text="TLC proves on every enumerated state (rational unit quaternions, integer/dyadic velocities, rates, rotor speeds, commands; default + 3 (quick) / 5 (thorough) non-default parameter sets incl. asymmetric frames and tau_up != tau_down): q.q' = 0, hover equilibrium, free-fall accelerometer, world-frame Newton, Euler + power identity, lever direction, symmetric-frame zero moment, yaw/translation equivariance, motor lag law. Each state is compared entry-wise (1e-9) with the real model and the property clauses are re-evaluated directly on the code's outputs (incl. equivariance code-vs-code and both sides of the tau switch).",
   design_ref="6/C16",
   note="Rational lattice only; drag/aero terms, ground contact (finiteness only), negative rotor speeds not covered. Built by a sub-task; 13 code mutations detected.",
)
CHECKS["C18"] = dict(
   technique="TLA+ spec Bezier.tla (Bernstein = De Casteljau = monomial, derivative control points = power-rule derivative for every order, Hermite control points as unique solution of all boundary conditions; exact rationals) model-checked by TLC; every state replayed into Bezier.eval/deriv, bezier3/7_solve, bezier3/7_traj, bezier_multirotor",
   category="model_checking",
   text="TLC checks in exact rational arithmetic, for degrees 0..7, dimensions 1..3, every derivative order m <= n, durations {1,2,5/2} and times inside and outside [0,T], that the four characterisations of the m-th derivative agree, end-point interpolation, and that the closed-form cubic/septic Hermite control points meet all 4/8 boundary conditions (boundary-functional matrix block-triangular, solution unique). Each state is replayed two-sided at 1e-9 into the real code; solver output is judged by the TLC-proved boundary functionals and independently by the code's own trajectory at 0 and T; mutual consistency of multirotor outputs by AD in t.",
   design_ref="6/C18",
   note="Lattice: integer control points/boundary values in -3..3. Degrees > 7, numeric (non-symbolic) T not covered. Built by a sub-task; 9 code mutations detected.",
)

CHECKS["C14"] = dict(
   technique="TLA+ spec Setpoints.tla (exact integer geometry of the thrust-vector frame, two independent derivations of the roll/pitch rates of the thrust axis along polynomial trajectories, Euler-triple law) model-checked by TLC; every state replayed into position_control, se23_position_control, f_ref, mr_ref_traj, input_auto_level, eulerB321_to_quat",
   category="model_checking",
   text="TLC proves on every state orthogonality, right-handedness, z_B parallel to T, y_B perpendicular to the heading vector, nx = ny nz, x_B on the heading side, exact force decomposition (unsaturated / saturated cells), and that the projected-derivative and angular-velocity derivations of p, q agree. Every state is replayed two-sided (1e-9) with the zero, tiny, parallel, saturated, horizontal-thrust and pitch-90 cells forced (coverage enforced as machinery failure): unit quaternion / orthonormal det +1 on every point, alignment, perpendicularity, thrust magnitude, p and q, Euler's equation on the returned rates and moment, agreement of the two flatness variants. Only p and q are asserted (yaw rate and angular acceleration are SPEC-DRIFT information).",
   design_ref="6/C14",
   note="Known finding (not repaired, see known_findings.jsonl): at exactly horizontal thrust both flatness references return r = inf and NaN moment. Saturated and SE_2(3)-rotation forces are evaluated in the harness from the saturation formula. Built by a sub-task; 10 code mutations detected.",
)

CHECKS["C09"] = dict(
   technique="TLA+ spec Codegen.tla (configuration model: equation set x generator option assignment, pairwise-covering/exhaustive option lattices proven covering by TLC, artefact inventory contract, per-function input-pattern designs) model-checked by TLC; every state drives the repository's own generate_code, the emitted C is parsed, compiled with gcc and compared with the symbolic CasADi function (differential)",
   category="translation_validation",
   text="The clauses quantified over configurations are decided with the spec: TLC enumerates every (equation set, option assignment) - all 2^n assignments in thorough, a TLC-proven pairwise-covering array plus all single toggles and the default/implicit-default rows in quick - with the expected artefact inventory; the real generator must succeed on every row and emit exactly the shipped functions once each, with the symbolic function's arity, argument names and sparsity; 'bundle' states call the generic entry point once with several shipped sets (both relative orders of every pair) and require file <key>.c to hold exactly <key>'s functions (invariant BundleOK). The value clause is a differential test driven by TLC-enumerated input designs (branch-selecting patterns incl. the Alloc tie/saturation cells): 35 compiled C functions vs the symbolic functions, <= 4 ulp and identical NaN pattern, with measured branch coverage (>= 75% of comparison nodes driven both ways). Call histories of every generator: default / every toggle / default in one process, and (fresh interpreter each) a first call with one option toggled followed by a default call, compared with a process that made only the default call; the shipped entry points run into one directory in every order.",
   design_ref="6/C09, 12",
   note="The spec is a configuration model, not a semantic one: equality of C and symbolic code for ALL inputs and structural matching of the C text are not decided (differential on the enumerated inputs only). Export lists and option keys are extracted from the repository at run time. Built by a sub-task.",
   engine="tlc+codegen-differential",
)
CHECKS["C17"] = dict(
   technique="TLA+ specs Cascade.tla (launch lattice enumerated by TLC; phase envelope, motor limits, integrator bounds as invariants; temporal reading checked on an abstract model) and CascadeTrace.tla (every control period of every recorded closed-loop history bound to the spec variables and checked against every invariant) - trace validation of the real closed loop",
   category="model_checking",
   text="TLC enumerates launch conditions (offsets {0,+-1,+-3}^3 m, attitudes from integer quaternions up to 60 degrees, unit velocities and body rates, both cascades). The real closed loop - quadrotor f under RK4 at 1 kHz plus the shipped CasADi controllers and allocator, wired and gained as in scripts/rdd2_sim.py (gains and call wiring extracted from its source by ast at run time; a changed wiring is a machinery failure, a changed gain is picked up) - runs 30 s per launch; TLC validates all 3001 control periods of every history: no NaN, motors within [0, sqrt(F_max/C_T)], integrators bounded, tilt/heading/rate settled from 10 s, position error <= 50 mm from 25 s to the end, each clause a named invariant. 16 histories quick, 660 thorough (1.98 M events), with a corruption self-test (10 variants must be rejected).",
   design_ref="6/C17",
   note="Monitoring of a finite lattice, not prediction; heading commands != 0 are outside the property's stated domain and are reported as SPEC-DRIFT only (the loglinear outer loop diverges there - see DESIGN.md 13.4). RK4 instead of the script's cvodes. Built by a sub-task.",
)

CHECKS["C15"] = dict(
   technique="TLA+ spec Controllers.tla (controller recursions as a state machine over the memory the caller feeds back; bounds as state invariants and as the inductive action property [][Bound => Bound']; exact integer-quaternion attitude error law) model-checked by TLC; every reachable transition replayed into the real CasADi functions and -simulate behaviours replayed with the code's own outputs fed back",
   category="model_checking",
   text="TLC explores the rate-integrator, height-integrator/feedback-saturation, velocity-input (yaw wrap with the +-pi tie nondeterministic, 2 m leash on Pythagorean errors, reset, vehicle motion) and stick-map machines to depth 48 (140 k distinct states quick, 1.3 M thorough) proving the property's bounds as invariants of the recursion and [][Bound => Bound'], plus the laws pinning each clamp/projection. Every step state is one real call of attitude_rate_control / position_control / input_velocity / input_acro / input_auto_level; 640-2000 simulated behaviours are replayed with the code's own memory fed back as scripts/rdd2_sim.py does; long random recursions check the bounds only. The attitude error law (attitude_control, so3_attitude_control, se23_error, se23_attitude_control) is checked on every signed pair of a rotation lattice against the exact oracle: zero iff same rotation (all four sign combinations incl. q_r = -q), command = principal rotation vector scaled by the gains, X Exp(cmd) = X_r.",
   design_ref="6/C15",
   note="Exact values the property does not promise (integrator value, congruent yaw, leashed point) are SPEC-DRIFT only. Attitude errors within 0.01 rad of 180 degrees excluded. Built by a sub-task; 7 code mutations detected; reproduces the (since fixed) SO3Quat.log sign defect on the pre-fix tree.",
)

CHECKS["C20"] = dict(
   technique="TLA+ specs UrosBus.tla (registries, lock, synchronous nested fan-out as a delivery stack, parameter store and caches, logger rows, event queue with nondeterministic ties) and EstimatorNode.tla (scheduling guards) model-checked exhaustively by TLC for small wirings; bound to the code in both directions: -simulate behaviours replayed call by call into real Core/Publisher/Subscriber/Param/Logger/AttitudeEstimator objects, and recorded real executions validated by TLC trace specs (UrosBusTrace, EstimatorNodeTrace)",
   category="model_checking",
   text="TLC proves exactly-once, no-stranger, wrong-type rejection, parameter visibility after the broadcast, logger rows (one per period, non-decreasing time, content = latest delivered) and the lock for all wirings within the bounds (345 k - 2.8 M states per configuration); publication order holds for acyclic relay graphs and, unrestricted, fails only on histories re-entrant on the same topic (InOrderUnlessReentrant proven exhaustively; the counterexample is classified, reproduced on the real classes and listed as a known finding). The estimator guards (no predict with dt <= 0, correction spacing >= dt_min - 1 ms) are model-checked on a 0.5 ms lattice. Conformance: 192 (quick) / 3520 (thorough) simulated behaviours executed on real objects with state compared after every action; 60 / 1500 randomised real executions (dyadic periods, ties, bursts, in-run set_param incl. logger/dt) plus a real Simulator+AttitudeEstimator+Logger graph validated event by event; estimator decision traces under bursts, duplicates and backward timestamps. Self-test: corrupted/truncated traces and six in-memory mutants must be flagged.",
   design_ref="6/C20, 8",
   note="Known finding: re-entrant same-topic publication reorders delivery (not repaired). Hooks (guarded, add-only, commit in MANIFEST.hooks) are used only to record launch_sim itself; everything else observes through the public API. Thorough additionally checks liveness under weak fairness without state constraint or VIEW (UrosBusLive.tla: every publish returns, every owed message arrives, simulated time is not Zeno, logger rows keep coming; 713 k states) - a design-level statement with no code binding of its own. Not covered: larger wirings beyond the random sample, set-up from inside callbacks, callbacks that raise. Built by a sub-task.",
)

CHECKS["C19"] = dict(
   technique="TLA+ spec Expr.tla (expression grammar, exact rational evaluator pinned by eleven operator laws: fmod, IEEE remainder, min/max, comparisons, powers, roots, selection) model-checked by TLC over all trees up to depth 2 (+ sampled depth 3); every state replayed through sympy_to_casadi and casadi_to_sympy in both directions",
   category="model_checking",
   text="TLC enumerates every expression tree of the bounded grammar (27 k states quick, 658 k thorough) with small rational environments, evaluates it exactly and proves on each state the laws that characterise the operators independently of the evaluator's formulas. Each tree is converted by the real converters in both directions, with literal constants and with constants lifted to symbols, evaluated and compared two-sided at 1e-9 with the exact value (opaque transcendental nodes: with the source library's own value). User function maps with 1-3 entries in both dict orders, shared symbol tables (same name -> identical SX), the cse path and six matrix shapes are covered; constructs outside the grammar must raise. Vacuity guard per construct, direction and sign cell.",
   design_ref="6/C19",
   note="Lattice only (depth <= 2-3, fixed constants and evaluation points); ill-conditioned jump points between non-dyadic operands are skipped and counted. Built by a sub-task; six evaluator mutations caught by the TLC laws.",
)

NOT_YET = {}

ALL = [f"C{i:02d}" for i in range(1, 21)]

def main():
    na_reasons = json.load(open(os.path.join(HERE, "tools", "not_applicable.json")))
    checks = []
    for pid in ALL:
        if pid not in CHECKS:
            continue
        c = CHECKS[pid]
        checks.append({
            "property_id": pid,
            "quick_cmd": f"./check {pid} quick",
            "thorough_cmd": f"./check {pid} thorough",
            "evidence_file": f"/verif/evidence/{pid}.json",
            "replay_cmd_template": f"./check {pid} quick --replay {{path}}",
            "engine": c.get("engine", "tlc+replay"),
            "level_claimed": {"category": c["category"], "text": c["text"], "design_ref": c["design_ref"]},
            "level_note": c["note"],
            "technique": c["technique"],
        })
    na = [{"property_id": p, "reason": na_reasons.get(p, "check not built yet (work in progress; see DESIGN.md section 11)")}
          for p in ALL if p not in CHECKS]
    man = {
        "version": 1,
        "setup_cmd": "./setup.sh",
        "hooks": {
            "guard": "CYECCA_VERIF",
            "enable": "environment variable CYECCA_VERIF=1 (set by ./check); python sources are imported from /repo's working tree, nothing is built",
            "baseline_off_cmd": "cd /repo && env -u CYECCA_VERIF /venv/bin/python -m pytest -ra -q -p no:cacheprovider --timeout=900 --continue-on-collection-errors",
            "source_commits": json.load(open(os.path.join(HERE, "tools", "hook_commits.json"))),
            "add_only": True,
        },
        "engines": [
            {"name": "tlc+replay", "path": "/verif/harness", "serves_properties": sorted(CHECKS),
             "kind_free_text": "TLA+ specifications in /verif/spec model-checked with TLC; TLC states/behaviours replayed into the python implementation (spec->code) and recorded executions validated by TLC trace specs (code->spec)"},
        ],
        "checks": checks,
        "not_applicable": na,
        "notes": "All checks: ./check <ID> <quick|thorough> [--replay file]. Known findings: /verif/known_findings.jsonl. Design: /verif/DESIGN.md.",
    }
    json.dump(man, open(os.path.join(HERE, "MANIFEST.json"), "w"), indent=1)
    import jsonschema
    jsonschema.validate(man, json.load(open("/root/.vp/MANIFEST.schema.json")))
    print("MANIFEST.json ok:", len(checks), "checks,", len(na), "not claimed")

if __name__ == "__main__":
    main()
