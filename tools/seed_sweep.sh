#!/bin/bash
# false-alarm hunt: every claimed check, quick tier, on the unchanged tree, for several VERIF_SEED values.
# usage: tools/seed_sweep.sh "<seeds>" [ids...]     evidence is diverted (VERIF_NO_EVIDENCE=1)
cd "$(dirname "$0")/.."
seeds="${1:-3 4 5}"; shift
ids="$*"; [ -z "$ids" ] && ids=$(python3 -c "import json;print(' '.join(c['property_id'] for c in json.load(open('MANIFEST.json'))['checks']))")
bad=0
for s in $seeds; do for id in $ids; do
  out=$(VERIF_SEED=$s VERIF_NO_EVIDENCE=1 ./check "$id" "${TIER:-quick}" 2>&1); r=$?
  echo "seed=$s $id rc=$r $(echo "$out" | grep -cE '^VIOLATION') viol | $(echo "$out" | tail -1)"
  if [ $r -ne 0 ]; then bad=1; echo "$out" | grep -E "VIOLATION|key=|MACHINERY" | head -5; fi
done; done
exit $bad
