#!/bin/bash
# tools/ben_auto.sh <ID> <bendir> <storename> [extra check ids...]
# FALSE-ALARM hunt: a property-PRESERVING change (patch.diff + holds.py + meta.json written by a sub-agent that saw only the
# property text).  Confirms it in a fresh scratch worktree (holds.py passes clean and changed, the unedited test-suite still
# passes), runs ./check <ID> (and extra ids) against the changed tree and stores everything under /verif/benign/<ID>-<name>/.
# A check that exits non-zero here is either wrong (fix the check) or the change is not benign after all (say why).
set -u
id="$1"; d="$(realpath "$2")"; name="$3"; shift 3
cd "$(dirname "$0")/.."
wt="$(mktemp -d /tmp/benwt.XXXXXX)"; rmdir "$wt"
git -C /repo worktree add -q --detach "$wt" HEAD || exit 2
cp -r "$d" "$wt/_ben"
( cd "$wt" && PYTHONPATH="$wt" timeout 900 /venv/bin/python "$wt/_ben/holds.py" >/dev/null 2>&1 ); c=$?
if ! git -C "$wt" apply "$d/patch.diff" 2>/dev/null; then echo "BEN $id $name PATCH-DOES-NOT-APPLY"; git -C /repo worktree remove --force "$wt"; exit 0; fi
if [ "${BEN_SKIP_TESTS:-0}" = "1" ]; then t="not re-run (agent reported: pass)"; else
t=$(cd "$wt" && PYTHONPATH="$wt" timeout 1500 /venv/bin/python -m pytest -q -p no:cacheprovider --timeout=900 tests 2>&1 | tail -1); fi
( cd "$wt" && PYTHONPATH="$wt" timeout 900 /venv/bin/python "$wt/_ben/holds.py" >/dev/null 2>&1 ); m=$?
verd=""
mkdir -p "benign/$id-$name"
for cid in "$id" "$@"; do
  out=$(VERIF_REPO="$wt" VERIF_NO_EVIDENCE=1 ./check "$cid" quick 2>&1); rc=$?
  verd="$verd $cid:rc=$rc"
  echo "$out" | grep -E "^VIOLATION|key=|MACHINERY|^\[" | head -12 > "benign/$id-$name/check_$cid.txt"
done
git -C /repo worktree remove --force "$wt"
cp "$d/patch.diff" "$d/holds.py" "$d/meta.json" "benign/$id-$name/" 2>/dev/null
python3 - "$id" "$name" "$c" "$t" "$m" "$verd" <<'P'
import json, sys
id_, name, c, t, m, verd = sys.argv[1:7]
p = f"/verif/benign/{id_}-{name}/meta.json"
try:
    meta = json.load(open(p))
except Exception:
    meta = {}
meta["confirmed_by_main"] = {"holds_clean_rc": int(c), "tests_with_change": t, "holds_changed_rc": int(m)}
meta["check_verdicts"] = verd.split()
json.dump(meta, open(p, "w"), indent=1)
P
echo "BEN $id $name holds_clean=$c holds_changed=$m tests='$t' checks:$verd"
