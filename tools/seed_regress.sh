#!/bin/bash
# tools/seed_regress.sh [parallel]  -- every stored seeded change against the check that is recorded as detecting it
cd "$(dirname "$0")/.."
par="${1:-3}"
python3 - <<'PY' > /tmp/seed_regress.list
import json,glob
for p in sorted(glob.glob("seeded/*/meta.json")):
    m=json.load(open(p)); d=m.get("detected_by_checks") or []
    if d: print(p.split("/")[1], d[0])
PY
one() { r=$(SEED_LINES=1 tools/seed_test.sh seeded/$1/patch.diff $2 2>&1 | tail -1 | cut -d' ' -f1); echo "$1 $2 $r"; }
export -f one
cat /tmp/seed_regress.list | xargs -P "$par" -L 1 bash -c 'one $0 $1'
