-------------------------------- MODULE Alloc --------------------------------
(* C13 -- control allocation of the quadrotor mixer.

   Units.  The code computes motor forces F = A*(T, M1, M2, M3) with the Hadamard-sign
   mixer  F_i = T/4 -+ M1/(4l) -+ M2/(4l) -+ M3/(4Cm).  The spec works in "motor force
   units": t = T/4, a = M1/(4l), b = M2/(4l), c = M3/(4Cm) are INTEGERS, so every
   quantity below is an exact integer (or an explicit fraction <<num, den>>).
   geometry: l = ln/16, Cm = cn/16 with 2 cn | ln Fx (cn | ln, or Cm > l with ln Fx a multiple of 2 cn), Fx even  ==>  the yaw-moment clamp
   |M3| <= 2 l Fx  reads |c| <= ln*Fx/(2 cn)  (an integer).

   Alloc  = property-level oracle (what C13 states, nothing more).
   Impl   = implementation-shaped transcription of derive_control_allocation (as repaired
            by the fix: commit), checked by TLC to refine Alloc on the whole lattice.
   The state variable tv is the engine-A test vector replayed into the real code.       *)
EXTENDS IntLin, TLC

CONSTANTS FMs,      \* set of F_max values (even integers)
          Geos,     \* set of <<ln, cn>> : l = ln/16, Cm = cn/16
          K,        \* moment demand range  -K..K  (units of motor force)
          TPad      \* thrust demand range  -TPad .. Fx + TPad
VARIABLE tv

MixSigns == << <<-1, -1, -1>>, <<1, 1, -1>>, <<1, -1, 1>>, <<-1, 1, 1>> >>
FMoment(m) == [i \in 1..4 |-> Dot(MixSigns[i], m)]          \* motor force for the moment only

MSat(Fx, geo, m) ==     \* range limit of the demand, exactly as the property says "range-limited"
    LET lim12 == Fx \div 2                               \* |M12| <= l*4FM/2  <=> |a| <= Fx/2
        lim3  == (geo[1] * Fx) \div (2 * geo[2])         \* |M3|  <= l*4FM/2  <=> |c| <= ln Fx/(2 cn)
    IN << Clamp(m[1], -lim12, lim12), Clamp(m[2], -lim12, lim12), Clamp(m[3], -lim3, lim3) >>
TSat(Fx, t) == Clamp(t, 0, Fx)

(* ---------------- property-level oracle ---------------- *)
Spread(f) == MaxSeq(f) - MinSeq(f)
Oracle(Fx, geo, t, m) ==
    LET ms  == MSat(Fx, geo, m)
        fm  == FMoment(ms)
        ts  == TSat(Fx, t)
    IN IF Spread(fm) <= Fx
       THEN LET cc == Clamp(ts, -MinSeq(fm), Fx - MaxSeq(fm))       \* least shift of the collective
            IN [kind |-> "exact", F |-> [i \in 1..4 |-> fm[i] + cc], shift |-> cc - ts,
                msat |-> ms, fm |-> fm, ts |-> ts]
       ELSE [kind |-> "bounds", F |-> <<0, 0, 0, 0>>, shift |-> 0, msat |-> ms, fm |-> fm, ts |-> ts]

(* realised thrust and moment from motor forces (inverse mixer, times 4) *)
Realised(F) == [T4 |-> SumSeq(F),
                m4 |-> << -F[1] + F[2] + F[3] - F[4], -F[1] + F[2] - F[3] + F[4], -F[1] - F[2] + F[3] + F[4] >>]

(* ---------------- implementation-shaped model (fractions <<num, den>>, den > 0) ------- *)
Impl(Fx, geo, t, m) ==
    LET ms   == MSat(Fx, geo, m)
        fm   == FMoment(ms)
        ts   == TSat(Fx, t)
        fsum == [i \in 1..4 |-> fm[i] + ts]
        C1   == Fx - MaxSeq(fsum)
        C2   == MinSeq(fsum)
        \* thrust part, times 2 (F_max/2 appears)
        th2  == IF C1 >= 0 THEN (IF C2 >= 0 THEN 2 * ts ELSE 2 * (ts - C2))
                ELSE (IF C2 >= 0 THEN 2 * (ts + C1) ELSE Fx)
        big  == MaxSeq([i \in 1..4 |-> Abs(fm[i])])
        resc == C1 < 0 /\ C2 < 0 /\ big > 0
        \* F_i = th2/2 + (resc ? Fx*fm_i/(2 big) : fm_i)  as fraction over den
        den  == IF resc THEN 2 * big ELSE 2
        num  == [i \in 1..4 |-> IF resc THEN th2 * big + Fx * fm[i] ELSE th2 + 2 * fm[i]]
    IN [den |-> den, num |-> [i \in 1..4 |-> Clamp(num[i], 0, Fx * den)],
        cell |-> <<Sgn(C1), Sgn(C2)>>]

ImplRefinesOracle(Fx, geo, t, m) ==
    LET o == Oracle(Fx, geo, t, m)
        p == Impl(Fx, geo, t, m)
    IN /\ \A i \in 1..4 : p.num[i] >= 0 /\ p.num[i] <= Fx * p.den
       /\ o.kind = "exact" => \A i \in 1..4 : p.num[i] = o.F[i] * p.den

(* the oracle itself realises the demanded moment, and the demanded thrust iff shift = 0 *)
OracleSound(Fx, geo, t, m) ==
    LET o == Oracle(Fx, geo, t, m) IN
    o.kind = "exact" =>
        /\ \A i \in 1..4 : o.F[i] >= 0 /\ o.F[i] <= Fx
        /\ Realised(o.F).m4 = VScale(4, o.msat)
        /\ Realised(o.F).T4 = 4 * (o.ts + o.shift)
        /\ (o.shift # 0 => \/ MinSeq(o.F) = 0 /\ o.shift > 0       \* least shift: stops at the bound
                           \/ MaxSeq(o.F) = Fx /\ o.shift < 0)

Vec(Fx, geo, t, m) ==
    LET o == Oracle(Fx, geo, t, m)
        p == Impl(Fx, geo, t, m)
    IN [fn |-> "control_allocation", FM |-> Fx, geo |-> geo, t |-> t, m |-> m,
        kind |-> o.kind, F |-> o.F, msat |-> o.msat, fm |-> o.fm, ts |-> o.ts,
        cell |-> p.cell, impl_num |-> p.num, impl_den |-> p.den]

(* Two-level enumeration: Init picks a "seed" (Fx, geo, t, a); Next expands (b, c).  This
   keeps TLC's (sequential) initial-state generation tiny and lets the workers expand the
   seeds in parallel.                                                                   *)
(* the yaw range limit ln Fx / (2 cn) must be an integer number of motor-force units, otherwise MSat's integer
   division misstates the limit (F_max = 4 with l = 0.25, Cm = 1 has the limit 0.5): such pairs are not enumerated *)
GeoOK(Fx, geo) == (geo[1] * Fx) % (2 * geo[2]) = 0
Init == \E Fx \in FMs, geo \in Geos : GeoOK(Fx, geo) /\ \E t \in (-TPad)..(Fx + TPad), a \in -K..K :
           tv = [fn |-> "seed", FM |-> Fx, geo |-> geo, t |-> t, a |-> a]
Next == /\ tv.fn = "seed"
        /\ \E b \in -K..K, c \in -K..K : tv' = Vec(tv.FM, tv.geo, tv.t, <<tv.a, b, c>>)
Spec == Init /\ [][Next]_tv

GeosQuick    == { <<16, 16>>, <<4, 1>>, <<4, 16>> }          \* <<4,16>>: Cm > l -- a yaw demand beyond its range limit is still achievable
GeosThorough == { <<16, 16>>, <<4, 1>>, <<8, 2>>, <<16, 1>>, <<4, 16>>, <<8, 16>> }

(* "range-limited": a thrust demand outside [0, 4 F_max] gives what its nearest limit gives, however far outside it is
   (the harness re-evaluates such vectors with the demand multiplied by 1e6 .. 1e300) *)
RangeLimited == tv.fn # "seed" => Oracle(tv.FM, tv.geo, tv.t, tv.m) = Oracle(tv.FM, tv.geo, TSat(tv.FM, tv.t), tv.m)
Refinement == tv.fn # "seed" => ImplRefinesOracle(tv.FM, tv.geo, tv.t, tv.m)
Sound      == tv.fn # "seed" => OracleSound(tv.FM, tv.geo, tv.t, tv.m)
=============================================================================
