SPECIFICATION Spec
CONSTANT Tier = "thorough"
INVARIANTS FrameOK ForceOK CellOK RateOK EulLaw
CHECK_DEADLOCK FALSE
