---------------------------- MODULE RotUnbounded ----------------------------
(* Unbounded (all-integer) proof obligations for the SO(3) foundation, discharged with Apalache
   (symbolic, SMT) because TLC can only enumerate a bounded lattice:
     NormMult :  |P (x) Q|^2 = |P|^2 |Q|^2                        (quaternion norm is multiplicative)
     Hom11/12 :  two scalar entries of  QMat(P (x) Q) = QMat(P) QMat(Q)   (the homomorphism)
     ConjT    :  QMat(conj P) = QMat(P)^T  (entry 1,2 / 2,1)
   Each is a polynomial identity over eight unbounded integers; `apalache-mc check --length=0
   --inv=<name>` proves it for ALL integer quaternions (Init: the eight components range over Int).
   The matrix-shaped statements of the same facts are checked by TLC on QLat(2) in RotLaws.tla.    *)
EXTENDS Integers

VARIABLES
  \* @type: Int;
  a,
  \* @type: Int;
  b,
  \* @type: Int;
  c,
  \* @type: Int;
  d,
  \* @type: Int;
  e,
  \* @type: Int;
  f,
  \* @type: Int;
  g,
  \* @type: Int;
  h

Init == a \in Int /\ b \in Int /\ c \in Int /\ d \in Int /\ e \in Int /\ f \in Int /\ g \in Int /\ h \in Int
Next == UNCHANGED <<a, b, c, d, e, f, g, h>>

\* P = (a,b,c,d), Q = (e,f,g,h), Hamilton product components
pw == a*e - b*f - c*g - d*h
px == a*f + b*e + c*h - d*g
py == a*g + c*e + d*f - b*h
pz == a*h + d*e + b*g - c*f
N(w, x, y, z) == w*w + x*x + y*y + z*z
M11(w, x, y, z) == w*w + x*x - y*y - z*z
M12(w, x, y, z) == 2*(x*y - w*z)
M13(w, x, y, z) == 2*(x*z + w*y)
M21(w, x, y, z) == 2*(x*y + w*z)
M31(w, x, y, z) == 2*(x*z - w*y)

NormMult == N(pw, px, py, pz) = N(a, b, c, d) * N(e, f, g, h)
Hom11 == M11(pw, px, py, pz) = M11(a,b,c,d)*M11(e,f,g,h) + M12(a,b,c,d)*M21(e,f,g,h) + M13(a,b,c,d)*M31(e,f,g,h)
ConjT == M12(a, -b, -c, -d) = M21(a, b, c, d)
\* negative control (must be REFUTED): shows that the proof run is not vacuous
Bogus == N(pw, px, py, pz) = N(a, b, c, d) * N(e, f, g, h) + 1
=============================================================================
