SPECIFICATION SpecS
CONSTANT Tier = "quick"
INVARIANTS SmallLaws Poly2 OnSwitch KernelSE3 KernelSE23
CHECK_DEADLOCK FALSE
