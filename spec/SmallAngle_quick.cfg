SPECIFICATION SpecS
CONSTANT Tier = "quick"
INVARIANTS SmallLaws Poly2 KernelSE3 KernelSE23
CHECK_DEADLOCK FALSE
