SPECIFICATION Spec
CONSTANT Tier = "quick"
INVARIANTS H1 H2 H3 H4 FirstSeen
CHECK_DEADLOCK FALSE
