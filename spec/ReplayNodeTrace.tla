--------------------------- MODULE ReplayNodeTrace ---------------------------
(* G03 (growth), engine C: executions of the REAL ULogReplay node (recorded by
   harness/replay_rec.py: recording subscribers on every bus topic the node created a publisher
   for, a recording core.timeout) validated against ReplayNode.

   Trace file (NDJSON, many runs concatenated; every line carries "tid"; times are integer
   microseconds relative to the first stamp of the log, -777 = not a whole microsecond / not finite):
     {"e":"start","names":[log topic names],"stamps":[[..],..],"pubs":[[bus topic, message class],..]}
     {"e":"wait","now","until"}                      a timeout the node yields (now + delay)
     {"e":"pub","now","bus","ty","stamp","src","k","ok"}
            a message seen by the recording subscriber of bus topic `bus`: its class, its time field,
            the log topic position / sample index it was copied from (identified from its content,
            0 = no sample of the log), ok = 1 iff every copied field equals the synthetic log
     {"e":"end","now","exc"}                          core.run() returned (exc = "") or raised

   Monitor style (harness/tracecheck.validate): ONE TLC step per line; the model predicts the next
   observable event (Obs = ReplayNode's step relation closed under its silent Skip step); a line that
   is not it is reported as  REJECT <tid> <line> <clause>  and the rest of that run is skipped;
   acceptance = whole file consumed and zero rejects.  All invariants of ReplayNode are INVARIANTs
   here as well, i.e. evaluated after every line of every real run.                             *)
EXTENDS ReplayNode, Json, IOUtils

Lines == ndJsonDeserialize(IOEnv.TRACE_FILE)
VARIABLES l, nrej, lost, cur
tvars == <<rp, l, nrej, lost, cur>>

Idle == [Start(<<"cpuload">>, << <<1>> >>) EXCEPT !.pc = "idle"]

Silent(ev) == ev.e = "skip"
RECURSIVE Obs(_)
Obs(s) == UNION { IF Silent(n.ev) THEN Obs(n) ELSE {n} : n \in NodeSucc(s) }

SeqSet(q) == { q[j] : j \in 1..Len(q) }
WantPubs(names) == { << Bus(names[p]), Ty(names[p]) >> : p \in { p \in 1..Len(names) : IsHandled(names[p]) } }

StartClause(r) ==
    IF Len(r.names) # Len(r.stamps) THEN "malformed_start_line"
    ELSE IF \A p \in 1..Len(r.stamps) : Len(r.stamps[p]) = 0 THEN "malformed_start_line"
    ELSE IF \E b \in SeqSet(r.pubs) : ~\E w \in WantPubs(r.names) : w[1] = b[1] THEN "publisher_on_unexpected_bus_topic"
    ELSE IF \E w \in WantPubs(r.names) : ~\E b \in SeqSet(r.pubs) : w[1] = b[1] THEN "publisher_missing"
    ELSE IF SeqSet(r.pubs) # WantPubs(r.names) THEN "publisher_message_type"
    ELSE IF Len(r.pubs) # Cardinality(WantPubs(r.names)) THEN "publisher_created_twice"
    ELSE ""

(* first mismatching field of line r against the predicted successor n of the same kind *)
Diff(r, n, s) ==
  CASE r.e = "wait" ->
         IF r.now # s.now THEN "wait_not_at_predicted_time"
         ELSE IF r.until < r.now THEN "time_runs_backwards"
         ELSE IF r.until # n.ev.until THEN
              (IF n.i = 0 /\ r.until # 0 THEN "first_event_not_at_time_zero" ELSE "wait_until_is_not_stamp_minus_first_stamp")
         ELSE ""
    [] r.e = "pub" ->
         IF r.bus # n.ev.bus THEN
              (IF r.src = n.ev.p /\ r.k = n.ev.k THEN "wrong_bus_topic" ELSE "publication_out_of_order")
         ELSE IF r.ty # n.ev.ty THEN "wrong_message_type"
         ELSE IF r.now # n.ev.now THEN "pub_not_at_predicted_time"
         ELSE IF r.stamp # n.ev.stamp THEN "time_field_is_not_sim_time"
         ELSE IF r.src = 0 THEN "message_is_no_sample_of_the_log"
         ELSE IF r.src # n.ev.p THEN "sample_of_other_topic"
         ELSE IF r.k # n.ev.k THEN "sample_out_of_order"
         ELSE IF r.ok # 1 THEN "data_not_copied" ELSE ""
    [] r.e = "end" ->
         IF r.exc # "" THEN "run_raised_exception"
         ELSE IF r.now # n.ev.now THEN "end_time_is_not_last_stamp" ELSE ""
    [] OTHER -> "unknown_event"

PendingKind(s) == IF s.pc = "waited" THEN Kind(s.names[Cur(s)[1]]) ELSE "none"
Unexpected(r, s) ==       \* no successor of that kind at all: name what the model expected instead
  CASE r.e = "pub" ->
         IF PendingKind(s) = "ignored" THEN "ignored_topic_published"
         ELSE IF PendingKind(s) = "unknown" THEN "unknown_topic_published"
         ELSE IF s.pc = "next" /\ s.i = s.n THEN "publication_after_last_event"
         ELSE IF s.pc = "next" /\ s.i > 0 /\ s.ev.e = "pub" THEN "published_twice_or_without_wait"
         ELSE "publication_without_wait"
    [] r.e = "wait" ->
         IF PendingKind(s) = "handled" THEN "publication_missing"
         ELSE IF s.pc = "next" /\ s.i = s.n THEN "wait_after_last_event"
         ELSE "wait_out_of_schedule"
    [] r.e = "end" ->
         IF r.exc # "" THEN "run_raised_exception"
         ELSE IF PendingKind(s) = "handled" THEN "publication_missing"
         ELSE "run_ended_early"
    [] OTHER -> "unknown_event"

(* result of consuming line r in model state s: [c |-> clause ("" = accepted), s |-> next model state] *)
Consume(r, s) ==
  CASE r.e = "start" ->
         LET c == StartClause(r) IN
         [c |-> c, s |-> IF c = "malformed_start_line" THEN Idle ELSE Start(r.names, r.stamps)]
    [] OTHER ->
         LET kind == { n \in Obs(s) : n.ev.e = r.e } IN
         IF kind = {} THEN [c |-> Unexpected(r, s), s |-> s]
         ELSE LET n == CHOOSE n \in kind : TRUE       \* the node is deterministic: at most one successor per kind
                  c == Diff(r, n, s) IN
              [c |-> c, s |-> n]

TInit == rp = Idle /\ l = 1 /\ nrej = 0 /\ lost = FALSE /\ cur = -1
TNext ==
        /\ l <= Len(Lines)
        /\ l' = l + 1
        /\ cur' = IF Lines[l].e = "start" THEN Lines[l].tid ELSE cur
        /\ LET r == Lines[l] IN
           IF lost /\ r.e # "start"
           THEN UNCHANGED <<rp, nrej, lost>>                    \* rest of a rejected run
           ELSE \E res \in {Consume(r, rp)} :
                 IF r.e = "start" /\ ~lost /\ rp.pc \notin {"idle", "done"}
                 THEN /\ PrintT(<<"REJECT", cur, l, "trace_truncated">>)   \* previous run has no end line
                      /\ (IF res.c = "" THEN TRUE ELSE PrintT(<<"REJECT", r.tid, l, res.c>>))
                      /\ nrej' = nrej + (IF res.c = "" THEN 1 ELSE 2) /\ rp' = res.s /\ lost' = (res.c # "")
                 ELSE IF res.c = ""
                 THEN rp' = res.s /\ nrej' = nrej /\ lost' = FALSE
                 ELSE /\ PrintT(<<"REJECT", r.tid, l, res.c>>)
                      /\ nrej' = nrej + 1 /\ lost' = TRUE
                      /\ rp' = IF r.e = "start" THEN res.s ELSE rp
TraceSpec == TInit /\ [][TNext]_tvars
Consumed == l <= Len(Lines) + 1
Live == rp.pc # "idle"
TypeOKT                  == Live => TypeOK
MergedIsStableSortT      == Live => MergedIsStableSort
TimeMonotoneT            == Live => TimeMonotone
OnlyHandledOnceT         == Live => OnlyHandledOnce
AllPublishedAtEndT       == Live => AllPublishedAtEnd
PublishedAtStampOffsetT  == Live => PublishedAtStampOffset
FirstHandledFirstT       == Live => FirstHandledFirst
OutputOrderT             == Live => OutputOrder
PerTopicOrderT           == Live => PerTopicOrder
EqualStampsKeepListOrderT == Live => EqualStampsKeepListOrder
NoOvertakingT            == Live => NoOvertaking
BusMappingT              == Live => BusMapping
EndTimeT                 == Live => EndTime
=============================================================================
