SPECIFICATION Spec
CONSTANTS
  Cfgs <- CfgsQuick
  Horizons = {20000, 31000}
  ChangeTo <- ChangeQuick
  MaxCh = 1
  TieBudget = 3
  ChangeBy = 1000
INVARIANTS TypeOK StampIsNow StateIsCurrent NoTimeLost Monotone Paired ImuRate MagRate ImuPeriodExact MagPeriodExact NeverFaster Counts LoopPeriod
CHECK_DEADLOCK FALSE
