SPECIFICATION SpecJ
CONSTANT Tier = "quick"
INVARIANTS So3Laws KernelSE3 KernelSE23 Nilpotent GroupKin
CHECK_DEADLOCK FALSE
