SPECIFICATION Spec
CONSTANTS
  Times <- TimesX
  DtMins <- DtMinsX
  DtMin0 = 5000
  StartInit = {TRUE, FALSE}
INVARIANTS PredictPositive AccelOnlyAfterPredict AccelRate MagRate Aux NoUninitWork
CHECK_DEADLOCK FALSE
