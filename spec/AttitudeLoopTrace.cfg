SPECIFICATION Spec
INVARIANT Consumed
CHECK_DEADLOCK FALSE
