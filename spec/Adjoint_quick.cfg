SPECIFICATION SpecA
CONSTANT Tier = "quick"
INVARIANTS AdLaw AdHomL AdInvL adLaw AntiS Jacobi
CHECK_DEADLOCK FALSE
