--------------------------- MODULE AttitudeLoopTrace ---------------------------
(* C12 (and the closed-loop part of C11): trace validation of recorded runs of the packaged
   attitude simulator + MRP estimator against the PHASE ENVELOPE of the property and the step
   contracts of EstimatorStep.

   The trace file (NDJSON, integer coded, many runs concatenated, each starting with a "start"
   line) is produced by harness/estloop.py from the real launch_sim: one line per estimator
   step (init / predict / accel / mag, recorded by proxies around the real equations) and one
   line per sampled logger row (errors computed from the published messages themselves).
   The monitor below consumes one line per TLC step; every clause is evaluated at every line;
   a failing clause is reported as  REJECT <tid> <line> <clause>  and counted; acceptance =
   the whole file consumed (depth) with zero rejects.

   Envelope constants come from the property text ("a few hundredths of a radian", "approach
   the true bias"): attitude error <= 0.03 rad from 5 s on, every bias component error
   <= max(0.01 rad/s, a quarter of its initial error) from 15 s on; measurements carry the
   configured magnitude and rotate with the truth to 1e-6 relative; never NaN / exception;
   non-vacuity: after initialisation at least one ACCEPTED accelerometer and magnetometer
   correction per second (an estimator that rejects everything does not pass).               *)
EXTENDS Integers, Sequences, TLC, Json, IOUtils

Lines == ndJsonDeserialize(IOEnv.TRACE_FILE)
VARIABLES l, st, nrej

T1     == 5000000        \* us
T2     == 15000000
AttMax == 30000          \* urad
BiasAbs == 10000         \* urad/s
MeasTol == 1000          \* 1e-9 relative units  (= 1e-6)
Window == 1000000        \* us
InitBy == 2              \* initialisation by the second IMU message

Max2(a, b) == IF a > b THEN a ELSE b
Fresh(r) == [tid |-> r.tid, cfgInit |-> r.init, b0 |-> r.b0, tinit |-> IF r.init = 1 THEN -1 ELSE 0,
             lastAcc |-> 0, lastMag |-> 0, dtimu |-> r.dt_imu_us, ended |-> FALSE]
Idle == [tid |-> -1, cfgInit |-> 0, b0 |-> <<0,0,0>>, tinit |-> -1, lastAcc |-> 0, lastMag |-> 0, dtimu |-> 0, ended |-> TRUE]

(* first failing clause of line r in monitor state s ("" = none) *)
Clause(s, r) ==
  CASE r.e = "start" -> IF s.ended THEN "" ELSE "trace_truncated"
    [] r.e = "exception" -> "exception_raised"
    [] r.e = "init" ->
         IF r.finite # 1 THEN "init_nan" ELSE ""
    [] r.e = "predict" ->
         IF r.dt_us <= 0 THEN "predict_nonpositive_dt"
         ELSE IF r.finite # 1 THEN "predict_nan"
         ELSE IF r.normok # 1 THEN "predict_mrp_outside_unit_ball"
         ELSE IF r.tril # 1 THEN "predict_W_not_lower_triangular"
         ELSE IF s.tinit < 0 THEN "predict_before_initialisation" ELSE ""
    [] r.e \in {"accel", "mag"} ->
         IF r.ret # 0 /\ r.unchanged # 1 THEN "rejected_correction_changed_state"
         ELSE IF r.ret = 0 /\ r.finite # 1 THEN "accepted_correction_nan"
         ELSE IF r.ret = 0 /\ r.pdec # 1 THEN "accepted_correction_increased_covariance" ELSE ""
    [] r.e = "row" ->
         IF r.nan # 0 THEN "nan_in_published_message"
         ELSE IF r.am > MeasTol THEN "accel_magnitude"
         ELSE IF r.ad > MeasTol THEN "accel_does_not_rotate_with_truth"
         ELSE IF r.mm > MeasTol THEN "mag_magnitude"
         ELSE IF r.md > MeasTol THEN "mag_does_not_rotate_with_truth"
         ELSE IF r.t_us >= T1 /\ r.att < 0 THEN "no_estimate_published"
         ELSE IF r.t_us >= T1 /\ r.att > AttMax THEN "attitude_error_after_transient"
         ELSE IF r.t_us >= T2 /\ \E i \in 1..3 : r.b[i] > Max2(BiasAbs, s.b0[i] \div 4) THEN "bias_error_after_transient"
         ELSE IF s.cfgInit = 1 /\ s.tinit < 0 /\ r.t_us > InitBy * s.dtimu + 1000 THEN "not_initialised_by_second_imu"
         ELSE IF s.tinit >= 0 /\ r.t_us >= s.tinit + Window /\ r.t_us - s.lastAcc > Window THEN "no_accepted_accel_correction_for_1s"
         ELSE IF s.tinit >= 0 /\ r.t_us >= s.tinit + Window /\ r.t_us - s.lastMag > Window THEN "no_accepted_mag_correction_for_1s"
         ELSE ""
    [] r.e = "end" -> ""
    [] OTHER -> "unknown_event"

Update(s, r) ==
  CASE r.e = "start" -> Fresh(r)
    [] r.e = "init" -> IF r.ret = 0 /\ s.tinit < 0 THEN [s EXCEPT !.tinit = r.t_us, !.lastAcc = r.t_us, !.lastMag = r.t_us] ELSE s
    [] r.e = "accel" -> IF r.ret = 0 THEN [s EXCEPT !.lastAcc = r.t_us] ELSE s
    [] r.e = "mag" -> IF r.ret = 0 THEN [s EXCEPT !.lastMag = r.t_us] ELSE s
    [] r.e = "end" -> [s EXCEPT !.ended = TRUE]
    [] OTHER -> s

Init == l = 1 /\ st = Idle /\ nrej = 0
Next == /\ l <= Len(Lines)
        /\ LET r == Lines[l] c == Clause(st, Lines[l]) IN
           /\ l' = l + 1
           /\ st' = Update(st, r)
           /\ IF c = "" THEN nrej' = nrej
              ELSE /\ PrintT(<<"REJECT", IF r.e = "start" THEN st.tid ELSE r.tid, l, c>>)   \* truncation belongs to the previous trace
                   /\ nrej' = nrej + 1
Spec == Init /\ [][Next]_<<l, st, nrej>>
(* the final line index is reported through the depth of the (linear) state graph; the number of
   rejects through the REJECT lines; both are read by the harness *)
Consumed == l <= Len(Lines) + 1
=============================================================================
