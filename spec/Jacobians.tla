------------------------------ MODULE Jacobians ------------------------------
(* C05 -- Jacobians of exp (algebra level) and attitude-kinematics Jacobians (group level).

   so(3): closed forms in the symbolic scalars of ExpLog (mu = 1/(theta sigma), nu = theta/sigma):
       J_l      = V0 + mu * V1            N V1  =  2n H - 2w H^2
       J_r      = V0 + mu * V1r           N V1r = -2n H - 2w H^2       (= J_l(-x))
       J_l^-1   = V0 + nu * W1            2n W1  = -n H - w H^2
       J_r^-1   = V0 + nu * W1r           2n W1r =  n H - w H^2
     TLC proves (ExpLog!VLaws) that J_l is THE solution of  J [x]x = R - I, J x = x, that
     J_l J_l^-1 = I, and here additionally  J_l = R J_r  (i.e. V1 = R V1r, V0 = R V0).

   se(3), se_2(3): no closed form is written for the coupling (Q) blocks.  The oracle is the
   characterisation        J_l ad_xi = Ad_exp(xi) - I,     J_l k = k  for k in ker ad_xi
   (range(ad) + ker(ad) is the whole algebra for theta # 0, so J_l is determined), likewise
   J_r ad_xi = I - Ad_exp(-xi).  For screw-form xi = xi1 + nu*xi0 (xi1 = (alpha v, 0),
   xi0 = (v x y, v)) everything on the right-hand side is RATIONAL (ExpLog!ScrewSE3) and
   ad_xi = adm(xi1) + nu*adm(xi0) with integer matrices; the harness inserts the code's
   floating-point J.  TLC proves the consistency of the system: the kernel vectors are
   annihilated by ad and fixed by Ad_exp.  At theta = 0, ad is nilpotent and
   J_l = I + ad/2, J_r = I - ad/2, inverses I -+ ad/2 exactly.

   group level: q' = 1/2 q (x) (0,w) (body) and 1/2 (0,w) (x) q (world).  With
   dR = Q (x) (0,w), dL = (0,w) (x) Q (integer), TLC proves  Q . dR = 0 = Q . dL  (unit norm
   kept) and, QMat being a quadratic form, its differential
        QMat(Q + d) - QMat(Q) - QMat(d)  =  2 QMat(Q) [w]x   (d = dR),   2 [w]x QMat(Q)  (d = dL),
   i.e. R' = R [w]x resp. R' = [w]x R.                                                     *)
EXTENDS ExpLog

NV1r(h)   == MSub(MScale(-2 * nOf(h), Hv(h)), MScale(2 * h[1], Hv2(h)))
W1rx2n(h) == MSub(MScale(nOf(h), Hv(h)), MScale(h[1], Hv2(h)))
JlRJr(h)  == M3Mul(QMat(h), NV1r(h)) = MScale(QNorm(h), NV1(h)) /\ M3Mul(QMat(h), nV0(h)) = MScale(QNorm(h), nV0(h))

Xi1_se3(h, alpha)   == VScale(alpha, QV(h)) \o <<0, 0, 0>>
Xi0_se3(h, y)       == Cross(QV(h), y) \o QV(h)
K2_se3(h)           == QV(h) \o <<0, 0, 0>>
Xi1_se23(h, a1, a2) == VScale(a1, QV(h)) \o VScale(a2, QV(h)) \o <<0, 0, 0>>
Xi0_se23(h, y1, y2) == Cross(QV(h), y1) \o Cross(QV(h), y2) \o QV(h)
K2_se23(h)          == QV(h) \o <<0,0,0,0,0,0>>
K3_se23(h)          == <<0,0,0>> \o QV(h) \o <<0,0,0>>

RMVec(A, k) == [num |-> MVec(A.num, k), den |-> A.den]            \* rational matrix times integer vector
Fixes(A, k) == MVec(A.num, k) = VScale(A.den, k)                    \* A k = k

JLat == { h \in HCoarse : nOf(h) # 0 /\ QNorm(h) <= 9 } \cup { QOf(m, v) : m \in {8, 31, 32, 33}, v \in {<<1,0,0>>, <<1,2,2>>} }
JSmallOK(h) == QNorm(h) <= 2000
(* "for every x with rotation angle below 2 pi": the last hundredths of a radian before the full turn, where the inverse
   Jacobians grow like 1/(2 pi - theta) (theta = 2 pi - 2 atan(|v|/m) = 2 pi - 0.02 .. 0.033) *)
JNearTurn == { <<-100,1,0,0>>, <<-60,0,0,1>>, <<-200,1,2,2>>, <<-300,-1,1,1>> }
(* the last 1e-4 rad (so(3) only: the closed forms are exact there; the se(3) / se_2(3) coupling blocks have a double pole and
   lose more than the 1e-9 tolerance to rounding that close to 2 pi on ANY implementation) *)
JNearTurnFine == { <<-20000,1,0,0>>, <<-15000,0,1,-1>>, <<-9000,1,0,0>> }
(* "arbitrary translational parts": the coupling blocks Q of the se(3) / se_2(3) Jacobians and of their inverses are LINEAR
   in the translational part (the dexp equations are, block by block), so J(s rho, w) has the diagonal blocks of J(rho, w)
   and s times its coupling blocks; the harness evaluates every general vector a second time with s = 4e-7 (micrometres
   expressed in metres) and compares the coupling blocks divided by s. *)
GQ == IF Thorough THEN { q \in QLat(2) : Primitive(q) } ELSE QLat(1) \cup { <<2,1,0,-1>>, <<-2,0,1,1>>, <<1,-2,2,0>>, <<0,1,2,-2>> }
GW == { <<1,0,0>>, <<0,1,0>>, <<0,0,1>>, <<1,-2,2>>, <<-3,1,1>> }

InitJ == /\ dummy = 0
         /\ \/ \E h \in (HAll \ HNearPole) \cup JNearTurn : nOf(h) # 0 /\ tv = [op |-> "seedj", h |-> h]      \* (near-pole quaternions: 32-bit)
            \/ \E h \in JNearTurnFine : tv = [op |-> "seedj3", h |-> h]
            \/ \E q \in GQ : tv = [op |-> "seedg", q |-> q]
            \/ tv = [op |-> "seedz"]
NextJ == UNCHANGED dummy /\
  \/ /\ tv.op = "seedj3"
     /\ LET h == tv.h IN
        tv' = [op |-> "jac_so3", h |-> h, cell |-> "nearturn", nV0 |-> nV0(h), NV1 |-> NV1(h), NV1r |-> NV1r(h),
               W1 |-> W1x2n(h), W1r |-> W1rx2n(h), n |-> nOf(h), N |-> QNorm(h)]
  \/ /\ tv.op = "seedj"
     /\ LET h == tv.h cell == HCell(tv.h) IN
        \/ tv' = [op |-> "jac_so3", h |-> h, cell |-> cell, nV0 |-> nV0(h), NV1 |-> NV1(h), NV1r |-> NV1r(h),
                  W1 |-> W1x2n(h), W1r |-> W1rx2n(h), n |-> nOf(h), N |-> QNorm(h)]
        \/ /\ (QNorm(h) < 40 \/ (h \in HSmall /\ QNorm(h) <= 1100))
           /\ \E alpha \in {1, -2}, y \in {<<0,-2,1>>, <<1,1,3>>, <<0,0,0>>} :
              \E E \in {ScrewSE3("quat", h, 1, alpha, y)}, Em \in {ScrewSE3("quat", h, -1, alpha, y)} :   \* (bound => evaluated once)
              tv' = [op |-> "jac_se3", h |-> h, alpha |-> alpha, y |-> y, cell |-> cell,
                     xi1 |-> Xi1_se3(h, alpha), xi0 |-> Xi0_se3(h, y), k2 |-> K2_se3(h),
                     ad1 |-> adm("se3", Xi1_se3(h, alpha)), ad0 |-> adm("se3", Xi0_se3(h, y)),
                     AdE |-> AdClosed(E), AdEm |-> AdClosed(Em)]
        \/ /\ (QNorm(h) < 40 \/ (h \in HSmall /\ QNorm(h) <= 1100))
           /\ \E y1 \in {<<0,-2,1>>, <<1,0,0>>}, y2 \in {<<1,1,3>>, <<0,0,0>>} :
              \E E \in {ScrewSE23("quat", h, 1, 1, y1, -2, y2)}, Em \in {ScrewSE23("quat", h, -1, 1, y1, -2, y2)} :
              tv' = [op |-> "jac_se23", h |-> h, a1 |-> 1, y1 |-> y1, a2 |-> -2, y2 |-> y2, cell |-> cell,
                     xi1 |-> Xi1_se23(h, 1, -2), xi0 |-> Xi0_se23(h, y1, y2), k2 |-> K2_se23(h), k3 |-> K3_se23(h),
                     ad1 |-> adm("se23", Xi1_se23(h, 1, -2)), ad0 |-> adm("se23", Xi0_se23(h, y1, y2)),
                     AdE |-> AdClosed(E), AdEm |-> AdClosed(Em)]
  (* general (non-screw) translation, any lattice angle incl. the smallest: Ad_exp(xi) is assembled
     from R and p = V rho (symbolic-mu form, ExpLog!GenP) with the block structure proven in
     Adjoint!AdLaw; no large integer products arise, so theta down to 2e-4 rad is reachable *)
  \/ /\ tv.op = "seedj"
     /\ LET h == tv.h cell == HCell(tv.h) IN
        \/ \E rho \in {<<3,1,-1>>, <<0,-2,1>>} :
              tv' = [op |-> "jac_se3_gen", h |-> h, rho |-> rho, p |-> GenP(h, rho), cell |-> cell, exp |-> RM(QMat(h), QNorm(h))]
        \/ \E r1 \in {<<3,1,-1>>}, r2 \in {<<0,-2,1>>, <<1,1,1>>} :
              tv' = [op |-> "jac_se23_gen", h |-> h, rho |-> r1, rho2 |-> r2, p |-> GenP(h, r1), p2 |-> GenP(h, r2), cell |-> cell,
                     exp |-> RM(QMat(h), QNorm(h))]
  \/ /\ tv.op = "seedz"
     /\ \/ \E r \in Rhos : tv' = [op |-> "jac_zero", kind |-> "se3", xi |-> r \o <<0,0,0>>, ad |-> adm("se3", r \o <<0,0,0>>)]
        \/ \E r \in Rhos, r2 \in {<<1,1,1>>, <<0,0,0>>} :
              tv' = [op |-> "jac_zero", kind |-> "se23", xi |-> r \o r2 \o <<0,0,0>>, ad |-> adm("se23", r \o r2 \o <<0,0,0>>)]
        \/ tv' = [op |-> "jac_zero", kind |-> "so3", xi |-> <<0,0,0>>, ad |-> adm("so3", <<0,0,0>>)]
  \/ /\ tv.op = "seedg"
     /\ \E w \in GW : tv' = [op |-> "gjac", q |-> tv.q, w |-> w, dR |-> QMul(tv.q, QOf(0, w)), dL |-> QMul(QOf(0, w), tv.q),
                             RW |-> M3Mul(QMat(tv.q), Hat(w)), WR |-> M3Mul(Hat(w), QMat(tv.q))]
SpecJ == InitJ /\ [][NextJ]_<<tv, dummy>>

(* ------------------------------ what TLC proves -------------------------------------- *)
So3Laws == tv.op = "jac_so3" /\ JSmallOK(tv.h) => VLaws(tv.h) /\ JlRJr(tv.h)
KernelSE3 == tv.op = "jac_se3" =>
    LET Z == [i \in 1..6 |-> 0] IN
    /\ MVec(tv.ad1, tv.xi1) = Z /\ MVec(tv.ad0, tv.xi0) = Z
    /\ VAdd(MVec(tv.ad1, tv.xi0), MVec(tv.ad0, tv.xi1)) = Z          \* ad_xi xi = 0 (mixed term)
    /\ MVec(tv.ad1, tv.k2) = Z /\ MVec(tv.ad0, tv.k2) = Z            \* ad_xi (v,0) = 0
    /\ Fixes(tv.AdE, tv.xi1) /\ Fixes(tv.AdE, tv.xi0) /\ Fixes(tv.AdE, tv.k2)   \* Ad_exp fixes the kernel
    /\ (QNorm(tv.h) < 40 => RMIsIdent(RMMul(tv.AdE, tv.AdEm)))              \* Ad_exp(-xi) = Ad_exp(xi)^-1  (32-bit guard)
KernelSE23 == tv.op = "jac_se23" =>
    LET Z == [i \in 1..9 |-> 0] IN
    /\ MVec(tv.ad1, tv.xi1) = Z /\ MVec(tv.ad0, tv.xi0) = Z
    /\ VAdd(MVec(tv.ad1, tv.xi0), MVec(tv.ad0, tv.xi1)) = Z
    /\ MVec(tv.ad1, tv.k2) = Z /\ MVec(tv.ad0, tv.k2) = Z /\ MVec(tv.ad1, tv.k3) = Z /\ MVec(tv.ad0, tv.k3) = Z
    /\ Fixes(tv.AdE, tv.xi1) /\ Fixes(tv.AdE, tv.xi0) /\ Fixes(tv.AdE, tv.k2) /\ Fixes(tv.AdE, tv.k3)
    /\ (QNorm(tv.h) < 40 => RMIsIdent(RMMul(tv.AdE, tv.AdEm)))
Nilpotent == tv.op = "jac_zero" => MMul(tv.ad, tv.ad) = Zeros(Len(tv.ad), Len(tv.ad))
GroupKin == tv.op = "gjac" =>
    LET Q == tv.q IN
    /\ Dot(Q, tv.dR) = 0 /\ Dot(Q, tv.dL) = 0
    /\ MSub(MSub(QMat(VAdd(Q, tv.dR)), QMat(Q)), QMat(tv.dR)) = MScale(2, tv.RW)
    /\ MSub(MSub(QMat(VAdd(Q, tv.dL)), QMat(Q)), QMat(tv.dL)) = MScale(2, tv.WR)
=============================================================================
