SPECIFICATION SpecT
CONSTANT Tier = "thorough"
INVARIANTS OdeLaws Semigroup NormMult
CHECK_DEADLOCK FALSE
