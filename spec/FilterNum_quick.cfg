SPECIFICATION Spec
CONSTANT Tier = "quick"
INVARIANTS LdlLaw UduLaw PredLaw CorrLaw RkLaw
CHECK_DEADLOCK FALSE
