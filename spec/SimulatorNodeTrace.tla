-------------------------- MODULE SimulatorNodeTrace --------------------------
(* G01 (growth), engine C: executions of the REAL Simulator node (recorded by
   harness/simnode_rec.py: recording proxies around eqs["sim"][...], recording subscribers on
   the three topics, a recording Timeout) validated against SimulatorNode.

   Trace file (NDJSON, integers only, many runs concatenated; every line carries "tid"):
     {"e":"start","S","I","M","H","par":{sn,sg,sa,sm,g,ms,decl,incl,noise},
                  "declared":[names],"defaults":[micro-units],"dtypes":[..],"topics":[..],"x0ok":0|1}
     {"e":"sim","now","t","dt","vin","vout","sn"}           one per simulate call
     {"e":"att","now","stamp","ver","ok","om"}              message on sim_attitude
     {"e":"imu","now","stamp","vg","va","sg","sa","g","gyro","accel"}
     {"e":"mag","now","stamp","ver","sm","ms","decl","incl","ok"}
     {"e":"sleep","now","delay"}                             the Timeout the loop yields
     {"e":"params","S","I","M","par"}                        a params message changed the settings
     {"e":"end","now"}
   vin/vout/ver/vg/va: version of the true-state vector handed to the call (0 = x0, k = output of
   the k-th simulate call, -1 = some other vector), established by bit identity.  ok/om/gyro/accel:
   the message content equals the independent sensor model of SensorModel.tla evaluated on that
   state by the harness (1) or not (0).

   Monitor style (tracecheck.validate): ONE TLC step per line; the model predicts the set of next
   observable events (Obs = SimulatorNode's step relation closed under its silent steps); a line
   that is none of them is reported as  REJECT <tid> <line> <clause>  and the rest of that run is
   skipped; acceptance = whole file consumed and zero rejects.  All invariants of SimulatorNode
   are INVARIANTs here as well, i.e. evaluated after every line of every real run.             *)
EXTENDS SimulatorNode, Json, IOUtils

Lines == ndJsonDeserialize(IOEnv.TRACE_FILE)
VARIABLES l, nrej, lost, cur          \* cur = tid of the run being consumed
tvars == <<sim, l, nrej, lost, cur>>

TrNone == {}

RECURSIVE Obs(_)
Obs(s) == UNION { IF Silent(n.ev) THEN Obs(n) ELSE {n} : n \in NodeSucc(s) }

Idle == [Start(1000, 1000, 1000, 0, Par0) EXCEPT !.pc = "idle"]

(* first mismatching field of line r against the predicted successor n of the same kind *)
Diff(r, n) ==
  CASE r.e = "sim" ->
         IF r.now # n.now THEN "sim_not_at_predicted_time"
         ELSE IF r.t # n.ev.t THEN "sim_time_argument_is_not_now"
         ELSE IF r.dt # n.ev.dt THEN "sim_dt_is_not_elapsed_time"
         ELSE IF r.vin # n.ev.vin THEN "sim_from_stale_state"
         ELSE IF r.vout # n.ver THEN "sim_result_not_kept"
         ELSE IF r.sn # n.ev.sn THEN "sim_reads_wrong_parameter" ELSE ""
    [] r.e = "att" ->
         IF r.now # n.ev.now THEN "att_not_at_predicted_time"
         ELSE IF r.stamp # n.ev.stamp THEN "att_stamp_is_not_now"
         ELSE IF r.ver # n.ev.ver THEN "att_from_stale_state"
         ELSE IF r.ok # 1 THEN "att_content_is_not_the_true_state"
         ELSE IF r.om # 1 THEN "att_omega_is_not_the_rate_in_use" ELSE ""
    [] r.e = "imu" ->
         IF r.now # n.ev.now THEN "imu_not_at_predicted_time"
         ELSE IF r.stamp # n.ev.stamp THEN "imu_stamp_is_not_now"
         ELSE IF r.vg # n.ev.ver \/ r.va # n.ev.ver THEN "imu_from_stale_state"
         ELSE IF r.sg # n.ev.sg \/ r.sa # n.ev.sa \/ r.g # n.ev.g THEN "imu_reads_wrong_parameter"
         ELSE IF r.gyro # 1 THEN "imu_gyro_is_not_the_sensor_model"
         ELSE IF r.accel # 1 THEN "imu_accel_is_not_the_sensor_model" ELSE ""
    [] r.e = "mag" ->
         IF r.now # n.ev.now THEN "mag_not_at_predicted_time"
         ELSE IF r.stamp # n.ev.stamp THEN "mag_stamp_is_not_now"
         ELSE IF r.ver # n.ev.ver THEN "mag_from_stale_state"
         ELSE IF r.sm # n.ev.sm \/ r.ms # n.ev.ms \/ r.decl # n.ev.decl \/ r.incl # n.ev.incl THEN "mag_reads_wrong_parameter"
         ELSE IF r.ok # 1 THEN "mag_is_not_the_sensor_model" ELSE ""
    [] r.e = "sleep" ->
         IF r.now # n.ev.now THEN "sleep_not_at_predicted_time"
         ELSE IF r.delay # n.ev.delay THEN "loop_period_is_not_dt_sim" ELSE ""
    [] OTHER -> "unknown_event"

Unexpected(r, s) ==       \* no successor of that kind at all: name what the model expected instead
  CASE r.e = "sim"   -> IF s.now = 0 /\ s.pc = "asleep" /\ s.wake = 0 THEN "sim_called_at_time_zero" ELSE "sim_call_out_of_schedule"
    [] r.e = "att"   -> IF \E n \in Obs(s) : n.ev.e = "sim" THEN "state_not_advanced" ELSE "att_publication_out_of_schedule"
    [] r.e = "imu"   -> IF \E n \in Obs(s) : n.ev.e = "sim" THEN "state_not_advanced" ELSE "imu_publication_out_of_schedule"
    [] r.e = "mag"   -> IF \E n \in Obs(s) : n.ev.e = "sim" THEN "state_not_advanced"
                        ELSE IF \E n \in Obs(s) : n.ev.e \in {"att", "imu"} THEN "imu_publication_missing"
                        ELSE "mag_publication_out_of_schedule"
    [] r.e = "sleep" -> IF \E n \in Obs(s) : n.ev.e = "sim" THEN "state_not_advanced"
                        ELSE IF \E n \in Obs(s) : n.ev.e \in {"att", "imu"} THEN "imu_publication_missing"
                        ELSE IF \E n \in Obs(s) : n.ev.e = "mag" THEN "mag_publication_missing"
                        ELSE "sleep_out_of_schedule"
    [] OTHER -> "unknown_event"

StartClause(r) ==
    IF r.declared # DeclNames THEN "declared_parameter_names"
    ELSE IF r.defaults # DeclDefaults THEN "declared_parameter_defaults"
    ELSE IF r.dtypes # DeclTypes THEN "declared_parameter_types"
    ELSE IF r.topics # Topics THEN "published_topics"
    ELSE IF r.x0ok # 1 THEN "initial_state_not_x0" ELSE ""

(* result of consuming line r in model state s: [c |-> clause ("" = accepted), s |-> next model state] *)
Consume(r, s) ==
  CASE r.e = "start" -> [c |-> StartClause(r), s |-> Start(r.S, r.I, r.M, r.H, r.par)]
    [] r.e = "end" ->
         [c |-> IF s.pc = "asleep" /\ s.wake >= s.H THEN "" ELSE "run_ended_early", s |-> Idle]
    [] r.e = "params" ->
         IF s.pc = "asleep" THEN [c |-> "", s |-> CHOOSE n \in ChangeS(s, <<r.S, r.I, r.M>>, r.par) : TRUE]
         ELSE [c |-> "params_inside_iteration", s |-> s]
    [] OTHER ->
         LET kind == { n \in Obs(s) : n.ev.e = r.e } IN
         IF kind = {} THEN [c |-> Unexpected(r, s), s |-> s]
         ELSE LET n == CHOOSE n \in kind : \A m \in kind : Diff(r, m) = "" => Diff(r, n) = "" IN
              [c |-> Diff(r, n), s |-> n]

TInit == sim = Idle /\ l = 1 /\ nrej = 0 /\ lost = FALSE /\ cur = -1
TNext ==
        /\ l <= Len(Lines)
        /\ l' = l + 1
        /\ cur' = IF Lines[l].e = "start" THEN Lines[l].tid ELSE cur
        /\ LET r == Lines[l] IN
           IF lost /\ r.e # "start"
           THEN UNCHANGED <<sim, nrej, lost>>                    \* rest of a rejected run
           ELSE \E res \in {Consume(r, sim)} :
                 IF r.e = "start" /\ ~lost /\ sim.pc # "idle"
                 THEN /\ PrintT(<<"REJECT", cur, l, "trace_truncated">>)   \* previous run has no end line
                      /\ (res.c = "" \/ PrintT(<<"REJECT", r.tid, l, res.c>>))
                      /\ nrej' = nrej + (IF res.c = "" THEN 1 ELSE 2) /\ sim' = res.s /\ lost' = (res.c # "")
                 ELSE IF res.c = ""
                 THEN sim' = res.s /\ nrej' = nrej /\ lost' = FALSE
                 ELSE /\ PrintT(<<"REJECT", r.tid, l, res.c>>)
                      /\ nrej' = nrej + 1 /\ lost' = TRUE
                      /\ sim' = IF r.e = "start" THEN res.s ELSE sim
TraceSpec == TInit /\ [][TNext]_tvars
Consumed == l <= Len(Lines) + 1
TypeOKT == sim.pc = "idle" \/ TypeOK
=============================================================================
