SPECIFICATION Spec
CONSTANT Tier = "quick"
INVARIANTS FrameOK ForceOK CellOK RateOK EulLaw
CHECK_DEADLOCK FALSE
