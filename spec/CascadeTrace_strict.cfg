INIT TraceInit
NEXT TraceNext
CONSTANTS
  DtMs = 10
  TEndMs = 30000
  TAttMs = 10000
  TPosMs = 25000
  TiltMax = 50
  YawMax = 50
  RateMax = 100
  PosMax = 50
  Tier = "trace"
  Strict = TRUE
CONSTRAINT Track
INVARIANTS TypeOK ClockOK LaunchOK NoNan Airborne MotorLimit RateIntegratorBound ZIntegratorBound
INVARIANTS AttitudeSettled YawSettled RateSettled PositionSettled VerdictSound
PROPERTIES StaysSettled StaysAttSettled
POSTCONDITION Accepted
CHECK_DEADLOCK FALSE
