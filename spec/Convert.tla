------------------------------- MODULE Convert -------------------------------
(* C07 -- conversions between the four SO(3) parameterisations.

   Abstractly a conversion is the identity on the rotation (the signed integer quaternion
   q is kept) and fixes the representative:  quaternion - unit norm, either sign;  MRP -
   non-shadow (norm <= 1; at exactly 180 deg both are allowed);  DCM - orthonormal, det +1;
   Euler B321 - pitch in [-pi/2, pi/2].  tv is the engine-A vector: source and target
   parameterisation, q, and the exact expected rotation matrix  num/den = QMat(q)/N(q).

   Euler-triple vectors (op "eul") give the SOURCE as three axis rotations
   Qz = (a,0,0,b), Qy = (c,0,d,0), Qx = (e,f,0,0); TLC proves that the composed quaternion
   has the matrix Rz Ry Rx, so the harness can embed the triple as plain angles
   (2 atan2(b,a), 2 atan2(d,c), 2 atan2(f,e)) without going through any extraction.      *)
EXTENDS Rot, TLC
CONSTANT Tier
VARIABLE tv

Reps == {"quat", "mrp", "dcm", "euler"}
Thorough == Tier = "thorough"

(* special cells *)
NearId   == { <<10000,1,0,0>>, <<10000,1,-2,2>>, <<-10000,1,1,0>>, <<-1000,0,0,1>>, <<20000,0,1,0>> }
NearPi   == { <<1,0,0,100>>, <<-1,100,100,0>>, <<1,20,-20,10>>, <<-1,0,1000,0>>,
              \* w < 0 so close to 180 deg that the source MRP has 1 < |r|^2 <= 1.001 (a shadow switch with a
              \* "tolerance" leaves these unswitched): |r|^2 ~ 1 + 2|w|/|q|
              <<-1,0,3000,0>>, <<-1,2000,-2000,1000>>, <<-1,0,0,20000>>, <<-2,4000,0,3000>>, <<1,0,3000,0>> }
BandY    == { <<2001,0,2000,0>>, <<2001,0,-2000,0>>, <<1001,0,1000,0>> }        \* pitch within 1e-3 of +-pi/2
OutBandY == { <<501,0,500,0>>, <<501,0,-500,0>>, <<101,0,100,0>>, <<801,0,800,0>>, <<991,0,-990,0>>, <<721,0,-720,0>> }   \* (801: 1.25e-3, 991: 1.01e-3, 721: 1.39e-3 from the pole -- just outside the band)              \* 2e-3 .. 1e-2 outside the band
Wrap(S)  == S \cup { QMul(QMul(<<2,0,0,1>>, q), <<3,1,0,0>>) : q \in S } \cup { QMul(<<1,0,0,-1>>, q) : q \in S }
InBand   == Wrap(BandY)
NearBand == Wrap(OutBandY)
Base     == IF Thorough THEN { q \in QLat(3) : Primitive(q) } ELSE { q \in QLat(2) : Primitive(q) }
Lattice  == Base \cup NearId \cup NearPi \cup InBand \cup NearBand

Cell(q) == IF AtGimbalPole(q) THEN "pole" ELSE IF q \in InBand THEN "band" ELSE IF q \in NearBand THEN "nearband"
           ELSE IF q \in NearId THEN "nearid" ELSE IF q \in NearPi THEN "nearpi"
           ELSE IF q[1] = 0 THEN "pi" ELSE IF q[1] < 0 THEN "wneg" ELSE "wpos"

SrcOk(rep, q) == (rep = "mrp" => MrpOk(q))

Vec(op, from, to, q) == [op |-> op, from |-> from, to |-> to, q |-> q,
                         exp |-> [num |-> QMat(q), den |-> QNorm(q)],
                         cell |-> Cell(q), shep |-> ShepperdBranch(q)]

(* Euler triples *)
ZAng == { <<1,0,0,0>>, <<2,0,0,1>>, <<1,0,0,-1>>, <<0,0,0,1>>, <<-1,0,0,3>>, <<1,0,0,2>> }
YAng == { <<1,0,0,0>>, <<3,0,1,0>>, <<2,0,-1,0>>, <<5,0,4,0>>, <<1,0,1,0>>, <<1,0,-1,0>>, <<2001,0,2000,0>> }  \* |pitch| <= pi/2
XAng == { <<1,0,0,0>>, <<3,1,0,0>>, <<1,-1,0,0>>, <<0,1,0,0>>, <<-2,1,0,0>> }
RotZ(a) == QMat(a)   RotY(a) == QMat(a)   RotX(a) == QMat(a)
EulQ(z, y, x) == QMul(QMul(z, y), x)

Init == \E q \in Lattice : tv = [op |-> "seed", q |-> q]
        \/ \E z \in ZAng : tv = [op |-> "seedeul", z |-> z]
Next ==
  \/ /\ tv.op = "seed"
     /\ \/ \E from \in Reps, to \in Reps : from # to /\ SrcOk(from, tv.q) /\ tv' = Vec("conv", from, to, tv.q)
        \/ \E to \in Reps : tv' = Vec("frommat", "matrix", to, tv.q)
        \/ MrpOk(tv.q) /\ tv' = Vec("shadow", "mrp", "mrp", tv.q)
  \/ /\ tv.op = "seedeul"
     /\ \E y \in YAng, x \in XAng, to \in Reps \ {"euler"} :
           tv' = [Vec("eul", "euler", to, EulQ(tv.z, y, x)) EXCEPT !.op = "eul"] @@ [zyx |-> <<tv.z, y, x>>]
Spec == Init /\ [][Next]_tv

(* what TLC proves *)
RotOK  == tv.op \in {"conv", "frommat", "shadow", "eul"} =>
             /\ tv.exp.den > 0
             /\ QNorm(tv.q) < 1000 => Proper(tv.q)          \* (32-bit: N^3 must fit)
EulLaw == tv.op = "eul" =>          \* Rz Ry Rx (each over its own norm) = R(q) : cross-multiplied
            LET z == tv.zyx[1] y == tv.zyx[2] x == tv.zyx[3] IN
            /\ M3Mul(M3Mul(QMat(z), QMat(y)), QMat(x)) = QMat(tv.q)
            /\ QNorm(z) * QNorm(y) * QNorm(x) = QNorm(tv.q)
            /\ z[2] = 0 /\ z[3] = 0 /\ y[2] = 0 /\ y[4] = 0 /\ x[3] = 0 /\ x[4] = 0
            /\ y[1] > 0 /\ Abs(y[3]) <= y[1]                               \* pitch in [-pi/2, pi/2]
=============================================================================
