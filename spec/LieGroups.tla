------------------------------ MODULE LieGroups ------------------------------
(* Abstract elements of the Lie groups cyecca exposes, in exact arithmetic, and their
   matrix representation.  The reference semantics of every group operation is the MATRIX
   one (Mat(X*Y) = Mat(X) Mat(Y)); the parameter-level formulas (Prod, Inv) below are
   textbook semidirect-product formulas that TLC proves equal to the matrix semantics on
   every state (invariants of LieCalc), so the expectation handed to the implementation
   is always "the matrix product of the factors".

   Element records (g = group family, rep = SO(3) parameterisation where applicable):
     [g |-> "SO3",  rep, q]                    q  signed integer quaternion (Rot.tla)
     [g |-> "SE3",  rep, q, p, pd]             translation p/pd   (p integer 3-vector)
     [g |-> "SE23", rep, q, p, v, pd]          position p/pd, velocity v/pd
     [g |-> "SO2",  cs]                        cs = <<c, s, h>>: (cos, sin) = (c/h, s/h), c^2+s^2 = h^2
     [g |-> "SE2",  cs, p, pd]
     [g |-> "Rn",   x, pd]                     x/pd, n = Len(x)
     [g |-> "Prod", fs]                        direct product, fs = tuple of elements
   A rational matrix is [num |-> integer matrix, den |-> positive integer].              *)
EXTENDS Rot

RM(num, den)     == [num |-> FM(num), den |-> den]
(* reduced form (gcd of all entries and the denominator divided out): keeps TLC's 32-bit
   integers small and makes equality of rational matrices plain equality                 *)
RECURSIVE GcdSeq(_, _, _), GcdRows(_, _, _)
GcdSeq(s, k, g)  == IF k > Len(s) \/ g = 1 THEN g ELSE GcdSeq(s, k + 1, Gcd(g, s[k]))
GcdRows(M, i, g) == IF i > Len(M) \/ g = 1 THEN g ELSE GcdRows(M, i + 1, GcdSeq(M[i], 1, g))
RMRed(A)         == LET g == GcdRows(A.num, 1, A.den) IN
                    IF g = 1 THEN A ELSE
                    [num |-> FM([i \in 1..Len(A.num) |-> [j \in 1..Len(A.num[1]) |-> A.num[i][j] \div g]]), den |-> A.den \div g]
RMEq(A, B)       == RMRed(A) = RMRed(B)
RMMul(A, B)      == RMRed(RM(MMul(A.num, B.num), A.den * B.den))
RMIdent(n)       == RM(Ident(n), 1)
RMIsIdent(A)     == A.num = MScale(A.den, Ident(Len(A.num)))

(* circle group on Pythagorean triples *)
CMul(a, b) == << a[1]*b[1] - a[2]*b[2], a[2]*b[1] + a[1]*b[2], a[3]*b[3] >>
CInv(a)    == << a[1], -a[2], a[3] >>
CId        == <<1, 0, 1>>
CMat(a)    == << <<a[1], -a[2]>>, <<a[2], a[1]>> >>              \* times 1/h

(* block-diagonal of a tuple of square integer matrices *)
RECURSIVE DimsBefore(_, _)
DimsBefore(Ms, k) == IF k = 1 THEN 0 ELSE DimsBefore(Ms, k - 1) + Len(Ms[k - 1])
BlockDiag(Ms) ==
    LET n   == DimsBefore(Ms, Len(Ms) + 1)
        blk(i) == CHOOSE k \in 1..Len(Ms) : DimsBefore(Ms, k) < i /\ i <= DimsBefore(Ms, k) + Len(Ms[k])
    IN [i \in 1..n |-> [j \in 1..n |->
          LET k == blk(i) o == DimsBefore(Ms, k) IN
          IF j > o /\ j <= o + Len(Ms[k]) THEN Ms[k][i - o][j - o] ELSE 0]]
RECURSIVE ProdDen(_, _)
ProdDen(Ds, k) == IF k = 0 THEN 1 ELSE Ds[k] * ProdDen(Ds, k - 1)

RECURSIVE Mat(_)
Mat(X) ==
  CASE X.g = "SO3"  -> RM(QMat(X.q), QNorm(X.q))
    [] X.g = "SE3"  -> LET N == QNorm(X.q) M == QMat(X.q) IN
         RM([i \in 1..4 |-> IF i <= 3 THEN <<X.pd*M[i][1], X.pd*M[i][2], X.pd*M[i][3], N*X.p[i]>>
                            ELSE <<0, 0, 0, N*X.pd>>], N * X.pd)
    [] X.g = "SE23" -> LET N == QNorm(X.q) M == QMat(X.q) IN          \* [R v p; 0 I2]
         RM([i \in 1..5 |-> IF i <= 3 THEN <<X.pd*M[i][1], X.pd*M[i][2], X.pd*M[i][3], N*X.v[i], N*X.p[i]>>
                            ELSE IF i = 4 THEN <<0, 0, 0, N*X.pd, 0>> ELSE <<0, 0, 0, 0, N*X.pd>>], N * X.pd)
    [] X.g = "SO2"  -> RM(CMat(X.cs), X.cs[3])
    [] X.g = "SE2"  -> LET h == X.cs[3] IN
         RM(<< <<X.pd*X.cs[1], -X.pd*X.cs[2], h*X.p[1]>>, <<X.pd*X.cs[2], X.pd*X.cs[1], h*X.p[2]>>,
               <<0, 0, h*X.pd>> >>, h * X.pd)
    [] X.g = "Rn"   -> LET n == Len(X.x) IN
         RM([i \in 1..(n+1) |-> [j \in 1..(n+1) |-> IF i = j THEN X.pd ELSE IF j = n + 1 THEN X.x[i] ELSE 0]], X.pd)
    [] X.g = "Prod" -> LET Ms == [k \in 1..Len(X.fs) |-> Mat(X.fs[k])]
                           D  == ProdDen([k \in 1..Len(Ms) |-> Ms[k].den], Len(Ms))
                       IN RM(BlockDiag([k \in 1..Len(Ms) |-> MScale(D \div Ms[k].den, Ms[k].num)]), D)

(* parameter-level group operations (semidirect products) *)
RotV(q, u) == M3Vec(QMat(q), u)                       \* N(q) * R(q) u
RECURSIVE Prod(_, _)
Prod(X, Y) ==
  CASE X.g = "SO3"  -> [X EXCEPT !.q = QMul(X.q, Y.q)]
    [] X.g = "SE3"  -> LET N == QNorm(X.q) IN       \* p = px/pdx + R py/pdy  over  N pdx pdy
         [X EXCEPT !.q = QMul(X.q, Y.q),
                   !.p = VAdd(VScale(N * Y.pd, X.p), VScale(X.pd, RotV(X.q, Y.p))),
                   !.pd = N * X.pd * Y.pd]
    [] X.g = "SE23" -> LET N == QNorm(X.q) IN
         [X EXCEPT !.q = QMul(X.q, Y.q),
                   !.p = VAdd(VScale(N * Y.pd, X.p), VScale(X.pd, RotV(X.q, Y.p))),
                   !.v = VAdd(VScale(N * Y.pd, X.v), VScale(X.pd, RotV(X.q, Y.v))),
                   !.pd = N * X.pd * Y.pd]
    [] X.g = "SO2"  -> [X EXCEPT !.cs = CMul(X.cs, Y.cs)]
    [] X.g = "SE2"  -> LET h == X.cs[3] Rp == MVec(CMat(X.cs), Y.p) IN
         [X EXCEPT !.cs = CMul(X.cs, Y.cs),
                   !.p = VAdd(VScale(h * Y.pd, X.p), VScale(X.pd, Rp)), !.pd = h * X.pd * Y.pd]
    [] X.g = "Rn"   -> [X EXCEPT !.x = VAdd(VScale(Y.pd, X.x), VScale(X.pd, Y.x)), !.pd = X.pd * Y.pd]
    [] X.g = "Prod" -> [X EXCEPT !.fs = [k \in 1..Len(X.fs) |-> Prod(X.fs[k], Y.fs[k])]]

RECURSIVE Inv(_)
Inv(X) ==
  CASE X.g = "SO3"  -> [X EXCEPT !.q = QConj(X.q)]
    [] X.g = "SE3"  -> [X EXCEPT !.q = QConj(X.q), !.p = VNeg(RotV(QConj(X.q), X.p)), !.pd = QNorm(X.q) * X.pd]
    [] X.g = "SE23" -> [X EXCEPT !.q = QConj(X.q), !.p = VNeg(RotV(QConj(X.q), X.p)),
                                 !.v = VNeg(RotV(QConj(X.q), X.v)), !.pd = QNorm(X.q) * X.pd]
    [] X.g = "SO2"  -> [X EXCEPT !.cs = CInv(X.cs)]
    [] X.g = "SE2"  -> [X EXCEPT !.cs = CInv(X.cs), !.p = VNeg(MVec(CMat(CInv(X.cs)), X.p)), !.pd = X.cs[3] * X.pd]
    [] X.g = "Rn"   -> [X EXCEPT !.x = VNeg(X.x)]
    [] X.g = "Prod" -> [X EXCEPT !.fs = [k \in 1..Len(X.fs) |-> Inv(X.fs[k])]]

RECURSIVE IdOf(_)
IdOf(X) ==
  CASE X.g = "SO3"  -> [X EXCEPT !.q = QId]
    [] X.g = "SE3"  -> [X EXCEPT !.q = QId, !.p = <<0,0,0>>, !.pd = 1]
    [] X.g = "SE23" -> [X EXCEPT !.q = QId, !.p = <<0,0,0>>, !.v = <<0,0,0>>, !.pd = 1]
    [] X.g = "SO2"  -> [X EXCEPT !.cs = CId]
    [] X.g = "SE2"  -> [X EXCEPT !.cs = CId, !.p = <<0,0>>, !.pd = 1]
    [] X.g = "Rn"   -> [X EXCEPT !.x = [k \in 1..Len(X.x) |-> 0], !.pd = 1]
    [] X.g = "Prod" -> [X EXCEPT !.fs = [k \in 1..Len(X.fs) |-> IdOf(X.fs[k])]]

(* domain restrictions stated by the properties *)
RECURSIVE Valid(_)
Valid(X) ==         \* representable in its parameterisation, outside the excluded sets
  CASE X.g \in {"SO3", "SE3", "SE23"} ->
          /\ (X.rep = "mrp"   => MrpOk(X.q))
          /\ (X.rep = "euler" => ~AtGimbalPole(X.q))
    [] X.g = "Prod" -> \A k \in 1..Len(X.fs) : Valid(X.fs[k])
    [] OTHER -> TRUE
=============================================================================
