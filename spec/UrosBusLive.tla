----------------------------- MODULE UrosBusLive -----------------------------
(* Liveness of the simulation bus (growth beyond C20, which is a safety property).
   Checked under SPECIFICATION with fairness and WITHOUT a state constraint or VIEW
   (a constraint can hide non-progress cycles): the bounds are the guards of the
   actions themselves (nmsg < MaxPub, queue <= Horizon, relay budgets).

   FanOutTerminates   every publish call returns: a non-empty call stack empties again.
                      With cyclic relay wirings this is exactly what the budgets are for;
                      budget = "republish forever" is the real code's unbounded recursion
                      (RecursionError), which is why UrosBus carries budgets at all.
   AllDelivered       every message ever sent on a topic is eventually in the history of
                      every subscriber that was registered when it was sent.
   RunDrains          once Core.run has been called, and if every process re-arms with a
                      positive delay, simulated time passes every instant up to the horizon
                      (or the publication bound of the model is hit): no Zeno run.
   RowsKeepComing     a locked, running logger eventually writes the row of every period.  *)
EXTENDS UrosBusMC

FairSpec == Spec /\ WF_vars(Deliver) /\ WF_vars(PublishEnd)
                 /\ WF_vars(DoWake) /\ WF_vars(LoggerRow)

FanOutTerminates == (~Idle) ~> Idle

Owed(s, m) == Created(s) /\ m \in Range(Expected(s))
AllDelivered ==
    \A s \in SubIds : \A m \in 1..(MaxPub + NS) :
        Owed(s, m) ~> (m \in Range(recv[s]))

PosDelays == \A p \in Procs : \A d \in Delays(p) : d > 0
Drained   == nmsg >= MaxPub \/ Sched = {} \/ MinTime > Horizon
(* a process exists in the real code only together with its Publisher objects: behaviours in
   which a modelled process has no publisher to use are not executions of any program *)
Wired     == \A p \in Procs : \A t \in ProcTopics(p) : pubs[t] # "none"
RunDrains == PosDelays => ((running /\ Wired) ~> Drained)

RowsKeepComing ==
    \A k \in 0..Horizon :
        (running /\ locked /\ Wired /\ queue["log"] = k /\ nmsg < MaxPub) ~> (queue["log"] > k \/ nmsg >= MaxPub)
=============================================================================
