------------------------------ MODULE Controllers ------------------------------
(* C15 -- controller saturations and zero-error laws (cyecca/models/rdd2.py, rdd2_loglinear.py).

   The state `st` is the MEMORY THE CALLER FEEDS BACK into the next controller call
   (scripts/rdd2_sim.py: i0/e0/de0, z_i, psi_sp, pw_sp) plus, in "step" states, the inputs of
   the call that produced it.  Every recursion alternates
        mem  --Step(inputs)-->  step = (pre, inputs, post)  --Settle-->  mem = post
   so one dumped step state is a complete one-call test vector and the graph stays linear
   (not quadratic) in the number of inputs.  Machines (field m):

   rate   RateStep(e, dt)       i' = the point of the box [-lim, lim] nearest to i + e*dt
                                 units: e 1/8 rad/s, dt 1/256 s, i and lim 1/2048 rad (all dyadic)
   pos    PosStep(ez, dt, P)    z' = point of [-zmax, zmax] nearest to z - ez*dt;  the PD term
                                 P (units pmax/PD, pmax = 30 % of weight) is saturated to the ball
                                 of radius pmax along its own direction; Pythagorean P only, so
                                 the saturated vector is an exact rational  num/den * pmax
   vel    VelInput / VelReset / Move   yaw set-point k (units pi/N), set-point sp and vehicle pw
                                 in units 1/VU m; leash radius VL = 2 m.  The yaw wrap is the
                                 representative of k + yi modulo 2N in [-N, N]; at the tie both
                                 +N and -N are legal (nondeterministic).  VelInput is enabled
                                 only where the leashed point is an exact lattice point (short
                                 error, or Pythagorean error whose radial projection is integral)
   yaw    YawStep               the same call with a fine yaw lattice and the vehicle at rest

   and engine-A vector families (two-level seed/expand):  att (attitude error of a pair of
   signed integer quaternions), psat (saturation of the PD term), alpha (derivative filter
   coefficient enclosure), stick (linearity vectors).

   TLC proves the bounds as invariants of every reachable state and as the action property
   [][Bound => Bound']_st, and checks the independent characterisations (nearest-point law of
   the clamps, direction/length law of the ball projections, congruence of the wrap, rotation
   equation X*E = X_r of the attitude error).                                              *)
EXTENDS Rot, TLC, FiniteSets
CONSTANT Tier
VARIABLE st

Thorough == Tier = "thorough"
Zero3    == <<0, 0, 0>>

(* floor square root by bisection (46340^2 < 2^31) *)
RECURSIVE IsqrtB(_, _, _)
IsqrtB(n, lo, hi) == IF lo >= hi THEN lo
                     ELSE LET mid == (lo + hi + 1) \div 2
                          IN IF mid * mid <= n THEN IsqrtB(n, mid, hi) ELSE IsqrtB(n, lo, mid - 1)
Isqrt(n)    == IsqrtB(n, 0, 46340)
IsSquare(n) == LET r == Isqrt(n) IN r * r = n

(* Pythagorean base vectors <<b, |b|>> and their images under signed permutations *)
Bases == { <<<<1,0,0>>, 1>>, <<<<1,2,2>>, 3>>, <<<<0,3,4>>, 5>>, <<<<2,3,6>>, 7>>, <<<<2,10,11>>, 15>>,
           <<<<2,5,14>>, 15>>, <<<<4,13,16>>, 21>>, <<<<6,10,33>>, 35>> }
ASSUME \A bb \in Bases : NormSq(bb[1]) = bb[2] * bb[2] /\ 105 % bb[2] = 0
Perms(b)  == { <<b[1],b[2],b[3]>>, <<b[2],b[3],b[1]>>, <<b[3],b[1],b[2]>>,
               <<b[1],b[3],b[2]>>, <<b[3],b[2],b[1]>>, <<b[2],b[1],b[3]>> }
Signs(b)  == { <<s1*b[1], s2*b[2], s3*b[3]>> : s1 \in {-1,1}, s2 \in {-1,1}, s3 \in {-1,1} }
Orbit(b)  == UNION { Signs(p) : p \in Perms(b) }

(* =============================== rate integrator =================================== *)
RateLims == IF Thorough THEN { <<3,2,0>>, <<6,1,4>>, <<4,4,4>>, <<1,20,5>> } ELSE { <<3,2,0>>, <<6,1,4>> }
RateEs   == IF Thorough THEN { <<a,b,c>> : a \in {-3,-1,0,2}, b \in {-2,1,5}, c \in {-9,0,1} }
            ELSE { <<0,0,0>>, <<1,-1,2>>, <<-1,2,0>>, <<3,0,-1>>, <<-2,-3,1>>, <<0,1,-2>>, <<5,-5,5>>,
                   <<-7,7,-7>>, <<1,1,1>>, <<-1,-1,-1>> }
RateDts  == IF Thorough THEN {1, 3, 7} ELSE {1, 2, 3}

Nearest1(x, lim, y) == \* y is the point of [-lim, lim] nearest to x
    /\ -lim <= y /\ y <= lim
    /\ \A c \in (-lim)..lim : Abs(x - y) <= Abs(x - c)
ClampV(x, lim) == << Clamp(x[1], -lim[1], lim[1]), Clamp(x[2], -lim[2], lim[2]), Clamp(x[3], -lim[3], lim[3]) >>
InBox(i, lim)  == \A k \in 1..3 : -lim[k] <= i[k] /\ i[k] <= lim[k]

RateMem(lim, i) == [m |-> "rate", op |-> "mem", lim |-> lim, i |-> i]
RateInit == \E lim \in RateLims : \E i \in { Zero3, lim, VNeg(lim) } : st = RateMem(lim, i)
RateStep == /\ st.m = "rate" /\ st.op = "mem"
            /\ \E e \in RateEs, dt \in RateDts :
                 st' = [m |-> "rate", op |-> "RateStep", lim |-> st.lim,
                        i |-> ClampV(VAdd(st.i, VScale(dt, e)), st.lim),
                        pre |-> [i |-> st.i], in |-> [e |-> e, dt |-> dt]]

(* =============================== position loop ===================================== *)
PD      == 105                      \* the PD term is P * pmax / PD
PosZmax == IF Thorough THEN {0, 4, 10, 25} ELSE {0, 4}
PosEz   == IF Thorough THEN (-3)..3 ELSE {-3, 0, 1, 2}
PosDts  == {1, 2, 3}
PosPs   == { Zero3, <<35,70,70>>, <<36,72,72>>, <<-28,-42,-84>>, <<32,48,-96>>, <<0,0,500>>, <<0,0,-105>>,
             <<30,-50,165>>, <<0,63,-84>>, <<-66,0,88>> }
ASSUME \A p \in PosPs : IsSquare(NormSq(p))

(* ball projection of an integer vector P with integer norm onto radius PD, in units of the
   radius:  num/den.  Defined by cases here, CHARACTERISED independently by SatLaw below. *)
Sat(P) == LET n2 == NormSq(P) IN
          IF n2 <= PD * PD THEN [num |-> P, den |-> PD] ELSE [num |-> P, den |-> Isqrt(n2)]
SatLaw(P, s) ==
    /\ s.den > 0
    /\ NormSq(s.num) <= s.den * s.den                                      \* |sat| <= pmax
    /\ Cross(s.num, P) = Zero3 /\ Dot(s.num, P) >= 0                       \* same direction
    /\ (NormSq(P) <= PD * PD => VScale(PD, s.num) = VScale(s.den, P))      \* untouched inside
    /\ (NormSq(P) >  PD * PD => NormSq(s.num) = s.den * s.den)             \* on the sphere outside
PCell(P) == LET n2 == NormSq(P) IN IF n2 = 0 THEN "zero" ELSE IF n2 < PD * PD THEN "inside"
            ELSE IF n2 = PD * PD THEN "boundary" ELSE "outside"

PosMem(zmax, z) == [m |-> "pos", op |-> "mem", zmax |-> zmax, z |-> z]
PosInit == \E zmax \in PosZmax : \E z \in {0, zmax, -zmax} : st = PosMem(zmax, z)
PosStep == /\ st.m = "pos" /\ st.op = "mem"
           /\ \E ez \in PosEz, dt \in PosDts, P \in PosPs :
                st' = [m |-> "pos", op |-> "PosStep", zmax |-> st.zmax,
                       z |-> Clamp(st.z - ez * dt, -st.zmax, st.zmax),
                       pre |-> [z |-> st.z], in |-> [ez |-> ez, dt |-> dt, P |-> P],
                       psat |-> Sat(P), cell |-> PCell(P)]

(* =============================== velocity-mode input =============================== *)
VU == 210                           \* length units per metre
VL == 2 * VU                        \* leash: 2 m
(* stick authority ASSUMED by the spec only to keep the sticks the harness solves for inside
   [-1,1] (the harness calibrates the real gains on the code and refuses to run if they are
   smaller): 2 m/s horizontal, 1 m/s vertical, 60 deg/s yaw = N/3 yaw units per second.     *)
DtQs == {1, 2, 4, 8}                \* dt in quarter seconds
StickOk(N, yi, d, dtq) == /\ 12 * Abs(yi) <= N * dtq
                          /\ 4 * (d[1]*d[1] + d[2]*d[2]) <= (dtq * VU) * (dtq * VU)     \* |d_xy| <= 2 dt
                          /\ 4 * Abs(d[3]) <= dtq * VU                                  \* |d_z|  <= 1 dt
DtFor(N, yi, d) == CHOOSE dtq \in DtQs : StickOk(N, yi, d, dtq) /\ \A o \in DtQs : StickOk(N, yi, d, o) => dtq <= o
DtChoices(N, yi, d) == IF Thorough /\ yi = 0 THEN { DtFor(N, yi, d), 8 } ELSE { DtFor(N, yi, d) }   \* shortest admissible step (and 2 s)

(* wrap of the yaw index: representatives of x modulo 2N in [-N, N] *)
Wraps(N, x) == { y \in (-N)..N : (y - x) % (2 * N) = 0 }

(* leash: radial projection of e onto the ball of radius VL, where it is a lattice point *)
LeashExact(e) == LET n2 == NormSq(e) IN
                 IF n2 <= VL * VL THEN TRUE
                 ELSE LET r == Isqrt(n2) IN r * r = n2 /\ \A k \in 1..3 : (VL * e[k]) % r = 0
Leash(e) == LET n2 == NormSq(e) IN
            IF n2 <= VL * VL THEN e
            ELSE LET r == Isqrt(n2) IN << (VL * e[1]) \div r, (VL * e[2]) \div r, (VL * e[3]) \div r >>
LeashLaw(e, f) == /\ NormSq(f) <= VL * VL
                  /\ Cross(f, e) = Zero3 /\ Dot(f, e) >= 0
                  /\ (NormSq(e) <= VL * VL => f = e)
                  /\ (NormSq(e) >  VL * VL => NormSq(f) = VL * VL)
LCell(e) == LET n2 == NormSq(e) IN IF n2 = 0 THEN "zero" ELSE IF n2 < VL * VL THEN "inside"
            ELSE IF n2 = VL * VL THEN "boundary" ELSE "outside"

(* direction pairs used by one behaviour: <<b1, |b1|, b2, |b2|>> *)
VelDirs == IF Thorough
           THEN { <<<<1,2,2>>,3, <<0,1,0>>,1>>, <<<<2,10,11>>,15, <<0,0,1>>,1>>, <<<<6,10,-33>>,35, <<-2,2,1>>,3>> }
           ELSE { <<<<1,2,2>>,3, <<0,1,0>>,1>>, <<<<2,-3,6>>,7, <<4,0,-3>>,5>> }
VelN    == IF Thorough THEN 4 ELSE 2
VelBox  == 2 * VU
Along(b, nb, len) == VScale(len \div nb, b)                    \* the vector of length len along b (nb | len)
(* commanded set-point displacements (world frame): along both directions of the behaviour *)
VelDs(dr) == { Zero3, Along(dr[1], dr[2], VU \div 2), VNeg(Along(dr[1], dr[2], VU \div 2)), Along(dr[1], dr[2], VU),
               Along(dr[3], dr[4], VU \div 2) }
(* vehicle motion: along the first direction only (keeps the graph small) *)
VelMs(dr) == { Along(dr[1], dr[2], VU \div 2), VNeg(Along(dr[1], dr[2], VU)), Along(dr[1], dr[2], 3 * VU) }
VelYis  == {-1, 0, 1}

VelMem(N, dr, k, sp, pw) == [m |-> "vel", op |-> "mem", N |-> N, dr |-> dr, k |-> k, sp |-> sp, pw |-> pw]
VelInit == \E dr \in VelDirs : \E sp \in { Zero3, Along(dr[3], dr[4], 5 * VU) } : \E k \in {0, VelN} :
              st = VelMem(VelN, dr, k, sp, Zero3)
VelCall(yi, d, reset) ==          \* one call of the velocity-mode input; vehicle at st.pw
    LET e == IF reset THEN Zero3 ELSE VSub(VAdd(st.sp, d), st.pw) IN
    /\ LeashExact(e)
    /\ StickOk(st.N, yi, d, 8)
    /\ \E k2 \in Wraps(st.N, st.k + yi), dtq \in DtChoices(st.N, yi, d) :
         st' = [m |-> st.m, op |-> IF reset THEN "VelReset" ELSE "VelInput", N |-> st.N, dr |-> st.dr,
                k |-> k2, sp |-> VAdd(st.pw, Leash(e)), pw |-> st.pw,
                pre |-> [k |-> st.k, sp |-> st.sp],
                in |-> [yi |-> yi, d |-> d, dtq |-> dtq, reset |-> reset],
                err |-> e, cell |-> LCell(e), tie |-> Cardinality(Wraps(st.N, st.k + yi)) > 1]
(* quick tier: the yaw increment is tied to the displacement choice (keeps the product small);
   thorough: every combination *)
YiFor(dr, d) == IF d = Zero3 THEN {0, 1} ELSE IF d = Along(dr[1], dr[2], VU \div 2) THEN {1}
                ELSE IF d = Along(dr[1], dr[2], VU) THEN {0} ELSE {-1}
VelInput == /\ st.m = "vel" /\ st.op = "mem"
            /\ \E d \in VelDs(st.dr) : \E yi \in (IF Thorough THEN VelYis ELSE YiFor(st.dr, d)) : VelCall(yi, d, FALSE)
VelReset == /\ st.m = "vel" /\ st.op = "mem"
            /\ \E yi \in (IF Thorough THEN {0, 1} ELSE {1}) : VelCall(yi, Along(st.dr[1], st.dr[2], VU), TRUE)
Move     == /\ st.m = "vel" /\ st.op = "mem"
            /\ \E mv \in VelMs(st.dr) :
                 LET p2 == VAdd(st.pw, mv) IN
                 /\ \A c \in 1..3 : Abs(p2[c]) <= VelBox
                 /\ st' = [st EXCEPT !.pw = p2]                   \* the vehicle moves; memory untouched

(* fine yaw lattice, vehicle at rest, no translation command *)
YawNs   == IF Thorough THEN {12, 45} ELSE {12}
YawYis(N) == IF N = 12 THEN (-4)..4 ELSE {-15, -7, -1, 0, 1, 2, 15}
YawInit == \E N \in YawNs : \E k \in {0, N, -N} :
              st = [m |-> "yaw", op |-> "mem", N |-> N, dr |-> <<<<1,0,0>>,1,<<0,1,0>>,1>>, k |-> k, sp |-> Zero3, pw |-> Zero3]
YawStep == /\ st.m = "yaw" /\ st.op = "mem"
           /\ \E yi \in YawYis(st.N) : VelCall(yi, Zero3, FALSE)

(* =============================== Settle ============================================ *)
StepOps == {"RateStep", "PosStep", "VelInput", "VelReset"}
Settle == /\ st.op \in StepOps
          /\ st' = CASE st.m = "rate" -> RateMem(st.lim, st.i)
                     [] st.m = "pos"  -> PosMem(st.zmax, st.z)
                     [] OTHER         -> [m |-> st.m, op |-> "mem", N |-> st.N, dr |-> st.dr, k |-> st.k,
                                          sp |-> st.sp, pw |-> st.pw]

(* =============================== vector families =================================== *)
(* --- attitude error of a pair (q measured, qr reference): E = q^-1 * qr --- *)
AttBase  == IF Thorough THEN { q \in QLat(2) : Primitive(q) } ELSE QLat(1)
(* selected error rotations r (the reference is q*r): near identity, both sides of the Taylor
   switches, near and exactly 180 deg, both quaternion signs *)
AttSpecial == { <<10000,1,0,0>>, <<-10000,1,-2,2>>, <<2000,0,1,0>>, <<-1999,0,0,1>>, <<64,1,0,0>>, <<63,1,0,0>>,
                <<-64,0,1,0>>, <<32,0,0,1>>, <<31,0,0,-1>>, <<1,0,0,100>>, <<-1,100,100,0>>, <<1,20,-20,10>>,
                <<-1,0,150,0>>, <<1,0,0,300>>, <<-1,0,1000,0>>, <<0,1,2,2>>, <<0,0,0,-1>>, <<-1,0,0,0>>, <<-3,0,0,0>>, <<5,0,0,0>>, <<-5,0,0,0>>,
                <<-7,0,0,0>> }
AttSpecialQ == { <<1,0,0,0>>, <<-1,1,1,0>>, <<1,-1,1,1>>, <<0,1,0,-1>>, <<-1,-1,-1,-1>>, <<0,0,1,0>>,
                 <<-3,-3,-3,-2>>, <<-3,-3,-2,-1>>, <<-3,-2,-1,-1>>, <<3,1,2,1>>, <<1,2,3,4>>, <<2,-3,1,3>>, <<-3,-1,-2,-1>> }
QRed(q) == LET g == Gcd(Gcd(q[1], q[2]), Gcd(q[3], q[4])) IN << q[1] \div g, q[2] \div g, q[3] \div g, q[4] \div g >>
ECell(e) == LET v2 == e[2]*e[2] + e[3]*e[3] + e[4]*e[4] IN
            IF v2 = 0 THEN (IF e[1] > 0 THEN "same/qr=+q" ELSE "same/qr=-q")
            ELSE IF e[1] = 0 THEN "pi"
            ELSE IF e[1] < 200 /\ e[1] > -200 /\ v2 >= 40000 * e[1] * e[1] THEN "nearpi"     \* within 0.01 rad of 180 deg
            ELSE IF e[1] < 0 THEN "wneg" ELSE "wpos"
AttVec(q, qr, e) == [m |-> "vec", op |-> "att", q |-> q, qr |-> qr, e |-> e, same |-> (e[2] = 0 /\ e[3] = 0 /\ e[4] = 0),
                     cell |-> ECell(e)]

(* --- derivative filter coefficient: enclosure of x/(x+1), x = 2 pi dt f, with 201/64 < pi < 3217/1024 --- *)
Pow2s(lo, hi) == { <<n, d>> \in {1, 2, 4, 8, 16, 64, 256, 1024, 4096} \X {1, 2, 4, 8, 16, 64, 256, 1024, 4096} :
                     (n = 1 \/ d = 1) /\ d <= lo /\ n <= hi }
AlphaDts == Pow2s(4096, 4)          \* 2^-12 .. 4 s
AlphaFs  == Pow2s(16, 4096)         \* 1/16 .. 4096 Hz
ASSUME 201 * 1024 < 3217 * 64          \* the lower surrogate of pi is below the upper one
RatRed(n, d) == LET g == Gcd(n, d) IN <<n \div g, d \div g>>
AlphaVec(dt, f) ==
    LET xlo == RatRed(2 * 201 * dt[1] * f[1], 64 * dt[2] * f[2])
        xhi == RatRed(2 * 3217 * dt[1] * f[1], 1024 * dt[2] * f[2])
    IN [m |-> "vec", op |-> "alpha", dt |-> dt, f |-> f, lo |-> <<xlo[1], xlo[1] + xlo[2]>>, hi |-> <<xhi[1], xhi[1] + xhi[2]>>]

(* --- stick maps: sticks in eighths; abstract diagonal gain G --- *)
StickSet == IF Thorough
            THEN { <<a,b,c,d>> : a \in {-8,-3,0,8}, b \in {-8,0,5,8}, c \in {-8,-1,0,8}, d \in {-8,0,2,8} }
            ELSE { <<0,0,0,0>>, <<8,0,0,0>>, <<0,8,0,0>>, <<0,0,8,0>>, <<0,0,0,8>>, <<-8,-8,-8,-8>>, <<8,8,8,8>>,
                   <<4,-4,2,-2>>, <<-3,5,-8,1>>, <<8,-8,8,-8>>, <<1,1,1,1>>, <<-5,0,3,-7>>, <<0,-2,0,6>>, <<-8,8,4,0>> }
Lams == { <<-1,1>>, <<-1,2>>, <<0,1>>, <<1,4>>, <<1,2>>, <<3,4>>, <<1,1>>, <<2,1>> }
InStickBox(s) == \A k \in 1..4 : -8 <= s[k] /\ s[k] <= 8
GainSet == { <<60, 60, 1, 60>>, <<-30, 7, 0, 2>> }
SMap(G, s) == << G[1]*s[1], G[2]*s[2], G[3]*s[3], G[4]*s[4] >>
StickLaw(s1, s2, lam) == \A G \in GainSet :
    /\ SMap(G, VAdd(s1, s2)) = VAdd(SMap(G, s1), SMap(G, s2))                       \* additive
    /\ LET u == << (lam[1]*s1[1]) \div lam[2], (lam[1]*s1[2]) \div lam[2], (lam[1]*s1[3]) \div lam[2], (lam[1]*s1[4]) \div lam[2] >>
       IN VScale(lam[2], SMap(G, u)) = VScale(lam[1], SMap(G, s1))                  \* homogeneous (u = lam*s1 exactly)
    /\ \A k \in 1..4 : Abs(SMap(G, s1)[k]) <= Abs(SMap(G, <<8,8,8,8>>)[k])         \* bounded by full stick

(* --- seeds and expansion --- *)
VecInit == \/ \E q \in AttBase : st = [m |-> "vec", op |-> "seed", fam |-> "att", q |-> q]
           \/ \E q \in AttSpecialQ : st = [m |-> "vec", op |-> "seed", fam |-> "attx", q |-> q]
           \/ \E bb \in Bases : st = [m |-> "vec", op |-> "seed", fam |-> "psat", b |-> bb[1], nb |-> bb[2]]
           \/ \E dt \in AlphaDts : st = [m |-> "vec", op |-> "seed", fam |-> "alpha", dt |-> dt]
           \/ \E s1 \in StickSet : st = [m |-> "vec", op |-> "seed", fam |-> "stick", s1 |-> s1]
           \/ \E lim \in RateLims : st = [m |-> "vec", op |-> "seed", fam |-> "ratex", lim |-> lim]
           \/ \E zmax \in PosZmax : st = [m |-> "vec", op |-> "seed", fam |-> "posx", zmax |-> zmax]
(* the property quantifies over ALL previous integrator states and limits, also a previous state that
   lies outside the current limit (limit lowered / re-tuned between two steps, state set externally):
   the OUTPUT must still be inside +-i_max.  Same record shape as a RateStep of the recursion (op RateAny).        *)
RateOutside(lim) == { <<2*lim[1] + 1, -3*lim[2] - 2, lim[3] + 5>>, <<-lim[1] - 4, lim[2], 7*lim[3] + 1>>,
                      <<lim[1], 2*lim[2] + 3, -2*lim[3] - 1>>, <<-5*lim[1] - 1, -lim[2] - 1, -lim[3] - 9>> }
(* the same for the height integrator of the position controller (op PosAny, record shape of a PosStep): a previous
   value outside [-zmax, zmax] -- with the shipped zmax = 0 that is every non-zero value -- and a PD term in every cell,
   in particular a SATURATED one (an anti-windup "hold while saturated" keeps an outside value outside) *)
PosOutside(zmax) == { zmax + 3, -zmax - 1, 2 * zmax + 7, -5 * zmax - 2 }
PScales(nb) == { 0, 1, PD \div nb - 1, PD \div nb, PD \div nb + 1, 2 * (PD \div nb), 5 * (PD \div nb) }
Expand == /\ st.op = "seed"
          /\ \/ /\ st.fam = "att"
                /\ \E qr \in AttBase : st' = AttVec(st.q, qr, QRed(QMul(QConj(st.q), qr)))
             \/ /\ st.fam = "attx"
                /\ \E r \in AttSpecial : st' = AttVec(st.q, QMul(st.q, r), QRed(r))
             \/ /\ st.fam = "psat"
                /\ \E v \in Orbit(st.b), t \in PScales(st.nb) :
                      LET P == VScale(t, v) IN
                      st' = [m |-> "vec", op |-> "psat", P |-> P, psat |-> Sat(P), cell |-> PCell(P)]
             \/ /\ st.fam = "ratex"
                /\ \E i0 \in RateOutside(st.lim), e \in RateEs, dt \in RateDts :
                      st' = [m |-> "vec", op |-> "RateAny", lim |-> st.lim,
                             i |-> ClampV(VAdd(i0, VScale(dt, e)), st.lim),
                             pre |-> [i |-> i0], in |-> [e |-> e, dt |-> dt]]
             \/ /\ st.fam = "posx"
                /\ \E z0 \in PosOutside(st.zmax), ez \in PosEz, dt \in PosDts, P \in PosPs :
                      st' = [m |-> "vec", op |-> "PosAny", zmax |-> st.zmax,
                             z |-> Clamp(z0 - ez * dt, -st.zmax, st.zmax),
                             pre |-> [z |-> z0], in |-> [ez |-> ez, dt |-> dt, P |-> P],
                             psat |-> Sat(P), cell |-> PCell(P)]
             \/ /\ st.fam = "alpha"
                /\ \E f \in AlphaFs : st' = AlphaVec(st.dt, f)
             \/ /\ st.fam = "stick"
                /\ \E s2 \in StickSet, lam \in Lams :
                      /\ InStickBox(VAdd(st.s1, s2))
                      /\ \A k \in 1..4 : (lam[1] * st.s1[k]) % lam[2] = 0 /\ Abs(lam[1] * st.s1[k]) <= 8 * lam[2]
                      /\ st' = [m |-> "vec", op |-> "stick", s1 |-> st.s1, s2 |-> s2, lam |-> lam]

(* =============================== specification ===================================== *)
Init == RateInit \/ PosInit \/ VelInit \/ YawInit \/ VecInit
Next == RateStep \/ PosStep \/ VelInput \/ VelReset \/ Move \/ YawStep \/ Settle \/ Expand
Spec == Init /\ [][Next]_st

(* only the recursions (for -simulate: behaviours never end in a vector state) *)
InitRec == RateInit \/ PosInit \/ VelInit \/ YawInit
NextRec == RateStep \/ PosStep \/ VelInput \/ VelReset \/ Move \/ YawStep \/ Settle
SpecRec == InitRec /\ [][NextRec]_st

(* =============================== what TLC proves =================================== *)
(* the bounds of the property, as a predicate of one state *)
Bound(s) ==
    /\ s.m = "rate" => InBox(s.i, s.lim)
    /\ (s.m = "vec" /\ s.op = "RateAny") => InBox(s.i, s.lim)          \* output inside, whatever the previous state
    /\ (s.m = "vec" /\ s.op = "PosAny") => -s.zmax <= s.z /\ s.z <= s.zmax     \* output inside, whatever the previous value
    /\ s.m = "pos"  => /\ -s.zmax <= s.z /\ s.z <= s.zmax
                       /\ s.op = "PosStep" => NormSq(s.psat.num) <= s.psat.den * s.psat.den
    /\ s.m \in {"vel", "yaw"} =>
                       /\ -s.N <= s.k /\ s.k <= s.N
                       /\ s.op \in {"VelInput", "VelReset"} => NormSq(VSub(s.sp, s.pw)) <= VL * VL
                       /\ s.op = "VelReset" => s.sp = s.pw
BoundInv  == Bound(st)
BoundStep == [][Bound(st) => Bound(st')]_st             \* inductive step, as an action property

(* independent characterisations of the expected values *)
RateLaw == st.op \in {"RateStep", "RateAny"} =>
              \A k \in 1..3 : Nearest1(st.pre.i[k] + st.in.e[k] * st.in.dt, st.lim[k], st.i[k])
PosLaw  == st.op \in {"PosStep", "PosAny"} =>
              /\ Nearest1(st.pre.z - st.in.ez * st.in.dt, st.zmax, st.z)
              /\ SatLaw(st.in.P, st.psat)
PSatLaw == st.op = "psat" => SatLaw(st.P, st.psat)
VelLaw  == st.op \in {"VelInput", "VelReset"} =>
              /\ LeashLaw(st.err, VSub(st.sp, st.pw))
              /\ (st.k - st.pre.k - st.in.yi) % (2 * st.N) = 0             \* same angle modulo 2 pi
              /\ StickOk(st.N, st.in.yi, st.in.d, st.in.dtq)
              /\ (st.in.reset => st.err = Zero3) /\ (~st.in.reset => st.err = VSub(VAdd(st.pre.sp, st.in.d), st.pw))
              /\ (st.tie <=> (st.k = st.N \/ st.k = -st.N))
QSmallC(q) == \A k \in 1..4 : Abs(q[k]) <= 30                             \* 32-bit guard for the matrix laws
AttGuard == /\ st.op = "att" /\ QSmallC(st.q) /\ QSmallC(st.qr) /\ QSmallC(st.e)
            /\ QNorm(st.q) * QNorm(st.e) < 2000 /\ QNorm(st.qr) < 2000
AttLaw  == AttGuard =>
              /\ (st.same <=> SameRot(st.q, st.qr))                         \* zero error <=> same rotation
              /\ MScale(QNorm(st.qr), M3Mul(QMat(st.q), QMat(st.e)))        \* X * E = X_r as rotations
                    = MScale(QNorm(st.q) * QNorm(st.e), QMat(st.qr))
AlphaLaw == st.op = "alpha" =>
              /\ 0 < st.lo[1] /\ st.lo[1] < st.lo[2] /\ 0 < st.hi[1] /\ st.hi[1] < st.hi[2]      \* 0 < lo, hi < 1
StickInv == st.op = "stick" => StickLaw(st.s1, st.s2, st.lam)
=============================================================================
