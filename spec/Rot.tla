--------------------------------- MODULE Rot ---------------------------------
(* SO(3) in exact arithmetic: signed integer quaternions.

   A rotation is Q = <<w, x, y, z>> in Z^4 \ {0};  N = |Q|^2;  its rotation matrix is the
   exact rational matrix QMat(Q)/N.  The SIGN of Q carries representation detail:
     unit quaternion  q = Q/sqrt(N)              (either sign is the same rotation)
     MRP              r = (x,y,z)/(sqrt(N)+w)    (non-shadow iff w >= 0, shadow iff w < 0,
                                                 singular iff (x,y,z) = 0 /\ w < 0)
     DCM              R = QMat(Q)/N
     Euler B321       (psi, theta, phi) with R = Rz(psi) Ry(theta) Rx(phi)
   Rational rotations are dense in SO(3).  Explicit expansions (no recursion) keep TLC fast. *)
EXTENDS IntLin

QW(q) == q[1]
QV(q) == <<q[2], q[3], q[4]>>
QOf(w, v) == <<w, v[1], v[2], v[3]>>
QId   == <<1, 0, 0, 0>>
QNorm(q) == q[1]*q[1] + q[2]*q[2] + q[3]*q[3] + q[4]*q[4]
QConj(q) == <<q[1], -q[2], -q[3], -q[4]>>
QNeg(q)  == <<-q[1], -q[2], -q[3], -q[4]>>
(* Hamilton product (textbook definition (a + u)(b + v) = ab - u.v + a v + b u + u x v) *)
QMul(q, p) == << q[1]*p[1] - q[2]*p[2] - q[3]*p[3] - q[4]*p[4],
                 q[1]*p[2] + q[2]*p[1] + q[3]*p[4] - q[4]*p[3],
                 q[1]*p[3] + q[3]*p[1] + q[4]*p[2] - q[2]*p[4],
                 q[1]*p[4] + q[4]*p[1] + q[2]*p[3] - q[3]*p[2] >>
(* N * R(Q) from the action v |-> Q v Q^* on the basis vectors:
   R = (w^2 - |u|^2) I + 2 u u^T + 2 w [u]x                                            *)
QMat(q) == LET w == q[1] x == q[2] y == q[3] z == q[4] IN
   << << w*w + x*x - y*y - z*z, 2*(x*y - w*z),          2*(x*z + w*y) >>,
      << 2*(x*y + w*z),          w*w - x*x + y*y - z*z, 2*(y*z - w*x) >>,
      << 2*(x*z - w*y),          2*(y*z + w*x),          w*w - x*x - y*y + z*z >> >>
RECURSIVE QPow(_, _)
QPow(q, k) == IF k = 0 THEN QId ELSE IF k < 0 THEN QPow(QConj(q), -k) ELSE QMul(q, QPow(q, k - 1))

(* 3x3 explicit products *)
M3Mul(A, B) == FM([i \in 1..3 |-> [j \in 1..3 |-> A[i][1]*B[1][j] + A[i][2]*B[2][j] + A[i][3]*B[3][j]]])
M3Vec(A, v) == Fv([i \in 1..3 |-> A[i][1]*v[1] + A[i][2]*v[2] + A[i][3]*v[3]])
M3T(A)      == FM([i \in 1..3 |-> [j \in 1..3 |-> A[j][i]]])
I3          == << <<1,0,0>>, <<0,1,0>>, <<0,0,1>> >>
Z3          == << <<0,0,0>>, <<0,0,0>>, <<0,0,0>> >>

(* lattices *)
QLat(K)   == { q \in ((-K)..K) \X ((-K)..K) \X ((-K)..K) \X ((-K)..K) : q # <<0,0,0,0>> }
MrpOk(q)  == ~(q[2] = 0 /\ q[3] = 0 /\ q[4] = 0 /\ q[1] < 0)      \* MRP of q exists
(* primitive representatives only (gcd 1): same rotation set, fewer duplicates *)
Primitive(q) == Gcd(Gcd(q[1], q[2]), Gcd(q[3], q[4])) = 1
(* Euler B321 gimbal band: pitch = asin(-R[3][1]/N) within the band iff |R31| = N on the
   lattice (the next-closest lattice values are > 0.4 rad away); exact pole test         *)
AtGimbalPole(q) == LET r == 2*(q[2]*q[4] - q[1]*q[3]) IN r = QNorm(q) \/ r = -QNorm(q)
(* Shepperd branch taken by the textbook matrix->quaternion algorithm (coverage accounting) *)
ShepperdBranch(q) == LET M == QMat(q) tr == M[1][1] + M[2][2] + M[3][3] IN
    IF tr > 0 THEN 1 ELSE IF M[1][1] > M[2][2] /\ M[1][1] > M[3][3] THEN 2
    ELSE IF M[2][2] > M[3][3] THEN 3 ELSE 4
(* rotation equality up to scale and sign:  QMat(p)/N(p) = QMat(q)/N(q) *)
SameRot(p, q) == MScale(QNorm(q), QMat(p)) = MScale(QNorm(p), QMat(q))
Proper(q) == LET M == QMat(q) n == QNorm(q) IN
             M3Mul(M, M3T(M)) = MScale(n * n, I3) /\ Det3(M) = n * n * n
=============================================================================
