SPECIFICATION Spec
CONSTANTS
  Cfgs <- CfgsThorough
  Horizons = {20000, 31000, 60000}
  ChangeTo <- ChangeThorough
  MaxCh = 1
INVARIANTS TypeOK StampIsNow StateIsCurrent NoTimeLost Monotone Paired ImuRate MagRate ImuPeriodExact MagPeriodExact NeverFaster Counts LoopPeriod
CHECK_DEADLOCK FALSE
