SPECIFICATION Spec
CONSTANTS
  Cfgs <- CfgsThorough
  Horizons = {31000, 60000}
  ChangeTo <- ChangeThorough
  MaxCh = 1
  TieBudget = 4
  ChangeBy = 10
INVARIANTS TypeOK StampIsNow StateIsCurrent NoTimeLost Monotone Paired ImuRate MagRate ImuPeriodExact MagPeriodExact NeverFaster Counts LoopPeriod
CHECK_DEADLOCK FALSE
