------------------------------ MODULE ReplayNode ------------------------------
(* G03 (growth) -- the schedule of the ULogReplay node (cyecca/sim/replay.py): which logged sample
   is put on which bus topic at which simulated time.

   Transcription (one model step per observable effect; the comments quote the code):

        __init__   for topic in ulog.data_list: for i, timestamp in enumerate(topic.data["timestamp"]):
                       event_list.append(LogEvent(timestamp, i, topic))
                   event_list.sort(key=lambda x: x.timestamp)
                       -- Python's list.sort is STABLE: events with equal stamps stay in the order of the
                          flattened list = (position of the topic in data_list, index of the sample)
                   for topic in topic_list: one Publisher per HANDLED topic name (ignored: none; unknown: printed)
        run        t0 = event_list[0].timestamp / 1e6
                   for every event, in list order:
   Wait                t = event.timestamp / 1e6 - t0 ; wait = t - core.now ; assert wait >= 0
                       yield core.timeout(wait)
   Publish             handled name: build the message (time = t, fields copied), pubs[name].publish(m)
   Skip                ignored name: nothing; any other name: print only
   End             the process returns; core.run() returns when nothing is scheduled any more

   Time is integer microseconds RELATIVE to the first stamp of the log; only differences of stamps
   enter, so a configuration stands for all its translates (the harness replays every
   configuration at several absolute offsets, up to days of up-time).

   A configuration is [names |-> <<log topic names in data_list order>>, stamps |-> <<one sequence
   of stamps per topic>>].  Stamps within a topic need not increase (the code does not assume it).

   The node state is ONE record (variable rp); the step relation is given by set-valued operators
   (WaitS, PubS, SkipS, EndS) so that ReplayNodeTrace can re-use it.  `out` is a history variable:
   what has been published so far, in order.                                                     *)
EXTENDS Integers, Sequences, FiniteSets, TLC

CONSTANTS Tier      \* "quick" | "thorough" | "none" (trace validation): selects the lattice of configurations (end of the module)
VARIABLE rp

(* ---- the mapping log topic -> bus topic / message class ---------------------------------- *)
HandledNames == << "sensor_combined", "vehicle_magnetometer", "estimator_status", "vehicle_attitude_groundtruth", "vehicle_attitude" >>
BusOf        == << "imu", "mag", "log_status", "ground_truth_attitude", "log_attitude" >>
TyOf         == << "Imu", "Mag", "EstimatorStatus", "Attitude", "Attitude" >>
IgnoredNames == { "vehicle_air_data", "vehicle_rates_setpoint", "vehicle_attitude_setpoint", "rate_ctrl_status",
                  "actuator_controls_0", "vehicle_local_position", "vehicle_local_position_groundtruth",
                  "vehicle_global_position", "vehicle_global_position_groundtruth", "vehicle_actuator_outputs",
                  "vehicle_gps_position", "vehicle_local_position_setpoint", "actuator_outputs", "battery_status",
                  "manual_control_setpoint", "vehicle_land_detected", "telemetry_status", "vehicle_status_flags",
                  "vehicle_status", "sensor_preflight", "vehicle_command", "commander_state", "actuator_armed",
                  "sensor_selection", "input_rc", "ekf2_innovations", "system_power", "radio_status", "cpuload",
                  "ekf_gps_drift", "home_position", "mission_result", "position_setpoint_triplet", "ekf2_timestamps" }
IsHandled(n) == \E j \in 1..5 : HandledNames[j] = n
HIdx(n) == CHOOSE j \in 1..5 : HandledNames[j] = n
Bus(n) == BusOf[HIdx(n)]
Ty(n)  == TyOf[HIdx(n)]
Kind(n) == IF IsHandled(n) THEN "handled" ELSE IF n \in IgnoredNames THEN "ignored" ELSE "unknown"

(* ---- the merged event list: events are <<p, k, s>> = topic position, sample index, stamp ---- *)
RECURSIVE TopicEvents(_, _, _)
TopicEvents(p, ss, k) == IF k > Len(ss) THEN << >> ELSE << <<p, k, ss[k]>> >> \o TopicEvents(p, ss, k + 1)
RECURSIVE Flat(_, _)
Flat(stamps, p) == IF p > Len(stamps) THEN << >> ELSE TopicEvents(p, stamps[p], 1) \o Flat(stamps, p + 1)
(* insertion of e behind everything that is not later than e: what a stable sort does to the k-th
   element of its input once the first k-1 are in place *)
Ins(sorted, e) == LET n == Cardinality({ j \in 1..Len(sorted) : sorted[j][3] <= e[3] })
                  IN SubSeq(sorted, 1, n) \o << e >> \o SubSeq(sorted, n + 1, Len(sorted))
RECURSIVE SortFrom(_, _, _)
SortFrom(fl, k, acc) == IF k > Len(fl) THEN acc ELSE SortFrom(fl, k + 1, Ins(acc, fl[k]))
Merged(stamps) == SortFrom(Flat(stamps, 1), 1, << >>)

NoEv == [e |-> "none"]
Start(names, stamps) ==
    LET m == Merged(stamps) IN
    [names |-> names, stamps |-> stamps, m |-> m, n |-> Len(m), i |-> 0, pc |-> "next", now |-> 0,
     ev |-> NoEv, out |-> << >>, nskip |-> 0]

Cur(s) == s.m[s.i + 1]                 \* the event being processed (s.i events are done)
T0(s)  == s.m[1][3]

(* ---- one step: the set of successors of s ------------------------------------------------- *)
WaitS(s) ==
    IF s.pc = "next" /\ s.i < s.n
    THEN LET t == Cur(s)[3] - T0(s) IN
         { [s EXCEPT !.pc = "waited", !.now = t, !.ev = [e |-> "wait", from |-> s.now, until |-> t]] }
    ELSE {}
PubS(s) ==
    IF s.pc = "waited" /\ Kind(s.names[Cur(s)[1]]) = "handled"
    THEN LET c == Cur(s)  nm == s.names[c[1]] IN
         { [s EXCEPT !.pc = "next", !.i = s.i + 1, !.out = Append(s.out, [p |-> c[1], k |-> c[2], s |-> c[3], t |-> s.now]),
                     !.ev = [e |-> "pub", bus |-> Bus(nm), ty |-> Ty(nm), now |-> s.now, stamp |-> s.now, p |-> c[1], k |-> c[2]]] }
    ELSE {}
SkipS(s) ==
    IF s.pc = "waited" /\ Kind(s.names[Cur(s)[1]]) # "handled"
    THEN { [s EXCEPT !.pc = "next", !.i = s.i + 1, !.nskip = s.nskip + 1,
                     !.ev = [e |-> "skip", kind |-> Kind(s.names[Cur(s)[1]])]] }
    ELSE {}
EndS(s) ==
    IF s.pc = "next" /\ s.i = s.n THEN { [s EXCEPT !.pc = "done", !.ev = [e |-> "end", now |-> s.now]] } ELSE {}

NodeSucc(s) == WaitS(s) \cup PubS(s) \cup SkipS(s) \cup EndS(s)

(* Init / Next / Spec: at the end of the module (they need the lattice) *)

(* ---------------- properties (stated on the log and on what came out, not on the guards) ---- *)
TopicIdx  == 1..Len(rp.names)
AllEvents == { <<p, k>> \in TopicIdx \X (0..8) : k >= 1 /\ k <= Len(rp.stamps[p]) }
HandledEvents == { e \in AllEvents : IsHandled(rp.names[e[1]]) }
StampOf(e) == rp.stamps[e[1]][e[2]]
MinStamp  == CHOOSE s \in { StampOf(e) : e \in AllEvents } : \A e \in AllEvents : s <= StampOf(e)
(* e before f in the order a user expects: by stamp; equal stamps: by position in the log's topic list, then by sample index *)
Before(e, f) == \/ StampOf(e) < StampOf(f)
                \/ /\ StampOf(e) = StampOf(f)
                   /\ (e[1] < f[1] \/ (e[1] = f[1] /\ e[2] < f[2]))
OutEv(j) == << rp.out[j].p, rp.out[j].k >>

(* the merged list is the stable sort of the flattened log: a permutation of all events, ordered by Before *)
MergedIsStableSort ==
    /\ rp.n = Cardinality(AllEvents)
    /\ { << rp.m[j][1], rp.m[j][2] >> : j \in 1..rp.n } = AllEvents
    /\ \A j \in 1..rp.n : rp.m[j][3] = StampOf(<< rp.m[j][1], rp.m[j][2] >>)
    /\ \A j \in 1..rp.n - 1 : Before(<< rp.m[j][1], rp.m[j][2] >>, << rp.m[j + 1][1], rp.m[j + 1][2] >>)
(* simulated time never decreases *)
TimeMonotone == /\ rp.now >= 0
                /\ (rp.ev.e = "wait" => rp.ev.until >= rp.ev.from /\ rp.now = rp.ev.until)
                /\ \A j \in 1..Len(rp.out) - 1 : rp.out[j].t <= rp.out[j + 1].t
                /\ (Len(rp.out) > 0 => rp.out[Len(rp.out)].t <= rp.now)
(* only handled samples are published, none twice; at the end every one of them has been *)
OnlyHandledOnce == /\ \A j \in 1..Len(rp.out) : OutEv(j) \in HandledEvents
                   /\ Cardinality({ OutEv(j) : j \in 1..Len(rp.out) }) = Len(rp.out)
AllPublishedAtEnd == rp.pc = "done" => { OutEv(j) : j \in 1..Len(rp.out) } = HandledEvents /\ rp.nskip = rp.n - Len(rp.out)
(* every message goes out at (its stamp - first stamp of the WHOLE log), handled or not; in particular the first one *)
PublishedAtStampOffset == \A j \in 1..Len(rp.out) : rp.out[j].t = rp.out[j].s - MinStamp /\ rp.out[j].s = StampOf(OutEv(j))
FirstHandledFirst == Len(rp.out) > 0 => /\ \A e \in HandledEvents : e = OutEv(1) \/ Before(OutEv(1), e)
                                        /\ rp.out[1].t = StampOf(OutEv(1)) - MinStamp
(* order on the bus = order a user expects; in particular per-topic sample order for a topic with
   non-decreasing stamps, and list order at equal stamps *)
OutputOrder == \A j \in 1..Len(rp.out) - 1 : Before(OutEv(j), OutEv(j + 1))
PerTopicOrder == \A a, b \in 1..Len(rp.out) :
                    (a < b /\ rp.out[a].p = rp.out[b].p /\
                     (\A k \in 1..Len(rp.stamps[rp.out[a].p]) - 1 : rp.stamps[rp.out[a].p][k] <= rp.stamps[rp.out[a].p][k + 1]))
                    => rp.out[a].k < rp.out[b].k
EqualStampsKeepListOrder == \A a, b \in 1..Len(rp.out) :
                    (a < b /\ rp.out[a].s = rp.out[b].s) =>
                        (rp.out[a].p < rp.out[b].p \/ (rp.out[a].p = rp.out[b].p /\ rp.out[a].k < rp.out[b].k))
(* nothing published so far is later than an unpublished handled sample that should have preceded it *)
NoOvertaking == \A j \in 1..Len(rp.out) : \A e \in HandledEvents :
                    Before(e, OutEv(j)) => \E a \in 1..j - 1 : OutEv(a) = e
(* bus topic and message class follow the mapping; the mapping never puts two log topics on one bus topic *)
BusMapping == /\ (rp.ev.e = "pub" => /\ IsHandled(rp.names[rp.ev.p])
                                     /\ rp.ev.bus = BusOf[HIdx(rp.names[rp.ev.p])] /\ rp.ev.ty = TyOf[HIdx(rp.names[rp.ev.p])]
                                     /\ rp.ev.stamp = rp.ev.now /\ rp.ev.now = rp.now)
              /\ \A a, b \in 1..5 : a # b => BusOf[a] # BusOf[b] /\ HandledNames[a] # HandledNames[b]
              /\ \A a \in 1..5 : HandledNames[a] \notin IgnoredNames
(* the run ends at the time of the last sample of the log (handled or not) *)
EndTime == rp.pc = "done" => rp.now = (CHOOSE s \in { StampOf(e) : e \in AllEvents } : \A e \in AllEvents : s >= StampOf(e)) - MinStamp
TypeOK == /\ rp.pc \in {"next", "waited", "done"} /\ rp.i \in 0..rp.n /\ rp.n >= 1
          /\ Len(rp.names) = Len(rp.stamps) /\ Len(rp.out) + rp.nskip = rp.i
          /\ \A p \in TopicIdx : Len(rp.stamps[p]) <= 8

(* ---------------- the lattice of configurations (cfg files cannot hold tuples) ------------- *)
Mk(nl, st) == [names |-> nl, stamps |-> st]
NonEmpty(C) == { c \in C : \E p \in 1..Len(c.stamps) : Len(c.stamps[p]) > 0 }
(* stamps: first stamp > 0, a short gap (500 us), a long one, a 2 us one *)
SFull  == { <<1500>>, <<2000>>, <<250000>>, <<1500, 1500>>, <<1500, 2000>>, <<1500, 250000>>, <<2000, 2000>>, <<2000, 2002>>,
            <<2000, 250000>>, <<250000, 250000>>, <<2000, 2000, 2000>>, <<1500, 2000, 250000>>, <<250000, 1500>>, <<2000, 250000, 2000>> }
SMid   == { <<1500>>, <<2000>>, <<1500, 2000>>, <<2000, 2000>>, <<2000, 250000>>, <<250000, 1500>>, << >> }
SSmall == { <<1500>>, <<2000>>, <<1500, 2000>>, <<2000, 2000>> }
STwo   == { <<2000>>, <<1500, 2000>> }
SThree == { <<2000>>, <<1500, 2000>>, <<2000, 2000, 250000>> }
Hs == { HandledNames[j] : j \in 1..5 }
One(N, S)    == { Mk(<<n>>, <<a>>) : n \in N, a \in S }
Two(NL, S)   == { Mk(nl, <<a, b>>) : nl \in NL, a \in S, b \in S }
Three(NL, S) == { Mk(nl, <<a, b, c>>) : nl \in NL, a \in S, b \in S, c \in S }
All7 == << "cpuload", "sensor_combined", "vehicle_magnetometer", "verif_unknown_topic", "estimator_status",
           "vehicle_attitude_groundtruth", "vehicle_attitude" >>
Seven(S) == { Mk(All7, <<a, b, c, d, e, f, g>>) : a \in S, b \in S, c \in S, d \in S, e \in S, f \in S, g \in S }
PairsQuick == { <<"sensor_combined", "vehicle_magnetometer">>, <<"vehicle_magnetometer", "sensor_combined">>,
                <<"verif_unknown_topic", "sensor_combined">>, <<"vehicle_air_data", "vehicle_attitude">>,
                <<"estimator_status", "cpuload">>, <<"vehicle_attitude_groundtruth", "vehicle_attitude">>,
                <<"vehicle_air_data", "cpuload">>, <<"ekf2_timestamps", "verif_unknown_topic">> }
PairsMore  == { <<"vehicle_attitude", "vehicle_attitude_groundtruth">>, <<"sensor_combined", "verif_unknown_topic">>,
                <<"estimator_status", "sensor_combined">>, <<"vehicle_magnetometer", "estimator_status">>,
                <<"rate_ctrl_status", "vehicle_magnetometer">>, <<"sensor_baro", "estimator_status">>,
                <<"sensor_baro", "verif_unknown_topic">>, <<"vehicle_attitude", "sensor_combined">> }
TriplesQuick == { <<"sensor_combined", "vehicle_magnetometer", "vehicle_attitude">>, <<"vehicle_air_data", "sensor_combined", "estimator_status">>,
                  <<"verif_unknown_topic", "vehicle_attitude_groundtruth", "sensor_combined">>, <<"vehicle_magnetometer", "cpuload", "sensor_combined">>,
                  <<"estimator_status", "vehicle_attitude", "verif_unknown_topic">>, <<"cpuload", "verif_unknown_topic", "vehicle_air_data">> }
TriplesMore  == { <<"vehicle_attitude", "estimator_status", "vehicle_magnetometer">>, <<"sensor_combined", "sensor_baro", "vehicle_magnetometer">>,
                  <<"vehicle_attitude_groundtruth", "vehicle_attitude", "estimator_status">>, <<"battery_status", "input_rc", "vehicle_magnetometer">>,
                  <<"vehicle_magnetometer", "sensor_combined", "vehicle_gps_position">>, <<"sensor_baro", "verif_unknown_topic", "sensor_combined">> }
SingleNames == Hs \cup { "vehicle_air_data", "rate_ctrl_status", "verif_unknown_topic" }
(* TLC evaluates every parameterless constant definition at start-up (13 s for the thorough lattice): hence the parameter *)
CfgsOf(tier) ==
  IF tier = "quick" THEN
             NonEmpty(One(SingleNames, SFull) \cup Two(PairsQuick, SMid) \cup Three(TriplesQuick, SSmall) \cup Seven(STwo))
  ELSE IF tier = "thorough" THEN
             NonEmpty(One(SingleNames \cup IgnoredNames \cup {"sensor_baro"}, SFull) \cup Two(PairsQuick \cup PairsMore, SFull \cup { << >> })
                         \cup Three(TriplesQuick \cup TriplesMore, SMid) \cup Seven(SThree))
  ELSE {}

Init == \E c \in CfgsOf(Tier) : rp = Start(c.names, c.stamps)
Next == \E n \in NodeSucc(rp) : rp' = n
Spec == Init /\ [][Next]_rp
=============================================================================
