SPECIFICATION SpecC
CONSTANT Tier = "thorough"
INVARIANTS MeasLaw PredLaw AccLaw MagxLaw
CHECK_DEADLOCK FALSE
