SPECIFICATION SpecC
CONSTANT Tier = "thorough"
INVARIANTS MeasLaw PredLaw AccLaw
CHECK_DEADLOCK FALSE
