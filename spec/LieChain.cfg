SPECIFICATION SpecCh
CONSTANT Tier = "quick"
INVARIANTS MatSem InvHist
CHECK_DEADLOCK FALSE
