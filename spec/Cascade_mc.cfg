SPECIFICATION MCSpec
CONSTANTS
  DtMs = 5000
  TEndMs = 30000
  TAttMs = 10000
  TPosMs = 25000
  TiltMax = 50
  YawMax = 50
  RateMax = 100
  PosMax = 50
  Tier = "mc"
INVARIANTS TypeOK ClockOK LaunchOK NoNan Airborne MotorLimit RateIntegratorBound ZIntegratorBound
INVARIANTS AttitudeSettled YawSettled RateSettled PositionSettled VerdictSound MCPhase
PROPERTIES StaysSettled StaysAttSettled
CHECK_DEADLOCK FALSE
