------------------------------ MODULE FilterNum ------------------------------
(* C10 -- filter numerics of cyecca/util.py in EXACT arithmetic.

   rk4                      : one step on fields whose exact flow is rational
   ldl_/udu_symmetric_...   : P = L D L^T = U D U^T, unit triangular factors (unique for SPD P)
   sqrt_covariance_predict  : THE lower-triangular W' with W' W^T + W W'^T = F P + P F^T + Q
   sqrt_correct             : S = H P H^T + Rs Rs^T, K = P H^T S^-1, P+ = (I - K H) P

   Integers where possible; everything else is a reduced rational <<n, d>> (d > 0,
   gcd(n, d) = 1, zero = <<0, 1>>) so that equality of values is equality of tuples.
   Matrices are row-major tuples of rows.  The state variable tv is the engine-A test
   vector: operation, exact arguments, exact expectation; the INVARIANTS below are the
   mathematical laws that make the expectation the right one (they never restate the
   recursion that produced it).                                                          *)
EXTENDS IntLin, TLC
CONSTANT Tier
VARIABLE tv

Quick == Tier = "quick"

(* ------------------------------- rationals ------------------------------------------ *)
RZ == <<0, 1>>
RO == <<1, 1>>
RI(n) == <<n, 1>>
RN(n, d) == LET g == Gcd(n, d) IN IF d > 0 THEN <<n \div g, d \div g>> ELSE <<(-n) \div g, (-d) \div g>>
RNeg(a) == <<-a[1], a[2]>>
RAdd(a, b) == LET g == GcdN(a[2], b[2]) IN      \* over the lcm of the denominators (32-bit integers)
              RN(a[1] * (b[2] \div g) + b[1] * (a[2] \div g), (a[2] \div g) * b[2])
RSub(a, b) == RAdd(a, RNeg(b))
RMul(a, b) == LET g1 == Gcd(a[1], b[2])  g2 == Gcd(b[1], a[2]) IN      \* cross-cancel first: stays reduced
              <<(a[1] \div g1) * (b[1] \div g2), (a[2] \div g2) * (b[2] \div g1)>>
RInv(a) == IF a[1] > 0 THEN <<a[2], a[1]>> ELSE <<-a[2], -a[1]>>        \* a # 0
RDiv(a, b) == RMul(a, RInv(b))
RLe(a, b) == a[1] * b[2] <= b[1] * a[2]
RPos(a) == a[1] > 0
RECURSIVE RPow(_, _)
RPow(a, k) == IF k = 0 THEN RO ELSE RMul(a, RPow(a, k - 1))
IsRat(a) == a[2] > 0 /\ Gcd(a[1], a[2]) = 1

RECURSIVE RDotK(_, _, _)
RDotK(u, v, k) == IF k = 0 THEN RZ ELSE RAdd(RDotK(u, v, k - 1), RMul(u[k], v[k]))
RDot(u, v) == RDotK(u, v, Len(u))
RECURSIVE RSumK(_, _)
RSumK(u, k) == IF k = 0 THEN RZ ELSE RAdd(RSumK(u, k - 1), u[k])
RSum(u) == RSumK(u, Len(u))

RVAdd(u, v) == Fv([k \in 1..Len(u) |-> RAdd(u[k], v[k])])
RVScale(s, u) == Fv([k \in 1..Len(u) |-> RMul(s, u[k])])
I2RV(u) == Fv([k \in 1..Len(u) |-> RI(u[k])])
I2R(A) == FM([i \in 1..Len(A) |-> [j \in 1..Len(A[1]) |-> RI(A[i][j])]])
RMT(A) == FM([j \in 1..Len(A[1]) |-> [i \in 1..Len(A) |-> A[i][j]]])
RMMul(A, B) == LET Bt == RMT(B) IN FM([i \in 1..Len(A) |-> [j \in 1..Len(Bt) |-> RDot(A[i], Bt[j])]])
RMVec(A, v) == Fv([i \in 1..Len(A) |-> RDot(A[i], v)])
RMAdd(A, B) == FM([i \in 1..Len(A) |-> [j \in 1..Len(A[1]) |-> RAdd(A[i][j], B[i][j])]])
RMSub(A, B) == FM([i \in 1..Len(A) |-> [j \in 1..Len(A[1]) |-> RSub(A[i][j], B[i][j])]])
RDiag(d) == FM([i \in 1..Len(d) |-> [j \in 1..Len(d) |-> IF i = j THEN d[i] ELSE RZ]])
RIdent(n) == FM([i \in 1..n |-> [j \in 1..n |-> IF i = j THEN RO ELSE RZ]])
RTrace(A) == RSum(Fv([i \in 1..Len(A) |-> A[i][i]]))
RSymmetric(A) == \A i \in 1..Len(A), j \in 1..Len(A) : A[i][j] = A[j][i]
Symmetric(A) == \A i \in 1..Len(A), j \in 1..Len(A) : A[i][j] = A[j][i]
UnitLower(L) == \A i \in 1..Len(L), j \in 1..Len(L) : L[i][j] = (IF i = j THEN RO ELSE IF j > i THEN RZ ELSE L[i][j])
UnitUpper(U) == \A i \in 1..Len(U), j \in 1..Len(U) : U[i][j] = (IF i = j THEN RO ELSE IF j < i THEN RZ ELSE U[i][j])
Lower(A) == \A i \in 1..Len(A), j \in 1..Len(A) : j > i => A[i][j] = RZ
Flip(A) == LET n == Len(A) IN FM([i \in 1..n |-> [j \in 1..n |-> A[n + 1 - i][n + 1 - j]]])
Rev(v) == Fv([k \in 1..Len(v) |-> v[Len(v) + 1 - k]])

(* ------------------------------- LDL^T / UDU^T --------------------------------------
   Textbook outer-product recursion on a rational symmetric matrix.  For SPD input all
   pivots are > 0 and (L, D) is THE pair with L unit lower triangular, D diagonal and
   L D L^T = P (uniqueness of the LU factorisation of a matrix whose leading principal
   minors are non-zero).  For PSD input a zero pivot is admissible iff the rest of its
   column vanishes (ok); ok /\ all pivots >= 0  <=>  P is positive semi-definite.
   UDU^T is obtained independently of any "upper" recursion: with J the exchange matrix,
   J P J = L' D' L'^T  ==>  P = (J L' J)(J D' J)(J L' J)^T, and J L' J is unit upper.       *)
RECURSIVE LdlSum(_, _, _, _, _)
LdlSum(Lc, d, i, j, k) == IF k = 0 THEN RZ
                          ELSE RAdd(LdlSum(Lc, d, i, j, k - 1), RMul(RMul(Lc[k][i], Lc[k][j]), d[k]))
RECURSIVE LdlStep(_, _, _, _, _, _)
LdlStep(P, n, j, Lc, d, ok) ==          \* Lc = columns of L found so far, d = pivots so far
  IF j > n THEN [Lc |-> Lc, d |-> d, ok |-> ok]
  ELSE LET dj  == RSub(P[j][j], LdlSum(Lc, d, j, j, j - 1))
           res == Fv([i \in 1..n |-> IF i <= j THEN RZ ELSE RSub(P[i][j], LdlSum(Lc, d, i, j, j - 1))])
           col == Fv([i \in 1..n |-> IF i < j THEN RZ ELSE IF i = j THEN RO
                                     ELSE IF dj[1] = 0 THEN RZ ELSE RDiv(res[i], dj)])
           okj == dj[1] > 0 \/ (dj[1] = 0 /\ \A i \in 1..n : res[i] = RZ)
       IN LdlStep(P, n, j + 1, Append(Lc, col), Append(d, dj), ok /\ okj)
LDL(P) == LET n == Len(P)  r == LdlStep(P, n, 1, <<>>, <<>>, TRUE) IN
          [L |-> FM([i \in 1..n |-> [j \in 1..n |-> r.Lc[j][i]]]), D |-> r.d, ok |-> r.ok]
UDU(P) == LET r == LDL(Flip(P)) IN [U |-> Flip(r.L), D |-> Rev(r.D), ok |-> r.ok]
PSD(P) == LET r == LDL(P) IN r.ok /\ \A k \in 1..Len(P) : r.D[k][1] >= 0

(* integer SPD test by leading principal minors (Sylvester), n <= 3 *)
IsSPD(P) == CASE Len(P) = 1 -> P[1][1] > 0
              [] Len(P) = 2 -> P[1][1] > 0 /\ P[1][1] * P[2][2] - P[1][2] * P[2][1] > 0
              [] Len(P) = 3 -> P[1][1] > 0 /\ P[1][1] * P[2][2] - P[1][2] * P[2][1] > 0 /\ Det3(P) > 0

(* ------------------------------- sqrt predict ---------------------------------------
   Given invertible lower-triangular W, P = W W^T and symmetric M = F P + P F^T + Q, find
   lower-triangular X with  X W^T + W X^T = M.
   Entry (i, j), j <= i, of the left side is  sum_{k<=j} X_ik W_jk + sum_{k<=j} W_ik X_jk.
   Going through the lower triangle row by row (i = 1..n, j = 1..i) the only unknown not
   met before is X_ij, with coefficient W_jj (2 W_ii on the diagonal), which is non-zero:
       j < i :  X_ij = (M_ij - sum_{k<j} X_ik W_jk - sum_{k<=j} W_ik X_jk) / W_jj
       j = i :  X_ii = (M_ii / 2 - sum_{k<i} X_ik W_ik) / W_ii
   Each step has exactly one solution, hence X exists and is UNIQUE (equivalently:
   Z = W^-1 X is lower triangular with Z + Z^T = W^-1 M W^-T, which fixes Z).  The upper
   triangle of the equation holds by symmetry of M.  X is kept as the flat row-major
   lower triangle, entry (i, j) at Tri(i, j).                                            *)
Tri(i, j) == (i * (i - 1)) \div 2 + j
RECURSIVE SumXW(_, _, _, _, _)
SumXW(X, W, i, j, K) == IF K = 0 THEN RZ            \* sum_{k=1..K} X_ik W_jk
                        ELSE RAdd(SumXW(X, W, i, j, K - 1), RMul(X[Tri(i, K)], RI(W[j][K])))
RECURSIVE PredFill(_, _, _, _, _, _)
PredFill(W, M, n, i, j, X) ==
  IF i > n THEN X
  ELSE IF j < i
       THEN PredFill(W, M, n, i, j + 1, Append(X,
              RDiv(RSub(RSub(RI(M[i][j]), SumXW(X, W, i, j, j - 1)), SumXW(X, W, j, i, j)), RI(W[j][j]))))
       ELSE PredFill(W, M, n, i + 1, 1, Append(X,
              RDiv(RSub(RN(M[i][i], 2), SumXW(X, W, i, i, i - 1)), RI(W[i][i]))))
PredM(W, F, Q) == LET P == MMul(W, MT(W))  FP == MMul(F, P) IN MAdd(MAdd(FP, MT(FP)), Q)
PredW(W, F, Q) == LET n == Len(W)  X == PredFill(W, PredM(W, F, Q), n, 1, 1, <<>>) IN
                  FM([i \in 1..n |-> [j \in 1..n |-> IF j <= i THEN X[Tri(i, j)] ELSE RZ]])

(* ------------------------------- sqrt correct --------------------------------------- *)
Inv12(S) ==     \* exact inverse of an integer 1x1 / 2x2 matrix with non-zero determinant
  IF Len(S) = 1 THEN << <<RN(1, S[1][1])>> >>
  ELSE LET det == S[1][1] * S[2][2] - S[1][2] * S[2][1] IN
       << <<RN(S[2][2], det), RN(-S[1][2], det)>>, <<RN(-S[2][1], det), RN(S[1][1], det)>> >>
Corr(W, H, Rs) ==
  LET P   == MMul(W, MT(W))
      PHt == MMul(P, MT(H))
      S   == MAdd(MMul(H, PHt), MMul(Rs, MT(Rs)))
      K   == RMMul(I2R(PHt), Inv12(S))
      Pp  == RMMul(RMSub(RIdent(Len(W)), RMMul(K, I2R(H))), I2R(P))
  IN [P |-> P, S |-> S, K |-> K, Pp |-> Pp]

(* ------------------------------- RK4 oracles ----------------------------------------
   A 4-stage method of order 4 reproduces the exact flow whenever the exact flow and the
   method's result are both polynomials of degree <= 4 in h:
   cubic  : y' = a + b t + c t^2 + d t^3            y(t0+h) = y0 + G(t0+h) - G(t0)
   auto   : (s, y)' = (1, a + b s + c s^2 + d s^3)  the same, autonomous form (row sums)
   exp    : y' = lam y                              y0 (1 + z + z^2/2 + z^3/6 + z^4/24), z = lam h
   lin2   : y' = A y (2x2)                          sum_{k<=4} (hA)^k / k!  y0
   riccati: y' = y^2, exact flow y0/(1 - y0 h) is rational but not polynomial: the code is
            held to the ORDER (error ratio under step halving), see the check.           *)
Prim(c, t) == RAdd(RAdd(RMul(RI(c[1]), t), RMul(RN(c[2], 2), RPow(t, 2))),
                   RAdd(RMul(RN(c[3], 3), RPow(t, 3)), RMul(RN(c[4], 4), RPow(t, 4))))
Poly3(c, t) == RAdd(RAdd(RI(c[1]), RMul(RI(c[2]), t)), RAdd(RMul(RI(c[3]), RPow(t, 2)), RMul(RI(c[4]), RPow(t, 3))))
CubicFlow(c, t0, h, y0) == RAdd(y0, RSub(Prim(c, RAdd(t0, h)), Prim(c, t0)))
Simpson(c, t0, h, y0) == RAdd(y0, RMul(RMul(h, RN(1, 6)),
    RAdd(RAdd(Poly3(c, t0), RMul(RI(4), Poly3(c, RAdd(t0, RMul(h, RN(1, 2)))))), Poly3(c, RAdd(t0, h)))))
Exp4(z) == RAdd(RAdd(RAdd(RO, z), RMul(RN(1, 2), RPow(z, 2))), RAdd(RMul(RN(1, 6), RPow(z, 3)), RMul(RN(1, 24), RPow(z, 4))))
Exp4Horner(z) == RAdd(RO, RMul(z, RAdd(RO, RMul(RMul(z, RN(1, 2)), RAdd(RO, RMul(RMul(z, RN(1, 3)), RAdd(RO, RMul(z, RN(1, 4)))))))))
Lin4(A, h, y0) ==       \* u_k = (hA) u_{k-1} / k, result = u_0 + ... + u_4
  LET M  == FM([i \in 1..Len(A) |-> [j \in 1..Len(A) |-> RMul(h, RI(A[i][j]))]])
      u1 == RMVec(M, y0)
      u2 == RVScale(RN(1, 2), RMVec(M, u1))
      u3 == RVScale(RN(1, 3), RMVec(M, u2))
      u4 == RVScale(RN(1, 4), RMVec(M, u3))
  IN RVAdd(RVAdd(RVAdd(y0, u1), RVAdd(u2, u3)), u4)
Lin4Horner(A, h, y0) ==
  LET M  == FM([i \in 1..Len(A) |-> [j \in 1..Len(A) |-> RMul(h, RI(A[i][j]))]])
      a4 == RVAdd(y0, RVScale(RN(1, 4), RMVec(M, y0)))
      a3 == RVAdd(y0, RVScale(RN(1, 3), RMVec(M, a4)))
      a2 == RVAdd(y0, RVScale(RN(1, 2), RMVec(M, a3)))
  IN RVAdd(y0, RMVec(M, a2))
Riccati(y0, h) == RDiv(y0, RSub(RO, RMul(y0, h)))

(* ------------------------------- lattices ------------------------------------------- *)
E  == -2..3
EL == IF Quick THEN {-2, 0, 1, 3} ELSE E                    \* strictly-lower entries of a 3x3 W
D1 == {-2, -1, 1, 2, 3}
DG2 == IF Quick THEN { <<a, b>> : a \in {-1, 1, 2}, b \in {1, -2, 3} }
       ELSE { <<a, b>> : a \in D1, b \in D1 }
DG3 == IF Quick THEN { <<1, 1, 1>>, <<2, -1, 3>>, <<-2, 3, 1>> }
       ELSE { <<1, 1, 1>>, <<2, -1, 3>>, <<-2, 3, 1>>, <<3, 2, -1>>, <<-1, -1, -1>> }
DGs(n) == CASE n = 1 -> { <<a>> : a \in D1 } [] n = 2 -> DG2 [] n = 3 -> DG3
LOs(n) == CASE n = 1 -> { <<>> } [] n = 2 -> { <<a>> : a \in E } [] n = 3 -> { <<a, b, c>> : a \in EL, b \in EL, c \in EL }
MkW(n, dg, lo) == CASE n = 1 -> << <<dg[1]>> >>
                    [] n = 2 -> << <<dg[1], 0>>, <<lo[1], dg[2]>> >>
                    [] n = 3 -> << <<dg[1], 0, 0>>, <<lo[1], dg[2], 0>>, <<lo[2], lo[3], dg[3]>> >>

Fs(n) == CASE n = 1 -> { << <<f>> >> : f \in {-2, 0, 1, 3} }
           [] n = 2 -> { << <<0, 0>>, <<0, 0>> >>, << <<0, 1>>, <<-1, 0>> >>, << <<1, -2>>, <<3, 0>> >>, << <<-1, 2>>, <<0, -2>> >> }
                       \cup (IF Quick THEN {} ELSE { << <<0, 1>>, <<0, 0>> >>, << <<3, 3>>, <<-2, 1>> >>, << <<-2, 0>>, <<0, 1>> >>, << <<1, 1>>, <<1, 1>> >> })
           [] n = 3 -> { Hat(<<1, -2, 2>>), << <<1, 0, -2>>, <<3, -1, 0>>, <<0, 2, 1>> >>, << <<0, 1, 0>>, <<0, 0, 1>>, <<0, 0, 0>> >> }
                       \cup (IF Quick THEN {} ELSE { Zeros(3, 3), << <<-1, 3, 2>>, <<0, -2, 1>>, <<3, 0, -1>> >> })
Qs(n) == CASE n = 1 -> { << <<q>> >> : q \in {0, 1, 2} }
           [] n = 2 -> { << <<0, 0>>, <<0, 0>> >>, << <<1, 1>>, <<1, 1>> >>, << <<2, -1>>, <<-1, 3>> >> }
                       \cup (IF Quick THEN {} ELSE { << <<1, 0>>, <<0, 1>> >>, << <<0, 0>>, <<0, 3>> >> })
           [] n = 3 -> { << <<1, -1, 2>>, <<-1, 1, -2>>, <<2, -2, 4>> >>, << <<2, 1, 0>>, <<1, 2, 1>>, <<0, 1, 2>> >> }
                       \cup (IF Quick THEN {} ELSE { Zeros(3, 3), << <<1, 0, 0>>, <<0, 2, 0>>, <<0, 0, 3>> >> })
Hs(m, n) ==
  CASE m = 1 /\ n = 1 -> { << <<1>> >>, << <<-2>> >>, << <<0>> >>, << <<3>> >> }
    [] m = 1 /\ n = 2 -> { << <<1, 0>> >>, << <<0, 1>> >>, << <<1, -2>> >>, << <<3, 2>> >>, << <<0, 0>> >> }
    [] m = 1 /\ n = 3 -> { << <<0, 0, 1>> >>, << <<1, -2, 2>> >>, << <<1, 1, 0>> >> }
                         \cup (IF Quick THEN {} ELSE { << <<0, 0, 0>> >>, << <<1, 0, 0>> >>, << <<-2, 3, 1>> >> })
    [] m = 2 /\ n = 1 -> { << <<1>>, <<0>> >>, << <<1>>, <<2>> >>, << <<-2>>, <<3>> >> }
    [] m = 2 /\ n = 2 -> { << <<1, 0>>, <<0, 1>> >>, << <<1, -2>>, <<3, 2>> >>, << <<1, 2>>, <<2, 4>> >> }
                         \cup (IF Quick THEN {} ELSE { << <<1, 0>>, <<1, 1>> >>, << <<0, 0>>, <<0, 0>> >> })
    [] m = 2 /\ n = 3 -> { << <<1, 0, 0>>, <<0, 1, 0>> >>, << <<1, -2, 2>>, <<0, 1, 1>> >> }
                         \cup (IF Quick THEN {} ELSE { << <<1, 1, 0>>, <<1, 1, 0>> >>, << <<0, 0, 1>>, <<2, -1, 0>> >> })
Rss(m, n) ==    \* invertible factors of R = Rs Rs^T: diagonal, lower, upper, full; both signs
  CASE m = 1 -> IF n = 3 /\ Quick THEN { << <<1>> >>, << <<-2>> >> } ELSE { << <<1>> >>, << <<-2>> >>, << <<3>> >> }
    [] m = 2 -> { << <<1, 0>>, <<0, 1>> >>, << <<1, 0>>, <<2, 1>> >>, << <<2, 1>>, <<0, -1>> >> }
                \cup (IF Quick /\ n = 3 THEN {} ELSE { << <<1, 2>>, <<3, 1>> >> })

SymDiag(n) == LET Dv == IF Quick THEN 1..3 ELSE 1..5 IN
              CASE n = 1 -> { <<a>> : a \in Dv } [] n = 2 -> { <<a, b>> : a \in Dv, b \in Dv }
                [] n = 3 -> { <<a, b, c>> : a \in Dv, b \in Dv, c \in Dv }
MkSym(n, dg, o) == CASE n = 1 -> << <<dg[1]>> >>
                     [] n = 2 -> << <<dg[1], o[1]>>, <<o[1], dg[2]>> >>
                     [] n = 3 -> << <<dg[1], o[1], o[2]>>, <<o[1], dg[2], o[3]>>, <<o[2], o[3], dg[3]>> >>
SymOff(n) == CASE n = 1 -> { <<>> } [] n = 2 -> { <<a>> : a \in E } [] n = 3 -> { <<a, b, c>> : a \in E, b \in E, c \in E }

CubCs == { <<1, 0, 0, 0>>, <<0, 1, 0, 0>>, <<0, 0, 1, 0>>, <<0, 0, 0, 1>>, <<1, -2, 3, -1>>, <<-2, 3, 1, 2>>, <<0, 0, 0, 0>> }
         \cup (IF Quick THEN {} ELSE { <<a, b, c, d>> : a \in {-1, 2}, b \in {-2, 0, 3}, c \in {-2, 1, 3}, d \in {-2, 1, 3} })
T0s == { RZ, RO, RN(-1, 2), RN(2, 3) }
Hst == { RO, RN(1, 2), RN(1, 4), RN(-1, 2), RN(1, 10), RN(3, 2) }         \* step sizes, one negative
Y0s == { RZ, RO, RN(-3, 2) }
Lams == { -3, -2, -1, 0, 1, 2, 3 }
A2s == { << <<0, -1>>, <<1, 0>> >>, << <<0, -3>>, <<3, 0>> >>, << <<-1, 0>>, <<0, 2>> >>, << <<0, 1>>, <<0, 0>> >>,
         << <<0, 1>>, <<-2, -3>> >>, << <<1, 2>>, <<3, -1>> >>, << <<-2, 1>>, <<1, -2>> >>, << <<0, 0>>, <<0, 0>> >> }
V2s == { <<RO, RZ>>, <<RZ, RO>>, <<RO, RI(-2)>>, <<RN(3, 2), RI(2)>> }
RicY == { RO, RI(-1), RI(2), RI(-2), RN(1, 2) }             \* |y0 h| <= 1/8: asymptotic regime of the local error
RicH == { RN(1, 16), RN(-1, 16), RN(1, 32) }

(* ------------------------------- test vectors --------------------------------------- *)
VecLdl(P) == LET r == LDL(I2R(P)) IN [op |-> "ldl", n |-> Len(P), P |-> P, L |-> r.L, D |-> r.D]
VecUdu(P) == LET r == UDU(I2R(P)) IN [op |-> "udu", n |-> Len(P), P |-> P, U |-> r.U, D |-> r.D]
VecPred(W, F, Q) == [op |-> "predict", n |-> Len(W), W |-> W, F |-> F, Q |-> Q, Wd |-> PredW(W, F, Q)]
VecCorr(W, H, Rs) == LET c == Corr(W, H, Rs) IN
    [op |-> "correct", n |-> Len(W), m |-> Len(H), W |-> W, H |-> H, Rs |-> Rs, S |-> c.S, K |-> c.K, Pp |-> c.Pp]

(* SCALE DISPARITY ("all invertible lower-triangular W ... and invertible R factors"): the same vectors with W := sw W and
   Rs := sr Rs for a measurement far more accurate than the prior (sr / sw down to 1e-8).  The identities of CorrLaw are the
   expectation (K = P H^T S^-1, Ss Ss^T = S, W+ W+^T = (I - K H) P); their numbers do not fit 32 bits, so the harness evaluates
   them in exact rational arithmetic (python Fractions) and compares RELATIVE to the size of each result -- (I - K H) P is then
   1e-12 .. 1e-16 of P, and an implementation that squares the condition number (Gram matrix + Cholesky instead of the QR of
   the pre-array) loses exactly these digits.  <<a, b, c, d>> means sw = a/b, sr = c/d. *)
ScalePairs == { <<10, 1, 1, 1000000>>, <<10000, 1, 1, 10000>>, <<1, 1, 1, 10000000>>, <<1, 1000, 1, 1000000000>> }
VecCorrScaled(W, H, Rs, sp) == [op |-> "correct_scaled", n |-> Len(W), m |-> Len(H), W |-> W, H |-> H, Rs |-> Rs, sp |-> sp]

Dims == {1, 2, 3}
Init ==
  \/ \E n \in Dims : \E dg \in SymDiag(n) : tv = [op |-> "seed_sym", n |-> n, dg |-> dg]
  \/ \E n \in Dims : \E dg \in DGs(n), F \in Fs(n), Q \in Qs(n) : tv = [op |-> "seed_pred", n |-> n, dg |-> dg, F |-> F, Q |-> Q]
  \/ \E n \in Dims, m \in {1, 2} : \E dg \in DGs(n), H \in Hs(m, n), Rs \in Rss(m, n) :
        tv = [op |-> "seed_corr", n |-> n, dg |-> dg, H |-> H, Rs |-> Rs]
  \/ \E c \in CubCs : tv = [op |-> "seed_cubic", c |-> c]
  \/ \E lam \in Lams : tv = [op |-> "seed_exp", lam |-> lam]
  \/ \E A \in A2s : tv = [op |-> "seed_lin2", A |-> A]
  \/ tv = [op |-> "seed_riccati"]

Next ==
  \/ /\ tv.op = "seed_sym"
     /\ \E o \in SymOff(tv.n) : LET P == MkSym(tv.n, tv.dg, o) IN
          IsSPD(P) /\ (tv' = VecLdl(P) \/ tv' = VecUdu(P))
  \/ /\ tv.op = "seed_pred"
     /\ \E lo \in LOs(tv.n) : tv' = VecPred(MkW(tv.n, tv.dg, lo), tv.F, tv.Q)
  \/ /\ tv.op = "seed_corr"
     /\ \E lo \in LOs(tv.n) : \/ tv' = VecCorr(MkW(tv.n, tv.dg, lo), tv.H, tv.Rs)
                               \/ \E sp \in ScalePairs : tv' = VecCorrScaled(MkW(tv.n, tv.dg, lo), tv.H, tv.Rs, sp)
  \/ /\ tv.op = "seed_cubic"
     /\ \E t0 \in T0s, h \in Hst, y0 \in Y0s :
          \/ tv' = [op |-> "rk4_cubic", c |-> tv.c, t0 |-> t0, h |-> h, y0 |-> y0, exp |-> CubicFlow(tv.c, t0, h, y0)]
          \/ tv' = [op |-> "rk4_auto", c |-> tv.c, t0 |-> t0, h |-> h, y0 |-> y0,
                    exp |-> <<RAdd(t0, h), CubicFlow(tv.c, t0, h, y0)>>]
  \/ /\ tv.op = "seed_exp"
     /\ \E h \in Hst, y0 \in Y0s \ {RZ} :
          tv' = [op |-> "rk4_exp", lam |-> tv.lam, h |-> h, y0 |-> y0, exp |-> RMul(y0, Exp4(RMul(RI(tv.lam), h)))]
  \/ /\ tv.op = "seed_lin2"
     /\ \E h \in Hst \ {RN(3, 2)}, y0 \in V2s :
          tv' = [op |-> "rk4_lin2", A |-> tv.A, h |-> h, y0 |-> y0, exp |-> Lin4(tv.A, h, y0)]
  \/ /\ tv.op = "seed_riccati"
     /\ \E y0 \in RicY, h \in RicH :
          tv' = [op |-> "rk4_riccati", h |-> h, y0 |-> y0, exp |-> Riccati(y0, h), exph |-> Riccati(y0, RMul(h, RN(1, 2)))]
Spec == Init /\ [][Next]_tv

(* ------------------------------- laws (INVARIANTS) ---------------------------------- *)
LdlLaw == tv.op = "ldl" =>
    /\ UnitLower(tv.L)
    /\ RMMul(RMMul(tv.L, RDiag(tv.D)), RMT(tv.L)) = I2R(tv.P)
    /\ \A k \in 1..tv.n : RPos(tv.D[k])                               \* SPD <=> all pivots positive
UduLaw == tv.op = "udu" =>
    /\ UnitUpper(tv.U)
    /\ RMMul(RMMul(tv.U, RDiag(tv.D)), RMT(tv.U)) = I2R(tv.P)
    /\ \A k \in 1..tv.n : RPos(tv.D[k])
PredLaw == tv.op = "predict" =>
    /\ Lower(tv.Wd)
    /\ RMAdd(RMMul(tv.Wd, I2R(MT(tv.W))), RMMul(I2R(tv.W), RMT(tv.Wd))) = I2R(PredM(tv.W, tv.F, tv.Q))
    /\ Symmetric(tv.Q)
CorrLaw == tv.op = "correct" =>
    LET P == MMul(tv.W, MT(tv.W))  Pr == I2R(P)  Sr == I2R(tv.S)  Hr == I2R(tv.H)
        KSKt == RMMul(RMMul(tv.K, Sr), RMT(tv.K))
        IKH  == RMSub(RIdent(tv.n), RMMul(tv.K, Hr))
        Rr   == I2R(MMul(tv.Rs, MT(tv.Rs)))
    IN /\ Symmetric(tv.S)
       /\ tv.S = MAdd(MMul(MMul(tv.H, P), MT(tv.H)), MMul(tv.Rs, MT(tv.Rs)))
       /\ RMMul(tv.K, Sr) = I2R(MMul(P, MT(tv.H)))                    \* K S = P H^T
       /\ RSymmetric(tv.Pp)
       /\ RMSub(Pr, tv.Pp) = KSKt                                      \* P - P+ = K S K^T (>= 0)
       /\ tv.Pp = RMAdd(RMMul(RMMul(IKH, Pr), RMT(IKH)), RMMul(RMMul(tv.K, Rr), RMT(tv.K)))   \* Joseph form
       /\ PSD(tv.Pp)
       /\ PSD(I2R(tv.S))
       /\ RLe(RTrace(tv.Pp), RTrace(Pr))
RkLaw ==
    /\ tv.op \in {"rk4_cubic", "rk4_auto"} =>
          LET e == IF tv.op = "rk4_auto" THEN tv.exp[2] ELSE tv.exp IN
          /\ e = Simpson(tv.c, tv.t0, tv.h, tv.y0)                     \* Simpson is exact on cubics
          /\ e = CubicFlow(tv.c, RAdd(tv.t0, RMul(tv.h, RN(1, 2))), RMul(tv.h, RN(1, 2)),
                           CubicFlow(tv.c, tv.t0, RMul(tv.h, RN(1, 2)), tv.y0))   \* flow property
          /\ IsRat(e)
    /\ tv.op = "rk4_exp" => tv.exp = RMul(tv.y0, Exp4Horner(RMul(RI(tv.lam), tv.h)))
    /\ tv.op = "rk4_lin2" =>
          /\ tv.exp = Lin4Horner(tv.A, tv.h, tv.y0)
          /\ (tv.A[1][2] = 0 /\ tv.A[2][1] = 0) =>
                \A i \in 1..2 : tv.exp[i] = RMul(tv.y0[i], Exp4(RMul(RI(tv.A[i][i]), tv.h)))
    /\ tv.op = "rk4_riccati" =>
          /\ RSub(tv.exp, tv.y0) = RMul(tv.h, RMul(tv.y0, tv.exp))     \* y(h) - y0 = h y0 y(h)
          /\ Riccati(tv.exph, RMul(tv.h, RN(1, 2))) = tv.exp           \* semigroup
=============================================================================
