---------------------------- MODULE CascadeTrace ----------------------------
(* C17, engine C (code -> spec): recorded closed-loop histories of harness/cascade.py are
   validated against Cascade.  The file named by the environment variable C17_TRACE is
   NDJSON, one line per control period, many runs per file (field tid; the line k = 0 of a
   run also carries the launch configuration ic and the announced number of lines n).

   A state is (tid, l, ic, obs): l steps through the lines of run tid, obs is BOUND to the
   logged fields of line l, the step relation is Cascade!Step.  Two ways of running it
   (constant Strict):
     Strict = TRUE   every clause of the envelope is a separate INVARIANT of the cfg and the
                     temporal facts StaysSettled / StaysAttSettled are PROPERTYs: TLC evaluates
                     them on every line of every run and NAMES the clause it finds violated;
     Strict = FALSE  total verdicts: no step leaves a line that violates the envelope, TLC
                     never aborts, and the POSTCONDITION prints one  REJECT tid line clause
                     per run that was not consumed to its last line (t = TEndMs).
   The harness runs Strict first and falls back to the report mode for the shards TLC rejected.
   Track (a CONSTRAINT, -workers 1) records per run the highest line index reached.            *)
EXTENDS Cascade, Json, IOUtils

CONSTANT Strict
VARIABLES tid, l
tvars == <<tid, l, ic, obs>>

Lines  == ndJsonDeserialize(IOEnv.C17_TRACE)
NL     == Len(Lines)
Starts == { i \in 1..NL : Lines[i].k = 0 }

(* observation record of a logged line (the launch extras ic, n are not part of obs) *)
ObsOf(r) == [k |-> r.k, t |-> r.t, mode |-> r.mode, e |-> r.e, ex |-> r.ex, ey |-> r.ey, ez |-> r.ez, sp |-> r.sp,
             tilt |-> r.tilt, yaw |-> r.yaw, rate |-> r.rate, m |-> r.m, lim |-> r.lim, ri |-> r.ri,
             imax |-> r.imax, zi |-> r.zi, zmax |-> r.zmax, alt |-> r.alt, nan |-> r.nan]
ICOf(r)  == [kind |-> "ic", mode |-> r.ic.mode, q |-> r.ic.q, yaw |-> r.ic.yaw, q0 |-> r.ic.q0, spi |-> r.ic.spi, off |-> r.ic.off, vel |-> r.ic.vel, rate |-> r.ic.rate]

TraceInit == \E s \in Starts :
                /\ l = s /\ tid = Lines[s].tid
                /\ ic = ICOf(Lines[s])
                /\ obs = ObsOf(Lines[s])
TraceNext == /\ l < NL
             /\ Lines[l + 1].tid = tid /\ Lines[l + 1].k # 0
             /\ Strict \/ Envelope(ic, obs)
             /\ \E x \in {ObsOf(Lines[l + 1])} : Step(x)
             /\ l' = l + 1 /\ tid' = tid
TraceSpec == TraceInit /\ [][TraceNext]_tvars

Track == TLCSet(tid, IF TLCGet(tid) > l THEN TLCGet(tid) ELSE l)
ASSUME \A s \in Starts : TLCSet(Lines[s].tid, 0)
ASSUME \A s \in Starts : Lines[s].tid \in Nat \ {0} /\ Lines[s].n \in Nat

(* acceptance: every run was consumed to its announced last line, that line is the end of the
   run, and it satisfies the envelope itself                                                  *)
LastOf(s)  == s + Lines[s].n - 1
Verdict(s) == LET t == Lines[s].tid
                  r == TLCGet(t)
                  c == ICOf(Lines[s])
              IN IF r < s THEN <<"REJECT", t, 0, "not_started">>
                 ELSE IF ~Envelope(c, ObsOf(Lines[r])) THEN <<"REJECT", t, Lines[r].k, FirstFailing(c, ObsOf(Lines[r]))>>
                 ELSE IF r # LastOf(s) \/ Lines[r].t # TEndMs
                      THEN <<"REJECT", t, Lines[r].k + 1, "trace_incomplete">>
                 ELSE <<"ACCEPT", t, Lines[r].k, "ok">>
Rejects  == { v \in { Verdict(s) : s \in Starts } : v[1] = "REJECT" }
Accepted == \E R \in {Rejects} :
              /\ PrintT(<<"TRACES", Cardinality(Starts), "LINES", NL, "REJECTED", Cardinality(R)>>)
              /\ \A v \in R : PrintT(v)
              /\ R = {}
=============================================================================
