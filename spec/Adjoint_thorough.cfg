SPECIFICATION SpecA
CONSTANT Tier = "thorough"
INVARIANTS AdLaw AdHomL AdInvL adLaw AntiS Jacobi
CHECK_DEADLOCK FALSE
