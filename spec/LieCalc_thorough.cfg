SPECIFICATION Spec
CONSTANT Tier = "thorough"
INVARIANTS Hom InvOK IdOK Assoc RotProper
CHECK_DEADLOCK FALSE
