------------------------------- MODULE RotLaws -------------------------------
(* Self-test of the Rot foundation: the laws every other specification relies on,
   checked by TLC on all ordered pairs of QLat(K).                                    *)
EXTENDS Rot, TLC
CONSTANT K
VARIABLES p, q
Init == p \in QLat(K) /\ q = QId
Next == q = QId /\ p' = p /\ q' \in QLat(K) \ {QId}
Hom      == M3Mul(QMat(p), QMat(q)) = QMat(QMul(p, q))
NormMult == QNorm(QMul(p, q)) = QNorm(p) * QNorm(q)
ConjT    == QMat(QConj(p)) = M3T(QMat(p))
ProperP  == Proper(p)
NegSame  == QMat(QNeg(p)) = QMat(p)
Pow      == QPow(p, 2) = QMul(p, p) /\ QMul(QPow(p, 3), QPow(p, -3)) = <<QNorm(p)*QNorm(p)*QNorm(p), 0, 0, 0>>
=============================================================================
