SPECIFICATION Spec
CONSTANT Tier = "thorough"
INVARIANTS NormalForm LawFmod LawRem LawMinMax LawArith LawPow LawSqrt LawCmp LawIte LawCall LawMat
CHECK_DEADLOCK FALSE
