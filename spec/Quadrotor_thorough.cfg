SPECIFICATION Spec
CONSTANT Tier = "thorough"
INVARIANTS ParamsOK QuatNorm Hover FreeFall NewtonWorld EulerLaw Lever ZeroMoment Equivariant GxOK MotorLaw
CHECK_DEADLOCK FALSE
