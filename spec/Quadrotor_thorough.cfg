SPECIFICATION Spec
CONSTANT Tier = "thorough"
INVARIANTS ParamsOK QuatNorm Hover FreeFall NewtonWorld EulerLaw ZeroMoment Equivariant GxOK MotorLaw
CHECK_DEADLOCK FALSE
