SPECIFICATION Spec
CONSTANT Tier = "quick"
INVARIANT SameEverywhere
CHECK_DEADLOCK FALSE
