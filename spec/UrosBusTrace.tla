---------------------------- MODULE UrosBusTrace ----------------------------
(* Engine C -- validation of traces recorded from the real uros classes against UrosBus.
   The trace file (IOEnv.TRACE_FILE, NDJSON) holds many traces:
       line 1      {"a":"Header","topics":[..],"params":[..],"procs":[..],"ns":N}
       per trace   {"a":"Begin","tid":k,"n":N}  followed by N event lines
   Every event line names the uros critical section that ran ("a") with the arguments and
   outcome that were observed; the corresponding UrosBus action is taken with those
   arguments and must reproduce the observed outcome (act' is compared field by field).
   Every invariant of UrosBus is an INVARIANT here, so it is evaluated after every event.
   Acceptance: the highest line reached per trace is kept in a TLC register (-workers 1)
   and compared with the trace's end by the POSTCONDITION.                                *)
EXTENDS UrosBus, Json, IOUtils

VARIABLES tid, l, last
tvars == <<vars, tid, l, last>>

Lines  == ndJsonDeserialize(IOEnv.TRACE_FILE)
Hdr    == Lines[1]
SeqSet(q) == {q[k] : k \in 1..Len(q)}
TrTopics == SeqSet(Hdr.topics)
TrParams == SeqSet(Hdr.params)
TrProcs  == SeqSet(Hdr.procs)
TrNS     == Hdr.ns
TrAll(p) == TrTopics
TrAllP(p) == TrParams \cup {"ldt"}
TrNat(p) == Nat
TrNone(p) == -1
TrInt == Int
TrNatSet == Nat
Begins == {k \in 1..Len(Lines) : Lines[k].a = "Begin"}

Has(e, f) == f \in DOMAIN e
(* observed fields of the line = fields of the model's action record *)
Match(e, fs) == \A f \in fs : act'[f] = e[f]

Step(e) ==
    CASE e.a = "CreatePublisher"  -> CreatePublisher(e.topic, e.ty) /\ Match(e, {"err"})
      [] e.a = "CreateSubscriber" -> CreateSubscriber(e.sub, e.topic, e.kind, e.out, e.budget) /\ Match(e, {"err"})
      [] e.a = "DeclareParam"     -> DeclareParam(e.p, e.owner, e.v) /\ Match(e, {"err"})
      [] e.a = "CreateLogger"     -> CreateLogger /\ Match(e, {"err"})
      [] e.a = "InitParams"       -> InitParams
      [] e.a = "SetParam"         -> SetParam(e.p, e.v) /\ Match(e, {"err"})
      [] e.a = "Run"              -> Run
      [] e.a = "PublishBegin"     -> PublishBegin(e.topic, e.ty) /\ Match(e, {"err"})
                                     /\ (e.err = "ok" => Head(stack').msg = e.msg)
      [] e.a = "Deliver"          -> Deliver /\ Match(e, {"topic", "msg", "sub", "depth"})
      [] e.a = "PublishEnd"       -> PublishEnd /\ Match(e, {"topic", "msg"})
      [] e.a = "Nested"           ->      \* a publish made from inside a callback
            IF Top.i >= 2 /\ LET s == subs[Top.topic][Top.i - 1] IN s # 0 /\ sinfo[s].kind = "free"
            THEN NestedPublish(e.topic) /\ Head(stack').msg = e.msg
            ELSE /\ Top.topic = e.topic /\ Top.msg = e.msg /\ Top.i = 1    \* predicted by Deliver (relay)
                 /\ UNCHANGED vars
      [] e.a = "Wake"             ->
            /\ Wake(e.proc, IF e.k = "pub" THEN [k |-> "pub", topic |-> e.topic]
                            ELSE IF e.k = "set" THEN [k |-> "set", p |-> e.p, v |-> e.v]
                            ELSE [k |-> "nop"], e.d)
            /\ Match(e, {"t_now"})
            /\ (e.k # "nop" => Head(stack').msg = e.msg)
      [] e.a = "StartProc"        -> StartProc(e.proc, e.off)
      [] e.a = "ProcPublish"      -> ProcPublish(e.t_now, e.topic) /\ Head(stack').msg = e.msg
      [] e.a = "LoggerRow"        ->
            /\ LoggerRow /\ Match(e, {"t_now", "dt"})
            /\ \A t \in DOMAIN e.latest : latest[t] = e.latest[t]      \* row content seen in the real log
            /\ \A p \in DOMAIN e.lpar : lpar[p] = e.lpar[p]
      [] e.a = "Obs"              ->      \* observation of the node-local parameter caches, no step
            /\ \A p \in DOMAIN e.cache : cache[p] = e.cache[p]
            /\ (Has(e, "idle") => (Idle <=> e.idle = 1))
            /\ UNCHANGED vars
      [] OTHER -> FALSE

TraceInit == /\ Init
             /\ \E k \in Begins : /\ tid = Lines[k].tid /\ l = k + 1 /\ last = k + Lines[k].n
                                  /\ TLCSet(Lines[k].tid, k + 1)
TraceNext == /\ l <= last
             /\ Step(Lines[l])
             /\ l' = l + 1 /\ UNCHANGED <<tid, last>>
TraceSpec == TraceInit /\ [][TraceNext]_tvars

Track == TLCSet(tid, IF TLCGet(tid) > l THEN TLCGet(tid) ELSE l)          \* CONSTRAINT
Reached(k) == TLCGet(Lines[k].tid)
Accepted ==                                                               \* POSTCONDITION
    LET bad == {k \in Begins : Reached(k) # k + Lines[k].n + 1
                  /\ PrintT(<<"REJECT", Lines[k].tid, Reached(k) - k, Reached(k)>>)}
    IN Cardinality(bad) = 0
=============================================================================
