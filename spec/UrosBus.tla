------------------------------- MODULE UrosBus -------------------------------
(* C20 -- the discrete-event publish/subscribe bus of cyecca/sim/uros.py.

   One action per critical section of uros.py (linearisation point = return / raise of the
   public call, or one iteration of the fan-out loop of Publisher.publish):

     CreatePublisher CreateSubscriber DeclareParam CreateLogger   (set-up, rejected after lock)
     InitParams SetParam Run                                      (parameters, start of the run)
     PublishBegin Deliver PublishEnd                              (synchronous nested fan-out)
     Wake LoggerRow                                               (simpy event loop)
     StartProc ProcPublish NestedPublish      (FreeNodes only: trace validation of real nodes whose
                                               timeouts / callbacks are not modelled -- Simulator, AttitudeEstimator)

   The fan-out is modelled by an explicit delivery STACK of frames [topic, msg, i]: frame
   = one activation of `for s in core._subscribers[topic]: s.callback(msg)`, i = loop
   position.  A callback that publishes (relay node, like the estimator publishing from
   imu_callback) pushes a new frame on top: nested, synchronous.

   Node behaviours of a subscriber:  sink | relay(out, budget) | follower | free | logger(=id 0).
   Configurations (cfg files): AcyclicRelays (Acyclic = TRUE: every invariant incl. InOrder must hold),
   free (Acyclic = FALSE: InOrderUnlessReentrant must hold, InOrder alone is expected to fail -- the
   re-entrant same-topic publication, known finding publish/order/reentrant-same-topic).
   Messages are globally unique integers 1..nmsg.  Time is an integer number of ticks.
   NULL is -1 for integers and "none" for strings.

   Domain assumptions of the model (documented in the evidence):
     * set-up calls happen at top level (not from inside a callback) and before Run;
     * parameters are declared before init_params (a later declaration leaves the core's
       Params message with a stale dtype: outside the property);
     * the subscriber list of a topic does not change during a fan-out.                  *)
EXTENDS Integers, Sequences, FiniteSets, TLC

CONSTANTS
    NS,            \* number of subscriber ids 1..NS (created in id order)
    Topics,        \* user topics (strings); the topic "params" always exists
    UserTypes,     \* message types a user publisher can be created with
    BadTypes,      \* types used only for wrong-type publish attempts
    ParamNames,    \* user parameter names ("ldt" = logger/dt is always there)
    Vals,          \* values of user parameters
    LdtVals,       \* values for the logger period (ticks)
    LDT0,          \* default logger period (ticks)
    Procs,         \* periodic processes (strings)
    ProcTopics(_), \* topics process p may publish on
    ProcParams(_), \* parameters process p may set
    FreeNodes,     \* TRUE: enable ProcPublish / NestedPublish (trace validation of real nodes)
    Delays(_),     \* re-arm delays of process p (a set: irregular rates, 0 = burst)
    Offsets(_),    \* first wake time of process p
    MaxPub,        \* bound on the number of messages
    Horizon,       \* bound on simulated time
    Budgets,       \* relay budgets (a relay republishes its first `budget` messages)
    Kinds,         \* subset of {"sink","relay","follower","free"}
    Acyclic,       \* TRUE: only wirings whose relay graph has no cycle
    DueFirst,      \* TRUE: external calls during the run only when no event is due now
    PostRunSetup,  \* TRUE: set-up attempts are also explored after Run
    Phased,        \* TRUE: canonical order -- successful set-up only before the first publish / init_params
    DefVals,       \* default values of user parameters
    Sparse         \* TRUE (simulation only): a rejected call only right after a successful one

VARIABLES
    pubs,     \* [AllTopics -> type | "none"]
    subs,     \* [AllTopics -> Seq(0..NS)]      registration order, 0 = logger
    sinfo,    \* [1..NS -> [topic, kind, out, budget, since]]   kind = "none": not created
    fired,    \* [1..NS -> Nat]                 republications done by relay s
    locked,   \* pub_sub_locked
    decl,     \* [AllParams -> owner]  -1 undeclared, -2 unowned (nobody updates it), 0 logger, s>0 follower s
    cache,    \* [AllParams -> Param.value]  (-1 undeclared)
    params,   \* [AllParams -> value in core._params]  (-1: no such field)
    inited,   \* core._params is not None
    stack,    \* Seq of frames [topic, msg, i]
    nmsg,     \* messages published so far
    sent,     \* HISTORY [AllTopics -> Seq(msg)]
    recv,     \* HISTORY [1..NS -> Seq(msg)]
    lrecv,    \* HISTORY [AllTopics -> Seq(msg)]   what the logger's subscriber of that topic got
    lsince,   \* HISTORY [AllTopics -> Len(sent) at logger creation | -1]
    latest,   \* logger.data_latest: [AllTopics -> msg | -1]
    lpar,     \* logger's deep copy of the last Params message it saw
    rows,     \* logger.data_list: Seq of [t, dt, latest, lpar, hl, hp]
    now,      \* simulated time
    queue,    \* [Procs \cup {"log"} -> next wake time | -1]
    running,  \* Core.run has been called
    reent,    \* HISTORY: some publish happened on a topic whose fan-out was in progress
    dirty,    \* HISTORY: core._params changed (re-init) and has not been broadcast since
    act       \* last action with its arguments and outcome (for the drivers / action properties)

PT == "params"
AllTopics == Topics \cup {PT}
AllParams == ParamNames \cup {"ldt"}
AllProcs  == Procs \cup {"log"}
SubIds    == 1..NS

vars  == <<pubs, subs, sinfo, fired, locked, decl, cache, params, inited, stack, nmsg, sent, recv,
           lrecv, lsince, latest, lpar, rows, now, queue, running, reent, dirty, act>>
reg   == <<pubs, subs, sinfo, locked, decl>>            \* registries
hist  == <<sent, recv, lrecv>>
bus   == <<stack, nmsg, sent, recv, lrecv, fired, reent, dirty>>
logv  == <<latest, lpar, rows>>
timev == <<now, queue, running>>

NoSub == [topic |-> "none", kind |-> "none", out |-> "none", budget |-> 0, since |-> 0]

Init ==
    /\ pubs   = [t \in AllTopics |-> IF t = PT THEN "Params" ELSE "none"]
    /\ subs   = [t \in AllTopics |-> <<>>]
    /\ sinfo  = [s \in SubIds |-> NoSub]
    /\ fired  = [s \in SubIds |-> 0]
    /\ locked = FALSE
    /\ decl   = [p \in AllParams |-> -1]
    /\ cache  = [p \in AllParams |-> -1]
    /\ params = [p \in AllParams |-> -1]
    /\ inited = FALSE
    /\ stack  = <<>>
    /\ nmsg   = 0
    /\ sent   = [t \in AllTopics |-> <<>>]
    /\ recv   = [s \in SubIds |-> <<>>]
    /\ lrecv  = [t \in AllTopics |-> <<>>]
    /\ lsince = [t \in AllTopics |-> -1]
    /\ latest = [t \in AllTopics |-> -1]
    /\ lpar   = [p \in AllParams |-> -1]
    /\ rows   = <<>>
    /\ now    = 0
    /\ queue  = [p \in AllProcs |-> -1]
    /\ running = FALSE
    /\ reent  = FALSE
    /\ dirty  = FALSE
    /\ act    = [a |-> "Init", err |-> "ok"]

(* ------------------------------------------------------------------ helpers *)
Top       == Head(stack)
Idle      == stack = <<>>
Last(q)   == q[Len(q)]
Created(s) == sinfo[s].kind # "none"
NextSub   == IF \E s \in SubIds : ~Created(s)
             THEN CHOOSE s \in SubIds : ~Created(s) /\ \A r \in SubIds : r < s => Created(r)
             ELSE 0
Sched     == {p \in AllProcs : queue[p] >= 0}
MinTime   == CHOOSE m \in {queue[p] : p \in Sched} : \A p \in Sched : queue[p] >= m
DueNow    == running /\ \E p \in Sched : queue[p] <= now
External  == Idle /\ (DueFirst => ~DueNow)       \* guard of calls made by the test harness
SetupOK   == Idle /\ (~running \/ PostRunSetup) /\ (DueFirst => ~DueNow)
RejOK     == Sparse => act.err = "ok"       \* simulation aid: no two rejected calls in a row
Fresh     == Phased => (nmsg = 0 /\ ~inited)     \* guard of a SUCCESSFUL set-up step

(* relay graph: edge topic(s) -> out(s) for every relay s; acyclic iff no topic reaches itself *)
Edges(si)  == {<<si[s].topic, si[s].out>> : s \in {r \in SubIds : si[r].kind = "relay"}}
RECURSIVE Reach(_, _, _)
Reach(E, S, n) == IF n = 0 THEN S
                  ELSE Reach(E, S \cup {e[2] : e \in {x \in E : x[1] \in S}}, n - 1)
IsAcyclic(si) == LET E == Edges(si) IN
                 \A t \in AllTopics : t \notin Reach(E, {e[2] : e \in {x \in E : x[1] = t}}, Cardinality(AllTopics))

(* push one publication of topic t (type already checked): code of Publisher.publish after
   the isinstance test.  A topic without subscribers gets a frame that ends at once.    *)
Push(t) ==
    /\ nmsg' = nmsg + 1
    /\ sent' = [sent EXCEPT ![t] = Append(@, nmsg + 1)]
    /\ stack' = <<[topic |-> t, msg |-> nmsg + 1, i |-> 1]>> \o stack
    /\ reent' = (reent \/ \E k \in 1..Len(stack) : stack[k].topic = t)
    /\ dirty' = IF t = PT THEN FALSE ELSE dirty

(* ------------------------------------------------------------------ set-up *)
CreatePublisher(t, ty) ==
    /\ SetupOK
    /\ IF locked THEN
            /\ RejOK
            /\ act' = [a |-> "CreatePublisher", topic |-> t, ty |-> ty, err |-> "locked"]
            /\ UNCHANGED pubs
       ELSE IF pubs[t] # "none" THEN
            /\ RejOK
            /\ act' = [a |-> "CreatePublisher", topic |-> t, ty |-> ty, err |-> "dup"]
            /\ UNCHANGED pubs
       ELSE /\ Fresh
            /\ act' = [a |-> "CreatePublisher", topic |-> t, ty |-> ty, err |-> "ok"]
            /\ pubs' = [pubs EXCEPT ![t] = ty]
    /\ UNCHANGED <<subs, sinfo, locked, decl, cache, params, inited, lsince>>
    /\ UNCHANGED <<bus, logv, timev>>

CreateSubscriber(s, t, k, o, b) ==
    /\ SetupOK
    /\ s = NextSub /\ s # 0
    /\ k = "follower" => t = PT
    /\ k = "relay" => o \in Topics /\ b \in Budgets
    /\ k # "relay" => o = "none" /\ b = 0
    /\ LET info == [topic |-> t, kind |-> k, out |-> o, budget |-> b, since |-> Len(sent[t])] IN
       IF locked THEN
            /\ RejOK
            /\ act' = [a |-> "CreateSubscriber", sub |-> s, topic |-> t, kind |-> k, out |-> o, budget |-> b, err |-> "locked"]
            /\ UNCHANGED <<subs, sinfo>>
       ELSE /\ Fresh
            /\ Acyclic => IsAcyclic([sinfo EXCEPT ![s] = info])
            /\ act' = [a |-> "CreateSubscriber", sub |-> s, topic |-> t, kind |-> k, out |-> o, budget |-> b, err |-> "ok"]
            /\ subs' = [subs EXCEPT ![t] = Append(@, s)]
            /\ sinfo' = [sinfo EXCEPT ![s] = info]
    /\ UNCHANGED <<pubs, locked, decl, cache, params, inited, lsince>>
    /\ UNCHANGED <<bus, logv, timev>>

(* Param(core, name, value, dtype): owner o = -2 (a Param nobody updates) or a follower *)
DeclareParam(p, o, v) ==
    /\ SetupOK
    /\ p \in ParamNames
    /\ o = -2 \/ (o \in SubIds /\ sinfo[o].kind = "follower")
    /\ ~inited                                  \* domain assumption (see header)
    /\ IF locked THEN
            /\ RejOK
            /\ act' = [a |-> "DeclareParam", p |-> p, owner |-> o, v |-> v, err |-> "locked"]
            /\ UNCHANGED <<decl, cache>>
       ELSE IF decl[p] # -1 THEN
            /\ RejOK
            /\ act' = [a |-> "DeclareParam", p |-> p, owner |-> o, v |-> v, err |-> "dup"]
            /\ UNCHANGED <<decl, cache>>
       ELSE /\ Fresh
            /\ act' = [a |-> "DeclareParam", p |-> p, owner |-> o, v |-> v, err |-> "ok"]
            /\ decl' = [decl EXCEPT ![p] = o]
            /\ cache' = [cache EXCEPT ![p] = v]
    /\ UNCHANGED <<pubs, subs, sinfo, locked, params, inited, lsince>>
    /\ UNCHANGED <<bus, logv, timev>>

(* Logger(core): declares logger/dt, subscribes to every existing publisher, locks, starts
   its process (first wake at the current time).                                         *)
CreateLogger ==
    /\ SetupOK
    /\ ~inited                                  \* domain assumption (declares a parameter)
    /\ IF locked THEN
            /\ RejOK
            /\ act' = [a |-> "CreateLogger", err |-> "locked"]
            /\ UNCHANGED <<subs, locked, decl, cache, lsince, queue>>
       ELSE /\ Fresh
            /\ act' = [a |-> "CreateLogger", err |-> "ok"]
            /\ decl' = [decl EXCEPT !["ldt"] = 0]
            /\ cache' = [cache EXCEPT !["ldt"] = LDT0]
            /\ subs' = [t \in AllTopics |-> IF pubs[t] # "none" THEN Append(subs[t], 0) ELSE subs[t]]
            /\ lsince' = [t \in AllTopics |-> IF pubs[t] # "none" THEN Len(sent[t]) ELSE -1]
            /\ locked' = TRUE
            /\ queue' = [queue EXCEPT !["log"] = now]
    /\ UNCHANGED <<pubs, sinfo, params, inited, now, running>>
    /\ UNCHANGED <<bus, logv>>

(* ------------------------------------------------------------------ parameters *)
Snapshot == [p \in AllParams |-> IF decl[p] # -1 THEN cache[p] ELSE -1]     \* msgs.Params(core)

InitParams ==
    /\ External /\ ~running
    /\ params' = Snapshot
    /\ inited' = TRUE
    /\ dirty' = (dirty \/ (inited /\ Snapshot # params))
    /\ act' = [a |-> "InitParams", err |-> "ok"]
    /\ UNCHANGED <<reg, cache, lsince>>
    /\ UNCHANGED <<stack, nmsg, sent, recv, lrecv, fired, reent>>
    /\ UNCHANGED <<logv, timev>>

(* Core.set_param: store, THEN broadcast *)
SetParam(p, v) ==
    /\ External
    /\ nmsg < MaxPub
    /\ p \in AllParams
    /\ IF ~inited THEN
            /\ RejOK
            /\ act' = [a |-> "SetParam", p |-> p, v |-> v, err |-> "noinit"]
            /\ UNCHANGED <<params, bus>>
       ELSE IF params[p] = -1 THEN
            /\ RejOK
            /\ act' = [a |-> "SetParam", p |-> p, v |-> v, err |-> "nofield"]
            /\ UNCHANGED <<params, bus>>
       ELSE /\ act' = [a |-> "SetParam", p |-> p, v |-> v, err |-> "ok"]
            /\ params' = [params EXCEPT ![p] = v]
            /\ Push(PT)
            /\ UNCHANGED <<recv, lrecv, fired>>
    /\ UNCHANGED <<reg, cache, inited, lsince>>
    /\ UNCHANGED <<logv, timev>>

(* Core.run up to the point where simpy takes over: init if needed, broadcast *)
Run ==
    /\ Idle /\ ~running
    /\ nmsg < MaxPub
    /\ params' = IF inited THEN params ELSE Snapshot
    /\ inited' = TRUE
    /\ Push(PT)
    /\ running' = TRUE
    /\ queue' = [p \in AllProcs |-> IF p = "log" \/ queue[p] >= 0 THEN queue[p] ELSE Offsets(p)]
    /\ act' = [a |-> "Run", err |-> "ok"]
    /\ UNCHANGED <<reg, cache, lsince, recv, lrecv, fired, now>>
    /\ UNCHANGED logv

(* ------------------------------------------------------------------ publish *)
(* a direct call of Publisher.publish by the environment with a message of type ty *)
PublishBegin(t, ty) ==
    /\ External
    /\ nmsg < MaxPub
    /\ pubs[t] # "none"
    /\ t = PT => inited                          \* the only Params message is core._params
    /\ IF ty # pubs[t] THEN
            /\ RejOK
            /\ act' = [a |-> "PublishBegin", topic |-> t, ty |-> ty, err |-> "type"]
            /\ UNCHANGED bus
       ELSE /\ act' = [a |-> "PublishBegin", topic |-> t, ty |-> ty, err |-> "ok"]
            /\ Push(t)
            /\ UNCHANGED <<recv, lrecv, fired>>
    /\ UNCHANGED <<reg, cache, params, inited, lsince>>
    /\ UNCHANGED <<logv, timev>>

(* one iteration of the fan-out loop of the innermost publish: the callback of the next
   subscriber runs (to its first nested publish, which then runs to completion before the
   loop continues -- that is what the stack expresses).                                  *)
Deliver ==
    /\ ~Idle
    /\ Top.i <= Len(subs[Top.topic])
    /\ LET f == Top
           s == subs[f.topic][f.i]
           rest == <<[f EXCEPT !.i = f.i + 1]>> \o Tail(stack)
       IN
       /\ act' = [a |-> "Deliver", topic |-> f.topic, msg |-> f.msg, sub |-> s, depth |-> Len(stack), err |-> "ok"]
       /\ IF s = 0 THEN                                               \* Logger.callback
              /\ lrecv' = [lrecv EXCEPT ![f.topic] = Append(@, f.msg)]
              /\ latest' = [latest EXCEPT ![f.topic] = f.msg]
              /\ IF f.topic = PT
                 THEN /\ lpar' = params                               \* deepcopy(msg.data)
                      /\ cache' = [cache EXCEPT !["ldt"] = params["ldt"]]
                 ELSE UNCHANGED <<lpar, cache>>
              /\ stack' = rest
              /\ UNCHANGED <<recv, fired, nmsg, sent, reent, dirty>>
          ELSE
              /\ recv' = [recv EXCEPT ![s] = Append(@, f.msg)]
              /\ UNCHANGED <<lrecv, latest, lpar>>
              /\ IF sinfo[s].kind = "follower" THEN                    \* p.update() for the node's params
                     /\ cache' = [p \in AllParams |-> IF decl[p] = s THEN params[p] ELSE cache[p]]
                     /\ stack' = rest
                     /\ UNCHANGED <<fired, nmsg, sent, reent, dirty>>
                 ELSE IF sinfo[s].kind = "relay" /\ fired[s] < sinfo[s].budget /\ pubs[sinfo[s].out] # "none" THEN
                     LET t == sinfo[s].out IN
                     /\ fired' = [fired EXCEPT ![s] = @ + 1]
                     /\ nmsg' = nmsg + 1
                     /\ sent' = [sent EXCEPT ![t] = Append(@, nmsg + 1)]
                     /\ stack' = <<[topic |-> t, msg |-> nmsg + 1, i |-> 1]>> \o rest
                     /\ reent' = (reent \/ \E k \in 1..Len(stack) : stack[k].topic = t)
                     /\ UNCHANGED <<cache, dirty>>
                 ELSE /\ stack' = rest
                      /\ UNCHANGED <<cache, fired, nmsg, sent, reent, dirty>>
    /\ UNCHANGED <<reg, params, inited, lsince, rows>>
    /\ UNCHANGED timev

PublishEnd ==
    /\ ~Idle
    /\ Top.i > Len(subs[Top.topic])
    /\ stack' = Tail(stack)
    /\ act' = [a |-> "PublishEnd", topic |-> Top.topic, msg |-> Top.msg, err |-> "ok"]
    /\ UNCHANGED <<reg, cache, params, inited, lsince, nmsg, sent, recv, lrecv, fired, reent, dirty>>
    /\ UNCHANGED <<logv, timev>>

(* ------------------------------------------------------------------ event loop *)
(* process p (its timeout is the earliest; ties nondeterministic) wakes, performs one call
   cmd = [k |-> "pub", topic |-> t] | [k |-> "set", p |-> name, v |-> value] | [k |-> "nop"]
   and re-arms after d                                                                     *)
Wake(p, cmd, d) ==
    /\ Idle /\ running
    /\ p \in Procs /\ queue[p] >= 0 /\ queue[p] = MinTime /\ queue[p] <= Horizon
    /\ nmsg < MaxPub
    /\ d \in Delays(p)
    /\ now' = queue[p]
    /\ queue' = [queue EXCEPT ![p] = queue[p] + d]
    /\ IF cmd.k = "pub"
       THEN /\ cmd.topic \in ProcTopics(p) /\ pubs[cmd.topic] # "none" /\ cmd.topic # PT
            /\ Push(cmd.topic)
            /\ act' = [a |-> "Wake", proc |-> p, k |-> "pub", topic |-> cmd.topic, d |-> d, t_now |-> queue[p], err |-> "ok"]
            /\ UNCHANGED params
       ELSE IF cmd.k = "set"
       THEN /\ params[cmd.p] # -1                      \* running => inited; field exists
            /\ params' = [params EXCEPT ![cmd.p] = cmd.v]
            /\ Push(PT)
            /\ act' = [a |-> "Wake", proc |-> p, k |-> "set", p |-> cmd.p, v |-> cmd.v, d |-> d, t_now |-> queue[p], err |-> "ok"]
       ELSE /\ act' = [a |-> "Wake", proc |-> p, k |-> "nop", d |-> d, t_now |-> queue[p], err |-> "ok"]   \* e.g. an initial offset
            /\ UNCHANGED <<params, stack, nmsg, sent, reent, dirty>>
    /\ UNCHANGED <<reg, cache, inited, lsince, recv, lrecv, fired, running>>
    /\ UNCHANGED logv

(* a process whose timeouts are not modelled (the real Simulator node) publishes at time tn:
   legal iff no modelled event is due earlier.  Used by trace validation only.             *)
ProcPublish(tn, t) ==
    /\ FreeNodes
    /\ Idle /\ running /\ tn >= now
    /\ \A q \in Sched : queue[q] >= tn
    /\ pubs[t] # "none" /\ t # PT
    /\ now' = tn
    /\ Push(t)
    /\ act' = [a |-> "ProcPublish", topic |-> t, t_now |-> tn, err |-> "ok"]
    /\ UNCHANGED <<reg, cache, params, inited, lsince, recv, lrecv, fired, running, queue>>
    /\ UNCHANGED logv

(* simpy.Process(core, gen) whose generator first waits `off`: trace validation only
   (the exhaustive configurations start their processes at Run through Offsets)            *)
StartProc(p, off) ==
    /\ FreeNodes
    /\ Idle /\ p \in Procs /\ queue[p] = -1 /\ off >= 0
    /\ queue' = [queue EXCEPT ![p] = now + off]
    /\ act' = [a |-> "StartProc", proc |-> p, off |-> off, err |-> "ok"]
    /\ UNCHANGED <<reg, cache, params, inited, lsince, now, running>>
    /\ UNCHANGED <<bus, logv>>

(* a node of kind "free" (the real AttitudeEstimator) publishes from inside its callback *)
NestedPublish(t) ==
    /\ FreeNodes
    /\ ~Idle /\ Top.i >= 2
    /\ LET s == subs[Top.topic][Top.i - 1] IN s # 0 /\ sinfo[s].kind = "free"
    /\ pubs[t] # "none" /\ t # PT
    /\ Push(t)
    /\ act' = [a |-> "NestedPublish", topic |-> t, err |-> "ok"]
    /\ UNCHANGED <<reg, cache, params, inited, lsince, recv, lrecv, fired>>
    /\ UNCHANGED <<logv, timev>>

(* Logger.run: one row, then Timeout(dt.get()) *)
LoggerRow ==
    /\ Idle /\ running /\ locked
    /\ queue["log"] >= 0 /\ queue["log"] = MinTime /\ queue["log"] <= Horizon
    /\ now' = queue["log"]
    /\ rows' = Append(rows, [t |-> queue["log"], dt |-> cache["ldt"], latest |-> latest, lpar |-> lpar,
                              hl |-> [t \in AllTopics |-> IF lrecv[t] = <<>> THEN -1 ELSE Last(lrecv[t])],
                              hp |-> params])
    /\ queue' = [queue EXCEPT !["log"] = queue["log"] + cache["ldt"]]
    /\ act' = [a |-> "LoggerRow", t_now |-> queue["log"], dt |-> cache["ldt"], err |-> "ok"]
    /\ UNCHANGED <<reg, cache, params, inited, lsince, running, latest, lpar>>
    /\ UNCHANGED bus

(* ------------------------------------------------------------------ next-state *)
DoCreatePublisher  == \E t \in AllTopics, ty \in UserTypes : CreatePublisher(t, ty)
DoCreateSubscriber == \E t \in AllTopics, k \in Kinds, o \in Topics \cup {"none"}, b \in Budgets \cup {0} :
                         CreateSubscriber(NextSub, t, k, o, b)
DoDeclareParam     == \E p \in ParamNames, o \in {-2} \cup SubIds, v \in DefVals : DeclareParam(p, o, v)
DoSetParam         == \E p \in AllParams : \E v \in (IF p = "ldt" THEN LdtVals ELSE Vals) : SetParam(p, v)
DoPublishBegin     == \E t \in AllTopics, ty \in UserTypes \cup BadTypes \cup {"Params"} : PublishBegin(t, ty)
DoWake             == \E p \in Procs : \E d \in Delays(p) :
                         \/ \E t \in ProcTopics(p) : Wake(p, [k |-> "pub", topic |-> t], d)
                         \/ \E n \in ProcParams(p) : \E v \in (IF n = "ldt" THEN LdtVals ELSE Vals) :
                                Wake(p, [k |-> "set", p |-> n, v |-> v], d)

Next == \/ DoCreatePublisher \/ DoCreateSubscriber \/ DoDeclareParam \/ CreateLogger
        \/ InitParams \/ DoSetParam \/ Run
        \/ DoPublishBegin \/ Deliver \/ PublishEnd
        \/ DoWake \/ LoggerRow
        \/ (FreeNodes /\ \E tn \in now..Horizon, t \in Topics : ProcPublish(tn, t))
        \/ (FreeNodes /\ \E t \in Topics : NestedPublish(t))
        \/ (FreeNodes /\ \E p \in Procs, off \in 0..Horizon : StartProc(p, off))

Spec == Init /\ [][Next]_vars

(* ------------------------------------------------------------------ properties *)
IsPrefix(a, b) == Len(a) <= Len(b) /\ \A k \in 1..Len(a) : a[k] = b[k]
Range(q) == {q[k] : k \in 1..Len(q)}
NoDup(q) == \A i, j \in 1..Len(q) : i # j => q[i] # q[j]
From(q, n) == SubSeq(q, n + 1, Len(q))

Expected(s)  == From(sent[sinfo[s].topic], sinfo[s].since)      \* what subscriber s is owed
LExpected(t) == IF lsince[t] < 0 THEN <<>> ELSE From(sent[t], lsince[t])

(* exactly once: never twice, never a message of another topic or from before the
   subscription; nothing missing when every publish call has returned (synchronous)    *)
ExactlyOnce ==
    /\ \A s \in SubIds : Created(s) =>
          /\ NoDup(recv[s]) /\ Range(recv[s]) \subseteq Range(Expected(s))
          /\ Idle => Range(recv[s]) = Range(Expected(s))
    /\ \A t \in AllTopics :
          /\ NoDup(lrecv[t]) /\ Range(lrecv[t]) \subseteq Range(LExpected(t))
          /\ Idle => Range(lrecv[t]) = Range(LExpected(t))
(* nobody else: a subscriber that does not exist, or of another topic, gets nothing *)
NoStrangers ==
    /\ \A s \in SubIds : ~Created(s) => recv[s] = <<>>
    /\ \A s \in SubIds : Created(s) => \A t \in AllTopics : t # sinfo[s].topic => Range(recv[s]) \cap Range(sent[t]) = {}
    /\ \A t \in AllTopics : lsince[t] < 0 => lrecv[t] = <<>>
(* publication order *)
InOrder ==
    /\ \A s \in SubIds : Created(s) => IsPrefix(recv[s], Expected(s))
    /\ \A t \in AllTopics : IsPrefix(lrecv[t], LExpected(t))
InOrderUnlessReentrant == ~reent => InOrder
(* the frame of an in-progress fan-out is consistent with the histories *)
StackOK ==
    \A k \in 1..Len(stack) : LET f == stack[k] IN
        /\ f.msg \in Range(sent[f.topic]) /\ f.i >= 1 /\ f.i <= Len(subs[f.topic]) + 1
(* parameters: a follower that has received the latest broadcast holds the core's values *)
ParamsSeen ==
    (Idle /\ inited /\ ~dirty /\ sent[PT] # <<>>) =>
        \A p \in AllParams :
            /\ (decl[p] > 0 /\ recv[decl[p]] # <<>> /\ Last(recv[decl[p]]) = Last(sent[PT])) => cache[p] = params[p]
            /\ (decl[p] = 0 /\ lrecv[PT] # <<>> /\ Last(lrecv[PT]) = Last(sent[PT])) => cache[p] = params[p] /\ lpar = params
ParamsSeenRunning ==
    (Idle /\ running) => \A p \in AllParams : decl[p] >= 0 => cache[p] = params[p]
(* logger *)
RowsOK ==
    /\ \A k \in 1..Len(rows) :
          /\ rows[k].latest = rows[k].hl                  \* latest delivered message of every topic
          /\ (lsince[PT] >= 0 /\ rows[k].hl[PT] # -1) => rows[k].lpar = rows[k].hp
          /\ rows[k].dt \in LdtVals \cup {LDT0}
    /\ \A k \in 2..Len(rows) :
          /\ rows[k].t = rows[k-1].t + rows[k-1].dt       \* one row per logging period
          /\ rows[k].t >= rows[k-1].t
    /\ (rows # <<>>) => rows[1].t = 0
    /\ (running /\ locked) => now <= queue["log"]         \* no logging instant is skipped
TimeOK == [][now' >= now]_vars
(* rejected calls change nothing *)
Rejected ==
    [][act'.err # "ok" => UNCHANGED <<reg, cache, params, inited, bus, logv, timev>>]_vars
WrongType ==
    [][(act'.a = "PublishBegin" /\ act'.ty # pubs[act'.topic]) =>
            (act'.err = "type" /\ UNCHANGED <<hist, stack>>)]_vars
LockRespected ==
    [][locked => UNCHANGED <<pubs, subs, sinfo, decl>>]_vars

(* ------------------------------------------------------------------ model-checking aids *)
View == <<pubs, subs, sinfo, fired, locked, decl, cache, params, inited, stack, nmsg, sent, recv,
          lrecv, lsince, latest, lpar, rows, now, queue, running, reent, dirty>>  \* everything but act
Bound == nmsg <= MaxPub + NS
=============================================================================
