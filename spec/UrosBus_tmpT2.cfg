SPECIFICATION Spec
CONSTANTS
  NS = 2
  Topics = {"a", "b"}
  UserTypes = {"A"}
  BadTypes = {"X"}
  ParamNames = {"p1"}
  Vals = {1, 2}
  LdtVals = {2}
  LDT0 = 1
  Procs <- Procs2
  ProcTopics <- PTopA
  ProcParams <- PParLdt
  FreeNodes = FALSE
  Delays <- Delay12
  Offsets <- Off0
  MaxPub = 5
  Horizon = 4
  Budgets = {1}
  Kinds = {"sink", "relay", "follower"}
  Acyclic = TRUE
  DueFirst = FALSE
  PostRunSetup = FALSE
  Phased = TRUE
  DefVals = {1}
  Sparse = FALSE
INVARIANTS ExactlyOnce NoStrangers InOrder StackOK ParamsSeen ParamsSeenRunning RowsOK
PROPERTIES TimeOK Rejected WrongType LockRespected
VIEW View
CONSTRAINT Bound
CHECK_DEADLOCK FALSE
