INIT ICInit
NEXT ICNext
CONSTANTS
  DtMs = 10
  TEndMs = 30000
  TAttMs = 10000
  TPosMs = 25000
  TiltMax = 50
  YawMax = 50
  RateMax = 100
  PosMax = 50
  Tier = "quick"
INVARIANTS ICInv ICSeedInv ICTiltInv
CHECK_DEADLOCK FALSE
