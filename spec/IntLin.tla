------------------------------- MODULE IntLin -------------------------------
(* Integer / exact linear algebra on sequences-of-sequences.  Matrices are row-major
   tuples <<row1, row2, ...>>; all operators are total on well-shaped arguments.      *)
EXTENDS Integers, Sequences

Abs(x)      == IF x < 0 THEN -x ELSE x
Sgn(x)      == IF x < 0 THEN -1 ELSE IF x > 0 THEN 1 ELSE 0
Min2(a, b)  == IF a < b THEN a ELSE b
Max2(a, b)  == IF a > b THEN a ELSE b
Clamp(x, lo, hi) == IF x > hi THEN hi ELSE IF x < lo THEN lo ELSE x

RECURSIVE GcdN(_, _)
GcdN(a, b)  == IF b = 0 THEN a ELSE GcdN(b, a % b)              \* a, b >= 0
Gcd(a, b)   == GcdN(Abs(a), Abs(b))

(* explicit expansions for the common small sizes: TLC interprets recursive function
   definitions slowly (measured 1.2 ms/state before, 0.2 ms after)                    *)
RECURSIVE SumFrom(_, _)
SumFrom(s, k) == IF k > Len(s) THEN 0 ELSE s[k] + SumFrom(s, k + 1)
SumSeq(s)   == CASE Len(s) = 3 -> s[1] + s[2] + s[3]
                 [] Len(s) = 4 -> s[1] + s[2] + s[3] + s[4]
                 [] Len(s) = 2 -> s[1] + s[2]
                 [] OTHER -> SumFrom(s, 1)
RECURSIVE MinFrom(_, _), MaxFrom(_, _)
MinFrom(s, k) == IF k = Len(s) THEN s[k] ELSE Min2(s[k], MinFrom(s, k + 1))
MaxFrom(s, k) == IF k = Len(s) THEN s[k] ELSE Max2(s[k], MaxFrom(s, k + 1))
MinSeq(s)   == IF Len(s) = 4 THEN Min2(Min2(s[1], s[2]), Min2(s[3], s[4])) ELSE MinFrom(s, 1)
MaxSeq(s)   == IF Len(s) = 4 THEN Max2(Max2(s[1], s[2]), Max2(s[3], s[4])) ELSE MaxFrom(s, 1)

RECURSIVE DotFrom(_, _, _)
DotFrom(u, v, k) == IF k > Len(u) THEN 0 ELSE u[k] * v[k] + DotFrom(u, v, k + 1)
(* TLC represents [i \in S |-> e] lazily and re-evaluates e on every application; SubSeq
   converts to an explicit tuple of evaluated entries.  Fv/FM "force" vectors/matrices so
   that nested products do not recompute their operands (measured: 0.5 s -> 2 ms per 9x9
   conjugation).                                                                       *)
Fv(v)       == SubSeq(v, 1, Len(v))
FM(M)       == LET r == [i \in 1..Len(M) |-> SubSeq(M[i], 1, Len(M[i]))] IN SubSeq(r, 1, Len(r))

Dot(u, v)   == CASE Len(u) = 3 -> u[1]*v[1] + u[2]*v[2] + u[3]*v[3]
                 [] Len(u) = 4 -> u[1]*v[1] + u[2]*v[2] + u[3]*v[3] + u[4]*v[4]
                 [] Len(u) = 2 -> u[1]*v[1] + u[2]*v[2]
                 [] OTHER -> DotFrom(u, v, 1)
NormSq(u)   == Dot(u, u)
VAdd(u, v)  == Fv([k \in 1..Len(u) |-> u[k] + v[k]])
VSub(u, v)  == Fv([k \in 1..Len(u) |-> u[k] - v[k]])
VScale(s, u) == Fv([k \in 1..Len(u) |-> s * u[k]])
VNeg(u)     == Fv([k \in 1..Len(u) |-> -u[k]])
Cross(u, v) == << u[2]*v[3] - u[3]*v[2], u[3]*v[1] - u[1]*v[3], u[1]*v[2] - u[2]*v[1] >>
Hat(v)      == << <<0, -v[3], v[2]>>, <<v[3], 0, -v[1]>>, <<-v[2], v[1], 0>> >>

Rows(A)     == Len(A)
Cols(A)     == Len(A[1])
RECURSIVE MMulEntry(_, _, _, _, _)
MMulEntry(A, B, i, j, k) == IF k > Len(B) THEN 0 ELSE A[i][k] * B[k][j] + MMulEntry(A, B, i, j, k + 1)
MMul(A, B)  == FM([i \in 1..Rows(A) |-> [j \in 1..Cols(B) |->
                   CASE Len(B) = 3 -> A[i][1]*B[1][j] + A[i][2]*B[2][j] + A[i][3]*B[3][j]
                     [] Len(B) = 4 -> A[i][1]*B[1][j] + A[i][2]*B[2][j] + A[i][3]*B[3][j] + A[i][4]*B[4][j]
                     [] Len(B) = 2 -> A[i][1]*B[1][j] + A[i][2]*B[2][j]
                     [] OTHER -> MMulEntry(A, B, i, j, 1)]])
MVec(A, v)  == Fv([i \in 1..Rows(A) |-> Dot(A[i], v)])
MT(A)       == FM([j \in 1..Cols(A) |-> [i \in 1..Rows(A) |-> A[i][j]]])
MAdd(A, B)  == FM([i \in 1..Rows(A) |-> [j \in 1..Cols(A) |-> A[i][j] + B[i][j]]])
MSub(A, B)  == FM([i \in 1..Rows(A) |-> [j \in 1..Cols(A) |-> A[i][j] - B[i][j]]])
MScale(s, A) == FM([i \in 1..Rows(A) |-> [j \in 1..Cols(A) |-> s * A[i][j]]])
Ident(n)    == FM([i \in 1..n |-> [j \in 1..n |-> IF i = j THEN 1 ELSE 0]])
Zeros(n, m) == FM([i \in 1..n |-> [j \in 1..m |-> 0]])
Outer(u, v) == FM([i \in 1..Len(u) |-> [j \in 1..Len(v) |-> u[i] * v[j]]])
Trace3(A)   == A[1][1] + A[2][2] + A[3][3]
Det3(A)     == A[1][1]*(A[2][2]*A[3][3] - A[2][3]*A[3][2])
             - A[1][2]*(A[2][1]*A[3][3] - A[2][3]*A[3][1])
             + A[1][3]*(A[2][1]*A[3][2] - A[2][2]*A[3][1])
(* block matrix from a matrix of blocks given as function (bi,bj) -> matrix; all blocks
   in block-row bi have the same number of rows                                          *)
Block2(A, B, C, D) == FM([i \in 1..(Rows(A) + Rows(C)) |-> IF i <= Rows(A) THEN A[i] \o B[i]
                                                          ELSE C[i - Rows(A)] \o D[i - Rows(A)]])
=============================================================================
