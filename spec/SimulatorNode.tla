---------------------------- MODULE SimulatorNode ----------------------------
(* G01 (growth) -- the schedule of the Simulator node (cyecca/estimate/attitude/simulator.py):
   which message is published at which simulated time, with which time stamp and from which
   true state, how the true state is advanced, which parameters are declared and read.

   Transcription of Simulator.run (one model step per observable effect of the code; the
   comments quote the code):

        x = self.x0 ; time_eps = 1e-3
        while True:
   Wake     t = self.core.now
            omega_b = profile(t)
            dt = t - self.t_last_sim ; self.t_last_sim = t
   Prop     if t != 0:  x = simulate(t, x, omega_b, sn_gyro_rw, w, dt)
   ImuDec   if t == 0 or t - self.t_last_imu >= self.dt_imu - time_eps:
                self.t_last_imu = t
                get_state(x) ; msg_att.time = t ; pub_att.publish         (event "att")
   ImuPub       measure_gyro(x, omega_b, std_gyro, w) ; measure_accel(x, g, std_accel, w)
                msg_imu.time = t ; pub_imu.publish                         (event "imu")
   MagDec   if t == 0 or t - self.t_last_mag >= self.dt_mag - time_eps:
                self.t_last_mag = t
                measure_mag(x, mag_str, mag_decl, mag_incl, std_mag, w)
                msg_mag.time = t ; pub_mag.publish                         (event "mag")
   Sleep    yield simpy.Timeout(self.core, self.dt_sim)                    (event "sleep")

   Parameters are Param objects refreshed by params_callback on every message of the "params"
   topic.  The node is a simpy coroutine, so a parameter change can only take effect while it is
   suspended in the Timeout (ParamChange is enabled at pc = "asleep" only).

   Time is integer microseconds.  The code compares doubles; when a gap equals  period - 1 ms
   exactly in microseconds the double comparison may fall either way, so at an exact tie both
   outcomes are allowed (tb), as in EstimatorNode.  core.run(until = H) processes the events
   strictly before H (simpy schedules the stop event with urgent priority); a wake-up at exactly
   H (possible only through double rounding of the accumulated time) is a tie as well.
   Ties repeat on every period when (period - 1 ms) is a multiple of dt_sim, and every both-ways
   tie doubles the number of histories: TieBudget bounds the number of ties per run explored both
   ways (later ties: publish, which is what IEEE doubles do for the sums that occur); the trace
   specification sets it to infinity, i.e. accepts either outcome at every tie.

   The true state is abstracted to  age = the total time it has been integrated over  and
   ver = the number of simulate calls that produced it (the trace binds ver to the actual
   state vectors by identity: version k is the output of the k-th simulate call).

   The whole node state is ONE record (variable sim) and the step relation is the set-valued
   operator Succ, so that SimulatorNodeTrace can re-use it to predict the next observable event.
   Hist fields (prefix h) are history variables used by the invariants only.                   *)
EXTENDS Integers, Sequences, FiniteSets, TLC

CONSTANTS Cfgs,       \* set of <<S, I, M>> : dt_sim, dt_imu, dt_mag in microseconds
          Horizons,   \* set of run lengths H (core.run(until = H))
          ChangeTo,   \* set of <<S, I, M>> a parameter change may install
          MaxCh,      \* number of parameter changes per run
          TieBudget,  \* number of exact double ties per run at which BOTH outcomes are explored (afterwards: publish); bounds the model only
          ChangeBy    \* parameter changes happen within the first ChangeBy loop iterations (bounds the model only)

VARIABLE sim

EPS == 1000          \* time_eps = 1e-3 s

(* parameters read by the calls (integer coded; the lattice uses two symbolic settings) *)
Par0 == [sn |-> 10, sg |-> 1000, sa |-> 35000, sm |-> 2500, g |-> 9800000, ms |-> 100000, decl |-> 0, incl |-> 0, noise |-> 1]
Par1 == [sn |-> 11, sg |-> 1001, sa |-> 35001, sm |-> 2501, g |-> 9800001, ms |-> 100001, decl |-> 1, incl |-> 2, noise |-> 0]

(* what Simulator.__init__ declares, in order: name, default (micro-units; bool as 0/1), dtype *)
DeclNames == << "sim/std_mag", "sim/std_accel", "sim/std_gyro", "sim/sn_gyro_rw", "sim/dt_sim", "sim/dt_mag",
                "sim/dt_imu", "sim/mag_decl", "sim/mag_incl", "sim/mag_str", "sim/g", "sim/enable_noise" >>
DeclDefaults == << 2500, 35000, 1000, 10, 2500, 20000, 5000, 0, 0, 100000, 9800000, 1 >>
DeclTypes == << "f8", "f8", "f8", "f8", "f8", "f8", "f8", "f8", "f8", "f8", "f8", "?" >>
Topics == << "sim_attitude", "imu", "mag" >>       \* publishers, in creation order; subscribes to "params"

NoEv == [e |-> "none"]

Start(S, I, M, H, par) ==
    [pc |-> "asleep", now |-> 0, wake |-> 0, S |-> S, I |-> I, M |-> M, H |-> H, par |-> par,
     tls |-> 0, tli |-> 0, tlm |-> 0, dt |-> 0, age |-> 0, ver |-> 0, nch |-> 0, nt |-> 0, ev |-> NoEv,
     \* history
     hAtt |-> -1, hImu |-> -1, hMag |-> -1,          \* last stamp per topic (-1: none yet)
     hpImu |-> -1, hpMag |-> -1,                      \* the stamp before that
     hnImu |-> 0, hnMag |-> 0,                        \* messages published
     hcI |-> FALSE, hcM |-> FALSE,                    \* a parameter change or a tie since the previous imu / mag publication
     htie |-> FALSE, hsum |-> 0]                      \* any tie so far; sum of the dt handed to simulate

Pass(gap, lim, tb) == gap > lim \/ (gap = lim /\ tb)
Tie(gap, lim) == gap = lim

(* ---- one step: the set of [ev, st] successors of s ------------------------------------ *)
WakeS(s) ==
    IF s.pc = "asleep" /\ s.wake <= s.H
    THEN { [s EXCEPT !.pc = "prop", !.now = s.wake, !.dt = s.wake - s.tls, !.tls = s.wake,
                     !.htie = (s.htie \/ s.wake = s.H),
                     !.ev = [e |-> "wake", t |-> s.wake, dt |-> s.wake - s.tls]] }
    ELSE {}
(* at wake = H only the tie outcome "processed" is a step; "not processed" is simply no step *)

PropS(s) ==
    IF s.pc # "prop" THEN {} ELSE
    IF s.now # 0
    THEN { [s EXCEPT !.pc = "imu", !.age = s.age + s.dt, !.ver = s.ver + 1, !.hsum = s.hsum + s.dt,
                     !.ev = [e |-> "sim", t |-> s.now, dt |-> s.dt, vin |-> s.ver, sn |-> s.par.sn]] }
    ELSE { [s EXCEPT !.pc = "imu", !.ev = [e |-> "nosim"]] }

ImuDecS(s) ==
    IF s.pc # "imu" THEN {} ELSE
    LET gap == s.now - s.tli  lim == s.I - EPS
        tie == s.now # 0 /\ Tie(gap, lim)
        pub == [s EXCEPT !.pc = "imu2", !.tli = s.now, !.hAtt = s.now, !.nt = IF tie THEN s.nt + 1 ELSE s.nt,
                         !.htie = (s.htie \/ tie),
                         !.ev = [e |-> "att", stamp |-> s.now, now |-> s.now, ver |-> s.ver, age |-> s.age]]
        skip == [s EXCEPT !.pc = "mag", !.ev = [e |-> "skipimu"], !.nt = IF tie THEN s.nt + 1 ELSE s.nt,
                          !.htie = (s.htie \/ tie), !.hcI = (s.hcI \/ tie)]
    IN (IF s.now = 0 \/ Pass(gap, lim, TRUE) THEN {pub} ELSE {}) \cup
       (IF s.now # 0 /\ ~Pass(gap, lim, FALSE) /\ (tie => s.nt < TieBudget) THEN {skip} ELSE {})

ImuPubS(s) ==
    IF s.pc # "imu2" THEN {} ELSE
    { [s EXCEPT !.pc = "mag", !.hImu = s.now, !.hpImu = s.hImu, !.hnImu = s.hnImu + 1, !.hcI = FALSE,
                !.ev = [e |-> "imu", stamp |-> s.now, now |-> s.now, ver |-> s.ver, age |-> s.age,
                        sg |-> s.par.sg, sa |-> s.par.sa, g |-> s.par.g,
                        gap |-> IF s.hImu < 0 THEN -1 ELSE s.now - s.hImu, clean |-> ~s.hcI]] }

MagDecS(s) ==
    IF s.pc # "mag" THEN {} ELSE
    LET gap == s.now - s.tlm  lim == s.M - EPS
        tie == s.now # 0 /\ Tie(gap, lim)
        pub == [s EXCEPT !.pc = "sleep", !.tlm = s.now, !.hMag = s.now, !.hpMag = s.hMag, !.hnMag = s.hnMag + 1,
                         !.nt = IF tie THEN s.nt + 1 ELSE s.nt, !.hcM = FALSE, !.htie = (s.htie \/ tie),
                         !.ev = [e |-> "mag", stamp |-> s.now, now |-> s.now, ver |-> s.ver, age |-> s.age,
                                 sm |-> s.par.sm, ms |-> s.par.ms, decl |-> s.par.decl, incl |-> s.par.incl,
                                 gap |-> IF s.hMag < 0 THEN -1 ELSE s.now - s.hMag, clean |-> ~s.hcM]]
        skip == [s EXCEPT !.pc = "sleep", !.ev = [e |-> "skipmag"], !.nt = IF tie THEN s.nt + 1 ELSE s.nt,
                          !.htie = (s.htie \/ tie), !.hcM = (s.hcM \/ tie)]
    IN (IF s.now = 0 \/ Pass(gap, lim, TRUE) THEN {pub} ELSE {}) \cup
       (IF s.now # 0 /\ ~Pass(gap, lim, FALSE) /\ (tie => s.nt < TieBudget) THEN {skip} ELSE {})

SleepS(s) ==
    IF s.pc # "sleep" THEN {} ELSE
    { [s EXCEPT !.pc = "asleep", !.wake = s.now + s.S, !.ev = [e |-> "sleep", now |-> s.now, delay |-> s.S]] }

ChangeS(s, c, par) ==       \* params message delivered while the node is suspended
    IF s.pc # "asleep" THEN {} ELSE
    { [s EXCEPT !.S = c[1], !.I = c[2], !.M = c[3], !.par = par, !.nch = s.nch + 1, !.hcI = TRUE, !.hcM = TRUE,
                !.ev = [e |-> "params", S |-> c[1], I |-> c[2], M |-> c[3], par |-> par]] }

NodeSucc(s) == WakeS(s) \cup PropS(s) \cup ImuDecS(s) \cup ImuPubS(s) \cup MagDecS(s) \cup SleepS(s)
Silent(ev) == ev.e \in {"wake", "nosim", "skipimu", "skipmag"}

Init == \E c \in Cfgs, H \in Horizons : sim = Start(c[1], c[2], c[3], H, Par0)
Next == \/ \E n \in NodeSucc(sim) : sim' = n
        \/ /\ sim.nch < MaxCh /\ sim.now > 0 /\ sim.ver <= ChangeBy
           /\ \E c \in ChangeTo : <<c[1], c[2], c[3]>> # <<sim.S, sim.I, sim.M>> /\ \E n \in ChangeS(sim, c, Par1) : sim' = n
Spec == Init /\ [][Next]_sim

(* ---------------- properties (stated on observations, not on the guards) --------------- *)
Pub == sim.ev.e \in {"att", "imu", "mag"}
CeilDiv(a, b) == (a + b - 1) \div b
(* the grid period a rate limit `per` produces on a loop of period S: smallest multiple of S >= per - EPS *)
GridGap(per, S) == IF per - EPS <= 0 THEN S ELSE S * CeilDiv(per - EPS, S)

(* every message is stamped with the simulated time of its publication and is computed from the
   true state integrated up to exactly that time: no time lost, none counted twice *)
StampIsNow    == Pub => sim.ev.stamp = sim.now /\ sim.ev.now = sim.now
StateIsCurrent == Pub => sim.ev.age = sim.ev.stamp /\ sim.ev.ver = sim.ver
NoTimeLost    == /\ (sim.pc # "prop" => sim.age = sim.now)
                 /\ (sim.pc = "prop" => sim.age + sim.dt = sim.now)
                 /\ sim.hsum = sim.age
                 /\ (sim.ev.e = "sim" => sim.ev.dt > 0 /\ sim.ev.t = sim.now)
(* time stamps strictly increase per topic; the first publication of every topic is at t = 0 *)
Monotone      == /\ (sim.ev.e = "imu" => sim.hpImu < sim.hImu /\ (sim.hpImu < 0 => sim.hImu = 0))
                 /\ (sim.ev.e = "mag" => sim.hpMag < sim.hMag /\ (sim.hpMag < 0 => sim.hMag = 0))
                 /\ (sim.pc = "asleep" /\ sim.ev.e # "none" => sim.hAtt >= 0 /\ sim.hImu >= 0 /\ sim.hMag >= 0)
(* ground truth and IMU go out together (same instants, same stamp, truth first); mag after them *)
Paired        == /\ (sim.ev.e = "imu" => sim.hAtt = sim.hImu)
                 /\ (sim.pc \notin {"imu2"} => sim.hAtt = sim.hImu)
                 /\ (sim.ev.e = "mag" => sim.hImu <= sim.hMag)
(* rate limits: between parameter changes and away from double ties the gap between consecutive
   stamps is the smallest multiple of dt_sim that is >= period - 1 ms *)
ImuRate       == (sim.ev.e = "imu" /\ sim.ev.gap >= 0 /\ sim.ev.clean) => sim.ev.gap = GridGap(sim.I, sim.S) \/
                     (sim.ev.gap = sim.I - EPS)            \* published at a tie
MagRate       == (sim.ev.e = "mag" /\ sim.ev.gap >= 0 /\ sim.ev.clean) => sim.ev.gap = GridGap(sim.M, sim.S) \/
                     (sim.ev.gap = sim.M - EPS)
(* ... which is EXACTLY the configured period when that period is a multiple of dt_sim > 1 ms *)
ImuPeriodExact == (sim.ev.e = "imu" /\ sim.ev.gap >= 0 /\ sim.ev.clean /\ sim.I % sim.S = 0 /\ sim.S > EPS)
                      => sim.ev.gap = sim.I
MagPeriodExact == (sim.ev.e = "mag" /\ sim.ev.gap >= 0 /\ sim.ev.clean /\ sim.M % sim.S = 0 /\ sim.S > EPS)
                      => sim.ev.gap = sim.M
(* never faster than the limit *)
NeverFaster   == /\ (sim.ev.e = "imu" /\ sim.ev.gap >= 0 /\ sim.ev.clean => sim.ev.gap >= sim.I - EPS)
                 /\ (sim.ev.e = "mag" /\ sim.ev.gap >= 0 /\ sim.ev.clean => sim.ev.gap >= sim.M - EPS)
(* nothing is dropped: without parameter changes and ties the number of messages at the end of the
   iteration of time t is 1 + floor(t / grid period); a period longer than the run gives ONE message *)
Counts        == (sim.pc = "asleep" /\ sim.ev.e = "sleep" /\ sim.nch = 0 /\ ~sim.htie) =>
                     /\ sim.hnImu = 1 + sim.now \div GridGap(sim.I, sim.S)
                     /\ sim.hnMag = 1 + sim.now \div GridGap(sim.M, sim.S)
                     /\ (sim.M - EPS > sim.H => sim.hnMag = 1)
(* the loop runs every dt_sim *)
LoopPeriod    == sim.ev.e = "sleep" => sim.wake = sim.now + sim.S /\ sim.ev.delay = sim.S
TypeOK        == /\ sim.pc \in {"asleep", "prop", "imu", "imu2", "mag", "sleep"}
                 /\ sim.now >= 0 /\ sim.now <= sim.H /\ sim.wake >= sim.now /\ sim.ver >= 0
                 /\ Len(DeclNames) = 12 /\ Len(DeclDefaults) = 12 /\ Len(DeclTypes) = 12

(* ---------------- constant sets (cfg files cannot hold tuples) ------------------------- *)
Ss == {1000, 2500, 5000}
CfgsQuick == { <<S, I, M>> \in Ss \X {2500, 5000, 7500} \X {5000, 7500, 12500, 20000, 50000} : TRUE }
CfgsThorough == { <<S, I, M>> \in {500, 1000, 2500, 4000, 5000} \X {2500, 5000, 7500, 10000} \X
                                 {2500, 5000, 7500, 12500, 20000, 50000} : TRUE }
ChangeQuick == { <<2500, 5000, 7500>>, <<5000, 5000, 20000>>, <<1000, 2500, 12500>> }
ChangeThorough == ChangeQuick \cup { <<4000, 10000, 50000>>, <<500, 2500, 2500>> }
=============================================================================
