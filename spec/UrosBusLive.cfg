SPECIFICATION FairSpec
CONSTANTS
  NS = 2
  Topics = {"a", "b"}
  UserTypes = {"A"}
  BadTypes = {"X"}
  ParamNames = {"p1"}
  Vals = {2}
  LdtVals = {2}
  LDT0 = 1
  Procs <- Procs1
  ProcTopics <- PTopA
  ProcParams <- PParNone
  FreeNodes = FALSE
  Delays <- Delay2
  Offsets <- Off0
  MaxPub = 3
  Horizon = 2
  Budgets = {1}
  Kinds = {"sink", "relay"}
  Acyclic = FALSE
  DueFirst = FALSE
  PostRunSetup = FALSE
  Phased = TRUE
  DefVals = {1}
  Sparse = FALSE
PROPERTIES FanOutTerminates AllDelivered RunDrains RowsKeepComing
CHECK_DEADLOCK FALSE
