------------------------------ MODULE AttitudeLoop ------------------------------
(* C12 -- configuration lattice of the closed-loop attitude simulation (spec -> code direction).

   launch_sim wires three processes on the uros bus (spec/UrosBus.tla models the bus itself):
   the simulator (period dt_sim; publishes sim_attitude + imu every dt_imu and mag every dt_mag),
   the estimator node (callbacks on imu/mag/params) and the logger (period dt_log).  A run is
   determined by its configuration; TLC enumerates the configuration lattice below and every
   configuration is one real run whose whole history is validated by AttitudeLoopTrace.

   "In a box" (property text) is made precise here: the true initial attitude is any lattice
   rotation when the estimator initialises itself from measurements; when it starts from the
   zero state (identity attitude) the true attitude lies within 120 degrees of it (4 w^2 >= N).
   Gyro bias components within +-0.07 rad/s; inclination up to 53 deg, any declination; three
   sensor/logging rate settings.                                                           *)
EXTENDS Rot, TLC
CONSTANT Tier
VARIABLE tv

Q0s == { <<1,0,0,0>>, <<1,1,0,0>>, <<1,0,1,0>>, <<1,0,0,1>>, <<1,1,1,1>>, <<1,-1,1,0>>, <<2,1,0,-1>>, <<3,1,2,-2>>,
         <<0,1,0,0>>, <<0,0,1,1>>, <<1,2,2,0>>, <<0,0,0,1>>, <<1,1,-1,-1>>, <<10,1,2,3>>, <<1,0,-1,1>>, <<2,-1,-1,0>>,
         <<2,0,0,3>>, <<2,0,0,-3>>, <<3,1,0,4>>,         \* headings 100-113 deg away: still inside the 120 deg box
         <<2,3,0,0>>, <<3,0,-4,0>>, <<3,3,3,0>>, <<5,-6,2,1>> }   \* TILTED 106-113 deg (body z below the horizon), inside the box
Biases == { <<0,0,0>>, <<7,-7,3>>, <<-5,2,7>> }                      \* 1/100 rad/s
Mags   == { <<1,0,1, 1,0,1>>, <<4,3,5, 1,0,1>>, <<1,0,1, 4,3,5>>, <<3,-4,5, 3,4,5>> }   \* decl (c,s,h), incl (c,s,h)
Rates  == { <<2500, 5000, 20000, 5000>>, <<5000, 10000, 40000, 10000>>, <<2500, 2500, 10000, 5000>>,
            <<2500, 5000, 12500, 5000>>, <<2500, 5000, 7500, 2500>> }  \* dt_sim, dt_imu, dt_mag, dt_log (us); the last two: magnetometer
                                                                       \* period NOT a multiple of the IMU period (samples between IMU samples)
Within120(q) == q[1] >= 0 /\ 4 * q[1] * q[1] >= QNorm(q)
InBox(c) == c.init = 1 \/ Within120(c.q)

Init == \E q \in Q0s, b \in Biases, init \in {0, 1}, m \in Mags, r \in Rates :
          /\ tv = [q |-> q, b |-> b, init |-> init, mag |-> m, rates |-> r,
                   cell |-> IF q[1] = 0 THEN "pi" ELSE IF ~Within120(q) THEN "far"
                            ELSE IF q[4] * q[4] > q[1] * q[1] + q[2] * q[2] + q[3] * q[3] THEN "heading90"      \* heading > 90 deg off
                            ELSE IF q[1] * q[1] + q[4] * q[4] < q[2] * q[2] + q[3] * q[3] THEN "tilt90"       \* R33 < 0: tilt > 90 deg
                            ELSE IF q[1] * q[1] + q[4] * q[4] = q[2] * q[2] + q[3] * q[3] THEN "tilt=90"      \* R33 = 0: body z exactly horizontal
                            ELSE "near"]
          /\ InBox(tv)
Next == UNCHANGED tv
Spec == Init /\ [][Next]_tv
BoxOK == InBox(tv) /\ MrpOk(tv.q) /\ Proper(tv.q)
=============================================================================
