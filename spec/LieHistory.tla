------------------------------ MODULE LieHistory ------------------------------
(* Call HISTORIES of the element-level Lie API (shared by C01..C07).

   Every listed Lie-group property is quantified "for all elements".  The test-vector specs
   (LieCalc, ExpLog, Adjoint, Jacobians, Convert) decide the VALUE of one call; this module is
   about what else a call may depend on.  The abstract semantics is a function of the value of
   the argument only:

        Sem(step) == << step.g, step.op, ValueOf(step.g, step.mk) >>

   so (H1) the same step gives the same result wherever it occurs in whatever history, and
      (H3) doing something else with the same objects in between does not matter (see BaseOp),
      (H2) two makers that build the SAME value (G.identity() and exp of an empty algebra element;
           a sparsely stored vector and the dense vector of the same numbers) give the same
           result for every operation.

      (H4) OPERANDS ARE VALUES: a step leaves every object it was given (the element, the matrix B of
           exp_mixed, the group and algebra objects) denoting the value it had before the step
           (After(step) below): no call writes into its arguments.

   A history is a sequence of steps  [g |-> group, mk |-> maker, op |-> operation]  executed in
   ONE fresh interpreter.  What an implementation can remember between calls is keyed by what it
   saw FIRST (first maker per group and operation), by the ORDER of operations on a group
   (slots shared by two methods), by the ORDER of groups (tables shared by objects of one class),
   and by NEAR-EQUAL arguments (memoisation under printed parameters: maker "b" is maker "a"
   times 1 + 2.5e-8).  A configuration fixes these four things; Hist(cfg) is the history it
   denotes.  TLC enumerates the configurations of the tier, checks H1/H2 on the abstract
   semantics (trivially true there -- they are the specification) and, as ASSUMEs over the
   configuration set, that the set COVERS: every maker is the first one seen by every group,
   every ordered pair of operations and every ordered pair of groups occurs in both orders.
   harness/history.py executes every configuration in a fresh process (engine B) and reports
   any two occurrences of a step with different results, and any two equal-value makers with
   different results.                                                                        *)
EXTENDS Naturals, Sequences, FiniteSets, TLC
CONSTANT Tier
VARIABLES cfg, pos, step

Groups == << "SO3Quat", "SO3Mrp", "SO3Dcm", "SO3EulerB321", "EulerS321", "EulerB123", "SE3Quat", "SE3Mrp",
             "SE23Quat", "SE23Mrp", "SE2", "SO2", "R3", "SO3Quat*R3", "SE3Quat*SE3Mrp", "SE3Mrp*SE3Quat",
             "alg:so3", "alg:se3", "alg:se23", "alg:se2", "alg:so3*r3" >>
Makers == << "id", "exp0", "a", "b", "s", "sd" >>
Ops    == << "mat", "inv", "sq", "ident", "log", "Ad", "Jl", "Jr", "Jli", "Jri", "conv", "shadowseq", "exp",
             "Jl_after_Jr", "Jr_after_Jl", "Ad_held", "mat_held",
             "scaled", "mixed", "mixed2", "mat_after_extend", "sq_after_extend", "log_after_extend", "Ad_after_extend" >>
(* (H3) operations that differ from a base operation only in what ELSE was done with the same objects: the right
   Jacobian asked for first on the same element object, a result object held while the same method is called on
   another element.  Their semantics is the base operation's. *)
BaseOp(op) == CASE op = "Jl_after_Jr" -> "Jl" [] op = "Jr_after_Jl" -> "Jr" [] op = "Ad_held" -> "Ad" [] op = "mat_held" -> "mat"
                [] op = "mixed2" -> "mixed"                       \* exp_mixed called a second time with the SAME argument objects
                [] op = "mat_after_extend" -> "mat" [] op = "sq_after_extend" -> "sq"      \* the element's group (algebra) object was used as the left
                [] op = "log_after_extend" -> "log" [] op = "Ad_after_extend" -> "Ad"      \* factor of a larger direct product in between
                [] OTHER -> op
NG == Len(Groups)   NM == Len(Makers)   NO == Len(Ops)

(* value classes: which makers denote the same element *)
ValueOf(mk) == CASE mk \in {"id", "exp0"} -> "identity" [] mk \in {"s", "sd"} -> "s" [] OTHER -> mk

(* orders: rotation r of the natural order, optionally reversed *)
Rot(n, r, rev) == [i \in 1..n |-> LET j == ((i - 1 + r) % n) + 1 IN IF rev THEN n + 1 - j ELSE j]

Cfg(first, orot, orev, grot, grev) == [first |-> first, orot |-> orot, orev |-> orev, grot |-> grot, grev |-> grev]
QuickCfgs ==
    { Cfg(1, 0, FALSE, 0, FALSE), Cfg(2, 0, TRUE, 0, TRUE), Cfg(3, 5, FALSE, 7, FALSE), Cfg(4, 5, TRUE, 7, TRUE),
      Cfg(5, 9, FALSE, 13, TRUE), Cfg(6, 9, TRUE, 13, FALSE), Cfg(1, 3, TRUE, 4, TRUE), Cfg(5, 11, FALSE, 17, FALSE),
      Cfg(2, 7, FALSE, 10, FALSE), Cfg(6, 2, TRUE, 2, FALSE), Cfg(3, 12, TRUE, 15, TRUE), Cfg(4, 1, FALSE, 19, TRUE) }
ThoroughCfgs == QuickCfgs \cup { Cfg(f, o, r, g, r) : f \in 1..NM, o \in {0, 8}, g \in {0, 12}, r \in BOOLEAN }
Cfgs == IF Tier = "quick" THEN QuickCfgs ELSE ThoroughCfgs

(* the history a configuration denotes: groups in their order; per group the operations in their order;
   per operation the makers, the configuration's first maker first, then the others in natural order *)
MakerOrder(c) == <<c.first>> \o SelectSeq([i \in 1..NM |-> i], LAMBDA i : i # c.first)
GIdx(c, k) == Rot(NG, c.grot, c.grev)[k]
OIdx(c, k) == Rot(NO, c.orot, c.orev)[k]
StepAt(c, p) ==              \* p in 1..NG*NO*NM
    LET q  == p - 1
        gi == q \div (NO * NM)
        oi == (q % (NO * NM)) \div NM
        mi == q % NM
    IN [g |-> Groups[GIdx(c, gi + 1)], op |-> Ops[OIdx(c, oi + 1)], mk |-> Makers[MakerOrder(c)[mi + 1]]]
Total == NG * NO * NM

Sem(st) == << st.g, BaseOp(st.op), ValueOf(st.mk) >>

After(st) == ValueOf(st.mk)           \* (H4) what the operand of a step denotes after the step: what it denoted before
NoStep == [g |-> "none", op |-> "none", mk |-> "none"]
Init == cfg \in Cfgs /\ pos = 0 /\ step = NoStep
Next == pos < Total /\ pos' = pos + 1 /\ step' = StepAt(cfg, pos + 1) /\ UNCHANGED cfg
Spec == Init /\ [][Next]_<<cfg, pos, step>>

(* H1/H2 on the abstract semantics.  Every configuration denotes a permutation of the SAME step set: PosOf(c, st)
   is where step st occurs in configuration c *)
IndexOf(seq, x) == CHOOSE i \in 1..Len(seq) : seq[i] = x
GroupNo(g) == IndexOf(Groups, g)   OpNo(o) == IndexOf(Ops, o)   MakerNo(m) == IndexOf(Makers, m)
PosOf(c, st) == LET gk == IndexOf([k \in 1..NG |-> GIdx(c, k)], GroupNo(st.g))
                    ok == IndexOf([k \in 1..NO |-> OIdx(c, k)], OpNo(st.op))
                    mk == IndexOf(MakerOrder(c), MakerNo(st.mk))
                IN (gk - 1) * NO * NM + (ok - 1) * NM + mk
H1 == pos >= 1 => LET st == step IN
          \A c2 \in Cfgs : StepAt(c2, PosOf(c2, st)) = st /\ Sem(StepAt(c2, PosOf(c2, st))) = Sem(st)
H3 == pos >= 1 => Sem([step EXCEPT !.op = BaseOp(step.op)]) = Sem(step)
H2 == pos >= 1 => LET st == StepAt(cfg, pos) IN
          \A i \in 1..NM : ValueOf(Makers[i]) = ValueOf(st.mk) => Sem([st EXCEPT !.mk = Makers[i]]) = Sem(st)
H4 == pos >= 1 => After(step) = ValueOf(step.mk) /\ Sem([step EXCEPT !.op = "mat"]) = << step.g, "mat", After(step) >>
FirstSeen == pos >= 1 => LET st == StepAt(cfg, pos) IN      \* the configuration's first maker really is the first one every (group, op) sees
          (st.mk = Makers[cfg.first]) <=> ((pos - 1) % NM = 0)

(* coverage of the configuration set *)
Pos(seq, x) == IndexOf(seq, x)
OpSeq(c)  == [k \in 1..NO |-> OIdx(c, k)]
GrpSeq(c) == [k \in 1..NG |-> GIdx(c, k)]
ASSUME \A m \in 1..NM : \E c \in Cfgs : c.first = m                                   \* every maker is seen first
ASSUME \A a, b \in 1..NO : a # b => \E c \in Cfgs : Pos(OpSeq(c), a) < Pos(OpSeq(c), b)     \* every ordered pair of operations
ASSUME \A a, b \in 1..NG : a # b => \E c \in Cfgs : Pos(GrpSeq(c), a) < Pos(GrpSeq(c), b)   \* every ordered pair of groups
ASSUME \A c \in Cfgs : c.first \in 1..NM /\ c.orot \in 0..(NO - 1) /\ c.grot \in 0..(NG - 1)
=============================================================================
