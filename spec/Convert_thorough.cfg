SPECIFICATION Spec
CONSTANT Tier = "thorough"
INVARIANTS RotOK EulLaw
CHECK_DEADLOCK FALSE
