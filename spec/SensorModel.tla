----------------------------- MODULE SensorModel -----------------------------
(* G01 (growth) -- the PLANT side of the attitude-estimation simulation:
   cyecca/estimate/attitude/algorithms/sim.py  (simulate, measure_gyro, measure_accel,
   measure_mag, rotation_error, get_state, constants).

   State of the plant  x = (r, b):  r = MRP of the attitude C_nb (body -> navigation frame),
   b = gyro bias.  Attitudes are signed integer quaternions q = (w, v) of Rot.tla with INTEGER
   norm n = |q| (N = n^2), because the MRP of q is  r = v / (n + w)  -- rational exactly then.
   (non-shadow, |r| <= 1, iff w >= 0; shadow iff w < 0; |r| = 1 iff w = 0.)

   FRAME CONVENTION (derived from the code, not assumed):
     * simulate integrates r' = right_jacobian(r) omega, the RIGHT (body-frame) kinematics
       R' = R [omega]x : R = C_nb maps body to navigation coordinates and one step is
       R1 = R exp(omega dt), a right multiplication.
     * measure_accel returns C_nb^-1 (-g e3): a vehicle at rest measures the specific force
       -g e3, i.e. the reaction to gravity points along -e3, so gravity points along +e3:
       the navigation frame is z-DOWN (north-east-down).
     * measure_mag uses B_n = Rz(decl) Ry(-incl) (mag_str e1): north component
       mag_str cos(decl) cos(incl), east  mag_str sin(decl) cos(incl), e3 (DOWN) component
       +mag_str sin(incl).  Positive inclination dips the field below the horizon: the vertical
       (up) component in the navigation frame is  -mag_str sin(incl).
   Every expectation below is an independent characterisation: reference vectors are rotated by
   the exact rational matrix QMat(q)/N of the integer quaternion (never by an MRP formula), the
   declination/inclination rotations are integer quaternions of Pythagorean angles, products
   of rotations are checked against the matrix product, and TLC checks on EVERY state the laws
   that make the expectation the right one (norm preservation, back-rotation, heading/dip of
   the field, antisymmetry of the error, R1 = R0 exp).

   simulate, what is exactly decidable:
     (sim0) omega = 0: the derivative of r vanishes and that of b is constant, so one RK4 step
            is exact: attitude unchanged (as a rotation; the returned MRP is the representative
            of norm <= 1), b1 = b + sn sqrt(dt) w  (random walk: dt * sn/sqrt(dt) * w).
            dt = sd^2 with sd rational, so the walk term is rational.
     (simw) omega dt = the half-angle element h = (m, v)  (exp(omega dt) IS the quaternion h,
            theta = 2 atan2(|v|, m)): the exact flow is q1 = q h.  The code takes ONE classical
            RK4 step of r' = B(r) phi/dt, phi = omega dt, |phi| = theta.  Bound used by the
            harness on every rotation-matrix entry, for |r0| <= 1 and theta <= 0.26 rad:
                        |R(r1) - R(q h)|  <=  3 theta^5 + 1e-9 .
            Justification (s = t/dt in [0,1], f(r) = B(r) phi, B(r) = (1+|r|^2)/4 * orthogonal):
            the stages leave the unit ball by at most 0.58 theta <= 0.15, and on |r| <= 1.15
              |f| <= 0.58 theta,  |Df| <= (1+3|r|)/2 theta <= 2.23 theta,  |D^2 f| <= 1.5 theta,
              D^3 f = 0.
            The local error of an explicit 4-stage order-4 method is the sum over the 9 rooted
            trees of order 5 of c(tau) F(tau) + O(6), |c(tau)| <= 1/120 (attained by the tall
            tree, which no 4-stage method matches).  Trees containing D^3 f or D^4 f vanish; the
            tall tree is bounded by 2.23^4 * 0.58 = 14.3, the four trees with one D^2 f by
            1.5 * 0.58^2 * 2.23^2 = 2.5 each, the tree with two D^2 f by 0.45 (all times theta^5):
              |r1 - r(1)| <= 24.8/120 theta^5 = 0.21 theta^5   (leading term).
            Higher orders gain at most a factor |Df| <= 2.23 theta <= 0.58 each: geometric tail
            factor 1/(1 - 0.58) = 2.4.  A perturbation dr of an MRP turns R by |dphi| =
            4 |dr|/(1+|r|^2) <= 4 |dr|, which bounds every entry of dR:  0.21 * 2.4 * 4 = 2.0 < 3.
            Measured on the lattice: <= 0.014 theta^5 (recorded in the evidence), so rounding
            noise (1e-14) and the bound are far apart, while a method of lower order (error
            c theta^4 or c theta^3) exceeds the bound at the small-theta end of the lattice.
            Inputs OUTSIDE the unit ball (cell "shadow_in", |r0| up to 3: never produced by the
            node itself, simulate always returns |r| <= 1) are outside this derivation: for them
            the flow clause is informational (SPEC-DRIFT) and only norm <= 1 / bias are asserted.
     (simn) k steps with the same h: q h^k, bound k times the above (an error in R is carried
            along by exact rotations: no amplification at first order; 1.01 covers the rest).
     in all cases the returned MRP has norm <= 1 (shadow switch when the step leaves the unit
     ball: cell "cross") and the bias evolution does not depend on the attitude.

   tv is the engine-A vector: operation, exact arguments, exact expectation, branch cell.
   Fractions: scalars [num, den], vectors [num |-> <<..>>, den |-> d]; the harness divides.   *)
EXTENDS Rot, TLC
CONSTANT Tier
VARIABLE tv

Thorough == Tier = "thorough"

(* ---------------- small exact helpers ---------------------------------------------- *)
F(n, d)   == [num |-> n, den |-> d]
E1 == <<1, 0, 0>>   E2 == <<0, 1, 0>>   E3 == <<0, 0, 1>>   Z3v == <<0, 0, 0>>
Gcd3(u)   == Gcd(Gcd(u[1], u[2]), u[3])
VRed(u, d) == LET g == Gcd(Gcd3(u), d) IN                     \* d > 0
              IF g <= 1 THEN F(u, d) ELSE F(<<u[1] \div g, u[2] \div g, u[3] \div g>>, d \div g)
QPrim(q)  == LET g == Gcd(Gcd(q[1], q[2]), Gcd(q[3], q[4])) IN
             IF g <= 1 THEN q ELSE <<q[1] \div g, q[2] \div g, q[3] \div g, q[4] \div g>>
ISqrt(n)  == CHOOSE k \in 0..12 : k * k <= n /\ (k + 1) * (k + 1) > n        \* attitudes of QLat(4): N <= 64
IntNorm(q) == LET k == ISqrt(QNorm(q)) IN k * k = QNorm(q)
NormOf(q) == ISqrt(QNorm(q))
Parallel4(a, b) == \A i \in 1..4 : \A j \in 1..4 : a[i] * b[j] = a[j] * b[i]
Row3(M)   == M[3]
Col1(M)   == <<M[1][1], M[2][1], M[3][1]>>

(* MRP of a quaternion with integer norm: v/(n + w) *)
Mrp(q)    == F(QV(q), NormOf(q) + q[1])
NonShadow(q) == IF q[1] < 0 THEN QNeg(q) ELSE q                  \* representative with |r| <= 1
AttCell(q) == IF q[1] < 0 THEN "shadow" ELSE IF q[1] = 0 THEN "pi"
              ELSE IF QV(q) = Z3v THEN "identity" ELSE "inside"
(* MRP <-> quaternion (stereographic projection), stated without any cyecca formula:
   (1-|r|^2)/(1+|r|^2) = w/n  and  2 r/(1+|r|^2) = v/n   for r = v/(n+w)                    *)
MrpLaw(q) == LET n == NormOf(q) d == n + q[1] s == NormSq(QV(q)) IN
             /\ n * n = QNorm(q) /\ d > 0
             /\ (d * d - s) * n = q[1] * (d * d + s)
             /\ 2 * d * n = d * d + s

(* ---------------- lattices ----------------------------------------------------------- *)
AttK   == IF Thorough THEN 4 ELSE 3
Att    == { q \in QLat(AttK) : Primitive(q) /\ IntNorm(q) /\ MrpOk(q) }
AttSmall == { q \in QLat(2) : Primitive(q) /\ IntNorm(q) /\ MrpOk(q) }      \* N <= 9
Biases == { F(Z3v, 1), F(<<1, -2, 7>>, 100), F(<<-7, 7, 0>>, 100) }
Noises == { [std |-> F(0, 1),     w |-> <<1, -2, 3>>],      \* noise disabled: w must not matter
            [std |-> F(35, 1000), w |-> <<1, -2, 3>>],
            [std |-> F(1, 2),     w |-> <<-1, 0, 2>>],
            [std |-> F(35, 1000), w |-> Z3v] }
Gs     == { F(98, 10), F(1, 1) }
Omegas == { F(Z3v, 1), F(<<10, 11, 12>>, 1), F(<<-3, 0, 5>>, 10) }
MagStrs == IF Thorough THEN { F(1, 10), F(1, 1), F(3, 2) } ELSE { F(1, 10), F(3, 2) }
(* Pythagorean angles <<c, s, h>>: cos = c/h, sin = s/h *)
Decls  == { <<1, 0, 1>>, <<3, 4, 5>>, <<4, -3, 5>>, <<-3, 4, 5>>, <<0, 1, 1>>, <<-1, 0, 1>>, <<5, -12, 13>> }
           \cup (IF Thorough THEN { <<0, -1, 1>>, <<-15, -8, 17>>, <<12, 5, 13>> } ELSE {})
Incls  == { <<1, 0, 1>>, <<3, 4, 5>>, <<4, -3, 5>>, <<12, 5, 13>>, <<0, 1, 1>> }     \* -pi/2 < incl <= pi/2
           \cup (IF Thorough THEN { <<8, -15, 17>>, <<0, -1, 1>> } ELSE {})
(* rotation by the Pythagorean angle t about axis e: half-angle quaternion (h + c, s e) *)
AngQ(e, t) == IF t[1] = -t[3] THEN QOf(0, e) ELSE QPrim(QOf(t[3] + t[1], VScale(t[2], e)))

(* omega dt as half-angle elements, theta <= 0.26 rad  <=>  nv/m^2 <= tan(0.13)^2 = 0.0171 *)
HMs    == IF Thorough THEN {8, 12, 16, 24, 32, 64, 128, 500, 1000} ELSE {8, 16, 32, 128, 1000}
HVs    == { E1, E2, E3, <<1, 2, 2>>, <<-1, 1, 1>>, <<0, -1, 0>>, <<2, -1, 0>> }
HSet   == { QOf(m, v) : m \in HMs, v \in HVs }
HOk(h) == 1000 * NormSq(QV(h)) <= 17 * h[1] * h[1]
SqrtDts == { F(1, 20), F(1, 10), F(1, 1) }             \* sd = sqrt(dt): dt = 1/400, 1/100, 1
SimCfgQuick == { <<F(1, 20), F(1, 100000)>>, <<F(1, 10), F(1, 10)>>, <<F(1, 1), F(0, 1)>> }
Walks  == { [sn |-> F(0, 1), w |-> <<1, 1, 1>>], [sn |-> F(1, 100000), w |-> <<1, -2, 3>>],
            [sn |-> F(1, 10), w |-> <<-1, 0, 2>>] }

(* ---------------- expectations ------------------------------------------------------- *)
X(q, b) == [r |-> Mrp(q), b |-> b]

GetState(q, b) ==
    [op |-> "get_state", cell |-> AttCell(q), q |-> q, x |-> X(q, b),
     eq |-> F(q, NormOf(q)), eR |-> F(QMat(q), QNorm(q))]

(* y0 = C_nb^T (-g e3) = -g * (third row of R)          (noise part std*w added by the harness) *)
Accel(q, b, g, nz) ==
    [op |-> "measure_accel", cell |-> AttCell(q), q |-> q, x |-> X(q, b), g |-> g, std |-> nz.std, w |-> nz.w,
     ydir |-> F(VNeg(Row3(QMat(q))), QNorm(q))]                     \* y0 = g * ydir

BnDir(decl, incl) == LET Qd == AngQ(E3, decl)
                         Qi == AngQ(E2, <<incl[1], -incl[2], incl[3]>>)
                     IN VRed(Col1(M3Mul(QMat(Qd), QMat(Qi))), QNorm(Qd) * QNorm(Qi))
Mag(q, b, ms, decl, incl, nz) ==
    LET Bn == BnDir(decl, incl) IN
    [op |-> "measure_mag", cell |-> AttCell(q), q |-> q, x |-> X(q, b), ms |-> ms, decl |-> decl, incl |-> incl,
     std |-> nz.std, w |-> nz.w, Bn |-> Bn,
     ydir |-> F(M3Vec(M3T(QMat(q)), Bn.num), QNorm(q) * Bn.den)]   \* y0 = mag_str * ydir

Gyro(q, b, om, nz) ==
    [op |-> "measure_gyro", cell |-> AttCell(q), q |-> q, x |-> X(q, b), om |-> om, std |-> nz.std, w |-> nz.w,
     y0 |-> [om |-> om, b |-> b]]                                    \* y0 = omega + b, any attitude

ErrCell(d, tag) == IF QV(d) = Z3v THEN (IF d[1] < 0 THEN "zero_neg" ELSE "zero")
                   ELSE IF d[1] = 0 THEN "pi" ELSE IF tag # "" THEN tag
                   ELSE IF d[1] < 0 THEN "wneg" ELSE "wpos"
RotErr(q1, q2, tag) ==
    LET d == QMul(QConj(q1), q2) IN
    [op |-> "rotation_error", cell |-> ErrCell(d, tag), q1 |-> q1, q2 |-> q2, dq |-> d,
     dqp |-> QPrim(NonShadow(d))]           \* xi = theta v/sigma of dqp, theta = 2 atan2(sigma, w) in [0, pi]

Sim0(q, b, sd, wk) ==
    [op |-> "sim0", cell |-> AttCell(q), q |-> q, x |-> X(q, b), sd |-> sd, sn |-> wk.sn, w |-> wk.w,
     qout |-> NonShadow(q), r1 |-> Mrp(NonShadow(q)),
     db |-> F(VScale(wk.sn.num * sd.num, wk.w), wk.sn.den * sd.den)]          \* b1 = b + sn sd w

SimCell(q, q1) == IF q[1] < 0 THEN "shadow_in" ELSE IF q1[1] < 0 THEN "cross"
                  ELSE IF q[1] = 0 \/ q1[1] = 0 THEN "boundary" ELSE "inside"
SimW(q, b, h, k, sd, wk) ==
    LET hk == QPow(h, k)  q1 == QMul(q, hk) IN
    [op |-> IF k = 1 THEN "simw" ELSE "simn", cell |-> SimCell(q, q1), q |-> q, x |-> X(q, b), h |-> h, k |-> k,
     sd |-> sd, sn |-> wk.sn, w |-> wk.w, q1 |-> q1, eR |-> F(QMat(q1), QNorm(q1)),
     db |-> F(VScale(k * wk.sn.num * sd.num, wk.w), wk.sn.den * sd.den)]

Consts == [op |-> "constants", cell |-> "x0", x0 |-> F(<<10, 20, 30, 0, 0, 1>>, 100)]

(* ---------------- two-level enumeration ----------------------------------------------- *)
RelSmall == { <<1000, 1, 0, 0>>, <<64, 1, 2, 2>>, <<63, -1, 1, 1>>, <<2000, 0, -1, 0>> }
RelNearPi == { <<1, 0, 0, 100>>, <<-1, 30, 0, 40>> }
ErrQ1  == QLat(1)
ErrQ2  == IF Thorough THEN { q \in QLat(2) : Primitive(q) } ELSE QLat(1)

Init == \/ \E q \in Att, kind \in {"state", "mag", "sim"} : tv = [op |-> "seed", kind |-> kind, q |-> q]
        \/ \E q \in ErrQ1 : tv = [op |-> "seed", kind |-> "err", q |-> q]
        \/ tv = [op |-> "seed", kind |-> "const", q |-> QId]

Next ==
  /\ tv.op = "seed"
  /\ \/ /\ tv.kind = "state"
        /\ \E b \in Biases :
             \/ tv' = GetState(tv.q, b)
             \/ \E g \in Gs, nz \in Noises : tv' = Accel(tv.q, b, g, nz)
             \/ \E om \in Omegas, nz \in Noises : (Thorough \/ nz.std.den # 1000) /\ tv' = Gyro(tv.q, b, om, nz)
             \/ \E sd \in SqrtDts, wk \in Walks : tv' = Sim0(tv.q, b, sd, wk)
     \/ /\ tv.kind = "mag"
        /\ \E ms \in MagStrs, decl \in Decls, incl \in Incls, nz \in Noises :
             (Thorough \/ ((nz.std.num = 0) = (ms.den = 10) /\ nz.std.den # 1000)) /\ tv' = Mag(tv.q, F(<<1, -2, 7>>, 100), ms, decl, incl, nz)
     \/ /\ tv.kind = "sim"
        /\ \E h \in HSet, sd \in SqrtDts, wk \in Walks :
             /\ HOk(h)
             /\ (Thorough \/ <<sd, wk.sn>> \in SimCfgQuick)
             /\ \/ tv' = SimW(tv.q, F(<<1, -2, 7>>, 100), h, 1, sd, wk)
                \/ /\ tv.q \in AttSmall /\ h[1] <= 16                     \* (32-bit: N(q) N(h)^3 must fit)
                   /\ (Thorough \/ sd = F(1, 10))
                   /\ \E k \in {2, 3} : tv' = SimW(tv.q, F(<<1, -2, 7>>, 100), h, k, sd, wk)
     \/ /\ tv.kind = "err"
        /\ \/ \E q2 \in ErrQ2 : tv' = RotErr(tv.q, q2, "")
           \/ \E s \in RelSmall : tv' = RotErr(tv.q, QMul(tv.q, s), "small")
           \/ \E s \in RelNearPi : tv' = RotErr(tv.q, QMul(tv.q, s), "nearpi")
     \/ tv.kind = "const" /\ tv' = Consts
Spec == Init /\ [][Next]_tv

(* ---------------- what TLC proves on every state --------------------------------------- *)
HasAtt == tv.op \in {"get_state", "measure_accel", "measure_mag", "measure_gyro", "sim0", "simw", "simn"}
(* the embedding of the attitude: rational MRP of an integer-norm quaternion, and a proper rotation *)
AttOK == HasAtt => MrpLaw(tv.q) /\ Proper(tv.q) /\ tv.x.r = Mrp(tv.q)

GetStateLaw == tv.op = "get_state" =>
    /\ NormSq(tv.eq.num) = tv.eq.den * tv.eq.den                      \* unit quaternion
    /\ tv.eR.num = QMat(tv.eq.num) /\ tv.eR.den = QNorm(tv.eq.num)     \* same rotation as the state

(* |y0| = g, R y0 = -g e3, and at the identity attitude y0 = (0, 0, -g): z is down *)
AccelLaw == tv.op = "measure_accel" =>
    LET N == QNorm(tv.q) IN
    /\ NormSq(tv.ydir.num) = tv.ydir.den * tv.ydir.den
    /\ M3Vec(QMat(tv.q), tv.ydir.num) = <<0, 0, -N * N>>
    /\ (QV(tv.q) = Z3v => tv.ydir.num = <<0, 0, -N>>)

(* |B_n| = mag_str; e3 (down) component +sin(incl); heading of the horizontal part = decl;
   |y0| = mag_str; R y0 = B_n                                                             *)
MagLaw == tv.op = "measure_mag" =>
    LET Bn == tv.Bn  N == QNorm(tv.q)  d == tv.decl  i == tv.incl IN
    /\ NormSq(Bn.num) = Bn.den * Bn.den
    /\ Bn.num[3] * i[3] = i[2] * Bn.den
    /\ Bn.num[1] * d[3] * i[3] = d[1] * i[1] * Bn.den
    /\ Bn.num[2] * d[3] * i[3] = d[2] * i[1] * Bn.den
    /\ i[1] >= 0 /\ d[1] * d[1] + d[2] * d[2] = d[3] * d[3] /\ i[1] * i[1] + i[2] * i[2] = i[3] * i[3]
    /\ NormSq(tv.ydir.num) = tv.ydir.den * tv.ydir.den
    /\ M3Vec(QMat(tv.q), tv.ydir.num) = VScale(N * N, Bn.num)

(* rotation_error: R(dq) = R1^T R2;  error of equal attitudes is zero;  swapping the arguments
   conjugates dq (same angle, opposite axis): xi(q2, q1) = -xi(q1, q2)                      *)
ErrLaw == tv.op = "rotation_error" =>
    LET d == tv.dq IN
    /\ QMat(d) = M3Mul(M3T(QMat(tv.q1)), QMat(tv.q2))
    /\ QMul(QConj(tv.q2), tv.q1) = QConj(d)
    /\ (tv.q1 = tv.q2 \/ tv.q1 = QNeg(tv.q2)) => QV(d) = Z3v
    /\ tv.dqp[1] >= 0 /\ Parallel4(tv.dqp, d)                        \* same rotation (no cross-multiplied norms: 32 bit)
    /\ RotErr(tv.q2, tv.q1, "").dqp = (IF d[1] = 0 THEN NonShadow(QPrim(QConj(d))) ELSE QConj(tv.dqp))

(* omega = 0: same rotation, representative of norm <= 1, walk term sn sd w with sd^2 = dt;
   quadrupling dt doubles the walk term (variance proportional to dt)                       *)
Sim0Law == tv.op = "sim0" =>
    /\ SameRot(tv.qout, tv.q) /\ tv.qout[1] >= 0 /\ IntNorm(tv.qout)
    /\ tv.r1.den >= NormOf(tv.qout)                                   \* |r1| <= 1  <=>  n + w >= n
    /\ NormSq(tv.r1.num) <= tv.r1.den * tv.r1.den
    /\ Sim0(tv.q, tv.x.b, F(2 * tv.sd.num, tv.sd.den), [sn |-> tv.sn, w |-> tv.w]).db.num = VScale(2, tv.db.num)

(* omega # 0: R1 = R0 exp(omega dt) as a MATRIX product (right multiplication: body rates),
   norms multiply, k steps = one step with h^k                                              *)
SimWLaw == tv.op \in {"simw", "simn"} =>
    LET hk == QPow(tv.h, tv.k) IN
    /\ QNorm(tv.q1) = QNorm(tv.q) * QNorm(hk)
    /\ tv.eR.num = M3Mul(QMat(tv.q), QMat(hk))
    /\ (tv.k = 2 => QMul(QMul(tv.q, tv.h), tv.h) = tv.q1)
    /\ (tv.k = 3 => QMul(QMul(QMul(tv.q, tv.h), tv.h), tv.h) = tv.q1)
    /\ HOk(tv.h) /\ tv.h[1] > 0
=============================================================================
