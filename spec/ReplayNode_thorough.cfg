SPECIFICATION Spec
CONSTANTS
  Tier = "thorough"
INVARIANTS TypeOK MergedIsStableSort TimeMonotone OnlyHandledOnce AllPublishedAtEnd PublishedAtStampOffset FirstHandledFirst OutputOrder PerTopicOrder EqualStampsKeepListOrder NoOvertaking BusMapping EndTime
CHECK_DEADLOCK FALSE
