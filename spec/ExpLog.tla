------------------------------- MODULE ExpLog -------------------------------
(* C02 / C03 (and the Ad_exp clause of C04): exp and log in exact arithmetic.

   HALF-ANGLE FORM.  An element x of so(3) is represented by a signed integer quaternion
   h = (w, v):  x = nu * v  with  sigma = |v|, n = sigma^2, N = w^2 + n,
   theta = 2 atan2(sigma, w) in [0, 2 pi)  and  nu = theta / sigma.  Then exp(x) IS the
   rotation of the quaternion h (matrix QMat(h)/N, exact), and  s*x  (integer s) has the
   half-angle quaternion QPow(h, s), exact for every s, also beyond pi and beyond 2 pi.
   The only non-rational numbers are the two scalars
        nu = theta/sigma   and   mu = 1/(theta*sigma)        (mu * nu = 1/n),
   which stay SYMBOLIC in the spec: every expectation is  a + mu*b  or  a + nu*b  with exact
   rational vectors a, b; the harness supplies doubles for mu, nu only when it embeds x
   and evaluates the expectation (trusted base, self-tested against mpmath.expm).

   V-matrix (left Jacobian of SO(3)), with H = [v]x :
        V     = V0 + mu * V1,     n*V0 = n I + H^2 (= v v^T),   N*V1 = 2 n H - 2 w H^2
        V^-1  = V0 + nu * W1,                                    2n*W1 = -n H - w H^2
   TLC proves on every lattice point the CHARACTERISATION  V [x]x = R - I,  V x = x  (which
   determines V uniquely for theta # 0, [x]x having kernel span{x}) and  V V^-1 = I, in the
   component form   V0 H = 0,  V1 H = n (R - I),  V0 v = v,  V1 v = 0,
                    V0 V0 + V1 W1 / n = I,  V0 W1 = 0,  V1 V0 = 0.

   SCREW FORM.  xi = (rho, x) in se(3) with  rho = alpha*v + nu*(v x y)  (alpha, y integer):
   exp(s xi) = ( QPow(h,s),  s alpha v + (R_s - I) y )  is RATIONAL for every integer s,
   because V(sx)(s x x y) = (R_s - I) y and V(sx) v = v.  v and v x y span R^3, so all
   directions of rho are covered.  TLC proves E(s) E(t) = E(s+t), E(0) = Id, E(-s) = E(s)^-1
   with the semidirect product of LieGroups (itself proven against matrix semantics).     *)
EXTENDS Adjoint

(* ---------- V-matrix pieces (integer matrices, denominators stated) ---------------- *)
Hv(h)   == Hat(QV(h))
Hv2(h)  == M3Mul(Hv(h), Hv(h))
nOf(h)  == NormSq(QV(h))
nV0(h)  == MAdd(MScale(nOf(h), I3), Hv2(h))                          \* n * V0   (= v v^T)
NV1(h)  == MSub(MScale(2 * nOf(h), Hv(h)), MScale(2 * h[1], Hv2(h)))  \* N * V1
W1x2n(h) == MSub(MScale(-nOf(h), Hv(h)), MScale(h[1], Hv2(h)))        \* 2n * W1

VLaws(h) == LET n == nOf(h) N == QNorm(h) v == QV(h) IN
   /\ M3Mul(nV0(h), Hv(h)) = Z3
   /\ M3Mul(NV1(h), Hv(h)) = MScale(n, MSub(QMat(h), MScale(N, I3)))
   /\ M3Vec(nV0(h), v) = VScale(n, v)
   /\ M3Vec(NV1(h), v) = <<0, 0, 0>>
   /\ MAdd(MScale(2 * N, M3Mul(nV0(h), nV0(h))), M3Mul(NV1(h), W1x2n(h))) = MScale(2 * N * n * n, I3)
   /\ M3Mul(nV0(h), W1x2n(h)) = Z3
   /\ M3Mul(NV1(h), nV0(h)) = Z3

(* principal representative: angle <= pi *)
Principal(h) == IF h[1] < 0 THEN QNeg(h) ELSE h

(* ---------- screw-form one-parameter subgroups (rational) ---------------------------- *)
RmI(q) == MSub(QMat(q), MScale(QNorm(q), I3))                        \* N (R - I)
ScrewP(h, s, alpha, y) == LET q == QPow(h, s) IN                     \* over denominator N(q)
   VAdd(VScale(QNorm(q) * s * alpha, QV(h)), M3Vec(RmI(q), y))
ScrewSE3(rep, h, s, alpha, y) ==
   Norm([g |-> "SE3", rep |-> rep, q |-> QPow(h, s), p |-> ScrewP(h, s, alpha, y), pd |-> QNorm(QPow(h, s))])
ScrewSE23(rep, h, s, a1, y1, a2, y2) == LET q == QPow(h, s) IN     \* (position, velocity) columns
   Norm([g |-> "SE23", rep |-> rep, q |-> q, p |-> ScrewP(h, s, a1, y1), v |-> ScrewP(h, s, a2, y2), pd |-> QNorm(q)])

(* ---------- general translation: p = V rho = (n V0 rho)/n + mu (N V1 rho)/N ---------- *)
GenP(h, rho) == [a0 |-> M3Vec(nV0(h), rho), d0 |-> nOf(h), a1 |-> M3Vec(NV1(h), rho), d1 |-> QNorm(h)]
(* log translation u = V^-1 p = (n V0 p)/n + nu (2n W1 p)/(2n), for the PRINCIPAL h *)
GenU(h, p) == [a0 |-> M3Vec(nV0(h), p), d0 |-> nOf(h), a1 |-> M3Vec(W1x2n(h), p), d1 |-> 2 * nOf(h)]

(* ---------- SE(2): cs = <<c,s,hh>>, theta = atan2(s,c);  V = (1/theta) [[s,-(h-c)],[h-c,s]]/h  *)
SE2V(cs, rho) == << cs[2]*rho[1] - (cs[3] - cs[1])*rho[2], (cs[3] - cs[1])*rho[1] + cs[2]*rho[2] >>    \* theta*h*V rho
(* V^-1 = (theta/2) [[s/(h-c), 1],[-1, s/(h-c)]] ; times 2(h-c)/theta : *)
SE2U(cs, p)   == << cs[2]*p[1] + (cs[3] - cs[1])*p[2], -(cs[3] - cs[1])*p[1] + cs[2]*p[2] >>
SE2Law(cs) == \* V V^-1 = I  <=>  [[s,-(h-c)],[h-c,s]] [[s,h-c],[-(h-c),s]] = 2h(h-c) I
   LET s == cs[2] d == cs[3] - cs[1] IN s*s + d*d = 2 * cs[3] * d

(* ------------------------------ lattices -------------------------------------------- *)
HSmallM == {8, 16, 31, 32, 33, 63, 64, 65, 2000}
HAxes   == { <<1,0,0>>, <<1,2,2>>, <<-1,1,1>>, <<0,0,1>> }
HSmall  == { QOf(m, v) : m \in HSmallM, v \in HAxes }
HNearPi == { <<1,0,0,20>>, <<-1,0,20,0>>, <<1,12,-16,15>>, <<-1,6,6,7>> }
HZero   == { <<1,0,0,0>> }
HCoarse == IF Thorough THEN { q \in QLat(2) : Primitive(q) /\ ~(q[2] = 0 /\ q[3] = 0 /\ q[4] = 0 /\ q[1] < 0) }
           ELSE { q \in QLat(1) : ~(q[2] = 0 /\ q[3] = 0 /\ q[4] = 0 /\ q[1] < 0) }
           \cup { <<2,1,0,-1>>, <<-2,0,1,1>>, <<1,-2,2,0>>, <<-1,2,0,2>>, <<0,1,2,-2>> }
           \* rotations beyond 120 deg about a MIXED axis with one dominant component: each lands in a different
           \* trace <= 0 branch of the matrix -> quaternion extraction that SE_2(3).exp goes through
           \cup { <<1,3,1,0>>, <<1,0,-3,1>>, <<-1,1,0,3>>, <<1,1,-1,3>>, <<0,3,1,-1>>, <<-1,-1,3,0>> }
(* Euler B321 targets close to (but outside) the 1e-3 rad gimbal band, with yaw and roll: pitch
   2e-3 .. 2e-2 rad from +-pi/2 -- inside the domain of C02/C03, where the band logic must NOT fire *)
NearPoleY == { <<501,0,500,0>>, <<501,0,-500,0>>, <<101,0,100,0>>, <<51,0,-50,0>>, <<801,0,800,0>>, <<991,0,-990,0>> }
HNearPole == { QMul(QMul(z, y), x) : z \in {<<2,0,0,1>>, <<1,0,0,-1>>}, y \in NearPoleY, x \in {<<3,1,0,0>>, <<1,-1,0,0>>} }
(* Euler inputs inside the band / exactly at a pole (C03 only: exp(log X) = X to band tolerance) *)
HBand     == { <<1,0,1,0>>, <<1,0,-1,0>>, <<1,1,1,-1>>, <<1,-1,-1,-1>>, <<-1,1,-1,1>>, <<1,1,-1,1>> }
             \cup { QMul(QMul(<<2,0,0,1>>, y), <<3,1,0,0>>) : y \in {<<2001,0,2000,0>>, <<2001,0,-2000,0>>} }
HAll    == HCoarse \cup HSmall \cup HNearPi \cup HZero \cup HNearPole
Rhos    == { <<1,0,0>>, <<0,-2,1>>, <<3,1,-1>> }
Ys      == IF Thorough THEN { <<0,0,0>>, <<1,0,0>>, <<0,-2,1>>, <<1,1,3>> } ELSE { <<0,0,0>>, <<0,-2,1>>, <<1,1,3>> }
Alphas  == IF Thorough THEN { 0, 1, -2 } ELSE { 1, -2 }
HCell(h) == IF nOf(h) = 0 THEN "zero" ELSE IF h \in HNearPole THEN "nearpole" ELSE IF h \in HSmall THEN "small" ELSE IF h \in HNearPi THEN "nearpi"
            ELSE IF h[1] = 0 THEN "pi" ELSE IF h[1] < 0 THEN "beyondpi" ELSE "regular"
(* SE(3) / SE_2(3) over the DCM and Euler parameterisations (user-built groups: the classes are generic over the SO(3)
   representation) on a few half-angle quaternions of the coarse lattice *)
HUser == { <<2,1,0,-1>>, <<-2,0,1,1>>, <<1,3,1,0>>, <<-1,1,0,3>> }
RepsSE(h) == IF h \in HUser THEN {"quat", "mrp", "dcm", "euler"} ELSE {"quat", "mrp"}
RepOK(rep, q) == (rep = "mrp" => MrpOk(q)) /\ (rep = "euler" => ~AtGimbalPole(q))

RECURSIVE IPow(_, _)
IPow(a, k) == IF k = 0 THEN 1 ELSE a * IPow(a, k - 1)
STPairs == IF Thorough THEN (-3..3) \X (-3..3)
           ELSE { <<1,1>>, <<1,2>>, <<2,-1>>, <<-3,1>>, <<3,3>>, <<2,2>>, <<-2,-1>>, <<1,-1>>, <<0,2>>, <<3,-2>> }
PowOK(h, s) == IPow(QNorm(h), Abs(s)) <= 2000          \* keeps every intermediate below 2^31

CSmallSigned == { <<m * m - 1, sg * 2 * m, m * m + 1>> : m \in {8, 20, 50}, sg \in {1, -1} }     \* theta = +-2 atan(1/m)

NearTurnK == IF Thorough THEN {2, 3, 4, 5, 6, 7, 8, 9, 10, 12} ELSE {3, 5, 7, 8, 9, 12}
ASSUME \A h \in HSmall : QMat(QNeg(h)) = QMat(h) /\ QNorm(QNeg(h)) = QNorm(h)        \* FullTurn: theta and theta - 2 pi give the same rotation

(* ------------------------------ test vectors ---------------------------------------- *)
VARIABLES dummy
InitE == /\ dummy = 0
         /\ \/ \E h \in HAll : tv = [op |-> "seedh", h |-> h]
            \/ \E cs \in CSel \cup CSmallSigned : tv = [op |-> "seedc", cs |-> cs]
            \/ tv = [op |-> "seedt"]
NextE == UNCHANGED dummy /\
  \/ /\ tv.op = "seedh"
     /\ LET h == tv.h cell == HCell(tv.h) IN
        (* SO(3): exp in all four representations, rotation = h exactly *)
        \/ \E rep \in Reps3 : RepOK(rep, h) /\ RepOK(rep, QConj(h)) /\      \* exp(-x) is compared too
              tv' = [op |-> "exp_so3", rep |-> rep, h |-> h, cell |-> cell, exp |-> RM(QMat(h), QNorm(h))]
        (* SE(3)/SE_2(3), general rho: symbolic-mu expectation *)
        \/ \E rep \in RepsSE(h), rho \in Rhos : RepOK(rep, h) /\ cell # "nearpole" /\
              tv' = [op |-> "exp_se3_gen", rep |-> rep, h |-> h, rho |-> rho, cell |-> cell, p |-> GenP(h, rho),
                     exp |-> RM(QMat(h), QNorm(h))]
        \/ \E rep \in RepsSE(h), r1 \in Rhos, r2 \in {<<0,-2,1>>, <<1,1,1>>} : RepOK(rep, h) /\ cell # "nearpole" /\
              tv' = [op |-> "exp_se23_gen", rep |-> rep, h |-> h, rho |-> r1, rho2 |-> r2, cell |-> cell,
                     p |-> GenP(h, r1), p2 |-> GenP(h, r2), exp |-> RM(QMat(h), QNorm(h))]
        (* screw form, scalar multiples s: rational expectation, any angle *)
        \/ /\ nOf(h) # 0 /\ QNorm(h) < 40
           /\ \E rep \in Reps2, s \in (IF Thorough THEN {-3, -1, 1, 2, 3} ELSE {-3, 1, 2}), alpha \in Alphas, y \in Ys :
              PowOK(h, s) /\ \E E \in {ScrewSE3(rep, h, s, alpha, y)} : RepOK(rep, E.q) /\     \* (bound => evaluated once)
              tv' = [op |-> "exp_se3_screw", rep |-> rep, h |-> h, s |-> s, alpha |-> alpha, y |-> y, cell |-> cell,
                     E |-> E, exp |-> Mat(E), Ad |-> AdClosed(E)]
        \/ /\ nOf(h) # 0 /\ QNorm(h) < 12
           /\ \E rep \in Reps2, s \in {-2, 1, 3}, y1 \in {<<1,0,0>>, <<0,-2,1>>}, y2 \in {<<0,0,0>>, <<1,1,3>>} :
              PowOK(h, s) /\ \E E \in {ScrewSE23(rep, h, s, 1, y1, -2, y2)} : RepOK(rep, E.q) /\
              tv' = [op |-> "exp_se23_screw", rep |-> rep, h |-> h, s |-> s, a1 |-> 1, y1 |-> y1, a2 |-> -2, y2 |-> y2,
                     cell |-> cell, E |-> E, exp |-> Mat(E), Ad |-> AdClosed(E)]
        (* one-parameter subgroup law on pairs (s,t) -- compared code-vs-spec on both sides *)
        \/ /\ nOf(h) # 0 /\ QNorm(h) <= 4
           /\ \E rep \in Reps2, st \in STPairs, y \in {<<0,-2,1>>} : LET s == st[1] t == st[2] IN
              \E E \in {ScrewSE3(rep, h, s + t, 1, y)}, Es \in {ScrewSE3(rep, h, s, 1, y)}, Et \in {ScrewSE3(rep, h, t, 1, y)} :
              RepOK(rep, E.q) /\ RepOK(rep, Es.q) /\ RepOK(rep, Et.q) /\
              ~(rep = "mrp" /\ Es.q[1] = 0 /\ Et.q[1] = 0 /\ nOf(QMul(Es.q, Et.q)) = 0) /\      \* MRP 360-degree singularity, as in hom_so3
              tv' = [op |-> "hom_se3", rep |-> rep, h |-> h, s |-> s, t |-> t, alpha |-> 1, y |-> y, cell |-> cell,
                     exp |-> Mat(E)]
        \/ /\ nOf(h) # 0 /\ QNorm(h) < 12
           /\ \E rep \in Reps3, st \in STPairs : LET s == st[1] t == st[2] IN
              RepOK(rep, QPow(h, s + t)) /\ RepOK(rep, QPow(h, s)) /\ RepOK(rep, QPow(h, t)) /\
              (* MRP 360-degree product singularity (excluded by the property): two half turns whose
                 composite is the identity -- the MRP of a half turn has norm 1 with either sign, so the
                 product quaternion may be -1 *)
              ~(rep = "mrp" /\ QPow(h, s)[1] = 0 /\ QPow(h, t)[1] = 0 /\ nOf(QMul(QPow(h, s), QPow(h, t))) = 0) /\
              tv' = [op |-> "hom_so3", rep |-> rep, h |-> h, s |-> s, t |-> t, cell |-> cell,
                     exp |-> RM(QMat(QRed(QPow(h, s + t))), QNorm(QRed(QPow(h, s + t))))]
        (* log: group element with rotation h (any sign), translation p; principal expectation *)
        \/ /\ h[1] # 0 \/ nOf(h) = 0
           /\ \E rep \in Reps3 : RepOK(rep, h) /\
              tv' = [op |-> "log_so3", rep |-> rep, h |-> h, hp |-> Principal(h), cell |-> cell]
        (* Euler inputs at a gimbal pole / inside the band: log exact, exp(log X) = X to band tolerance *)
        \/ /\ h = <<1,0,0,0>>
           /\ \E hb \in HBand : tv' = [op |-> "log_so3", rep |-> "euler", h |-> hb, hp |-> Principal(hb), cell |-> "band"]
        (* the quaternion -1 (identity rotation, no MRP): log must be 0 *)
        \/ /\ h = <<1,0,0,0>>
           /\ tv' = [op |-> "log_so3", rep |-> "quat", h |-> <<-1,0,0,0>>, hp |-> <<1,0,0,0>>, cell |-> "zero"]
        \/ /\ (h[1] # 0 \/ nOf(h) = 0) /\ cell # "nearpole"
           /\ \E rep \in RepsSE(h), p \in Rhos : RepOK(rep, h) /\
              tv' = [op |-> "log_se3", rep |-> rep, h |-> h, hp |-> Principal(h), p |-> p, cell |-> cell,
                     u |-> GenU(Principal(h), p)]
        \/ /\ (h[1] # 0 \/ nOf(h) = 0) /\ cell # "nearpole"
           /\ \E rep \in RepsSE(h), p \in Rhos, p2 \in {<<1,1,1>>} : RepOK(rep, h) /\
              tv' = [op |-> "log_se23", rep |-> rep, h |-> h, hp |-> Principal(h), p |-> p, p2 |-> p2, cell |-> cell,
                     u |-> GenU(Principal(h), p), u2 |-> GenU(Principal(h), p2)]
  (* "just under 2 pi": x = (2 pi - 10^-k) u.  The rotation is the one of -10^-k u (FullTurn below: q and -q are the same
     rotation, the half-angle quaternion of theta - 2 pi is minus the one of theta); 10^-k is far below what the 32-bit
     lattice resolves, so the expectation of these states is the matrix exponential itself, evaluated by the harness at
     50 digits (the same oracle the embedding is self-tested against). *)
  \/ /\ tv.op = "seedt"
     /\ \E k \in NearTurnK, v \in HAxes, kind \in {"so3", "se3", "se23"} :
          \E rep \in (IF kind = "so3" THEN Reps3 ELSE Reps2) :
             tv' = [op |-> "exp_nearturn", kind |-> kind, rep |-> rep, k |-> k, axis |-> v, cell |-> "nearturn"]
  \/ /\ tv.op = "seedc"
     /\ LET cs == tv.cs IN
        \/ tv' = [op |-> "exp_so2", cs |-> cs, exp |-> RM(CMat(cs), cs[3])]
        \/ \E rho \in {<<1,0>>, <<-2,1>>, <<3,-1>>} :
              tv' = [op |-> "exp_se2", cs |-> cs, rho |-> rho, vr |-> SE2V(cs, rho), exp |-> RM(CMat(cs), cs[3])]
        \/ \E p \in {<<1,0>>, <<-2,1>>, <<3,-1>>} :
              tv' = [op |-> "log_se2", cs |-> cs, p |-> p, ur |-> SE2U(cs, p)]
        (* composition of two planar rotations (angle sums on both sides of +-pi: the code may wrap the sum) *)
        \/ \E c2 \in CSel : tv' = [op |-> "hom_c", cs |-> cs, cs2 |-> c2, exp |-> RM(MMul(CMat(cs), CMat(c2)), cs[3] * c2[3])]
        (* the SE(2) angle is a real number, |theta| < 2 pi: the same (c, s) with the angle wrapped to the
           other side, theta' = theta - 2 pi sgn(theta), |theta'| in [pi, 2 pi) -- V and V^-1 depend on
           theta' itself (same formulas, theta' in place of theta); reaches |theta'| up to 2 pi - 0.04 *)
        \/ \E rho \in {<<-2,1>>, <<3,-1>>} : cs[2] # 0 /\
              tv' = [op |-> "exp_se2", cs |-> cs, rho |-> rho, vr |-> SE2V(cs, rho), exp |-> RM(CMat(cs), cs[3]), wrap |-> 1]
        \/ \E p \in {<<-2,1>>, <<3,-1>>} : cs[2] # 0 /\
              tv' = [op |-> "log_se2", cs |-> cs, p |-> p, ur |-> SE2U(cs, p), wrap |-> 1]
        \/ \E x \in {<<1,-2,0>>, <<3,1,1>>, <<0,0,0>>} : tv' = [op |-> "exp_rn", cs |-> cs, x |-> x]
        (* direct sums: so3 (+) r3 into SO3Quat x R3, and se2 (+) so3 (+) r3 into SE2 x SO3Mrp x R3 *)
        \/ \E h \in {<<1,1,0,0>>, <<-1,1,1,0>>, <<64,1,2,2>>, <<1,0,0,0>>}, x \in {<<3,1,1>>}, rho \in {<<-2,1>>} :
              tv' = [op |-> "exp_prod", cs |-> cs, h |-> h, x |-> x, rho |-> rho, vr |-> SE2V(cs, rho),
                     exp |-> RM(QMat(h), QNorm(h))]
SpecE == InitE /\ [][NextE]_<<tv, dummy>>

(* ------------------------------ what TLC proves -------------------------------------- *)
HomC   == tv.op = "hom_c" =>        \* angle addition: R(a) R(b) = R(a + b), and the product is a rotation (c^2 + s^2 = h^2)
             LET a == tv.cs b == tv.cs2 c == a[1] * b[1] - a[2] * b[2] sn == a[2] * b[1] + a[1] * b[2] IN
             /\ tv.exp.num = FM(CMat(<<c, sn, a[3] * b[3]>>)) \/ RMEq(tv.exp, RM(CMat(<<c, sn, a[3] * b[3]>>), a[3] * b[3]))
             /\ c * c + sn * sn = (a[3] * b[3]) * (a[3] * b[3])
HasH   == tv.op \in {"exp_so3", "exp_se3_gen", "exp_se23_gen", "exp_se3_screw", "exp_se23_screw", "log_so3", "log_se3", "log_se23"}
VLawsOK == HasH /\ nOf(tv.h) # 0 /\ QNorm(tv.h) < 5000 => VLaws(tv.h) /\ VLaws(Principal(tv.h))
SubgroupSE3 == tv.op = "hom_se3" =>
    LET h == tv.h rep == tv.rep y == tv.y
        Es == ScrewSE3(rep, h, tv.s, 1, y) Et == ScrewSE3(rep, h, tv.t, 1, y) E == ScrewSE3(rep, h, tv.s + tv.t, 1, y) IN
    /\ Norm(Prod(Es, Et)) = E
    /\ ScrewSE3(rep, h, 0, 1, y) = Norm(IdOf(E))
    /\ Norm(Prod(Es, ScrewSE3(rep, h, -tv.s, 1, y))) = Norm(IdOf(E))
SubgroupSO3 == tv.op = "hom_so3" =>       \* equal up to the positive scale |h|^2k that QPow leaves for negative powers
    QRed(QMul(QPow(tv.h, tv.s), QPow(tv.h, tv.t))) = QRed(QPow(tv.h, tv.s + tv.t))
PrincipalOK == tv.op \in {"log_so3", "log_se3", "log_se23"} =>
    /\ tv.hp[1] >= 0 /\ (tv.hp = tv.h \/ tv.hp = QNeg(tv.h))       \* q and -q: same rotation (RotLaws!NegSame)
SE2LawOK == tv.op \in {"exp_se2", "log_se2"} => SE2Law(tv.cs)
=============================================================================
