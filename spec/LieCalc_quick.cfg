SPECIFICATION Spec
CONSTANT Tier = "quick"
INVARIANTS Hom InvOK IdOK Assoc RotProper
CHECK_DEADLOCK FALSE
