------------------------------ MODULE LieSugar ------------------------------
(* G02 (growth, part A) -- the element-level API of cyecca/lie/base.py: operator sugar on
   group and algebra elements, for every group family of the library and for direct products.

   GROUP SIDE.  A test vector "pm" carries a group element X (exact, LieGroups.tla), an algebra
   element x given by a DESCRIPTOR xe whose exponential is exact (half-angle / screw forms of
   ExpLog.tla, Pythagorean angles, rational vectors), E = exp(x) and En = exp(-x) as exact
   elements, and the exact matrices
        plus  = Mat(X) Mat(E)        what  X + x  must be   (X + x := X exp(x))
        minus = Mat(X) Mat(En)       what  X - x  must be   (X - x := X exp(-x))
        pinv  = Mat(En) Mat(X)^-1    what (X + x).inverse() must be.
   Expectations are MATRIX products of the operands; TLC proves on every state, with the
   parameter-level semidirect products of LieGroups.tla, the laws
        PlusMinus   (X + x) - x = X                     NegIsInv   exp(-x) = exp(x)^-1
        PlusInv     (X + x)^-1 = exp(-x) X^-1           PlusZero   X + 0 = X
        MatHom      to_Matrix of the product is the matrix product (plus, minus, pinv).
   "un"  : unary sugar (X.inverse(), X.Ad(), X.to_Matrix(), X.log()) against the explicit group
           calls and the exact matrices;   "geq" : X == Y is TRUE iff ALL parameters are equal
   (exact criterion per parameterisation: quaternion/MRP parameters are equal iff the SIGNED
   quaternions agree, DCM/Euler parameters iff the rotations agree);   "gadd" : X + Y, X - Y on
   two group elements (delegates to group.addition / group.subtraction where the group defines
   them, TypeError otherwise);  "shape" : elem() accepts exactly a column of n_param entries;
   "pstruct" : direct-product structure (offsets, factor matrices, identity);  "repr".

   ALGEBRA SIDE.  Elements are exact integer vectors in cyecca's parameter order (Adjoint.tla);
   direct sums are concatenations.  "avs": x+y, x-y, -x, s*x, x*s with the vector-space axioms
   proven by TLC (VecSpace); "abr": x*y is the bracket = matrix commutator (bilinear,
   antisymmetric); "aeq": x == y iff all components are equal (cell "partial": some but not all
   equal -- the case that separates logic_all from logic_any); "amat": to_Matrix = wedge matrix,
   from_Matrix o to_Matrix = id where offered, vee/wedge, ad.                               *)
EXTENDS ExpLog, FiniteSets

(* ============================ group side ============================================== *)
(* exact exp(s*x), s in {1, -1}, of the descriptor xe in the group of X.  MRP: the code's exp
   returns the non-shadow representative, i.e. the quaternion with w >= 0 (matters only for
   WHICH products sit on the excluded 360-degree MRP singularity, never for a matrix)        *)
MrpRep(E) == IF E.g \in {"SO3", "SE3", "SE23"} /\ E.rep = "mrp" THEN [E EXCEPT !.q = Principal(E.q)] ELSE E
RECURSIVE ExpAt(_, _, _)
ExpAt(X, xe, s) ==
  CASE xe.k = "so3"   -> MrpRep(Norm([g |-> "SO3", rep |-> X.rep, q |-> QPow(xe.h, s)]))
    [] xe.k = "se3"   -> MrpRep(ScrewSE3(X.rep, xe.h, s, xe.alpha, xe.y))
    [] xe.k = "se3t"  -> [g |-> "SE3", rep |-> X.rep, q |-> QId, p |-> VScale(s, xe.rho), pd |-> 1]
    [] xe.k = "se23"  -> MrpRep(ScrewSE23(X.rep, xe.h, s, xe.a1, xe.y1, xe.a2, xe.y2))
    [] xe.k = "se23t" -> [g |-> "SE23", rep |-> X.rep, q |-> QId, p |-> VScale(s, xe.rho), v |-> VScale(s, xe.rho2), pd |-> 1]
    [] xe.k = "so2"   -> [g |-> "SO2", cs |-> IF s = 1 THEN xe.cs ELSE CInv(xe.cs)]
    [] xe.k = "se2"   -> LET c == IF s = 1 THEN xe.cs ELSE CInv(xe.cs) IN        \* x = theta*(u, 1): p = theta V(theta) u
                         Norm([g |-> "SE2", cs |-> c, p |-> SE2V(c, xe.u), pd |-> c[3]])
    [] xe.k = "se2t"  -> [g |-> "SE2", cs |-> CId, p |-> VScale(s, xe.rho), pd |-> 1]
    [] xe.k = "rn"    -> [g |-> "Rn", x |-> VScale(s, xe.x), pd |-> xe.pd]
    [] xe.k = "sum"   -> [g |-> "Prod", fs |-> Fv([i \in 1..Len(X.fs) |-> ExpAt(X.fs[i], xe.parts[i], s)])]

(* descriptor lattices per family (indices of LieCalc!Families) *)
HSugar == { <<1,0,0,0>>, <<1,1,0,0>>, <<2,1,0,-1>>, <<1,1,1,1>>, <<0,1,0,0>>, <<0,1,2,-2>>, <<-1,1,1,0>>, <<-2,0,1,1>>,
            <<64,1,2,2>>, <<63,1,0,0>>, <<2000,-1,1,1>>, <<1,0,0,20>>, <<-1,6,6,7>> }
HScrew == { <<1,1,0,0>>, <<2,1,0,-1>>, <<0,1,0,0>>, <<-1,1,1,0>>, <<1,1,1,1>>, <<5,1,2,2>> }
HScrew23 == { <<1,1,0,0>>, <<2,1,0,-1>>, <<0,0,1,0>>, <<-1,1,1,0>> }
CSug  == { <<1,0,1>>, <<0,1,1>>, <<-1,0,1>>, <<3,4,5>>, <<-4,-3,5>>, <<5,-12,13>>, <<63,16,65>>, <<63,-16,65>> }
XeSet(k) ==
  CASE k \in 1..4 -> { [k |-> "so3", h |-> h] : h \in (IF Thorough THEN HSugar \cup HSmall \cup HNearPi ELSE HSugar) }
    [] k \in 5..6 -> { [k |-> "se3", h |-> h, alpha |-> al, y |-> y] : h \in HScrew, al \in (IF Thorough THEN {1, -2, 0} ELSE {-2}), y \in {<<0,-2,1>>, <<1,1,3>>} }
                     \cup { [k |-> "se3t", rho |-> r] : r \in {<<0,0,0>>, <<3,1,-1>>} }
    [] k \in 7..8 -> { [k |-> "se23", h |-> h, a1 |-> 1, y1 |-> y1, a2 |-> -2, y2 |-> y2] :
                          h \in HScrew23, y1 \in {<<1,0,0>>, <<0,-2,1>>}, y2 \in {<<0,0,0>>, <<1,1,3>>} }
                     \cup { [k |-> "se23t", rho |-> r, rho2 |-> <<1,1,1>>] : r \in {<<3,1,-1>>} }
                     \cup { [k |-> "se23t", rho |-> <<0,0,0>>, rho2 |-> <<0,0,0>>] }
    [] k = 9      -> { [k |-> "so2", cs |-> c] : c \in CSel \cup CSmallSigned }
    [] k = 10     -> { [k |-> "se2", cs |-> c, u |-> u] : c \in CSug, u \in (IF Thorough THEN {<<1,0>>, <<-2,1>>, <<3,-1>>} ELSE {<<-2,1>>, <<3,-1>>}) }
                     \cup { [k |-> "se2t", rho |-> r] : r \in {<<0,0>>, <<3,-1>>} }
    [] k = 11     -> { [k |-> "rn", x |-> x, pd |-> d] : x \in R3Small, d \in {1, 2} }
    [] k = 12     -> { [k |-> "rn", x |-> x, pd |-> d] : x \in R2Small, d \in {1, 2} }
    [] k = 13     -> { [k |-> "sum", parts |-> << [k |-> "so2", cs |-> c], [k |-> "rn", x |-> x, pd |-> 2] >>] :
                          c \in (IF Thorough THEN {<<3,4,5>>, <<0,-1,1>>, <<1,0,1>>} ELSE {<<3,4,5>>, <<1,0,1>>}), x \in {<<1,-2>>, <<0,0>>} }
    [] k = 14     -> { [k |-> "sum", parts |-> << [k |-> "so3", h |-> h], [k |-> "rn", x |-> x, pd |-> 1] >>] :
                          h \in {<<1,1,0,0>>, <<-1,1,1,0>>, <<64,1,2,2>>, <<1,0,0,0>>}, x \in (IF Thorough THEN {<<3,1,1>>, <<0,0,0>>} ELSE {<<0,0,0>>}) }
    [] k = 15     -> { [k |-> "sum", parts |-> << [k |-> "se2", cs |-> c, u |-> <<-2,1>>], [k |-> "so3", h |-> h],
                                                  [k |-> "rn", x |-> <<1,0,-2>>, pd |-> 1] >>] :
                          c \in (IF Thorough THEN {<<3,4,5>>, <<0,1,1>>} ELSE {<<3,4,5>>}), h \in {<<1,1,0,0>>, <<2,1,0,-1>>, <<0,0,1,0>>} }
    [] k = 16     -> { [k |-> "sum", parts |-> << [k |-> "se3", h |-> h, alpha |-> 1, y |-> <<0,-2,1>>], [k |-> "so3", h |-> h2] >>] :
                          h \in {<<1,1,0,0>>, <<-1,1,1,0>>}, h2 \in (IF Thorough THEN {<<2,1,0,-1>>, <<1,0,0,2>>, <<1,0,0,0>>} ELSE {<<2,1,0,-1>>, <<1,0,0,0>>}) }

(* seed elements X per family *)
RepOfK(k) == CASE k = 1 -> "quat" [] k = 2 -> "mrp" [] k = 3 -> "dcm" [] k = 4 -> "euler"
QuickProd(k) ==
  CASE k = 13 -> { X \in Families[13] : X.fs[1].cs \in {<<3,4,5>>, <<-4,-3,5>>} /\ X.fs[2].x \in {<<1,-2>>, <<3,1>>} }
    [] k = 14 -> { X \in Families[14] : X.fs[1].q \in {<<1,1,0,0>>, <<-1,1,1,0>>} /\ X.fs[2].x \in {<<1,0,-2>>, <<3,1,1>>} }
    [] k = 15 -> Families[15]
    [] k = 16 -> { X \in Families[16] : X.fs[2].q \in {<<1,1,0,0>>, <<1,0,0,2>>} }
SFam(k) ==
  CASE k \in 1..4 -> SO3Set(RepOfK(k), IF Thorough THEN QSel \cup QL1 ELSE QSel)
    [] k \in 5..6 -> Families[k]
    [] k \in 7..8 -> IF Thorough THEN { X \in Families[k] : X.q \in QSel8 /\ X.p \in TSel4 /\ X.v \in TTri } ELSE TriFamilies[k]
    [] k >= 13    -> IF Thorough THEN Families[k] ELSE QuickProd(k)       \* (10x10 block matrices cost ~0.1 s per state in TLC)
    [] OTHER      -> Families[k]

NRot(rep) == CASE rep = "quat" -> 4 [] rep = "mrp" -> 3 [] rep = "dcm" -> 9 [] rep = "euler" -> 3
RECURSIVE NPar(_), NParUpTo(_, _), NAlg(_), NAlgUpTo(_, _), MatDim(_), MatDimUpTo(_, _)
NParUpTo(fs, k)   == IF k = 0 THEN 0 ELSE NPar(fs[k]) + NParUpTo(fs, k - 1)
NAlgUpTo(fs, k)   == IF k = 0 THEN 0 ELSE NAlg(fs[k]) + NAlgUpTo(fs, k - 1)
MatDimUpTo(fs, k) == IF k = 0 THEN 0 ELSE MatDim(fs[k]) + MatDimUpTo(fs, k - 1)
NPar(X) == CASE X.g = "SO3" -> NRot(X.rep) [] X.g = "SE3" -> 3 + NRot(X.rep) [] X.g = "SE23" -> 6 + NRot(X.rep)
             [] X.g = "SO2" -> 1 [] X.g = "SE2" -> 3 [] X.g = "Rn" -> Len(X.x)
             [] X.g = "Prod" -> NParUpTo(X.fs, Len(X.fs))
NAlg(X) == CASE X.g = "SO3" -> 3 [] X.g = "SE3" -> 6 [] X.g = "SE23" -> 9 [] X.g = "SO2" -> 1 [] X.g = "SE2" -> 3
             [] X.g = "Rn" -> Len(X.x) [] X.g = "Prod" -> NAlgUpTo(X.fs, Len(X.fs))
MatDim(X) == CASE X.g = "SO3" -> 3 [] X.g = "SE3" -> 4 [] X.g = "SE23" -> 5 [] X.g = "SO2" -> 2 [] X.g = "SE2" -> 3
             [] X.g = "Rn" -> Len(X.x) + 1 [] X.g = "Prod" -> MatDimUpTo(X.fs, Len(X.fs))
NFac(X) == IF X.g = "Prod" THEN Len(X.fs) ELSE 1

(* cell of a pm vector: the branch of exp that the descriptor exercises *)
RECURSIVE XeCell(_)
XeCell(xe) ==
  CASE xe.k \in {"so3", "se3", "se23"} -> HCell(xe.h)
    [] xe.k \in {"se3t", "se23t", "se2t"} -> IF NormSq(xe.rho) = 0 THEN "zero" ELSE "transl"
    [] xe.k \in {"so2", "se2"} -> IF xe.cs = CId THEN "zero" ELSE IF xe.cs[2] = 0 THEN "pi" ELSE IF xe.cs[3] > 30 THEN "small" ELSE "regular"
    [] xe.k = "rn" -> IF NormSq(xe.x) = 0 THEN "zero" ELSE "regular"
    [] xe.k = "sum" -> IF \A i \in 1..Len(xe.parts) : XeCell(xe.parts[i]) = "zero" THEN "zero" ELSE "mixed"

AllValid(S) == \A Y \in S : Valid(Y)
(* MRP at EXACTLY pi: +v and -v are the same rotation and both MRPs have norm 1, so which of the two the code's exp
   returns is representation detail (SO3Mrp.exp keeps the sign of x, SE23.exp goes through the rotation matrix and
   loses it).  Which products then sit on the excluded 360-degree singularity depends on that choice: a vector is
   kept only if it avoids the singularity for either choice (found by the thorough tier: X = identity, x a half turn,
   (X + x) - x through SE23Mrp is NaN).                                                                              *)
RECURSIVE PiOK(_, _, _)
PiOK(X, E, En) ==
  CASE X.g = "Prod" -> \A i \in 1..Len(X.fs) : PiOK(X.fs[i], E.fs[i], En.fs[i])
    [] X.g \in {"SO3", "SE3", "SE23"} /\ X.rep = "mrp" /\ E.q[1] = 0 ->
         /\ nOf(X.q) # 0
         /\ MrpOk(QMul(X.q, QNeg(E.q))) /\ MrpOk(QMul(X.q, QNeg(En.q))) /\ MrpOk(QMul(QNeg(En.q), QConj(X.q)))
    [] OTHER -> TRUE
(* (operands of an action are re-evaluated at every reference: bind every intermediate once with \E .. \in {..}) *)
PmStep(X, k, xe) ==
    \E E \in {ExpAt(X, xe, 1)}, En \in {ExpAt(X, xe, -1)}, Xi \in {Norm(Inv(X))} :
    \E XE \in {Norm(Prod(X, E))}, XEn \in {Norm(Prod(X, En))} :
    /\ AllValid({E, En, XE, XEn, Xi, Norm(Inv(XE)), Norm(Prod(En, Xi))})
    /\ PiOK(X, E, En)
    /\ \E MX \in {Mat(X)}, ME \in {Mat(E)}, MEn \in {Mat(En)} :
       tv' = [op |-> "pm", fam |-> k, a |-> <<X>>, xe |-> xe, E |-> E, En |-> En, cell |-> XeCell(xe),
              mat |-> MX, plus |-> RMMul(MX, ME), minus |-> RMMul(MX, MEn), pinv |-> RMMul(MEn, Mat(Xi))]

(* --- == on group elements: exact criterion "all parameters equal" per parameterisation --- *)
RotParEq(rep, p, q) == IF rep \in {"quat", "mrp"} THEN QRed(p) = QRed(q) ELSE SameRot(p, q)
RECURSIVE ParEq(_, _), AnyBlockEq(_, _)
ParEq(X, Y) ==
  CASE X.g = "SO3"  -> RotParEq(X.rep, X.q, Y.q)
    [] X.g = "SE3"  -> RotParEq(X.rep, X.q, Y.q) /\ VScale(Y.pd, X.p) = VScale(X.pd, Y.p)
    [] X.g = "SE23" -> RotParEq(X.rep, X.q, Y.q) /\ VScale(Y.pd, X.p) = VScale(X.pd, Y.p) /\ VScale(Y.pd, X.v) = VScale(X.pd, Y.v)
    [] X.g = "SO2"  -> CRed(X.cs) = CRed(Y.cs)
    [] X.g = "SE2"  -> CRed(X.cs) = CRed(Y.cs) /\ VScale(Y.pd, X.p) = VScale(X.pd, Y.p)
    [] X.g = "Rn"   -> VScale(Y.pd, X.x) = VScale(X.pd, Y.x)
    [] X.g = "Prod" -> \A i \in 1..Len(X.fs) : ParEq(X.fs[i], Y.fs[i])
CoordEq(u, du, w, dw) == \E i \in 1..Len(u) : dw * u[i] = du * w[i]          \* some coordinate of u/du equals that of w/dw
AnyBlockEq(X, Y) ==        \* SOME parameter block / coordinate agrees (coarse; the harness counts equal doubles)
  CASE X.g = "SO3"  -> RotParEq(X.rep, X.q, Y.q)
    [] X.g = "SE3"  -> RotParEq(X.rep, X.q, Y.q) \/ CoordEq(X.p, X.pd, Y.p, Y.pd)
    [] X.g = "SE23" -> RotParEq(X.rep, X.q, Y.q) \/ CoordEq(X.p, X.pd, Y.p, Y.pd) \/ CoordEq(X.v, X.pd, Y.v, Y.pd)
    [] X.g = "SO2"  -> CRed(X.cs) = CRed(Y.cs)
    [] X.g = "SE2"  -> CRed(X.cs) = CRed(Y.cs) \/ CoordEq(X.p, X.pd, Y.p, Y.pd)
    [] X.g = "Rn"   -> CoordEq(X.x, X.pd, Y.x, Y.pd)
    [] X.g = "Prod" -> \E i \in 1..Len(X.fs) : AnyBlockEq(X.fs[i], Y.fs[i])
HasRot(X) == X.g \in {"SO3", "SE3", "SE23"}
Anti(X) == [X EXCEPT !.q = QNeg(X.q)]                                         \* the same rotation, other quaternion sign
EqPartners(X, k) == (IF k \in 1..4 \/ k >= 13 \/ Thorough THEN SFam(k) ELSE TriFamilies[k])
                    \cup {X} \cup (IF HasRot(X) THEN {Anti(X)} ELSE {})
EqVec(X, Y, k) == LET e == ParEq(X, Y) IN
    [op |-> "geq", fam |-> k, a |-> <<X, Y>>, exp |-> e,
     cell |-> IF e THEN (IF X = Y THEN "same" ELSE "samerot")
              ELSE IF HasRot(X) /\ Y = Anti(X) THEN "antipodal"
              ELSE IF AnyBlockEq(X, Y) THEN "partial" ELSE "other"]

(* --- unary sugar --- *)
UnVec(X, k) == [op |-> "un", fam |-> k, a |-> <<X>>, mat |-> Mat(X), inv |-> Mat(Norm(Inv(X))),
                hasAd |-> k <= 12, Ad |-> IF k <= 12 THEN AdClosed(X) ELSE RMIdent(1),
                cell |-> IF HasRot(X) THEN HCell(X.q) ELSE "n/a"]

(* --- X + Y, X - Y on two group elements.  Law: where the group defines addition/subtraction the sugar
   returns exactly that; otherwise TypeError.  Which groups define it is read from the code (none in
   the pinned tree -- not even R^n, whose group law IS addition; reported as spec_drift by the harness) *)
AddDefined(X) == FALSE
GAddVec(X, Y, k) == [op |-> "gadd", fam |-> k, a |-> <<X, Y>>, defined |-> AddDefined(X),
                     vector_group |-> X.g = "Rn", sum |-> RMMul(Mat(X), Mat(Y)), diff |-> RMMul(Mat(X), Mat(Norm(Inv(Y))))]

(* --- elem() shape contract: a column of exactly n entries --- *)
ShapeVec(X, k, side, m, row) == LET n == IF side = "group" THEN NPar(X) ELSE NAlg(X) IN
    [op |-> "shape", fam |-> k, a |-> <<X>>, side |-> side, n |-> n, m |-> m, row |-> row,
     accept |-> (m = n /\ (~row \/ n = 1)), matdim |-> MatDim(X), nfac |-> NFac(X)]

(* --- direct-product structure --- *)
RECURSIVE OffsetsOf(_, _)
OffsetsOf(fs, k) == IF k = 0 THEN <<>> ELSE OffsetsOf(fs, k - 1) \o << NParUpTo(fs, k - 1) >>
RECURSIVE AOffsetsOf(_, _)
AOffsetsOf(fs, k) == IF k = 0 THEN <<>> ELSE AOffsetsOf(fs, k - 1) \o << NAlgUpTo(fs, k - 1) >>
PStructVec(X, k) == [op |-> "pstruct", fam |-> k, a |-> <<X>>, n |-> NPar(X), nalg |-> NAlg(X),
                     offs |-> OffsetsOf(X.fs, Len(X.fs)), aoffs |-> AOffsetsOf(X.fs, Len(X.fs)),
                     mats |-> Fv([i \in 1..Len(X.fs) |-> Mat(X.fs[i])]), mat |-> Mat(X),
                     ident |-> Mat(IdOf(X)), inv |-> Mat(Norm(Inv(X)))]

(* ============================ algebra side ============================================ *)
(* algebra families: signature = tuple of kinds; elements = flat integer vectors *)
Sigs == { <<"so2">>, <<"se2">>, <<"so3">>, <<"se3">>, <<"se23">>, <<"r2">>, <<"r3">>,
          <<"so3", "r3">>, <<"se2", "so3", "r3">>, <<"se3", "so2">>, <<"so3", "so3">> }
KDim(kind) == CASE kind = "r2" -> 2 [] kind = "r3" -> 3 [] OTHER -> Dim(kind, 0)
RECURSIVE SigDim(_, _)
SigDim(sig, k) == IF k = 0 THEN 0 ELSE KDim(sig[k]) + SigDim(sig, k - 1)
PartOf(x, sig, i) == SubSeq(x, SigDim(sig, i - 1) + 1, SigDim(sig, i))
RECURSIVE FlatParts(_, _)
FlatParts(parts, k) == IF k = 0 THEN <<>> ELSE FlatParts(parts, k - 1) \o parts[k][2]
SigOfParts(parts) == [i \in 1..Len(parts) |-> parts[i][1]]
ZeroV(n) == Fv([i \in 1..n |-> 0])
AElems(sig) ==
  IF Len(sig) = 1 THEN AlgSet(sig[1])
  ELSE LET base == { FlatParts(p, Len(p)) : p \in { pp \in SumSet : Fv(SigOfParts(pp)) = sig } }
       IN base \cup { VNeg(b) : b \in base } \cup { ZeroV(SigDim(sig, Len(sig))), Unit(SigDim(sig, Len(sig)), 2) }
YSet(x) == LET n == Len(x) IN { ZeroV(n), Unit(n, 1), VAdd(VScale(-2, x), Unit(n, n)) }       \* partners y, z of x
WedgeSig(sig, x) == IF Len(sig) = 1 THEN Wedge(K0(sig[1]), x)
                    ELSE FM(BlockDiag([i \in 1..Len(sig) |-> Wedge(K0(sig[i]), PartOf(x, sig, i))]))
adSig(sig, x)    == IF Len(sig) = 1 THEN adm(K0(sig[1]), x)
                    ELSE FM(BlockDiag([i \in 1..Len(sig) |-> adm(K0(sig[i]), PartOf(x, sig, i))]))
Scalars == { -2, 0, 1, 3 }

AvsVec(sig, x, y, z, s, t) ==
    [op |-> "avs", sig |-> sig, x |-> x, y |-> y, z |-> z, s |-> s, t |-> t,
     add |-> VAdd(x, y), sub |-> VSub(x, y), neg |-> VNeg(x), sx |-> VScale(s, x),
     add3 |-> VAdd(VAdd(x, y), z), sxy |-> VScale(s, VAdd(x, y)), stx |-> VScale(s + t, x), s_tx |-> VScale(s * t, x),
     cell |-> IF NormSq(x) = 0 THEN "zero" ELSE IF s = 0 THEN "s=0" ELSE IF s < 0 THEN "s<0" ELSE "regular"]
AbrVec(sig, x, y, z, s) == LET k0 == K0(sig[1]) IN
    [op |-> "abr", sig |-> sig, x |-> x, y |-> y, z |-> z, s |-> s, br |-> Bracket(k0, x, y),
     cell |-> IF Bracket(k0, x, y) = ZeroV(Len(x)) THEN "commuting" ELSE "regular"]
CountEq(x, y) == Cardinality({ i \in 1..Len(x) : x[i] = y[i] })
AeqVec(sig, x, y) ==
    [op |-> "aeq", sig |-> sig, x |-> x, y |-> y, exp |-> (x = y), neq |-> CountEq(x, y),
     cell |-> IF x = y THEN "same" ELSE IF CountEq(x, y) > 0 THEN "partial" ELSE "none"]
Bump(x, i) == [x EXCEPT ![i] = x[i] + 1]
AeqPartners(x) == {x} \cup { Bump(x, i) : i \in 1..Len(x) } \cup { Fv([i \in 1..Len(x) |-> x[i] + 1]) }
                  \cup { Fv([i \in 1..Len(x) |-> IF i = 1 THEN x[i] ELSE x[i] - 2]) }
AmatVec(sig, x) ==
    [op |-> "amat", sig |-> sig, x |-> x, wedge |-> WedgeSig(sig, x), ad |-> adSig(sig, x),
     n |-> SigDim(sig, Len(sig)), cell |-> IF NormSq(x) = 0 THEN "zero" ELSE "regular"]

(* ============================ enumeration ============================================= *)
Canon(k) == CHOOSE X \in SFam(k) : Valid(X)
InitS == /\ dummy = 0
         /\ \/ \E k \in 1..16 : \E X \in SFam(k) : Valid(X) /\ tv = [op |-> "seedX", a |-> <<X>>, fam |-> k]
            \/ \E k \in 1..16 : tv = [op |-> "seedF", a |-> <<Canon(k)>>, fam |-> k]
            \/ \E sig \in Sigs : \E x \in AElems(sig) : tv = [op |-> "seedx", sig |-> sig, x |-> x]
NextS == UNCHANGED dummy /\
  \/ /\ tv.op = "seedX"
     /\ LET X == tv.a[1] k == tv.fam IN
        \/ \E xe \in XeSet(k) : PmStep(X, k, xe)
        \/ tv' = UnVec(X, k)
        \/ \E Y \in EqPartners(X, k) : Valid(Y) /\ tv' = EqVec(X, Y, k)
  \/ /\ tv.op = "seedF"
     /\ LET X == tv.a[1] k == tv.fam IN
        \/ \E Y \in {CHOOSE Z \in SFam(k) : Valid(Z) /\ Z # X /\ Valid(Norm(Prod(X, Z))) /\ Valid(Norm(Prod(X, Norm(Inv(Z)))))} : tv' = GAddVec(X, Y, k)
        \/ \E side \in {"group", "alg"}, d \in {-1, 0, 1}, row \in BOOLEAN :
              LET n == IF side = "group" THEN NPar(X) ELSE NAlg(X) IN n + d >= 1 /\ tv' = ShapeVec(X, k, side, n + d, row)
        \/ k >= 13 /\ \E Y \in SFam(k) : Valid(Y) /\ tv' = PStructVec(Y, k)
  \/ /\ tv.op = "seedx"
     /\ LET sig == tv.sig x == tv.x IN
        \/ \E y \in YSet(x), z \in YSet(x), s \in Scalars, t \in {2} : tv' = AvsVec(sig, x, y, z, s, t)
        \/ Len(sig) = 1 /\ \E y \in AlgSet(sig[1]), z \in {CHOOSE w \in AlgSet(sig[1]) : NormSq(w) # 0}, s \in {-2} : tv' = AbrVec(sig, x, y, z, s)
        \/ \E y \in AeqPartners(x) : tv' = AeqVec(sig, x, y)
        \/ tv' = AmatVec(sig, x)
SpecS == InitS /\ [][NextS]_<<tv, dummy>>

(* ============================ what TLC proves ========================================= *)
(* 32-bit integers: products of two already-multiplied rational matrices only while the denominators are small;
   the parameter-level laws (quaternion products, Norm) are checked on every state                            *)
SmallPm == tv.plus.den <= 10000 /\ tv.pinv.den <= 10000 /\ tv.minus.den <= 10000
PlusMinus == tv.op = "pm" => LET X == tv.a[1] IN
    Norm(Prod(Norm(Prod(X, tv.E)), tv.En)) = Norm(X)                                  \* (X + x) - x = X
NegIsInv  == tv.op = "pm" =>
    /\ Norm(Prod(tv.E, tv.En)) = Norm(IdOf(tv.E)) /\ Norm(Prod(tv.En, tv.E)) = Norm(IdOf(tv.E))
    /\ (SmallPm => RMIsIdent(RMMul(Mat(tv.E), Mat(tv.En))))
PlusInv   == tv.op = "pm" => LET X == tv.a[1] IN
    /\ Norm(Inv(Norm(Prod(X, tv.E)))) = Norm(Prod(tv.En, Norm(Inv(X))))              \* (X + x)^-1 = exp(-x) X^-1
    /\ (SmallPm => RMIsIdent(RMMul(tv.plus, tv.pinv)) /\ RMIsIdent(RMMul(tv.pinv, tv.plus)))
PlusZero  == tv.op = "pm" => LET X == tv.a[1] IN
    /\ Norm(Prod(X, IdOf(X))) = Norm(X)
    /\ (tv.cell = "zero" => Norm(tv.E) = Norm(IdOf(X)) /\ RMEq(tv.plus, tv.mat) /\ RMEq(tv.minus, tv.mat))
MatHom    == tv.op = "pm" => LET X == tv.a[1] IN
    /\ RMEq(Mat(Norm(Prod(X, tv.E))), tv.plus)                                        \* to_Matrix(X*Y) = to_Matrix(X) to_Matrix(Y)
    /\ RMEq(Mat(Norm(Prod(X, tv.En))), tv.minus)
    /\ (SmallPm => RMEq(RMMul(tv.plus, Mat(tv.En)), tv.mat))
EqLaw     == tv.op = "geq" => LET X == tv.a[1] Y == tv.a[2] IN
    /\ (tv.exp <=> ParEq(Y, X))                                                       \* symmetric
    /\ (X = Y => tv.exp)                                                              \* reflexive
    /\ (tv.exp => RMEq(Mat(X), Mat(Y)))                                               \* equal parameters => equal matrices
    /\ (tv.cell = "antipodal" => ~tv.exp /\ RMEq(Mat(X), Mat(Y)))                     \* (not conversely: q and -q)
    /\ (tv.cell = "partial" => ~tv.exp)
UnLaw     == tv.op = "un" => LET X == tv.a[1] IN
    /\ RMIsIdent(RMMul(tv.mat, tv.inv)) /\ RMIsIdent(RMMul(tv.inv, tv.mat))
    /\ (tv.hasAd => RMEq(tv.Ad, AdByConj(X)))
ShapeLaw  == tv.op = "shape" => (tv.accept <=> tv.m = tv.n /\ (~tv.row \/ tv.n = 1)) /\ tv.n >= 1
PStructLaw == tv.op = "pstruct" => LET X == tv.a[1] IN
    /\ tv.offs[1] = 0 /\ tv.aoffs[1] = 0
    /\ \A i \in 1..Len(X.fs) : (i < Len(X.fs) => tv.offs[i + 1] = tv.offs[i] + NPar(X.fs[i]))
    /\ tv.offs[Len(X.fs)] + NPar(X.fs[Len(X.fs)]) = tv.n
    /\ RMIsIdent(tv.ident) /\ RMIsIdent(RMMul(tv.mat, tv.inv))
    /\ Len(tv.mat.num) = MatDim(X)
Zero(x) == ZeroV(Len(x))
VecSpace  == tv.op = "avs" => LET x == tv.x y == tv.y z == tv.z s == tv.s t == tv.t IN
    /\ tv.add = VAdd(y, x)                                          \* commutative
    /\ tv.add3 = VAdd(x, VAdd(y, z))                                \* associative
    /\ VAdd(x, Zero(x)) = x /\ VAdd(x, tv.neg) = Zero(x)            \* neutral, inverse
    /\ tv.sub = VAdd(x, VNeg(y)) /\ VSub(x, x) = Zero(x)
    /\ tv.sxy = VAdd(tv.sx, VScale(s, y))                           \* s (x + y) = s x + s y
    /\ tv.stx = VAdd(tv.sx, VScale(t, x))                           \* (s + t) x = s x + t x
    /\ tv.s_tx = VScale(s, VScale(t, x))                            \* (s t) x = s (t x)
    /\ VScale(1, x) = x /\ VScale(-1, x) = tv.neg /\ VScale(0, x) = Zero(x)
BrLaw     == tv.op = "abr" => LET k0 == K0(tv.sig[1]) x == tv.x y == tv.y z == tv.z s == tv.s IN
    /\ Bracket(k0, y, x) = VNeg(tv.br)                                                        \* antisymmetric
    /\ Bracket(k0, VAdd(x, z), y) = VAdd(tv.br, Bracket(k0, z, y))                            \* bilinear
    /\ Bracket(k0, VScale(s, x), y) = VScale(s, tv.br)
    /\ MVec(adm(k0, x), y) = tv.br                                                            \* ad_x y = [x, y]
AeqLaw    == tv.op = "aeq" =>
    /\ (tv.exp <=> tv.neq = Len(tv.x)) /\ (tv.exp <=> VSub(tv.x, tv.y) = Zero(tv.x))
    /\ (tv.cell = "partial" <=> tv.neq > 0 /\ tv.neq < Len(tv.x))
AmatLaw   == tv.op = "amat" => LET sig == tv.sig x == tv.x IN
    /\ Len(tv.wedge) = Len(tv.wedge[1])
    /\ (Len(sig) = 1 => Vee(K0(sig[1]), tv.wedge) = x)                                        \* vee o wedge = id
    /\ (Len(sig) = 1 => \A y \in YSet(x) : MVec(tv.ad, y) = Bracket(K0(sig[1]), x, y))
    /\ WedgeSig(sig, VAdd(x, x)) = MAdd(tv.wedge, tv.wedge)                                   \* wedge is linear
=============================================================================
