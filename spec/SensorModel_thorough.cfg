SPECIFICATION Spec
CONSTANT Tier = "thorough"
INVARIANTS AttOK GetStateLaw AccelLaw MagLaw ErrLaw Sim0Law SimWLaw
CHECK_DEADLOCK FALSE
