SPECIFICATION Spec
CONSTANT Tier = "quick"
INVARIANTS EvalLaw TrajLaw MultiLaw SolveLaw BCLaw
CHECK_DEADLOCK FALSE
