----------------------------- MODULE EstimatorStep -----------------------------
(* C11 -- contracts of one step of the MRP attitude estimator (initialize, predict,
   correct_accel, correct_mag), property level.

   The estimator state is x = (MRP of the attitude, gyro bias), W = lower-triangular factor
   of the error covariance.  Abstractly the attitude is a signed integer quaternion Q with
   w >= 0 (MRP in the unit ball), the bias an integer vector in units of 1/100 rad/s.

   Initialize(Q, decl, incl): the measurements are GENERATED IN THE SPEC from the truth:
        g_b = R^T (0,0,-g),    B_b = R^T Rz(decl) Ry(-incl) e1        (exact rationals; TLC proves
        R g_b = (0,0,-g) and R B_b = B_n on every state), and the contract is
        (code = 0 /\ attitude has the rotation of Q)  \/  code # 0,   never NaN.
   Predict(Q, b, h, dt): gyro rate omega = b + phi/dt with phi the half-angle element h
        (ExpLog): the attitude after the step is Q (x) h exactly; the code integrates with RK4, so
        the contract allows 1e-9 + C theta^5 (C fixed in the harness from the property's
        "fourth order": explicit Euler would be theta^2/2).  |r| <= 1 after the step.
   Correct*(Q, W, y): code # 0 => state and covariance factor returned bit-for-bit unchanged;
        code = 0 => finite and P+ <= P.  Grossly wrong accelerometer magnitude => code # 0.
   Cells (both sides of every gate of the implementation) drive the lattice and are used for
   coverage accounting; the concrete gate positions are implementation detail (SPEC-DRIFT).  *)
EXTENDS ExpLog

QAtt == { q \in QLat(1) : q[1] >= 0 /\ q[1] + Abs(q[2]) + Abs(q[3]) + Abs(q[4]) > 0 /\ (q[1] > 0 \/ q[2] > 0 \/ (q[2] = 0 /\ q[3] > 0) \/ (q[2] = 0 /\ q[3] = 0 /\ q[4] > 0)) }
        \cup { <<2,1,0,-1>>, <<3,1,2,-2>>, <<10,1,0,0>>, <<1,2,2,0>> }
QAttQ == { <<1,0,0,0>>, <<1,1,0,0>>, <<1,0,1,0>>, <<1,0,0,-1>>, <<0,1,0,0>>, <<0,0,1,1>>, <<1,1,1,1>>, <<1,-1,1,0>>,
           <<2,1,0,-1>>, <<3,1,2,-2>>, <<10,1,0,0>>, <<1,2,2,0>>, <<0,0,0,1>>, <<1,1,-1,-1>> }
Angles == { <<1,0,1>>, <<4,3,5>>, <<3,-4,5>>, <<12,5,13>>, <<0,1,1>> }          \* declinations (cos, sin, hyp)
Incls  == { <<1,0,1>>, <<4,3,5>>, <<3,4,5>>, <<5,-12,13>>, <<8,15,17>> }         \* inclinations; 62 deg max
Biases == { <<0,0,0>>, <<7,-7,3>>, <<-5,0,2>> }                                  \* 1/100 rad/s
HSteps == { <<1,0,0,0>>, <<5,1,0,0>>, <<10,0,1,0>>, <<10,1,2,2>>, <<50,-1,1,1>>, <<1000,0,0,1>>, <<16,1,1,0>>, <<7,0,0,-1>> }
Dts    == { 1, 5, 10, 20 }                                                        \* ms
Ws     == { "W0", "small", "tight", "coupled", "loose" }
AccMag == { 490, 870, 880, 890, 980, 1070, 1080, 1090, 1960, 4900 }               \* |y| in cm/s^2 (g = 980)
Tilts  == { <<1,0,0,0>>, <<50,1,0,0>>, <<10,0,1,0>>, <<3,1,1,0>>, <<1,1,0,0>> }    \* rotation between truth and measurement direction
YawOff == { <<1,0,0,0>>, <<50,0,0,1>>, <<5,0,0,-1>>, <<1,0,0,1>> }

(* measurement generation: R^T u for integer u, over denominator N *)
RtVec(q, u) == M3Vec(M3T(QMat(q)), u)
Bn(decl, incl) == << decl[1] * incl[1], decl[2] * incl[1], incl[2] * decl[3] >>       \* over decl[3]*incl[3]

(* exactly level attitudes heading 120..180 deg away from north, both senses: trace(R) <= 0 with R00 = R11 in exact
   arithmetic, so rounding decides the last selectors of the matrix -> quaternion extraction that initialise runs through *)
LevelYaw == { <<1,0,0,2>>, <<1,0,0,-2>>, <<1,0,0,3>>, <<2,0,0,-5>>, <<1,0,0,5>>, <<3,0,0,-7>>, <<1,0,0,10>>, <<2,0,0,7>>,
              <<4,0,0,-7>>, <<1,0,0,-4>>, <<5,0,0,9>>, <<1,0,0,-30>> }
BaseAtt  == IF Thorough THEN QAtt ELSE QAttQ
VARIABLES dummy2
InitC == /\ dummy = 0 /\ dummy2 = 0
         /\ \E q \in BaseAtt \cup LevelYaw : tv = [op |-> "seedq", q |-> q]
NextC == UNCHANGED <<dummy, dummy2>> /\ tv.op = "seedq" /\ LET q == tv.q IN
   \/ \E decl \in Angles, incl \in Incls, gs \in {"ok", "half", "double", "low", "high", "std"} :      \* low/high/std: |g| = 9.0, 10.7, 9.81 -- not the nominal 9.8, yet a gravity vector a node accepts
        tv' = [op |-> "init", q |-> q, decl |-> decl, incl |-> incl, gscale |-> gs,
               gdir |-> RtVec(q, <<0, 0, -1>>), bb |-> RtVec(q, Bn(decl, incl)), bn |-> Bn(decl, incl), N |-> QNorm(q)]
   (* degenerate measurements: the attitude is not determined (field parallel / anti-parallel to
      gravity, zero field, zero gravity) -> the only admissible outcome is a non-zero error code *)
   \/ q \in BaseAtt /\ \E decl \in {<<1,0,1>>, <<4,3,5>>}, deg \in {"field_up", "field_down", "zero_field", "zero_gravity"} :
        tv' = [op |-> "init_degenerate", q |-> q, decl |-> decl, deg |-> deg,
               gdir |-> RtVec(q, <<0, 0, -1>>), N |-> QNorm(q)]
   \/ q \in BaseAtt /\ \E b \in Biases, h \in HSteps, dt \in Dts, W \in {"W0", "small"} :
        tv' = [op |-> "predict", q |-> q, b |-> b, h |-> h, dt |-> dt, W |-> W, post |-> QRed(QMul(q, h)),
               cell |-> IF QMul(q, h)[1] < 0 THEN "shadow" ELSE "noshadow"]
   \/ q \in BaseAtt /\ \E W \in Ws, mag \in AccMag, tilt \in Tilts, b \in {<<0,0,0>>, <<7,-7,3>>} :
        tv' = [op |-> "accel", q |-> q, b |-> b, W |-> W, mag |-> mag, tilt |-> tilt,
               ydir |-> RtVec(QRed(QMul(q, tilt)), <<0, 0, -1>>), yN |-> QNorm(QRed(QMul(q, tilt))),
               cls |-> IF mag \in {490, 1960, 4900} THEN "must_reject" ELSE "any",
               gate |-> IF Abs(mag - 980) > 100 THEN "reject" ELSE IF Abs(mag - 980) = 100 THEN "edge" ELSE "accept"]
   \/ q \in BaseAtt /\ \E W \in Ws, yaw \in YawOff, decl \in {<<1,0,1>>, <<4,3,5>>}, b \in {<<0,0,0>>, <<7,-7,3>>} :
        tv' = [op |-> "mag", q |-> q, b |-> b, W |-> W, yaw |-> yaw, decl |-> decl,
               ydir |-> RtVec(QRed(QMul(yaw, q)), Bn(decl, <<1,0,1>>)), yN |-> QNorm(QRed(QMul(yaw, q))) * decl[3]]
   (* magnetometer vectors that are NOT a consistent horizontal field: sensor drop-out (zero vector), a field with
      no horizontal component in the navigation frame (along +-vertical), grossly wrong magnitude, a steep
      inclination.  Same contract: non-zero code => unchanged, code 0 => finite and P+ <= P.            *)
   \/ q \in BaseAtt /\ \E W \in {"W0", "coupled", "tight"}, kind \in {"zero", "up", "down", "big", "tiny", "steep"}, b \in {<<0,0,0>>, <<7,-7,3>>} :
        tv' = [op |-> "magx", q |-> q, b |-> b, W |-> W, kind |-> kind, decl |-> <<1,0,1>>,
               ydir |-> CASE kind = "zero"  -> <<0, 0, 0>>
                          [] kind = "up"    -> RtVec(q, <<0, 0, -1>>)
                          [] kind = "down"  -> RtVec(q, <<0, 0, 1>>)
                          [] kind = "steep" -> RtVec(q, Bn(<<1,0,1>>, <<7,24,25>>))        \* inclination 73.7 deg
                          [] OTHER          -> RtVec(q, Bn(<<1,0,1>>, <<1,0,1>>)),
               yN |-> QNorm(q) * (IF kind = "steep" THEN 25 ELSE 1),
               sc |-> CASE kind = "big" -> 1000 [] kind = "tiny" -> 1 [] OTHER -> 100]          \* percent of the nominal 0.1
SpecC == InitC /\ [][NextC]_<<tv, dummy, dummy2>>

(* what TLC proves *)
MeasLaw == tv.op = "init" =>
    /\ M3Vec(QMat(tv.q), tv.gdir) = <<0, 0, -tv.N * tv.N>>                      \* R g_b = (0,0,-g): rotates with the truth
    /\ M3Vec(QMat(tv.q), tv.bb) = VScale(tv.N * tv.N, tv.bn)                    \* R B_b = B_n
    /\ NormSq(tv.bn) = (tv.decl[3] * tv.incl[3]) * (tv.decl[3] * tv.incl[3])    \* |B_n| = 1
PredLaw == tv.op = "predict" => QNorm(QMul(tv.q, tv.h)) = QNorm(tv.q) * QNorm(tv.h) /\ QNorm(tv.post) > 0
MagxLaw == tv.op = "magx" /\ tv.kind \in {"up", "down"} =>            \* R y_b is vertical: no horizontal component in the nav frame
             LET v == M3Vec(QMat(tv.q), tv.ydir) IN v[1] = 0 /\ v[2] = 0 /\ v[3] # 0
AccLaw  == tv.op = "accel" /\ tv.yN < 40000 => NormSq(tv.ydir) = tv.yN * tv.yN                    \* |ydir| = 1 (over yN)
=============================================================================
