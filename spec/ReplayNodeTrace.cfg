SPECIFICATION TraceSpec
CONSTANTS
  Tier = "none"
INVARIANTS Consumed TypeOKT MergedIsStableSortT TimeMonotoneT OnlyHandledOnceT AllPublishedAtEndT PublishedAtStampOffsetT FirstHandledFirstT OutputOrderT PerTopicOrderT EqualStampsKeepListOrderT NoOvertakingT BusMappingT EndTimeT
CHECK_DEADLOCK FALSE
