SPECIFICATION Spec
CONSTANTS
  FMs = {8}
  Geos <- GeosQuick
  K = 6
  TPad = 3
INVARIANT Refinement
INVARIANT Sound
INVARIANT RangeLimited
CHECK_DEADLOCK FALSE
