SPECIFICATION SpecE
CONSTANT Tier = "thorough"
INVARIANTS VLawsOK SubgroupSE3 SubgroupSO3 PrincipalOK SE2LawOK HomC
CHECK_DEADLOCK FALSE
