SPECIFICATION SpecE
CONSTANT Tier = "thorough"
INVARIANTS VLawsOK SubgroupSE3 SubgroupSO3 PrincipalOK SE2LawOK
CHECK_DEADLOCK FALSE
