------------------------------ MODULE UrosBusMC ------------------------------
(* model-checking instances of UrosBus: constant definitions that a cfg cannot express *)
EXTENDS UrosBus

NoProcs == {}
Procs1 == {"p1"}
Procs2 == {"p1", "p2"}
PTopA(p) == IF p = "p1" THEN {"a"} ELSE {"b"}
PTopAll(p) == Topics
PParNone(p) == {}
PParLdt(p) == IF p = "p2" THEN {"ldt"} ELSE {}
PParAll(p) == IF p = "p1" THEN {"ldt"} ELSE {}
Delay2(p) == IF p = "p1" THEN {2} ELSE {0, 3}
Delay12(p) == IF p = "p1" THEN {1, 2} ELSE {0, 2}
Off0(p) == IF p = "p1" THEN 0 ELSE 1
OffZero(p) == 0
=============================================================================
