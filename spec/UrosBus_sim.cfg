SPECIFICATION Spec
CONSTANTS
  NS = 4
  Topics = {"a", "b", "c"}
  UserTypes = {"A", "B"}
  BadTypes = {"X"}
  ParamNames = {"p1", "p2"}
  Vals = {1, 2, 3}
  LdtVals = {125, 250, 640}
  LDT0 = 640
  Procs <- NoProcs
  ProcTopics <- PTopAll
  ProcParams <- PParNone
  FreeNodes = FALSE
  Delays <- Delay2
  Offsets <- OffZero
  MaxPub = 14
  Horizon = 4000
  Budgets = {1, 2}
  Kinds = {"sink", "relay", "follower"}
  Acyclic = FALSE
  DueFirst = TRUE
  PostRunSetup = TRUE
  Phased = FALSE
  DefVals = {1, 2}
  Sparse = TRUE
INVARIANTS ExactlyOnce NoStrangers InOrderUnlessReentrant StackOK ParamsSeen ParamsSeenRunning RowsOK
PROPERTIES TimeOK Rejected WrongType LockRespected
CHECK_DEADLOCK FALSE
