SPECIFICATION Spec
CONSTANT Tier = "quick"
INVARIANTS NormalForm LawFmod LawRem LawMinMax LawArith LawPow LawSqrt LawCmp LawIte LawCall LawMat
CHECK_DEADLOCK FALSE
