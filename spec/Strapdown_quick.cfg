SPECIFICATION SpecT
CONSTANT Tier = "quick"
INVARIANTS OdeLaws Semigroup NormMult
CHECK_DEADLOCK FALSE
