SPECIFICATION Spec
CONSTANTS
  Times <- TimesB
  DtMins <- DtMinsB
  DtMin0 = 5000
  StartInit = {TRUE, FALSE}
INVARIANTS PredictPositive AccelOnlyAfterPredict AccelRate MagRate Aux NoUninitWork NoTie
CHECK_DEADLOCK FALSE
