SPECIFICATION SpecS
CONSTANT Tier = "thorough"
INVARIANTS SmallLaws Poly2 KernelSE3 KernelSE23
CHECK_DEADLOCK FALSE
