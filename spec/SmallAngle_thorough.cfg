SPECIFICATION SpecS
CONSTANT Tier = "thorough"
INVARIANTS SmallLaws Poly2 OnSwitch KernelSE3 KernelSE23
CHECK_DEADLOCK FALSE
