---------------------------- MODULE DeriveHistory ----------------------------
(* Derivation histories of the model / estimator equations (shared by C08, C11, C13..C16, C18).

   The exported CasADi functions are DERIVED by calling python functions (derive_*(), algorithms.eqs(),
   quadrotor.derive_model()).  A program may derive them in any order and more than once (code generation,
   a launcher and a notebook all do).  Abstractly a derived function is determined by its name alone:

        Sem(step) == step.fn            (the function a derivation returns does not depend on the history)

   A history is a sequence of module derivations in one fresh interpreter; after the last one every exported
   function of every derivation is evaluated at fixed inputs.  A configuration is an order of the modules plus
   the module that is derived a second time at the end.  TLC enumerates the configurations, checks the
   (trivial) abstract law and that the set covers both orders of every pair of modules and a repeated
   derivation of every module.  harness/history.py (run_models) executes them and reports a function whose
   values differ between two derivations or two histories.                                              *)
EXTENDS Naturals, Sequences, FiniteSets, TLC
CONSTANT Tier
VARIABLES cfg, pos, step

Modules == << "rdd2", "rdd2_loglinear", "bezier", "mr_ref_traj", "quadrotor", "estimator" >>
NMod == Len(Modules)
Rot(n, r, rev) == [i \in 1..n |-> LET j == ((i - 1 + r) % n) + 1 IN IF rev THEN n + 1 - j ELSE j]
Cfg(r, rev, again) == [rot |-> r, rev |-> rev, again |-> again]
QuickCfgs == { Cfg(0, FALSE, 6), Cfg(0, TRUE, 1), Cfg(2, FALSE, 3), Cfg(4, TRUE, 5), Cfg(3, FALSE, 2), Cfg(1, TRUE, 4) }
Cfgs == IF Tier = "quick" THEN QuickCfgs ELSE { Cfg(r, v, a) : r \in 0..(NMod - 1), v \in BOOLEAN, a \in 1..NMod }
Order(c) == [k \in 1..NMod |-> Rot(NMod, c.rot, c.rev)[k]] \o << c.again >>          \* NMod + 1 derivations
StepAt(c, p) == [module |-> Modules[Order(c)[p]], nth |-> IF p = NMod + 1 THEN 2 ELSE 1]
Sem(st) == st.module

NoStep == [module |-> "none", nth |-> 0]
Init == cfg \in Cfgs /\ pos = 0 /\ step = NoStep
Next == pos < NMod + 1 /\ pos' = pos + 1 /\ step' = StepAt(cfg, pos + 1) /\ UNCHANGED cfg
Spec == Init /\ [][Next]_<<cfg, pos, step>>

SameEverywhere == pos >= 1 => \A c2 \in Cfgs : \A p \in 1..(NMod + 1) :
                     StepAt(c2, p).module = step.module => Sem(StepAt(c2, p)) = Sem(step)
IndexOf(seq, x) == CHOOSE i \in 1..Len(seq) : seq[i] = x
First(c) == [k \in 1..NMod |-> Order(c)[k]]
ASSUME \A a, b \in 1..NMod : a # b => \E c \in Cfgs : IndexOf(First(c), a) < IndexOf(First(c), b)    \* both orders of every pair
ASSUME \A a \in 1..NMod : \E c \in Cfgs : c.again = a                                               \* every module derived twice
=============================================================================
