------------------------------ MODULE Strapdown ------------------------------
(* C08 -- strapdown INS propagation on SE_2(3): exact flow of
        p' = v,   v' = R a - g e3,   R' = R [w]x        (a, w constant in the body frame).

   One "tick" has unit duration; the rotation per tick is the half-angle element h = (w, v)
   of ExpLog (phi = nu*v, theta = 2 atan2(sigma, w)).  With H = [v]x, n = |v|^2, N = w^2 + n,
   mu = 1/(theta sigma):
        S1 = int_0^1 R(s) ds        = V0 + mu V1                      (ExpLog)
        S2 = int_0^1 S1(s) ds       = A0 + mu A1 + mu^2 A2,
             2n A0 = n I + H^2,   A1 = H,   N A2 = -2n (w H + H^2)
   and the flow is   R1 = R0 exp(phi),  v1 = v0 + R0 S1 a - g e3,  p1 = p0 + v0 + R0 S2 a - g/2 e3.
   Vectors are polynomials (c0 + mu c1 + mu^2 c2)/d with integer coefficient vectors: the state
   space is closed under ticks with the same h.  TLC proves
     * the ODE characterisation  S2 [phi]x = S1 - I  and  S2 phi = phi/2  in component form
       (A0 H = 0, A1 H = n (V0 - I), A2 H = n V1, A0 v = v/2, A1 v = A2 v = 0), which together
       with ExpLog!VLaws makes (S1, S2) THE solution, not just a formula;
     * the SEMIGROUP law on the spec itself: two unit ticks = one tick of duration 2 computed
       with the squared quaternion h^2 (sigma2 = 2 w sigma, theta2 = 2 theta => mu2 = mu/(4w)),
       as an identity of polynomials in mu;
     * quaternion norm multiplicativity along every behaviour.                            *)
EXTENDS Jacobians

(* ---- polynomial vectors (c0 + mu c1 + mu^2 c2)/d ---------------------------------- *)
PV(c0, c1, c2, d) == [c |-> <<c0, c1, c2>>, d |-> d]
Zero3 == <<0, 0, 0>>
GcdV3(u) == Gcd(Gcd(u[1], u[2]), u[3])
PNorm(P) == LET g == Gcd(Gcd(Gcd(GcdV3(P.c[1]), GcdV3(P.c[2])), GcdV3(P.c[3])), P.d) IN
            IF g <= 1 THEN P ELSE PV(VDiv(P.c[1], g), VDiv(P.c[2], g), VDiv(P.c[3], g), P.d \div g)
PAdd(P, Q) == LET g == Gcd(P.d, Q.d) a == Q.d \div g b == P.d \div g IN
              PNorm(PV(VAdd(VScale(a, P.c[1]), VScale(b, Q.c[1])), VAdd(VScale(a, P.c[2]), VScale(b, Q.c[2])),
                       VAdd(VScale(a, P.c[3]), VScale(b, Q.c[3])), a * P.d))
PMat(M, den, P) == PNorm(PV(M3Vec(M, P.c[1]), M3Vec(M, P.c[2]), M3Vec(M, P.c[3]), den * P.d))   \* (M/den) P
PInt(u, den) == PNorm(PV(u, Zero3, Zero3, den))
PScale(num, den, P) == PNorm(PV(VScale(num, P.c[1]), VScale(num, P.c[2]), VScale(num, P.c[3]), den * P.d))

(* ---- S1 a and S2 a for duration T in {1, 2} with rotation element hh and mu-scale 1/ms --- *)
wHpH2(h) == MAdd(MScale(h[1], Hv(h)), Hv2(h))
S1a(hh, ms, a) == IF nOf(hh) = 0 THEN PInt(a, 1) ELSE
    LET n == nOf(hh) N == QNorm(hh) IN
    PNorm(PV(VScale(N * ms, M3Vec(nV0(hh), a)), VScale(n, M3Vec(NV1(hh), a)), Zero3, n * N * ms))
S2a(hh, ms, a) == IF nOf(hh) = 0 THEN PInt(a, 2) ELSE
    LET n == nOf(hh) N == QNorm(hh) IN
    PNorm(PV(VScale(N * ms * ms, M3Vec(nV0(hh), a)), VScale(2 * n * N * ms, M3Vec(Hv(hh), a)),
             VScale(-4 * n * n, M3Vec(wHpH2(hh), a)), 2 * n * N * ms * ms))

S2Laws(h) == LET n == nOf(h) N == QNorm(h) v == QV(h) IN
   /\ M3Mul(nV0(h), Hv(h)) = Z3                                            \* A0 H = 0
   /\ Hv2(h) = MSub(nV0(h), MScale(n, I3))                                 \* A1 H = n (V0 - I)
   /\ MScale(-2, M3Mul(wHpH2(h), Hv(h))) = NV1(h)                          \* A2 H = n V1   (times N/n)
   /\ M3Vec(nV0(h), v) = VScale(n, v) /\ M3Vec(Hv(h), v) = Zero3 /\ M3Vec(wHpH2(h), v) = Zero3

(* ---- INS state and steps ----------------------------------------------------------- *)
St(p, v, q) == [p |-> p, v |-> v, q |-> q]
E3P(num, den) == PInt(<<0, 0, num>>, den)
(* duration T (1 or 2), rotation element hh for the whole step, mu-scale ms *)
Step(s, T, hh, ms, a, g) ==
    LET R0 == QMat(s.q) N0 == QNorm(s.q) IN
    St(PAdd(PAdd(PAdd(s.p, PScale(T, 1, s.v)), PMat(R0, N0, PScale(T * T, 1, S2a(hh, ms, a)))), E3P(-g * T * T, 2)),
       PAdd(PAdd(s.v, PMat(R0, N0, PScale(T, 1, S1a(hh, ms, a)))), E3P(-g * T, 1)),
       QRed(QMul(s.q, hh)))
Tick(s, h, a, g)   == Step(s, 1, h, 1, a, g)
Tick2(s, h, a, g)  == Step(s, 2, QMul(h, h), 4 * h[1], a, g)     \* needs w > 0 (2 theta < 2 pi)

(* ---- lattices ---------------------------------------------------------------------- *)
HTick  == { <<1,1,0,0>>, <<2,1,0,-1>>, <<1,1,1,1>>, <<3,0,0,1>>, <<2,-1,1,0>>, <<1,0,0,0>>, <<0,1,0,0>>, <<-1,0,1,1>>, <<-2,1,0,0>> }
HTickS == HTick \cup { QOf(m, v) : m \in {8, 31, 32, 63, 64}, v \in {<<1,0,0>>, <<1,2,2>>} } \cup { <<2000,1,0,0>>, <<1999,0,0,1>> }
As     == { <<0,0,0>>, <<1,0,0>>, <<0,0,10>>, <<1,-2,3>>, <<0,3,-1>> }
Gs     == { 0, 10 }
X0s    == { St(PInt(<<0,0,0>>, 1), PInt(<<0,0,0>>, 1), <<1,0,0,0>>),
            St(PInt(<<1,-2,3>>, 1), PInt(<<2,0,-1>>, 1), <<1,1,0,0>>),
            St(PInt(<<0,5,0>>, 2), PInt(<<-1,1,1>>, 2), <<-1,0,1,1>>),
            St(PInt(<<3,0,0>>, 1), PInt(<<0,0,0>>, 1), <<2,1,2,-2>>) }
MaxDepth == IF Thorough THEN 3 ELSE 2

(* LONG sequences ("for all sequences of steps with piecewise-constant inputs", "keeps unit norm"): a schedule is a list of
   segments [rate w/wd rad/s, specific force a, gravity g, n steps] run with one step size dt, the output of every step fed
   back as the next initial state.  By Semigroup (checked above on the lattice) n steps of dt with constant inputs are ONE
   step of n dt, so the expectation after each segment is the exact flow over the segment's duration -- which the harness
   evaluates as the matrix exponential of the augmented system (the property's own definition); composing hundreds of
   rational steps does not fit 32 bits.  What a per-step check cannot see shows here: an error of 1e-16 per step that
   GROWS with the number of steps (norm drift fed back, accumulated rounding of a re-normalisation). *)
LongSegs == << [w |-> <<1,-2,2>>, wd |-> 10, a |-> <<1,-2,3>>, g |-> 10, n |-> 200],
               [w |-> <<0,0,0>>,  wd |-> 1,  a |-> <<0,3,-1>>, g |-> 10, n |-> 100],
               [w |-> <<-3,1,2>>, wd |-> 2,  a |-> <<0,0,10>>, g |-> 0,  n |-> 300],
               [w |-> <<0,0,40>>, wd |-> 1,  a |-> <<1,0,0>>,  g |-> 10, n |-> 200] >>
LongDts  == IF Thorough THEN { <<1,200>>, <<1,100>>, <<1,1000>>, <<1,20>> } ELSE { <<1,200>>, <<1,20>> }
ASSUME \A i \in DOMAIN LongSegs : LongSegs[i].n > 50 /\ LongSegs[i].wd > 0

InitT == /\ dummy = 0
         /\ \/ \E dt \in LongDts, s \in X0s : tv = [op |-> "long", dt |-> dt, segs |-> LongSegs, pre |-> s, depth |-> 0, cell |-> "long"]
            \/ \E h \in HTickS, s \in X0s : (h \in HTick \/ s.q \in {<<1,0,0,0>>, <<1,1,0,0>>}) /\
               tv = [op |-> "start", h |-> h, post |-> s, depth |-> 0]
NextT == UNCHANGED dummy /\ tv.op \in {"start", "tick"} /\ tv.depth < MaxDepth /\
    (tv.h \in HTick \/ tv.depth = 0) /\
    \/ \E a \in As, g \in Gs :
         tv' = [op |-> "tick", h |-> tv.h, a |-> a, g |-> g, pre |-> tv.post, post |-> Tick(tv.post, tv.h, a, g),
                depth |-> tv.depth + 1, cell |-> HCell(tv.h)]
    \/ /\ tv.h[1] > 0 /\ tv.h \in HTick /\ tv.depth <= 1
       /\ \E a \in As, g \in Gs :
         tv' = [op |-> "double", h |-> tv.h, a |-> a, g |-> g, pre |-> tv.post, post |-> Tick2(tv.post, tv.h, a, g),
                depth |-> tv.depth + 2, cell |-> HCell(tv.h)]
SpecT == InitT /\ [][NextT]_<<tv, dummy>>

(* ---- what TLC proves ---------------------------------------------------------------- *)
OdeLaws   == tv.op = "tick" /\ nOf(tv.h) # 0 /\ QNorm(tv.h) <= 2000 => S2Laws(tv.h) /\ VLaws(tv.h)
Semigroup == tv.op = "double" => Tick(Tick(tv.pre, tv.h, tv.a, tv.g), tv.h, tv.a, tv.g) = tv.post
NormMult  == tv.op \in {"tick", "double"} /\ QNorm(tv.post.q) < 200 => Proper(tv.post.q)
=============================================================================
