------------------------------ MODULE Quadrotor ------------------------------
(* C16 -- rigid-body physics of the quadrotor model, in EXACT arithmetic.

   The state derivative is written from the property's sentence (Newton / Euler for a rigid
   body carrying four rotors), not from the code:

     world frame z up, body frame z along the thrust;  R = rotation body -> world
     p'  = R v                               v = velocity of the body, body coordinates
     v'  = F/m - w x v + R^T (0,0,-g)        F = sum_i T_i e3          (T_i = C_T Omega_i^2)
     q'  = 1/2 q (x) (0, w)
     J w' = M - w x J w                      M = sum_i ( r_i x T_i e3  -  dir_i C_M T_i e3 )
     Omega_i' = (cmd_i - Omega_i)/tau        tau = tau_up if cmd_i > Omega_i else tau_down
     accelerometer = F/m (specific force),   r_i = l_i (cos a_i, sin a_i, 0)

   Exactness.  Attitudes are signed integer quaternions Q (module Rot) whose norm N = s^2 is
   a perfect square: the UNIT quaternion q = Q/s and R = QMat(Q)/N are rational.  All other
   state entries and parameters are integers or reduced rationals <<n, d>> (d > 0).
   Arm directions are (c, s)/h with c^2 + s^2 = h^2 (Pythagorean), or -- for the shipped
   +-pi/4, +-3pi/4 frame -- (c, s) sqrt2/h with 2 (c^2 + s^2) = h^2 (flag r2): every number
   of the derivative then lies in Q(sqrt2) and is linear in the arm vectors, so the spec
   carries w' as a pair (wd, wd2) meaning wd + sqrt2 * wd2; only the harness evaluates sqrt2.
   Units.  Rotor speeds are counted in a per-parameter-set speed unit U (the harness embeds
   Omega = om * U, C_T = ct / U^2), chosen such that the hover speed is an integer.

   tv is the engine-A test vector: parameter set, state x, command, exact derivative xd,
   the image g.x of x under one world symmetry g = (yaw rotation G, horizontal shift t).     *)
EXTENDS Rot, TLC
CONSTANT Tier
VARIABLE tv

Thorough == Tier = "thorough"

(* ---------------------------------------------------------------- rationals <<n, d>>   *)
RN(n, d)   == LET g == Gcd(n, d) IN IF d < 0 THEN << (-n) \div g, (-d) \div g >> ELSE << n \div g, d \div g >>
RZ         == <<0, 1>>
RI(k)      == <<k, 1>>
RNeg(a)    == << -a[1], a[2] >>
RAdd(a, b) == LET g == Gcd(a[2], b[2]) IN
              RN(a[1] * (b[2] \div g) + b[1] * (a[2] \div g), (a[2] \div g) * b[2])
RSub(a, b) == RAdd(a, RNeg(b))
RMul(a, b) == LET g1 == Gcd(a[1], b[2])  g2 == Gcd(b[1], a[2]) IN
              RN((a[1] \div g1) * (b[1] \div g2), (a[2] \div g2) * (b[2] \div g1))
RInv(a)    == IF a[1] < 0 THEN << -a[2], -a[1] >> ELSE << a[2], a[1] >>          \* a # 0
RDiv(a, b) == RMul(a, RInv(b))
RSc(k, a)  == RMul(<<k, 1>>, a)                                                  \* integer * rational
RPos(a)    == a[1] > 0
RSum4(a, b, c, d) == RAdd(RAdd(a, b), RAdd(c, d))
(* 3-vectors of rationals *)
RZ3           == << RZ, RZ, RZ >>
RE3           == << RZ, RZ, RI(1) >>                                             \* body / world z axis
IV(v)         == << RI(v[1]), RI(v[2]), RI(v[3]) >>
RVAdd(u, v)   == << RAdd(u[1], v[1]), RAdd(u[2], v[2]), RAdd(u[3], v[3]) >>
RVSub(u, v)   == << RSub(u[1], v[1]), RSub(u[2], v[2]), RSub(u[3], v[3]) >>
RVSc(r, u)    == << RMul(r, u[1]), RMul(r, u[2]), RMul(r, u[3]) >>               \* rational * vector
RVDot(u, v)   == RAdd(RAdd(RMul(u[1], v[1]), RMul(u[2], v[2])), RMul(u[3], v[3]))
RVCross(u, v) == << RSub(RMul(u[2], v[3]), RMul(u[3], v[2])),
                    RSub(RMul(u[3], v[1]), RMul(u[1], v[3])),
                    RSub(RMul(u[1], v[2]), RMul(u[2], v[1])) >>
RVSum4(a, b, c, d) == RVAdd(RVAdd(a, b), RVAdd(c, d))
IMV(A, u)     == << RAdd(RAdd(RSc(A[1][1], u[1]), RSc(A[1][2], u[2])), RSc(A[1][3], u[3])),   \* integer 3x3 * vector
                    RAdd(RAdd(RSc(A[2][1], u[1]), RSc(A[2][2], u[2])), RSc(A[2][3], u[3])),
                    RAdd(RAdd(RSc(A[3][1], u[1]), RSc(A[3][2], u[2])), RSc(A[3][3], u[3])) >>
(* integer quaternion (x) rational quaternion: the matrix of p |-> G p read off the basis *)
QB(j)         == [k \in 1..4 |-> IF k = j THEN 1 ELSE 0]
QLeft(G)      == LET c1 == QMul(G, QB(1)) c2 == QMul(G, QB(2)) c3 == QMul(G, QB(3)) c4 == QMul(G, QB(4)) IN
                 << <<c1[1], c2[1], c3[1], c4[1]>>, <<c1[2], c2[2], c3[2], c4[2]>>,
                    <<c1[3], c2[3], c3[3], c4[3]>>, <<c1[4], c2[4], c3[4], c4[4]>> >>
IQMul(G, r)   == LET L == QLeft(G)
                     row(i) == RSum4(RSc(L[i][1], r[1]), RSc(L[i][2], r[2]), RSc(L[i][3], r[3]), RSc(L[i][4], r[4]))
                 IN << row(1), row(2), row(3), row(4) >>
IsSq(n)       == \E s \in 1..13 : s * s = n
ISqrt(n)      == CHOOSE s \in 1..13 : s * s = n

(* ---------------------------------------------------------------- parameter sets
   arm[i] = [c, s, h, r2]: direction (c, s)/h, times sqrt2 when r2.  hover = integer speed
   (in units U) at which each rotor carries a quarter of the weight.  unit = U (0: the harness
   derives U from the shipped C_T).  S, rho are passed to the code only (no aerodynamic term
   belongs to the property; the drag / damping coefficients are zero in every set).          *)
Arm(c, s, h, r2) == [c |-> c, s |-> s, h |-> h, r2 |-> r2]
PDefault == [name |-> "default", tau_up |-> <<1,80>>, tau_down |-> <<1,40>>, dir |-> <<1, 1, -1, -1>>,
             l |-> << <<1,4>>, <<1,4>>, <<1,4>>, <<1,4>> >>,
             arm |-> << Arm(1,-1,2,TRUE), Arm(-1,1,2,TRUE), Arm(1,1,2,TRUE), Arm(-1,-1,2,TRUE) >>,
             ct |-> <<1,10>>, unit |-> 0, cm |-> <<2,125>>, g |-> <<49,5>>, m |-> <<2,1>>,
             J |-> << <<13,600>>, <<13,600>>, <<1,25>> >>, hover |-> 7, S |-> <<1,10>>, rho |-> <<49,40>>]
PWide    == [name |-> "wide", tau_up |-> <<1,50>>, tau_down |-> <<1,20>>, dir |-> <<-1, -1, 1, 1>>,
             l |-> << <<3,10>>, <<3,10>>, <<3,10>>, <<3,10>> >>,
             arm |-> << Arm(4,-3,5,FALSE), Arm(-4,3,5,FALSE), Arm(4,3,5,FALSE), Arm(-4,-3,5,FALSE) >>,
             ct |-> <<3,160>>, unit |-> 64, cm |-> <<1,20>>, g |-> <<49,5>>, m |-> <<3,2>>,
             J |-> << <<1,50>>, <<3,100>>, <<9,200>> >>, hover |-> 14, S |-> <<1,5>>, rho |-> <<1,1>>]
PPlus    == [name |-> "plus", tau_up |-> <<1,10>>, tau_down |-> <<1,25>>, dir |-> <<1, 1, -1, -1>>,
             l |-> << <<1,2>>, <<1,2>>, <<1,2>>, <<1,2>> >>,
             arm |-> << Arm(1,0,1,FALSE), Arm(-1,0,1,FALSE), Arm(0,1,1,FALSE), Arm(0,-1,1,FALSE) >>,
             ct |-> <<2,5>>, unit |-> 100, cm |-> <<1,8>>, g |-> <<10,1>>, m |-> <<4,1>>,
             J |-> << <<1,8>>, <<3,16>>, <<1,4>> >>, hover |-> 5, S |-> <<0,1>>, rho |-> <<5,4>>]
PSkew    == [name |-> "skew", tau_up |-> <<1,16>>, tau_down |-> <<1,64>>, dir |-> <<1, -1, -1, -1>>,
             l |-> << <<1,4>>, <<1,2>>, <<1,8>>, <<3,8>> >>,
             arm |-> << Arm(1,0,1,FALSE), Arm(0,1,1,FALSE), Arm(-3,4,5,FALSE), Arm(5,-12,13,FALSE) >>,
             ct |-> <<1,8>>, unit |-> 32, cm |-> <<1,4>>, g |-> <<8,1>>, m |-> <<1,1>>,
             J |-> << <<1,16>>, <<1,10>>, <<1,8>> >>, hover |-> 4, S |-> <<1,4>>, rho |-> <<1,2>>]
PMixed   == [name |-> "mixed", tau_up |-> <<1,32>>, tau_down |-> <<1,32>>, dir |-> <<-1, 1, 1, -1>>,
             l |-> << <<1,4>>, <<1,5>>, <<1,2>>, <<1,4>> >>,
             arm |-> << Arm(1,1,2,TRUE), Arm(-1,0,1,FALSE), Arm(0,-1,1,FALSE), Arm(-1,-1,2,TRUE) >>,
             ct |-> <<1,4>>, unit |-> 200, cm |-> <<3,100>>, g |-> <<49,5>>, m |-> <<5,1>>,
             J |-> << <<1,20>>, <<2,25>>, <<1,10>> >>, hover |-> 7, S |-> <<1,10>>, rho |-> <<49,40>>]
PPairs   == [name |-> "pairs", tau_up |-> <<1,100>>, tau_down |-> <<3,100>>, dir |-> <<1, -1, 1, -1>>,
             l |-> << <<1,4>>, <<1,2>>, <<1,4>>, <<1,2>> >>,
             arm |-> << Arm(3,4,5,FALSE), Arm(-12,5,13,FALSE), Arm(-3,-4,5,FALSE), Arm(12,-5,13,FALSE) >>,
             ct |-> <<1,16>>, unit |-> 50, cm |-> <<1,50>>, g |-> <<9,1>>, m |-> <<1,1>>,
             J |-> << <<1,100>>, <<1,50>>, <<1,40>> >>, hover |-> 6, S |-> <<1,10>>, rho |-> <<1,1>>]
Params == IF Thorough THEN {PDefault, PWide, PPlus, PSkew, PMixed, PPairs} ELSE {PDefault, PWide, PPlus, PSkew}
Par(n) == CHOOSE P \in {PDefault, PWide, PPlus, PSkew, PMixed, PPairs} : P.name = n

(* symmetric frame: invariant under the half turn about body z (each rotor has a partner at
   the opposite arm position with the same spin direction) and as many CW as CCW rotors      *)
Opp(P, i, j)  == /\ P.l[i] = P.l[j] /\ P.dir[i] = P.dir[j] /\ P.arm[i].h = P.arm[j].h /\ P.arm[i].r2 = P.arm[j].r2
                 /\ P.arm[i].c = -P.arm[j].c /\ P.arm[i].s = -P.arm[j].s
Symmetric(P)  == /\ P.dir[1] + P.dir[2] + P.dir[3] + P.dir[4] = 0
                 /\ \/ (Opp(P, 1, 2) /\ Opp(P, 3, 4))
                    \/ (Opp(P, 1, 3) /\ Opp(P, 2, 4))
                    \/ (Opp(P, 1, 4) /\ Opp(P, 2, 3))
ParamOK(P)    == /\ \A i \in 1..4 : LET a == P.arm[i] IN
                       /\ a.h > 0 /\ (IF a.r2 THEN 2 * (a.c*a.c + a.s*a.s) ELSE a.c*a.c + a.s*a.s) = a.h * a.h   \* unit direction
                       /\ RPos(P.l[i]) /\ P.dir[i] \in {-1, 1}
                 /\ RPos(P.tau_up) /\ RPos(P.tau_down) /\ RPos(P.ct) /\ RPos(P.cm) /\ RPos(P.g) /\ RPos(P.m)
                 /\ \A k \in 1..3 : RPos(P.J[k])
                 /\ RPos(RSub(RAdd(P.J[1], P.J[2]), P.J[3])) /\ RPos(RSub(RAdd(P.J[2], P.J[3]), P.J[1]))         \* a physical inertia
                 /\ RPos(RSub(RAdd(P.J[1], P.J[3]), P.J[2]))
                 /\ RSc(4 * P.hover * P.hover, P.ct) = RMul(P.m, P.g)                 \* hover: 4 C_T Omega_h^2 = m g

(* ---------------------------------------------------------------- forces and moments
   x = [p, v, Q, s, w, om, cmd]: p rational 3-vector; v, w integer 3-vectors; Q integer
   quaternion with s*s = |Q|^2; om, cmd integer 4-vectors (speed units)                      *)
Thrust(P, x, i)     == RSc(x.om[i] * x.om[i], P.ct)
ArmPos(P, i)        == LET a == P.arm[i] IN RVSc(RMul(P.l[i], <<1, a.h>>), << RI(a.c), RI(a.s), RZ >>)   \* (times sqrt2 if r2)
RotorForce(P, x, i) == RVSc(Thrust(P, x, i), RE3)                                      \* thrust along body z
ArmMoment(P, x, i)  == RVCross(ArmPos(P, i), RotorForce(P, x, i))                      \* r_i x F_i
Reaction(P, x, i)   == RVSc(RNeg(RSc(P.dir[i], RMul(P.cm, Thrust(P, x, i)))), RE3)     \* opposite to the spin
Pick(b, u)          == IF b THEN u ELSE RZ3
Force(P, x)         == RVSum4(RotorForce(P, x, 1), RotorForce(P, x, 2), RotorForce(P, x, 3), RotorForce(P, x, 4))
MomentRat(P, x)     == RVAdd(RVSum4(Pick(~P.arm[1].r2, ArmMoment(P, x, 1)), Pick(~P.arm[2].r2, ArmMoment(P, x, 2)),
                                    Pick(~P.arm[3].r2, ArmMoment(P, x, 3)), Pick(~P.arm[4].r2, ArmMoment(P, x, 4))),
                             RVSum4(Reaction(P, x, 1), Reaction(P, x, 2), Reaction(P, x, 3), Reaction(P, x, 4)))
MomentR2(P, x)      == RVSum4(Pick(P.arm[1].r2, ArmMoment(P, x, 1)), Pick(P.arm[2].r2, ArmMoment(P, x, 2)),
                              Pick(P.arm[3].r2, ArmMoment(P, x, 3)), Pick(P.arm[4].r2, ArmMoment(P, x, 4)))
JMul(P, u)          == << RMul(P.J[1], u[1]), RMul(P.J[2], u[2]), RMul(P.J[3], u[3]) >>  \* principal-axis inertia
JSolve(P, u)        == << RDiv(u[1], P.J[1]), RDiv(u[2], P.J[2]), RDiv(u[3], P.J[3]) >>
Gravity(P)          == << RZ, RZ, RNeg(P.g) >>                                           \* world frame, per unit mass
Tau(P, x, i)        == IF x.cmd[i] > x.om[i] THEN P.tau_up ELSE P.tau_down

Xdot(P, x) ==
    LET N    == x.s * x.s
        Rm   == QMat(x.Q)                                   \* N * R
        v    == IV(x.v)
        w    == IV(x.w)
        acc  == RVSc(RInv(P.m), Force(P, x))
        qn   == QMul(x.Q, <<0, x.w[1], x.w[2], x.w[3]>>)
    IN [pd  |-> RVSc(<<1, N>>, IMV(Rm, v)),
        vd  |-> RVAdd(RVSub(acc, RVCross(w, v)), RVSc(<<1, N>>, IMV(M3T(Rm), Gravity(P)))),
        qd  |-> << RN(qn[1], 2 * x.s), RN(qn[2], 2 * x.s), RN(qn[3], 2 * x.s), RN(qn[4], 2 * x.s) >>,
        wd  |-> JSolve(P, RVSub(MomentRat(P, x), RVCross(w, JMul(P, w)))),
        wd2 |-> JSolve(P, MomentR2(P, x)),
        md  |-> << RDiv(RI(x.cmd[1] - x.om[1]), Tau(P, x, 1)), RDiv(RI(x.cmd[2] - x.om[2]), Tau(P, x, 2)),
                   RDiv(RI(x.cmd[3] - x.om[3]), Tau(P, x, 3)), RDiv(RI(x.cmd[4] - x.om[4]), Tau(P, x, 4)) >>,
        acc |-> acc]

(* ---------------------------------------------------------------- world symmetries
   g = (G, sG, t): yaw by the rational rotation QMat(G)/sG^2 with G = (a,0,0,b), a^2+b^2 = sG^2,
   followed by the horizontal shift t.  Acts on the state (body-frame entries untouched) and
   linearly on the derivative.                                                             *)
ActX(g, x) == [x EXCEPT !.Q = QMul(g.G, x.Q), !.s = g.sG * x.s,
                        !.p = RVAdd(RVSc(<<1, g.sG * g.sG>>, IMV(QMat(g.G), x.p)), g.t)]
ActD(g, d) == [d EXCEPT !.pd = RVSc(<<1, g.sG * g.sG>>, IMV(QMat(g.G), d.pd)),
                        !.qd = LET r == IQMul(g.G, d.qd) IN
                               << RMul(<<1, g.sG>>, r[1]), RMul(<<1, g.sG>>, r[2]), RMul(<<1, g.sG>>, r[3]), RMul(<<1, g.sG>>, r[4]) >>]
Sym(G, sG, t) == [G |-> G, sG |-> sG, t |-> t]
Syms == << Sym(<<3,0,0,4>>, 5, << <<2,1>>, <<-3,1>>, RZ >>),
           Sym(<<0,0,0,1>>, 1, << <<-1,2>>, <<40,1>>, RZ >>),
           Sym(<<4,0,0,-3>>, 5, << <<-1,1>>, <<5,1>>, RZ >>),
           Sym(<<-12,0,0,5>>, 13, << <<7,1>>, <<7,4>>, RZ >>) >>
SymSet == { Syms[k] : k \in 1..4 }
Poss == << << <<3,2>>, <<-7,4>>, <<5,1>> >>,  << <<-20,1>>, <<11,1>>, <<1,1024>> >>,
           << <<100,1>>, <<250,1>>, <<40,1>> >>,  << <<0,1>>, <<0,1>>, <<1,1>> >> >>
(* quick: every attitude with symmetries/positions 1..3; thorough: one of the four, picked by the attitude *)
GIs(Q) == IF Thorough THEN { 1 + ((Q[1] + 2*Q[2] + 3*Q[3] + 4*Q[4] + 400) % 4) } ELSE 1..3

(* ---------------------------------------------------------------- lattice            *)
QuatsQuick == { <<1,0,0,0>>, <<-1,0,0,0>>, <<3,0,0,4>>, <<0,0,0,1>>, <<0,1,0,0>>, <<1,1,1,1>>, <<-1,1,-1,1>>,
                <<1,2,2,4>>, <<4,-2,1,2>>, <<2,3,6,0>>, <<0,-6,2,3>>, <<1,4,4,4>>, <<2,2,4,5>>, <<-5,4,-2,2>> }
QuatsBig      == { <<1,2,4,10>>, <<-10,4,-2,1>>, <<2,-1,10,4>>, <<6,6,7,0>>, <<4,4,7,0>>, <<0,-7,4,4>>, <<1,3,3,9>>, <<-5,12,0,0>> }
QuatsThorough == { q \in QLat(4) : Primitive(q) /\ IsSq(QNorm(q)) } \cup QuatsBig      \* 424 + 8 attitudes, s up to 13
Quats == IF Thorough THEN QuatsThorough ELSE QuatsQuick
Level(Q) == Q[2] = 0 /\ Q[3] = 0

VW == << << <<0,0,0>>, <<0,0,0>> >>,   << <<1,-2,3>>, <<0,0,0>> >>,  << <<0,0,0>>, <<2,-1,3>> >>,
         << <<-3,1,2>>, <<1,3,-2>> >>, << <<2,2,-1>>, <<0,0,-3>> >>, << <<0,-4,0>>, <<-1,2,2>> >> >>
Mot(P) == LET h == P.hover IN
    << << <<h,h,h,h>>, <<h,h,h,h>> >>,     \* 1 hover speeds, command held
       << <<0,0,0,0>>, <<0,0,0,0>> >>,     \* 2 rotors off
       << <<0,0,0,0>>, <<3,0,5,1>> >>,     \* 3 rotors off, spinning up
       << <<4,4,4,4>>, <<6,2,4,0>> >>,     \* 4 equal speeds; up / down / hold / down
       << <<3,0,0,0>>, <<0,1,0,0>> >>,     \* 5..8 one rotor at a time
       << <<0,5,0,0>>, <<9,9,9,9>> >>,
       << <<0,0,2,0>>, <<0,0,1,3>> >>,
       << <<0,0,0,6>>, <<1,0,0,6>> >>,
       << <<1,2,3,4>>, <<4,3,2,1>> >>,     \* 9.. general
       << <<7,3,8,2>>, <<7,4,6,2>> >>,
       << <<h,h,h,h>>, <<h+1,h-1,h,0>> >>,
       << <<2,9,4,6>>, <<0,0,0,0>> >>,
       << <<5,5,1,1>>, <<6,4,2,0>> >>,
       << <<6,1,6,1>>, <<1,6,1,6>> >>,
       << <<3,-2,5,-1>>, <<0,0,0,0>> >>,   \* 15, 16: "any rotor speeds" -- reversed rotors (thrust ~ w^2 keeps its direction), negative commands
       << <<-4,-4,-4,-4>>, <<-6,2,-4,0>> >> >>
(* scenarios <<index into VW, index into Mot>> *)
ScenQuick    == ((1..4) \X (1..10)) \cup ({2, 4} \X {15, 16})
ScenThorough == ({4} \X (1..16)) \cup ((1..6) \X {1, 2, 9}) \cup ({2, 3} \X {4, 12})
Scen == IF Thorough THEN ScenThorough ELSE ScenQuick

AllEq(o)  == o[1] = o[2] /\ o[2] = o[3] /\ o[3] = o[4]
Off(o)    == o = <<0,0,0,0>>
NonZero(o) == (IF o[1] # 0 THEN 1 ELSE 0) + (IF o[2] # 0 THEN 1 ELSE 0) + (IF o[3] # 0 THEN 1 ELSE 0) + (IF o[4] # 0 THEN 1 ELSE 0)
IsHover(P, x) == /\ Level(x.Q) /\ x.v = <<0,0,0>> /\ x.w = <<0,0,0>>
                 /\ x.om = <<P.hover, P.hover, P.hover, P.hover>> /\ x.cmd = x.om
Cell(P, x) == IF IsHover(P, x) THEN "hover" ELSE IF Off(x.om) THEN "freefall" ELSE IF AllEq(x.om) THEN "equal"
              ELSE IF NonZero(x.om) = 1 THEN "single" ELSE "general"

Vec(P, Q, gi, vw, mo) ==
    LET x == [p |-> Poss[gi], v |-> vw[1], Q |-> Q, s |-> ISqrt(QNorm(Q)), w |-> vw[2], om |-> mo[1], cmd |-> mo[2]]
        gx == ActX(Syms[gi], x)
    IN [op |-> "f", pn |-> P.name, x |-> x, xd |-> Xdot(P, x), g |-> Syms[gi],
        gx |-> [Q |-> gx.Q, s |-> gx.s, p |-> gx.p], rz |-> QMat(Syms[gi].G),
        cell |-> Cell(P, x), lag |-> << Sgn(mo[2][1] - mo[1][1]), Sgn(mo[2][2] - mo[1][2]), Sgn(mo[2][3] - mo[1][3]), Sgn(mo[2][4] - mo[1][4]) >>,
        sym |-> Symmetric(P)]

(* two-level enumeration: seeds (parameter set, attitude, symmetry/position index), expanded
   by the workers over the (velocity, body rate) x (rotor speeds, commands) scenarios        *)
Init == \E P \in Params, Q \in Quats : \E gi \in GIs(Q) : tv = [op |-> "seed", par |-> P, Q |-> Q, gi |-> gi]
Next == /\ tv.op = "seed"
        /\ \E sc \in Scen : tv' = Vec(tv.par, tv.Q, tv.gi, VW[sc[1]], Mot(tv.par)[sc[2]])
Spec == Init /\ [][Next]_tv

(* ---------------------------------------------------------------- what TLC proves
   (tv.xd is the derivative the code is compared with; every law is evaluated on it)         *)
IsF  == tv.op = "f"
TP   == Par(tv.pn)
RDot4(a, b) == RSum4(RMul(a[1], b[1]), RMul(a[2], b[2]), RMul(a[3], b[3]), RMul(a[4], b[4]))
UnitQ(x)    == << RN(x.Q[1], x.s), RN(x.Q[2], x.s), RN(x.Q[3], x.s), RN(x.Q[4], x.s) >>

ParamsOK   == tv.op = "seed" => ParamOK(tv.par) /\ IsSq(QNorm(tv.Q))
(* q . q' = 0 for the unit quaternion q = Q/s *)
QuatNorm   == IsF => /\ tv.x.s * tv.x.s = QNorm(tv.x.Q)
                     /\ RDot4(UnitQ(tv.x), UnitQ(tv.x)) = RI(1)
                     /\ RDot4(UnitQ(tv.x), tv.xd.qd) = RZ
(* level hover with a quarter of the weight on each rotor: forces balance for every frame,
   moments for every symmetric frame                                                        *)
Hover      == IsF /\ tv.cell = "hover" =>
                 /\ tv.xd.pd = RZ3 /\ tv.xd.vd = RZ3 /\ tv.xd.qd = <<RZ, RZ, RZ, RZ>> /\ tv.xd.md = <<RZ, RZ, RZ, RZ>>
                 /\ \A i \in 1..4 : RSc(4, Thrust(TP, tv.x, i)) = RMul(TP.m, TP.g)
                 /\ tv.sym => tv.xd.wd = RZ3 /\ tv.xd.wd2 = RZ3
(* free fall (rotors off, ANY attitude, velocity, rate): the accelerometer reads zero, and the
   acceleration seen from the world frame is exactly (0, 0, -g)                             *)
WorldAcc(x, xd) == IMV(QMat(x.Q), RVAdd(xd.vd, RVCross(IV(x.w), IV(x.v))))     \* N * R (v' + w x v)
FreeFall   == IsF /\ Off(tv.x.om) =>
                 /\ tv.xd.acc = RZ3
                 /\ WorldAcc(tv.x, tv.xd) = RVSc(RI(tv.x.s * tv.x.s), Gravity(TP))
(* Newton in the world frame, any state:  m a_w = (sum T_i) R e3 + m (0,0,-g) *)
NewtonWorld == IsF => LET N == tv.x.s * tv.x.s
                          T == RSum4(Thrust(TP, tv.x, 1), Thrust(TP, tv.x, 2), Thrust(TP, tv.x, 3), Thrust(TP, tv.x, 4))
                      IN RVSc(TP.m, WorldAcc(tv.x, tv.xd)) =
                         RVAdd(RVSc(T, IMV(QMat(tv.x.Q), RE3)), RVSc(RMul(TP.m, RI(N)), Gravity(TP)))
(* Euler's equation and the power theorem: the gyroscopic term does no work *)
EulerLaw   == IsF => LET w == IV(tv.x.w) IN
                 /\ RVAdd(JMul(TP, tv.xd.wd), RVCross(w, JMul(TP, w))) = MomentRat(TP, tv.x)
                 /\ JMul(TP, tv.xd.wd2) = MomentR2(TP, tv.x)
                 /\ RVDot(w, JMul(TP, tv.xd.wd)) = RVDot(w, MomentRat(TP, tv.x))
(* one rotor running, body at rest: the angular acceleration lifts that rotor's arm tip ((J w') x r has a
   positive z component) and yaws the body against the rotor's spin                                    *)
Lever      == IsF /\ tv.cell = "single" /\ tv.x.w = <<0,0,0>> =>
                 \A i \in 1..4 : tv.x.om[i] # 0 =>
                    LET r  == ArmPos(TP, i)
                        Mh == IF TP.arm[i].r2 THEN JMul(TP, tv.xd.wd2) ELSE JMul(TP, tv.xd.wd)
                    IN /\ RPos(RSub(RMul(Mh[1], r[2]), RMul(Mh[2], r[1])))
                       /\ Sgn(JMul(TP, tv.xd.wd)[3][1]) = -TP.dir[i]
(* equal rotor speeds on a symmetric frame: no moment; with zero body rate no angular acceleration *)
ZeroMoment == IsF /\ tv.sym /\ AllEq(tv.x.om) =>
                 /\ MomentRat(TP, tv.x) = RZ3 /\ MomentR2(TP, tv.x) = RZ3
                 /\ tv.x.w = <<0,0,0>> => tv.xd.wd = RZ3 /\ tv.xd.wd2 = RZ3
(* f(g.x) = g.f(x) for every listed yaw rotation + horizontal shift (not only the one in tv.g) *)
Equivariant == IsF => \A g \in SymSet : Xdot(TP, ActX(g, tv.x)) = ActD(g, tv.xd)
GxOK        == IsF => LET y == ActX(tv.g, tv.x) IN
                 /\ tv.gx = [Q |-> y.Q, s |-> y.s, p |-> y.p] /\ y.s * y.s = QNorm(y.Q)
                 /\ y.p[3] = tv.x.p[3] /\ RPos(tv.x.p[3])                      \* height kept, above ground
                 /\ tv.g.G[2] = 0 /\ tv.g.G[3] = 0 /\ tv.g.t[3] = RZ /\ tv.g.sG * tv.g.sG = QNorm(tv.g.G)
(* motor lag: moves toward the command, magnitude (cmd - Omega)/tau with the time constant of the direction *)
MotorLaw   == IsF => \A i \in 1..4 :
                 LET e == tv.x.cmd[i] - tv.x.om[i]  d == tv.xd.md[i] IN
                 /\ Sgn(d[1]) = Sgn(e)
                 /\ e > 0 => RMul(d, TP.tau_up) = RI(e)
                 /\ e < 0 => RMul(d, TP.tau_down) = RI(e)
=============================================================================
