-------------------------- MODULE EstimatorNodeTrace --------------------------
(* Engine C for the estimator node: decision sequences recorded from the real
   AttitudeEstimator (through proxy equations) validated against EstimatorNode.
       line 1     {"a":"Header"}
       per trace  {"a":"Begin","tid":k,"n":N,"start":0|1}   start = constructed already initialised
       events     {"a":"imu","t":us,"ok":0|1,"init":n,"predict":n,"acc":n,"dt":us,"initialized":0|1,...}
                  {"a":"mag","t":us,"corr":n,...}     {"a":"params","dma":us,"dmm":us}
   At an exact tie of a rate limit both outcomes are accepted (see EstimatorNode).        *)
EXTENDS EstimatorNode, Json, IOUtils, FiniteSets, Sequences

VARIABLES tid, l, last
tvars == <<vars, tid, l, last>>

Lines  == ndJsonDeserialize(IOEnv.TRACE_FILE)
Begins == {k \in 1..Len(Lines) : Lines[k].a = "Begin"}
TrInt  == Int
TrBool == BOOLEAN

Step(e) ==
    CASE e.a = "params" -> OnParams(e.dma, e.dmm)
      [] e.a = "imu" -> \E tb \in BOOLEAN :
            /\ OnImu(e.t, e.ok = 1, tb)
            /\ dec'.predict = e.predict /\ dec'.acc = e.acc
            /\ (e.predict = 1 => dec'.dt = e.dt)
            /\ (dec'.d \in {"init-ok", "init-fail"}) <=> (e.init = 1)
            /\ initialized' = (e.initialized = 1)
            /\ e.pub = (IF e.predict = 1 THEN 2 ELSE 0)         \* attitude + status published iff predicted
      [] e.a = "mag" -> \E tb \in BOOLEAN : OnMag(e.t, tb) /\ dec'.corr = e.corr /\ e.other = 0
      [] OTHER -> FALSE

TraceInit == /\ \E k \in Begins : /\ tid = Lines[k].tid /\ l = k + 1 /\ last = k + Lines[k].n
                                  /\ initialized = (Lines[k].start = 1)
                                  /\ TLCSet(Lines[k].tid, k + 1)
             /\ has_imu = FALSE /\ has_mag = FALSE
             /\ tli = 0 /\ tla = 0 /\ tlm = 0
             /\ dma = DtMin0 /\ dmm = DtMin0
             /\ ca = FALSE /\ pa = 0 /\ cm = FALSE /\ pm = 0
             /\ dec = [a |-> "init"]
TraceNext == /\ l <= last
             /\ Step(Lines[l])
             /\ l' = l + 1 /\ UNCHANGED <<tid, last>>
TraceSpec == TraceInit /\ [][TraceNext]_tvars

Track == TLCSet(tid, IF TLCGet(tid) > l THEN TLCGet(tid) ELSE l)
Reached(k) == TLCGet(Lines[k].tid)
Accepted ==
    LET bad == {k \in Begins : Reached(k) # k + Lines[k].n + 1
                  /\ PrintT(<<"REJECT", Lines[k].tid, Reached(k) - k, Reached(k)>>)}
    IN Cardinality(bad) = 0
=============================================================================
