SPECIFICATION TraceSpec
CONSTANTS
  Cfgs <- TrNone
  Horizons <- TrNone
  ChangeTo <- TrNone
  MaxCh = 0
  TieBudget = 1000000
  ChangeBy = 0
INVARIANTS Consumed TypeOKT StampIsNow StateIsCurrent NoTimeLost Monotone Paired ImuRate MagRate ImuPeriodExact MagPeriodExact NeverFaster Counts LoopPeriod
CHECK_DEADLOCK FALSE
