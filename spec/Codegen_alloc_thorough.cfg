SPECIFICATION Spec
CONSTANTS
  FMs = {8}
  Geos <- GeosQuick
  K = 5
  TPad = 2
INVARIANT Refinement
INVARIANT Sound
CHECK_DEADLOCK FALSE
