SPECIFICATION Spec
CONSTANT Tier = "quick"
INVARIANTS ParamsOK QuatNorm Hover FreeFall NewtonWorld EulerLaw ZeroMoment Equivariant GxOK MotorLaw
CHECK_DEADLOCK FALSE
