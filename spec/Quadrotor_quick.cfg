SPECIFICATION Spec
CONSTANT Tier = "quick"
INVARIANTS ParamsOK QuatNorm Hover FreeFall NewtonWorld EulerLaw Lever ZeroMoment Equivariant GxOK MotorLaw
CHECK_DEADLOCK FALSE
