------------------------------- MODULE Adjoint -------------------------------
(* C04 -- Ad, ad and the bracket, defined through MATRIX conjugation and commutators.

   Algebra elements are integer parameter vectors in cyecca's parameter order:
     so2 <<th>>, se2 <<x,y,th>>, rn <<x..>>, so3 <<w1,w2,w3>>, se3 <<v(3), w(3)>>,
     se23 <<v_b(3) [-> column 5 = position], a_b(3) [-> column 4 = velocity], w(3)>>.
   AdByConj(X)[:,k] = Vee( Mat(X) E_k Mat(X)^-1 ),  adm(x)[:,k] = Vee( x^ E_k - E_k x^ ),
   Bracket(x,y) = Vee( x^ y^ - y^ x^ ).  TLC proves antisymmetry, Jacobi, ad_x y = [x,y],
   Ad homomorphism/inverse and the textbook closed forms against these definitions.       *)
EXTENDS LieCalc
Kind(X) == CASE X.g = "SO3" -> "so3" [] X.g = "SE3" -> "se3" [] X.g = "SE23" -> "se23"
             [] X.g = "SO2" -> "so2" [] X.g = "SE2" -> "se2" [] X.g = "Rn" -> "rn"
Dim(kind, n) == CASE kind = "so2" -> 1 [] kind = "se2" -> 3 [] kind = "so3" -> 3 [] kind = "se3" -> 6
                  [] kind = "se23" -> 9 [] kind = "rn" -> n

Wedge(kind, x) ==
  CASE kind = "so2"  -> << <<0, -x[1]>>, <<x[1], 0>> >>
    [] kind = "se2"  -> << <<0, -x[3], x[1]>>, <<x[3], 0, x[2]>>, <<0, 0, 0>> >>
    [] kind = "so3"  -> Hat(x)
    [] kind = "se3"  -> LET H == Hat(<<x[4], x[5], x[6]>>) IN
                        FM([i \in 1..4 |-> IF i <= 3 THEN H[i] \o <<x[i]>> ELSE <<0,0,0,0>>])
    [] kind = "se23" -> LET H == Hat(<<x[7], x[8], x[9]>>) IN
                        FM([i \in 1..5 |-> IF i <= 3 THEN H[i] \o <<x[3 + i], x[i]>> ELSE <<0,0,0,0,0>>])
    [] kind = "rn"   -> LET n == Len(x) IN
                        FM([i \in 1..(n+1) |-> [j \in 1..(n+1) |-> IF j = n + 1 /\ i <= n THEN x[i] ELSE 0]])
Vee(kind, M) ==
  CASE kind = "so2"  -> << M[2][1] >>
    [] kind = "se2"  -> << M[1][3], M[2][3], M[2][1] >>
    [] kind = "so3"  -> << M[3][2], M[1][3], M[2][1] >>
    [] kind = "se3"  -> << M[1][4], M[2][4], M[3][4], M[3][2], M[1][3], M[2][1] >>
    [] kind = "se23" -> << M[1][5], M[2][5], M[3][5], M[1][4], M[2][4], M[3][4], M[3][2], M[1][3], M[2][1] >>
    [] kind = "rn"   -> LET n == Len(M) - 1 IN Fv([i \in 1..n |-> M[i][n + 1]])
Unit(n, k) == Fv([i \in 1..n |-> IF i = k THEN 1 ELSE 0])

Bracket(kind, x, y) == LET A == Wedge(kind, x) B == Wedge(kind, y) IN Vee(kind, MSub(MMul(A, B), MMul(B, A)))
adm(kind, x) == LET n == Len(x) IN        \* matrix whose k-th column is [x, e_k]
    LET cols == Fv([k \in 1..n |-> Bracket(kind, x, Unit(n, k))]) IN FM([i \in 1..n |-> [k \in 1..n |-> cols[k][i]]])
AdByConj(X) ==
    LET kind == Kind(X)  A == RMRed(Mat(X))  B == RMRed(Mat(Norm(Inv(X))))
        n == Dim(kind, IF X.g = "Rn" THEN Len(X.x) ELSE 0)
        cols == Fv([k \in 1..n |-> Vee(kind, MMul(MMul(A.num, Wedge(kind, Unit(n, k))), B.num))])
    IN RMRed(RM([i \in 1..n |-> [k \in 1..n |-> cols[k][i]]], A.den * B.den))

(* textbook closed forms (times the stated denominators) *)
AdClosed(X) ==
  CASE X.g = "SO3" -> RM(QMat(X.q), QNorm(X.q))
    [] X.g = "SE3" -> LET N == QNorm(X.q) R == QMat(X.q) PR == M3Mul(Hat(X.p), R) IN      \* [[R, [p]x R],[0, R]]
         RM([i \in 1..6 |-> IF i <= 3 THEN [j \in 1..3 |-> X.pd * R[i][j]] \o [j \in 1..3 |-> PR[i][j]]
                            ELSE <<0,0,0>> \o [j \in 1..3 |-> X.pd * R[i-3][j]]], N * X.pd)
    [] X.g = "SE23" -> LET N == QNorm(X.q) R == QMat(X.q) PR == M3Mul(Hat(X.p), R) VR == M3Mul(Hat(X.v), R) IN
         RM([i \in 1..9 |->
              IF i <= 3 THEN [j \in 1..3 |-> X.pd * R[i][j]] \o <<0,0,0>> \o [j \in 1..3 |-> PR[i][j]]
              ELSE IF i <= 6 THEN <<0,0,0>> \o [j \in 1..3 |-> X.pd * R[i-3][j]] \o [j \in 1..3 |-> VR[i-3][j]]
              ELSE <<0,0,0,0,0,0>> \o [j \in 1..3 |-> X.pd * R[i-6][j]]], N * X.pd)
    [] X.g = "SO2" -> RM(<< <<1>> >>, 1)
    [] X.g = "SE2" -> LET h == X.cs[3] IN
         RM(<< <<X.pd*X.cs[1], -X.pd*X.cs[2], h*X.p[2]>>, <<X.pd*X.cs[2], X.pd*X.cs[1], -h*X.p[1]>>, <<0,0,h*X.pd>> >>, h * X.pd)
    [] X.g = "Rn"  -> RM(Ident(Len(X.x)), 1)

(* algebra lattices *)
A3 == { <<1,0,0>>, <<0,1,0>>, <<0,0,1>>, <<1,-2,2>>, <<-1,1,0>>, <<2,3,-1>>, <<0,0,0>> }
A3b == { <<1,0,0>>, <<0,2,-1>>, <<-1,1,3>> }
AlgSet(kind) ==
  CASE kind = "so2"  -> { <<0>>, <<1>>, <<-3>> }
    [] kind = "se2"  -> { <<a, b, c>> : a \in {0, 1, -2}, b \in {0, 3}, c \in {0, 1, -2} }
    [] kind = "so3"  -> A3
    [] kind = "se3"  -> { a \o b : a \in A3b \cup {<<0,0,0>>}, b \in A3b \cup {<<0,0,0>>} }
    [] kind = "se23" -> { a \o b \o c : a \in {<<1,0,0>>, <<0,2,-1>>}, b \in {<<0,0,0>>, <<-1,1,3>>}, c \in A3b \cup {<<0,0,0>>} }
    [] kind = "r2"   -> { <<0,0>>, <<1,-2>>, <<3,1>> }
    [] kind = "r3"   -> { <<0,0,0>>, <<1,-2,0>>, <<3,1,1>> }
Kinds == {"so2", "se2", "so3", "se3", "se23", "r2", "r3"}
K0(kind) == IF kind \in {"r2", "r3"} THEN "rn" ELSE kind

(* groups for the Ad vectors: families 1..12 of LieCalc (no direct products: Ad raises there) *)
AdFam(k) == IF k \in 1..4 THEN { X \in Families[k] : X.q \in QSel \cup QL1 } ELSE Families[k]
AdPairs(k) == TriFamilies[k]

(* direct sums (ad only: Ad and the bracket raise NotImplementedError on products) *)
SumSet == { << <<"so3", a>>, <<"r3", b>> >> : a \in {<<1,-2,2>>, <<0,0,1>>}, b \in {<<3,1,1>>} }
     \cup { << <<"se2", a>>, <<"so3", b>>, <<"r3", c>> >> : a \in {<<1,3,-2>>}, b \in {<<2,3,-1>>, <<0,0,0>>}, c \in {<<1,-2,0>>} }
     \cup { << <<"se3", a>>, <<"so2", b>> >> : a \in {<<1,0,0,0,2,-1>>}, b \in {<<-3>>} }
     (* the same algebra twice with different parameters (factors are module-level singletons in the code) *)
     \cup { << <<"so3", a>>, <<"so3", b>> >> : a \in {<<1,-2,2>>}, b \in {<<0,3,-1>>, <<2,0,1>>} }
     \cup { << <<"se3", a>>, <<"r3", b>>, <<"se3", c>> >> : a \in {<<1,0,0,0,2,-1>>}, b \in {<<3,1,1>>}, c \in {<<0,-1,2,1,1,0>>} }
     (* factors whose parameter count differs from their matrix dimension (r3: 3 / 4, r2: 2 / 3, so2: 1 / 2, se3: 6 / 4)
        in front of other factors: the hat matrix of the sum is block diagonal in MATRIX offsets *)
     \cup { << <<"r3", a>>, <<"so3", b>> >> : a \in {<<3,1,1>>}, b \in {<<1,-2,2>>} }
     \cup { << <<"r2", a>>, <<"se2", b>> >> : a \in {<<1,-2>>}, b \in {<<1,3,-2>>} }
     \cup { << <<"so3", a>>, <<"r3", b>>, <<"so3", c>> >> : a \in {<<1,-2,2>>}, b \in {<<3,1,1>>}, c \in {<<0,3,-1>>} }
     \cup { << <<"so2", a>>, <<"se3", b>>, <<"r2", c>> >> : a \in {<<-3>>}, b \in {<<1,0,0,0,2,-1>>}, c \in {<<1,-2>>} }
adSum(parts) == BlockDiag([k \in 1..Len(parts) |-> adm(K0(parts[k][1]), parts[k][2])])
wedgeSum(parts) == BlockDiag([k \in 1..Len(parts) |-> Wedge(K0(parts[k][1]), parts[k][2])])

InitA == \/ \E parts \in SumSet : tv = [op |-> "adsum", parts |-> parts, exp |-> adSum(parts), wedge |-> wedgeSum(parts)]
         \/ \E k \in 1..12 : \E X \in AdFam(k) : Valid(X) /\ tv = [op |-> "seedX", a |-> <<X>>, fam |-> k]
         \/ \E kind \in Kinds : \E x \in AlgSet(kind) : tv = [op |-> "seedx", kind |-> kind, x |-> x]
NextA ==
  \/ /\ tv.op = "seedX"
     /\ LET X == tv.a[1] IN
        \/ tv' = [op |-> "Ad", a |-> <<X>>, exp |-> AdByConj(X)]
        \/ Valid(Inv(X)) /\ tv' = [op |-> "AdInv", a |-> <<X>>, exp |-> AdByConj(Inv(X))]
        \/ X \in AdPairs(tv.fam) /\ \E Y \in AdPairs(tv.fam) : Valid(Y) /\ Valid(Prod(X, Y))
              /\ tv' = [op |-> "AdHom", a |-> <<X, Y>>, exp |-> RMMul(AdByConj(X), AdByConj(Y))]
  (* Euler B321: products / inverses whose RESULT sits exactly on a gimbal pole go through the
     band logic of from_Matrix; C04 states no exclusion, so they are compared with the documented
     band tolerance (2e-3) instead of being dropped *)
  \/ /\ tv.op = "seedX" /\ tv.fam = 4
     /\ LET X == tv.a[1] IN
        \/ \E Y \in SO3Set("euler", QL1) : Valid(Y) /\ AtGimbalPole(QMul(X.q, Y.q))
              /\ tv' = [op |-> "AdHomPole", a |-> <<X, Y>>, exp |-> RMMul(AdByConj(X), AdByConj(Y))]
        \/ AtGimbalPole(QConj(X.q)) /\ tv' = [op |-> "AdInvPole", a |-> <<X>>, exp |-> AdByConj([X EXCEPT !.q = QConj(X.q)])]
  \/ /\ tv.op = "seedx"
     /\ LET kind == tv.kind k0 == K0(tv.kind) x == tv.x IN
        \/ tv' = [op |-> "ad", kind |-> kind, x |-> x, exp |-> adm(k0, x), wedge |-> Wedge(k0, x)]
        \/ \E y \in AlgSet(kind) : tv' = [op |-> "br", kind |-> kind, x |-> x, y |-> y, exp |-> Bracket(k0, x, y)]
        \/ \E y \in AlgSet(kind), z \in AlgSet(kind) : x # y /\ y # z /\
              tv' = [op |-> "jac", kind |-> kind, x |-> x, y |-> y, z |-> z, exp |-> Bracket(k0, x, Bracket(k0, y, z))]
SpecA == InitA /\ [][NextA]_tv

AdLaw  == tv.op = "Ad" => RMEq(tv.exp, AdClosed(tv.a[1]))
AdHomL == tv.op = "AdHom" => RMEq(AdByConj(Norm(Prod(tv.a[1], tv.a[2]))), tv.exp)
AdInvL == tv.op = "AdInv" => RMIsIdent(RMMul(tv.exp, AdByConj(tv.a[1])))
adLaw  == tv.op = "ad" => LET k0 == K0(tv.kind) IN
             \A y \in AlgSet(tv.kind) : MVec(tv.exp, y) = Bracket(k0, tv.x, y)
AntiS  == tv.op = "br" => LET k0 == K0(tv.kind) IN
             /\ Bracket(k0, tv.y, tv.x) = VNeg(tv.exp)
             /\ Bracket(k0, tv.x, tv.x) = [i \in 1..Len(tv.x) |-> 0]
Jacobi == tv.op = "jac" => LET k0 == K0(tv.kind) x == tv.x y == tv.y z == tv.z IN
             VAdd(VAdd(tv.exp, Bracket(k0, y, Bracket(k0, z, x))), Bracket(k0, z, Bracket(k0, x, y)))
               = [i \in 1..Len(x) |-> 0]
=============================================================================
