SPECIFICATION SpecC
CONSTANT Tier = "quick"
INVARIANTS MeasLaw PredLaw AccLaw MagxLaw
CHECK_DEADLOCK FALSE
