SPECIFICATION SpecC
CONSTANT Tier = "quick"
INVARIANTS MeasLaw PredLaw AccLaw
CHECK_DEADLOCK FALSE
