SPECIFICATION Spec
CONSTANT Tier = "thorough"
INVARIANT SameEverywhere
CHECK_DEADLOCK FALSE
