SPECIFICATION Spec
CONSTANT Tier = "quick"
INVARIANTS AttOK GetStateLaw AccelLaw MagLaw ErrLaw Sim0Law SimWLaw
CHECK_DEADLOCK FALSE
