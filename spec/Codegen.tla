------------------------------- MODULE Codegen -------------------------------
(* C09 -- generated C code: the CONFIGURATION model.

   What is modelled.  cyecca ships six equation sets through five code-generation entry
   points (generators).  A generator call  Generate(set, option assignment)  writes an
   artefact: one C file (and optionally a header) holding one externally visible C function
   per function of the equation set, named after the CasADi function, plus the CasADi
   companion symbols (<f>_n_in, <f>_n_out, <f>_name_in/out, <f>_sparsity_in/out, ...).
   The contract (property C09, configuration part):
     * every accepted option assignment yields an artefact (generation never fails);
     * the artefact's function inventory is exactly the equation set: nothing dropped,
       nothing duplicated (each C symbol once), nothing renamed, same order;
     * the option flags have their documented effect on the artefact's shape (header
       present iff with_header, casadi_functions table iff with_mem, ...).
   The state variable tv is the test vector handed to harness/checks/c09.py (engine D),
   which calls the repository's own generator with exactly these options and compares the
   emitted text / the compiled object with the expectation recorded in tv.

   What is NOT hard-coded here.  The function lists (Exports) and the default value of every
   option (Defaults) are read from the repository at run time by the harness (it executes
   each module's __main__ export list / eqs() entry point and parses the option dictionary
   of each generate_code) and are supplied through a generated module

        ---- MODULE CodegenMC ----
        EXTENDS Codegen
        MCExports  == [estimator |-> << [key |-> "initialize", name |-> "init", nin |-> 3, nout |-> 2], ... >>, ...]
        MCDefaults == [attitude |-> [main |-> FALSE, mex |-> FALSE, with_header |-> TRUE, with_mem |-> TRUE], ...]
        ====
   written into the check's temporary directory; Codegen_<tier>.cfg substitutes
   Exports <- MCExports, Defaults <- MCDefaults.  The option KEYS each generator accepts are
   part of the contract and are stated here (Keys); the ASSUME below makes TLC reject a
   repository whose generators accept a different key set (the model would be stale).

   A second family of states (op = "eval") enumerates, per function, which input PATTERN
   each argument receives (zero vector, unit vectors of both signs, values on both sides
   of the small-angle switches, saturating magnitudes, gravity-sized vectors, ...): a pairwise-covering design over
   the arguments, so that every pair of arguments sees every combination of the two
   patterns of a pair.  The harness turns patterns into doubles and compares the compiled C
   function with the symbolic CasADi function on them.                                   *)
EXTENDS Naturals, Sequences, FiniteSets, TLC

CONSTANTS Tier,        \* "quick" | "thorough"
          Exports,     \* [set name |-> sequence of [key, name, nin, nout]]   (from the repo)
          Defaults     \* [generator name |-> [option key |-> BOOLEAN]]        (from the repo)
VARIABLE tv

Range(s) == {s[i] : i \in DOMAIN s}

(* ------------------------------ shipped configuration ------------------------------ *)
Sets == <<"estimator", "simulator", "rdd2", "rdd2_loglinear", "bezier", "mr_ref_traj">>

\* entry point that ships the set
Gen(s) == CASE s \in {"estimator", "simulator"} -> "attitude"    \* estimate/attitude/algorithms.generate_code
            [] s = "rdd2"                        -> "rdd2"        \* models/rdd2.generate_code
            [] s = "rdd2_loglinear"              -> "rdd2_loglinear"
            [] s = "bezier"                      -> "bezier"
            [] s = "mr_ref_traj"                 -> "generic"     \* cyecca/codegen.generate_code
Gens == {Gen(Sets[i]) : i \in DOMAIN Sets}

\* stem of the C file the set is written to
File(s) == CASE s = "estimator" -> "casadi_mrp"
             [] s = "simulator" -> "casadi_sim"
             [] OTHER           -> s

\* sets written by ONE call of the generator that ships s (the attitude generator writes both)
CoSets(s) == {Sets[i] : i \in {j \in DOMAIN Sets : Gen(Sets[j]) = Gen(s)}}

Keys10 == <<"verbose", "mex", "cpp", "main", "with_header", "with_mem", "with_export",
            "with_import", "include_math", "avoid_stack">>
Keys4  == <<"main", "mex", "with_header", "with_mem">>
Keys(g) == IF g = "attitude" THEN Keys4 ELSE Keys10

\* value CasADi itself uses for an option the generator does not pass on
CasadiDefault(k) == k \in {"verbose", "with_header", "with_export", "include_math"}

ASSUME \A g \in Gens : DOMAIN Defaults[g] = Range(Keys(g))
ASSUME \A g \in Gens : \A k \in DOMAIN Defaults[g] : Defaults[g][k] \in BOOLEAN
ASSUME DOMAIN Exports = Range(Sets)
ASSUME \A s \in Range(Sets) : Len(Exports[s]) > 0

(* ------------------------------ option rows ------------------------------ *)
RECURSIVE Pow2(_)
Pow2(k) == IF k = 0 THEN 1 ELSE 2 * Pow2(k - 1)
NBits(n) == CHOOSE m \in 0..8 : Pow2(m) >= n /\ (m = 0 \/ Pow2(m - 1) < n)
Bit(i, b) == ((i - 1) \div Pow2(b)) % 2 = 1

(* Strength-2 covering array over n two-valued factors: all-FALSE, all-TRUE, and for every
   bit position b of the (distinct) binary codes of the factor indices the row "bit b of
   the code" and its complement.  Two different factors differ in some bit b, which yields
   (F,T) and (T,F); (F,F) and (T,T) come from the constant rows.  2 + 2*ceil(log2 n) rows. *)
CoverRows(n) == {[i \in 1..n |-> FALSE], [i \in 1..n |-> TRUE]}
                \cup {[i \in 1..n |-> Bit(i, b)]  : b \in 0..(NBits(n) - 1)}
                \cup {[i \in 1..n |-> ~Bit(i, b)] : b \in 0..(NBits(n) - 1)}

PairwiseCovers(R, n) ==
    \A i, j \in 1..n : i # j => \A a, c \in BOOLEAN : \E r \in R : r[i] = a /\ r[j] = c

DefaultRow(g) == [i \in 1..Len(Keys(g)) |-> Defaults[g][Keys(g)[i]]]
ToggleRows(g) == LET d == DefaultRow(g) n == Len(Keys(g))
                 IN {[i \in 1..n |-> IF i = k THEN ~d[i] ELSE d[i]] : k \in 1..n}
QuickRows(g)    == CoverRows(Len(Keys(g))) \cup ToggleRows(g) \cup {DefaultRow(g)}
ThoroughRows(g) == [1..Len(Keys(g)) -> BOOLEAN]
Rows(g) == IF Tier = "quick" THEN QuickRows(g) ELSE ThoroughRows(g)

\* the design properties of the row sets (checked once by TLC, for both tiers)
ASSUME \A n \in 1..12 : PairwiseCovers(CoverRows(n), n)
ASSUME \A g \in Gens : /\ DefaultRow(g) \in Rows(g)
                       /\ ToggleRows(g) \subseteq Rows(g)
                       /\ PairwiseCovers(Rows(g), Len(Keys(g)))
                       /\ Rows(g) \subseteq ThoroughRows(g)
ASSUME \A g \in Gens : Cardinality(ThoroughRows(g)) = Pow2(Len(Keys(g)))

RowKind(g, r) == IF r = DefaultRow(g) THEN "default"
                 ELSE IF r \in ToggleRows(g) THEN "toggle"
                 ELSE IF r \in CoverRows(Len(Keys(g))) THEN "pairwise" ELSE "full"

(* ------------------------------ the artefact ------------------------------ *)
\* effective value of option k for generator g under row r
Opt(g, r, k) == IF k \in Range(Keys(g))
                THEN r[CHOOSE i \in 1..Len(Keys(g)) : Keys(g)[i] = k]
                ELSE CasadiDefault(k)

Names(s) == [i \in 1..Len(Exports[s]) |-> Exports[s][i].name]

\* C symbols of s that another set written by the same generator call also defines
\* (two files of one call cannot be linked into one image) -- informational
Shared(s) == {n \in Range(Names(s)) : \E t \in CoSets(s) \ {s} : n \in Range(Names(t))}

Artefact(s, r, passed) ==
    LET g == Gen(s) IN
    [op        |-> "generate",
     set       |-> s,
     gen       |-> g,
     file      |-> File(s),
     kind      |-> IF passed THEN RowKind(g, r) ELSE "implicit_default",
     passed    |-> passed,                 \* FALSE: call the entry point without any option
     keys      |-> Keys(g),
     vals      |-> [i \in 1..Len(Keys(g)) |-> r[i]],
     functions |-> Names(s),               \* expected inventory, in order of addition
     nin       |-> [i \in 1..Len(Exports[s]) |-> Exports[s][i].nin],
     nout      |-> [i \in 1..Len(Exports[s]) |-> Exports[s][i].nout],
     header    |-> Opt(g, r, "with_header"),
     memtable  |-> Opt(g, r, "with_mem"),
     main      |-> Opt(g, r, "main"),
     mex       |-> Opt(g, r, "mex"),
     cplusplus |-> Opt(g, r, "cpp"),
     export    |-> Opt(g, r, "with_export"),
     mathh     |-> Opt(g, r, "include_math"),
     cofiles   |-> {File(t) : t \in CoSets(s)},
     shared    |-> Shared(s)]

(* ------------------------------ bundles ------------------------------ *)
(* The generic entry point cyecca/codegen.generate_code takes a DICTIONARY of equation sets and
   writes "one C file per equation set, every function added": file <key>.c holds exactly the
   functions stored under <key>, whatever the other keys are and in whatever order the
   dictionary lists them.  A bundle is one such call with several of the shipped sets.       *)
BundleArt(s) ==
    LET g == "generic" r == DefaultRow("generic") IN
    [set |-> s, gen |-> g, file |-> s, kind |-> "bundle", passed |-> FALSE, keys |-> Keys(g),
     vals |-> [i \in 1..Len(Keys(g)) |-> r[i]],
     functions |-> Names(s),
     nin  |-> [i \in 1..Len(Exports[s]) |-> Exports[s][i].nin],
     nout |-> [i \in 1..Len(Exports[s]) |-> Exports[s][i].nout],
     header |-> Opt(g, r, "with_header"), memtable |-> Opt(g, r, "with_mem"), main |-> Opt(g, r, "main"),
     mex |-> Opt(g, r, "mex"), cplusplus |-> Opt(g, r, "cpp"), export |-> Opt(g, r, "with_export"),
     mathh |-> Opt(g, r, "include_math")]
Reverse(q) == [i \in 1..Len(q) |-> q[Len(q) + 1 - i]]
QuickOrders == { <<"rdd2", "bezier">>, <<"simulator", "estimator", "mr_ref_traj">>,
                 <<"rdd2_loglinear", "rdd2", "bezier", "estimator">>, Sets, Reverse(Sets),
                 <<"mr_ref_traj", "estimator", "rdd2", "simulator", "bezier", "rdd2_loglinear">> }
OrderedPairs   == {<<Sets[i], Sets[j]>> : i, j \in DOMAIN Sets} \ {<<Sets[i], Sets[i]>> : i \in DOMAIN Sets}
Orders == IF Tier = "quick" THEN QuickOrders ELSE QuickOrders \cup OrderedPairs \cup {Sets}
BundleVec(o) == [op |-> "bundle", order |-> o, files |-> [i \in 1..Len(o) |-> BundleArt(o[i])]]
\* at least one order is neither sorted nor reverse sorted by name, for every adjacent pair both relative orders occur
ASSUME \A o \in Orders : \A i, j \in DOMAIN o : i # j => o[i] # o[j]
ASSUME \A a, b \in Range(Sets) : a # b => \E o \in Orders : \E i, j \in DOMAIN o : i < j /\ o[i] = a /\ o[j] = b

(* ------------------------------ input patterns ------------------------------ *)
Patterns == <<"zero", "unit", "negunit", "generic", "neg", "tiny", "switch", "big", "posrot", "negrot", "grav">>
\* pairs (A, B) used for the two-valued covering designs over the arguments
QuickPairs == { <<"generic", "zero">>, <<"generic", "big">>, <<"posrot", "negrot">>,
                <<"tiny", "switch">>, <<"neg", "unit">>, <<"grav", "unit">> }
AllPairs   == {<<Patterns[i], Patterns[j]>> : i, j \in DOMAIN Patterns} \ {<<Patterns[i], Patterns[i]>> : i \in DOMAIN Patterns}
PatPairs   == IF Tier = "quick" THEN QuickPairs ELSE AllPairs

UniformRows(n)  == {[i \in 1..n |-> Patterns[p]] : p \in DOMAIN Patterns}
SingleRows(n)   == {[i \in 1..n |-> IF i = k THEN Patterns[p] ELSE "generic"] : k \in 1..n, p \in DOMAIN Patterns}
PairRows(n)     == {[i \in 1..n |-> IF r[i] THEN pp[1] ELSE pp[2]] : r \in CoverRows(n), pp \in PatPairs}
InputRows(n)    == IF n = 0 THEN {<<>>} ELSE UniformRows(n) \cup SingleRows(n) \cup PairRows(n)

\* every argument sees every pattern while the others are generic, and every pair of
\* arguments sees all four combinations of each pattern pair
ASSUME \A n \in 1..12 : \A pp \in QuickPairs : \A i, j \in 1..n : i # j =>
          \A a, c \in {pp[1], pp[2]} : \E r \in PairRows(n) : r[i] = a /\ r[j] = c

EvalVec(s, i, row) ==
    [op |-> "eval", set |-> s, file |-> File(s), fn |-> Exports[s][i].name, key |-> Exports[s][i].key,
     nin |-> Exports[s][i].nin, pats |-> [k \in 1..Exports[s][i].nin |-> row[k]]]

(* ------------------------------ state machine ------------------------------ *)
Init == tv = [op |-> "idle"]

Generate == \E i \in DOMAIN Sets : \E r \in Rows(Gen(Sets[i])) : tv' = Artefact(Sets[i], r, TRUE)
GenerateDefault == \E i \in DOMAIN Sets : tv' = Artefact(Sets[i], DefaultRow(Gen(Sets[i])), FALSE)
Evaluate == \E i \in DOMAIN Sets : \E k \in DOMAIN Exports[Sets[i]] :
                \E row \in InputRows(Exports[Sets[i]][k].nin) : tv' = EvalVec(Sets[i], k, row)

Bundle == \E o \in Orders : tv' = BundleVec(o)

Next == tv.op = "idle" /\ (Generate \/ GenerateDefault \/ Evaluate \/ Bundle)
Spec == Init /\ [][Next]_tv

(* ------------------------------ contract (invariants) ------------------------------ *)
IsGen == tv.op = "generate"

\* nothing dropped, nothing renamed: the inventory is the equation set, entry by entry
Complete == IsGen => /\ Len(tv.functions) = Len(Exports[tv.set])
                     /\ \A i \in DOMAIN tv.functions : tv.functions[i] = Exports[tv.set][i].name
                     /\ Range(tv.functions) = {Exports[tv.set][i].name : i \in DOMAIN Exports[tv.set]}

\* nothing duplicated: one C file cannot define a symbol twice, so two exported functions of
\* one set must not carry the same CasADi name (this depends on the repository's data)
NoDuplicate == IsGen => \A i, j \in DOMAIN tv.functions : i # j => tv.functions[i] # tv.functions[j]

\* the option assignment is a total assignment of exactly the accepted keys
Accepted == IsGen => /\ tv.keys = Keys(tv.gen)
                     /\ Len(tv.vals) = Len(tv.keys)
                     /\ \A i \in DOMAIN tv.vals : tv.vals[i] \in BOOLEAN
                     /\ (~tv.passed => tv.vals = DefaultRow(tv.gen))

\* flags have their documented effect
(* The shipped command-line entry points (python -m cyecca.models.<m> <dir>) run one after the other into ONE
   directory, which is what generating all the C code of a vehicle means: afterwards the directory holds, for every
   entry point that ran, its own file with exactly its own inventory -- whatever the order (an entry point neither
   overwrites nor removes another one's output).  The harness runs every order of SharedOrders. *)
(* Call histories of one generator in ONE process: the artefact of a call is a function of that call's option combination
   only (Artefact(g, row) above has no other argument).  sequence_check runs default, every toggle, default again;
   FirstCalls are the histories that START with a non-default call: << toggle k, default >> for every option k of every
   generator, each in a fresh interpreter, compared with the history << default >>. *)
FirstCalls(g) == { << k, "default" >> : k \in Range(Keys(g)) }
ASSUME \A g \in {"attitude", "rdd2", "rdd2_loglinear", "bezier", "generic"} : FirstCalls(g) # {}
EntrySets == <<"rdd2", "rdd2_loglinear", "bezier">>
RotSeq(q, r) == [i \in 1..Len(q) |-> q[((i - 1 + r) % Len(q)) + 1]]
SharedOrders == IF Tier = "quick" THEN {EntrySets, Reverse(EntrySets)}
                ELSE {RotSeq(EntrySets, r) : r \in 0..(Len(EntrySets) - 1)} \cup {Reverse(RotSeq(EntrySets, r)) : r \in 0..(Len(EntrySets) - 1)}
SharedDirFinal(o) == [s \in Range(o) |-> Names(s)]
ASSUME \A o1, o2 \in SharedOrders : SharedDirFinal(o1) = SharedDirFinal(o2)
ASSUME \A a, b \in Range(EntrySets) : a # b => \E o \in SharedOrders : \E i, j \in DOMAIN o : i < j /\ o[i] = a /\ o[j] = b
Shape == IsGen => /\ tv.header    = Opt(tv.gen, tv.vals, "with_header")
                  /\ tv.memtable  = Opt(tv.gen, tv.vals, "with_mem")
                  /\ tv.file \in tv.cofiles

\* a bundle: file i is named after key i and holds exactly the functions of THAT set, independent of
\* the position of the key in the dictionary and of the other keys
BundleOK == tv.op = "bundle" =>
    /\ \A i \in DOMAIN tv.order : /\ tv.files[i].set = tv.order[i] /\ tv.files[i].file = tv.order[i]
                                   /\ Len(tv.files[i].functions) = Len(Exports[tv.order[i]])
                                   /\ \A k \in DOMAIN tv.files[i].functions :
                                          tv.files[i].functions[k] = Exports[tv.order[i]][k].name
    /\ \A i, j \in DOMAIN tv.order : i # j => tv.files[i].file # tv.files[j].file
    /\ \A o \in Orders : \A i \in DOMAIN tv.order : \A j \in DOMAIN o :
          o[j] = tv.order[i] => BundleVec(o).files[j].functions = tv.files[i].functions

EvalOK == tv.op = "eval" => /\ Len(tv.pats) = tv.nin
                            /\ \A i \in DOMAIN tv.pats : tv.pats[i] \in Range(Patterns)
                            /\ \E k \in DOMAIN Exports[tv.set] : Exports[tv.set][k].name = tv.fn
=============================================================================
