SPECIFICATION Spec
CONSTANTS
  Tier = "quick"
  Exports <- MCExports
  Defaults <- MCDefaults
INVARIANTS Complete NoDuplicate Accepted Shape EvalOK
CHECK_DEADLOCK FALSE
