SPECIFICATION Spec
CONSTANT Tier = "quick"
INVARIANTS BoundInv RateLaw PosLaw PSatLaw VelLaw AttLaw AlphaLaw StickInv
PROPERTY BoundStep
CHECK_DEADLOCK FALSE
