SPECIFICATION Spec
CONSTANT Tier = "thorough"
INVARIANTS LdlLaw UduLaw PredLaw CorrLaw RkLaw
CHECK_DEADLOCK FALSE
