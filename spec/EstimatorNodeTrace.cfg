SPECIFICATION TraceSpec
CONSTANTS
  Times <- TrInt
  DtMins <- TrInt
  DtMin0 = 5000
  StartInit <- TrBool
INVARIANTS PredictPositive AccelOnlyAfterPredict AccelRate MagRate Aux NoUninitWork
CONSTRAINT Track
POSTCONDITION Accepted
CHECK_DEADLOCK FALSE
