SPECIFICATION Spec
CONSTANTS
  NS = 2
  Topics = {"a", "b"}
  UserTypes = {"A"}
  BadTypes = {"X"}
  ParamNames = {"p1"}
  Vals = {2}
  LdtVals = {2}
  LDT0 = 1
  Procs <- Procs2
  ProcTopics <- PTopA
  ProcParams <- PParLdt
  FreeNodes = FALSE
  Delays <- Delay2
  Offsets <- Off0
  MaxPub = 4
  Horizon = 3
  Budgets = {1}
  Kinds = {"sink", "relay", "follower"}
  Acyclic = FALSE
  DueFirst = FALSE
  PostRunSetup = FALSE
  Phased = TRUE
  DefVals = {1}
  Sparse = FALSE
INVARIANTS ExactlyOnce NoStrangers InOrderUnlessReentrant StackOK ParamsSeen ParamsSeenRunning RowsOK
PROPERTIES TimeOK Rejected WrongType LockRespected
VIEW View
CONSTRAINT Bound
CHECK_DEADLOCK FALSE
