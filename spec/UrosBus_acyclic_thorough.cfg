SPECIFICATION Spec
CONSTANTS
  NS = 3
  Topics = {"a", "b"}
  UserTypes = {"A"}
  BadTypes = {"X"}
  ParamNames = {"p1"}
  Vals = {2}
  LdtVals = {2}
  LDT0 = 1
  Procs <- Procs1
  ProcTopics <- PTopA
  ProcParams <- PParNone
  FreeNodes = FALSE
  Delays <- Delay2
  Offsets <- Off0
  MaxPub = 3
  Horizon = 2
  Budgets = {1}
  Kinds = {"sink", "relay", "follower"}
  Acyclic = TRUE
  DueFirst = FALSE
  PostRunSetup = FALSE
  Phased = TRUE
  DefVals = {1}
  Sparse = FALSE
INVARIANTS ExactlyOnce NoStrangers InOrder StackOK ParamsSeen ParamsSeenRunning RowsOK
PROPERTIES TimeOK Rejected WrongType LockRespected
VIEW View
CONSTRAINT Bound
CHECK_DEADLOCK FALSE
