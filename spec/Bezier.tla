------------------------------- MODULE Bezier -------------------------------
(* C18 -- Bezier trajectories (cyecca/models/bezier.py).

   Exact rational arithmetic: a rational is a normalised pair <<n, d>> (d > 0, gcd 1).
   A control polygon of degree n is a tuple of n+1 rationals (index k+1 holds P_k); a
   curve of dimension dim is a tuple of dim polygons (rows).  The curve lives on [0, T],
   beta = t/T; every identity below is a polynomial identity and also holds outside.

   Independent characterisations (the oracle is MonoD of Mono: the power rule applied to
   the monomial form in t; Bern is the definition of the curve):
     Bern(P,T,t)      = sum_k C(n,k) beta^k (1-beta)^(n-k) P_k
     Mono(P)          = c_j = C(n,j) sum_{i<=j} (-1)^(j-i) C(j,i) P_i      (curve = sum c_j beta^j)
     MonoD(c,T,t,m)   = sum_{j>=m} j!/(j-m)! c_j beta^(j-m) / T^m         (m-th TIME derivative)
   Implementation-shaped refinements (what the code does):
     DeCasteljau      = repeated linear interpolation
     DerivCP(P,T,m)   = m times  D_i <- deg * (D_{i+1} - D_i) / T
   Hermite solvers in closed form: Herm3, Herm7.
   BCM(n,T) = matrix of the boundary functionals (rows: position, velocity[, acceleration,
   jerk] at t = 0, then the same at t = T) acting on the control points; the harness uses
   it to say WHICH boundary condition a returned control polygon misses.

   tv is the engine-A test vector (operation, exact arguments, exact expected result).
   Two-level enumeration: Init picks a seed, Next expands it.                           *)
EXTENDS IntLin, TLC
CONSTANT Tier
VARIABLE tv

Thorough == Tier = "thorough"

(* ------------------------------ rationals ------------------------------ *)
RN(n, d)   == LET g == Gcd(n, d) IN IF d < 0 THEN <<(-n) \div g, (-d) \div g>> ELSE <<n \div g, d \div g>>
RI(i)      == <<i, 1>>
R0         == <<0, 1>>
R1         == <<1, 1>>
RNeg(a)    == <<-a[1], a[2]>>
RAdd(a, b) == IF a[2] = b[2] THEN RN(a[1] + b[1], a[2])
              ELSE LET g == Gcd(a[2], b[2]) IN
                   RN(a[1] * (b[2] \div g) + b[1] * (a[2] \div g), (a[2] \div g) * b[2])
RSub(a, b) == RAdd(a, RNeg(b))
RMul(a, b) == LET g1 == Gcd(a[1], b[2])  g2 == Gcd(b[1], a[2]) IN     \* cross-reduced: stays normalised
              <<(a[1] \div g1) * (b[1] \div g2), (a[2] \div g2) * (b[2] \div g1)>>
RInv(a)    == IF a[1] < 0 THEN <<-a[2], -a[1]>> ELSE <<a[2], a[1]>>    \* a # 0
RDiv(a, b) == RMul(a, RInv(b))
RNorm(a)   == a[2] > 0 /\ Gcd(a[1], a[2]) = 1
RECURSIVE RSumFrom(_, _)
RSumFrom(s, k) == IF k > Len(s) THEN R0 ELSE RAdd(s[k], RSumFrom(s, k + 1))
RSum(s)    == RSumFrom(s, 1)
RDot(u, v) == RSum(Fv([k \in 1..Len(u) |-> RMul(u[k], v[k])]))
RECURSIVE PowsTo(_, _)
PowsTo(b, n) == IF n = 0 THEN <<R1>> ELSE LET p == PowsTo(b, n - 1) IN Append(p, RMul(p[n], b))  \* <<b^0 .. b^n>>
RV(p)      == Fv([k \in 1..Len(p) |-> RI(p[k])])                       \* integer tuple -> rational tuple

Pascal == << <<1>>, <<1,1>>, <<1,2,1>>, <<1,3,3,1>>, <<1,4,6,4,1>>, <<1,5,10,10,5,1>>,
             <<1,6,15,20,15,6,1>>, <<1,7,21,35,35,21,7,1>> >>
Binom(n, k) == Pascal[n + 1][k + 1]
ASSUME \A n \in 0..7 : /\ Len(Pascal[n + 1]) = n + 1 /\ Binom(n, 0) = 1 /\ Binom(n, n) = 1
                       /\ \A k \in 1..(n - 1) : Binom(n, k) = Binom(n - 1, k - 1) + Binom(n - 1, k)
RECURSIVE FallFact(_, _)
FallFact(j, m) == IF m = 0 THEN 1 ELSE j * FallFact(j - 1, m - 1)      \* j!/(j-m)!
Sign(k)    == IF k % 2 = 0 THEN 1 ELSE -1                             \* (-1)^k, k >= 0

(* ------------------------- the curve, three ways ------------------------- *)
Bern(P, T, t) ==
    LET n  == Len(P) - 1
        b  == RDiv(t, T)
        bp == PowsTo(b, n)
        cp == PowsTo(RSub(R1, b), n)
    IN RSum(Fv([k \in 1..(n + 1) |-> RMul(RMul(RI(Binom(n, k - 1)), RMul(bp[k], cp[n + 2 - k])), P[k])]))

Mono(P) ==
    LET n == Len(P) - 1 IN
    Fv([j1 \in 1..(n + 1) |->
          RMul(RI(Binom(n, j1 - 1)),
               RSum(Fv([i1 \in 1..j1 |-> RMul(RI(Sign(j1 - i1) * Binom(j1 - 1, i1 - 1)), P[i1])])))])

MonoD(c, T, t, m) ==        \* m-th time derivative of  sum_j c_j (t/T)^j  (power rule, chain rule
    LET n  == Len(c) - 1    \* d/dt = (1/T) d/dbeta):  sum_{j>=m} j!/(j-m)! c_j beta^(j-m) / T^m,  0 <= m <= n
        bp == PowsTo(RDiv(t, T), n)
        Tm == PowsTo(T, m)[m + 1]
    IN RDiv(RSum(Fv([q \in 1..(n + 1 - m) |->
                       LET j == m + q - 1 IN RMul(RI(FallFact(j, m)), RMul(c[j + 1], bp[q]))])), Tm)

DCStep(A, b, cb) == Fv([k \in 1..(Len(A) - 1) |-> RAdd(RMul(A[k], cb), RMul(A[k + 1], b))])
RECURSIVE DCRun(_, _, _)
DCRun(A, b, cb)  == IF Len(A) = 1 THEN A[1] ELSE DCRun(DCStep(A, b, cb), b, cb)
DeCasteljau(P, T, t) == LET b == RDiv(t, T) IN DCRun(P, b, RSub(R1, b))

DStep(D, T) == LET k == Len(D) - 1 IN Fv([i \in 1..k |-> RDiv(RMul(RI(k), RSub(D[i + 1], D[i])), T)])
RECURSIVE DerivCP(_, _, _)
DerivCP(P, T, m) == IF m = 0 THEN P ELSE DerivCP(DStep(P, T), T, m - 1)     \* m <= degree

(* oracle: derivative orders 0..K of the curve with integer control points p *)
DVal(p, T, t, m) == MonoD(Mono(RV(p)), T, t, m)
Ders(p, T, t, K) == LET c == Mono(RV(p)) IN Fv([m1 \in 1..(K + 1) |-> MonoD(c, T, t, m1 - 1)])

(* ------------------------------ Hermite solvers ------------------------------ *)
Herm3(w0, w1, T) ==
    LET p0 == RI(w0[1])  v0 == RI(w0[2])  p1 == RI(w1[1])  v1 == RI(w1[2])
        h  == RDiv(T, RI(3))
    IN << p0, RAdd(p0, RMul(v0, h)), RSub(p1, RMul(v1, h)), p1 >>
Herm7(w0, w1, T) ==
    LET p0 == RI(w0[1])  v0 == RI(w0[2])  a0 == RI(w0[3])  j0 == RI(w0[4])
        p1 == RI(w1[1])  v1 == RI(w1[2])  a1 == RI(w1[3])  j1 == RI(w1[4])
        T2 == RMul(T, T)  T3 == RMul(T2, T)
        L(k, d, x) == RMul(RN(k, d), x)
    IN << p0,
          RAdd(p0, L(1, 7, RMul(v0, T))),
          RAdd(RAdd(p0, L(2, 7, RMul(v0, T))), L(1, 42, RMul(a0, T2))),
          RAdd(RAdd(RAdd(p0, L(3, 7, RMul(v0, T))), L(1, 14, RMul(a0, T2))), L(1, 210, RMul(j0, T3))),
          RSub(RAdd(RSub(p1, L(3, 7, RMul(v1, T))), L(1, 14, RMul(a1, T2))), L(1, 210, RMul(j1, T3))),
          RAdd(RSub(p1, L(2, 7, RMul(v1, T))), L(1, 42, RMul(a1, T2))),
          RSub(p1, L(1, 7, RMul(v1, T))),
          p1 >>

(* boundary functionals on the control points: m-th derivative at 0 is n!/(n-m)!/T^m D^m P_0,
   at T it is n!/(n-m)!/T^m D^m P_{n-m} (forward differences) *)
BCRow(n, T, atEnd, m) ==
    LET s == RDiv(RI(FallFact(n, m)), PowsTo(T, m)[m + 1]) IN
    Fv([k1 \in 1..(n + 1) |->
          LET k == k1 - 1 IN
          IF ~atEnd THEN (IF k <= m THEN RMul(RI(Sign(m - k) * Binom(m, k)), s) ELSE R0)
          ELSE (IF n - k <= m THEN RMul(RI(Sign(n - k) * Binom(m, n - k)), s) ELSE R0)])
NBC(n) == (n + 1) \div 2                       \* conditions per end: 2 (cubic), 4 (septic)
BCM(n, T) == Fv([r \in 1..(n + 1) |-> IF r <= NBC(n) THEN BCRow(n, T, FALSE, r - 1)
                                                  ELSE BCRow(n, T, TRUE, r - NBC(n) - 1)])
UnitP(n, k) == Fv([i \in 1..(n + 1) |-> IF i = k THEN 1 ELSE 0])

(* ------------------------------ lattices ------------------------------ *)
Ts       == { <<1,1>>, <<2,1>>, <<5,2>> }
(* sub-millisecond and long durations ("all durations T > 0"): low degrees and orders only, the integers of
   T^-n for n >= 3 do not fit 32 bits; times are fractions of T *)
SmallTs  == { <<1,2000>>, <<1,4000>>, <<1,16>>, <<40,1>> }
FracTimes(T) == { <<0,1>>, RMul(<<1,4>>, T), RMul(<<1,2>>, T), T, RMul(<<3,2>>, T) }
Times(T) == { <<-1,2>>, <<0,1>>, <<1,4>>, <<1,2>>, <<1,1>>, T, RMul(<<3,2>>, T) }

(* control polygons with entries in -3..3: pseudo-random cubic residues mod 7 (coefficients from
   the base-7 digits of the seed s and the row r; distinct seeds < 343 give distinct polygons for
   degree >= 6), plus (row 1) the alternating polygon (largest differences) and the scaled
   Bernstein basis 3*e_k *)
PR(n, s, r) == LET a == s % 7  b == (s \div 7) % 7  c == (s \div 49) % 7 IN
               Fv([k1 \in 1..(n + 1) |->
                     LET k == k1 - 1 IN
                     (((a + r) * k * k * k + (b + 2 * r + a * a) * k * k + (c + r * r + 3 * a) * k
                       + (a + b + c + 3 * r)) % 7) - 3])
Row(n, s, r) == IF r > 1 THEN PR(n, s, r)
                ELSE IF s = 0 THEN Fv([k1 \in 1..(n + 1) |-> IF k1 % 2 = 1 THEN 3 ELSE -3])
                ELSE IF s <= n + 1 THEN Fv([k1 \in 1..(n + 1) |-> IF k1 = s THEN 3 ELSE 0])
                ELSE PR(n, s, 1)
Dim(s)     == 1 + (s % 3)
Poly(n, s) == Fv([r \in 1..Dim(s) |-> Row(n, s, r)])

EvalSeeds  == IF Thorough THEN 0..59 ELSE {0, 1, 3, 5, 9, 10, 11, 13}
TrajSeeds  == IF Thorough THEN 0..99 ELSE 0..9
MultiSeeds == IF Thorough THEN 0..149 ELSE 0..19
V3         == IF Thorough THEN -3..3 ELSE {-3, 0, 2}
A7         == IF Thorough THEN 0..6 ELSE {1}
B7         == IF Thorough THEN 0..6 ELSE {0, 3}
BC7(a, b, c, d) == Fv([i \in 1..8 |-> ((a * i * i * i + b * i * i + c * i + d) % 7) - 3])

(* HIGH degrees ("all curve degrees n"): the general machinery above needs n! / T^n in 32 bits, so degrees 16..30 use
   polygons whose Bernstein polynomial has a closed form with small numbers -- the scaled basis polygon 3 e_k
   (value 3 C(n,k) s^k (1-s)^(n-k): 3 C(n,k) / 2^n at s = 1/2, P_0 at s = 0, P_n at s = 1) and the alternating polygon
   +3, -3, ... (value 3 (1 - 2 s)^n: 0 at s = 1/2).  HighLawSmall checks the closed forms against Bern / DeCasteljau /
   the monomial form on every degree where those fit (1..7).  Such degrees are where an evaluation scheme that is
   algebraically the Bernstein polynomial but numerically something else (power basis, Horner on derivatives) fails. *)
RECURSIVE PRowBig(_)
PRowBig(n) == IF n = 0 THEN <<1>>
              ELSE LET p == PRowBig(n - 1) IN Fv([k \in 1..(n + 1) |-> (IF k > 1 THEN p[k - 1] ELSE 0) + (IF k <= n THEN p[k] ELSE 0)])
RECURSIVE Pow2(_)
Pow2(n) == IF n = 0 THEN 1 ELSE 2 * Pow2(n - 1)
HighN == IF Thorough THEN {12, 16, 24, 30} ELSE {16, 24}
BasisRow(n, k) == Fv([i \in 1..(n + 1) |-> IF i = k + 1 THEN 3 ELSE 0])
AltRow(n)      == Fv([i \in 1..(n + 1) |-> IF i % 2 = 1 THEN 3 ELSE -3])
HighRow(n, k)  == IF k < 0 THEN AltRow(n) ELSE BasisRow(n, k)
HighVal(n, k, c) ==            \* c: "0" (t = 0), "half" (t = T/2), "T" (t = T)
    LET P == HighRow(n, k) IN
    IF c = "0" THEN RI(P[1]) ELSE IF c = "T" THEN RI(P[n + 1])
    ELSE IF k < 0 THEN R0 ELSE RN(3 * PRowBig(n)[k + 1], Pow2(n))
HighTime(T, c) == IF c = "0" THEN R0 ELSE IF c = "T" THEN T ELSE RMul(<<1,2>>, T)
ASSUME \A n \in 1..7 : PRowBig(n) = Pascal[n + 1]
ASSUME \A n \in 1..7 : \A k \in (-1)..n, T \in {<<1,1>>, <<5,2>>}, c \in {"0", "half", "T"} :         \* HighLawSmall
          LET P == RV(HighRow(n, k)) IN /\ HighVal(n, k, c) = Bern(P, T, HighTime(T, c))
                                        /\ HighVal(n, k, c) = DeCasteljau(P, T, HighTime(T, c))
                                        /\ HighVal(n, k, c) = MonoD(Mono(P), T, HighTime(T, c), 0)

(* ------------------------------ test vectors ------------------------------ *)
EvalVec(n, P, T, t, m) ==
    [op |-> "eval", n |-> n, dim |-> Len(P), P |-> P, T |-> T, t |-> t, m |-> m,
     exp |-> Fv([r \in 1..Len(P) |-> DVal(P[r], T, t, m)])]
TrajVec(n, p, T, t) ==
    [op |-> "traj", n |-> n, P |-> p, T |-> T, t |-> t, exp |-> Ders(p, T, t, IF n = 3 THEN 2 ELSE 4)]
MultiVec(s, T, t) ==
    LET px == Row(7, s, 1)  py == PR(7, s, 2)  pz == PR(7, s, 3)  pp == PR(3, s, 4) IN
    [op |-> "multirotor", PX |-> px, PY |-> py, PZ |-> pz, Ppsi |-> pp, T |-> T, t |-> t,
     x |-> Ders(px, T, t, 4), y |-> Ders(py, T, t, 4), z |-> Ders(pz, T, t, 4), psi |-> Ders(pp, T, t, 2)]
SolveVec(n, w0, w1, T) ==
    [op |-> "solve", n |-> n, w0 |-> w0, w1 |-> w1, T |-> T,
     P |-> IF n = 3 THEN Herm3(w0, w1, T) ELSE Herm7(w0, w1, T)]
RowsVec(n, T) == [op |-> "bcrows", n |-> n, T |-> T, M |-> BCM(n, T)]

Init ==
    \/ \E n \in 0..7, T \in Ts, s \in EvalSeeds : tv = [op |-> "seed_eval", n |-> n, T |-> T, s |-> s]
    \/ \E n \in 1..2, T \in SmallTs, s \in {5, 100} : tv = [op |-> "seed_eval_small", n |-> n, T |-> T, s |-> s]
    \/ \E n \in HighN, T \in Ts : \E k \in {-1, 0, 1, n \div 2, n - 1, n} : tv = [op |-> "seed_eval_high", n |-> n, T |-> T, k |-> k]
    \/ \E n \in {3, 7}, T \in Ts, s \in TrajSeeds : tv = [op |-> "seed_traj", n |-> n, T |-> T, s |-> s]
    \/ \E T \in Ts, s \in MultiSeeds : tv = [op |-> "seed_multi", T |-> T, s |-> s]
    \/ \E T \in Ts, p0 \in V3, v0 \in V3 : tv = [op |-> "seed_solve3", T |-> T, w0 |-> <<p0, v0>>]
    \/ \E T \in Ts, a \in A7, b \in B7 : tv = [op |-> "seed_solve7", T |-> T, a |-> a, b |-> b]
    \/ \E T \in Ts : tv = [op |-> "seed_unit7", T |-> T]
    \/ \E T \in Ts, n \in {3, 7} : tv = [op |-> "seed_rows", n |-> n, T |-> T]

Next ==
    \/ /\ tv.op = "seed_eval"
       /\ \E t \in Times(tv.T), m \in 0..tv.n : tv' = EvalVec(tv.n, Poly(tv.n, tv.s), tv.T, t, m)
    \/ /\ tv.op = "seed_eval_small"
       /\ \E t \in FracTimes(tv.T), m \in 0..1 : tv' = EvalVec(tv.n, Poly(tv.n, tv.s), tv.T, t, m)
    \/ /\ tv.op = "seed_eval_high"
       /\ \E c \in {"0", "half", "T"} :
             tv' = [op |-> "eval", n |-> tv.n, dim |-> 1, P |-> <<HighRow(tv.n, tv.k)>>, T |-> tv.T, t |-> HighTime(tv.T, c), m |-> 0,
                    exp |-> <<HighVal(tv.n, tv.k, c)>>]
    \/ /\ tv.op = "seed_traj"
       /\ \E t \in Times(tv.T) : tv' = TrajVec(tv.n, Row(tv.n, tv.s, 1), tv.T, t)
    \/ /\ tv.op = "seed_multi"
       /\ \E t \in Times(tv.T) : tv' = MultiVec(tv.s, tv.T, t)
    \/ /\ tv.op = "seed_solve3"
       /\ \E p1 \in V3, v1 \in V3 : tv' = SolveVec(3, tv.w0, <<p1, v1>>, tv.T)
    \/ /\ tv.op = "seed_solve7"
       /\ \E c \in 0..6, d \in 0..6 :
             LET w == BC7(tv.a, tv.b, c, d) IN tv' = SolveVec(7, SubSeq(w, 1, 4), SubSeq(w, 5, 8), tv.T)
    \/ /\ tv.op = "seed_unit7"
       /\ \E i \in 1..8, v \in {3, -2} :
             LET w == [k \in 1..8 |-> IF k = i THEN v ELSE 0] IN
             tv' = SolveVec(7, SubSeq(w, 1, 4), SubSeq(w, 5, 8), tv.T)
    \/ /\ tv.op = "seed_rows"
       /\ tv' = RowsVec(tv.n, tv.T)
Spec == Init /\ [][Next]_tv

(* ------------------------------ what TLC proves ------------------------------ *)
(* one row, one derivative order: e is the value every characterisation must give *)
RowLaw(p, T, t, m, e) ==
    LET P == RV(p)
        D == DerivCP(P, T, m)                    \* control points of the m-th derivative curve
    IN /\ RNorm(e)
       /\ e = MonoD(Mono(P), T, t, m)            \* power rule on the monomial form of the curve
       /\ e = DeCasteljau(D, T, t)               \* implementation-shaped evaluation of the derivative curve
       /\ e = Bern(D, T, t)                      \* Bernstein polynomial of the derivative control points
       /\ e = MonoD(Mono(D), T, t, 0)            \* monomial form of the derivative curve
       /\ Len(D) = Len(p) - m
       /\ (t = R0 => e = D[1])                   \* end-point interpolation
       /\ (t = T => e = D[Len(D)])
(* consecutive outputs are mutual time derivatives: e[m+2] = d/dt of the curve whose value is e[m+1] *)
ConsecLaw(p, T, t, e) ==
    \A m1 \in 1..(Len(e) - 1) : e[m1 + 1] = MonoD(Mono(DerivCP(RV(p), T, m1 - 1)), T, t, 1)
RowsLaw(p, T, t, e) == /\ \A m1 \in 1..Len(e) : RowLaw(p, T, t, m1 - 1, e[m1])
                       /\ ConsecLaw(p, T, t, e)

EvalLaw  == tv.op = "eval" => /\ tv.m <= tv.n /\ tv.dim = Len(tv.P) /\ tv.T[1] > 0
                              /\ \A r \in 1..tv.dim : /\ Len(tv.P[r]) = tv.n + 1
                                                      /\ (tv.n <= 7 => RowLaw(tv.P[r], tv.T, tv.t, tv.m, tv.exp[r]))
                                                      /\ (tv.n > 7 => RNorm(tv.exp[r]) /\ tv.m = 0)
TrajLaw  == tv.op = "traj" => /\ Len(tv.P) = tv.n + 1 /\ Len(tv.exp) = (IF tv.n = 3 THEN 3 ELSE 5)
                              /\ RowsLaw(tv.P, tv.T, tv.t, tv.exp)
MultiLaw == tv.op = "multirotor" =>
               /\ Len(tv.x) = 5 /\ Len(tv.y) = 5 /\ Len(tv.z) = 5 /\ Len(tv.psi) = 3
               /\ RowsLaw(tv.PX, tv.T, tv.t, tv.x) /\ RowsLaw(tv.PY, tv.T, tv.t, tv.y)
               /\ RowsLaw(tv.PZ, tv.T, tv.t, tv.z) /\ RowsLaw(tv.Ppsi, tv.T, tv.t, tv.psi)

(* the Hermite control points meet every boundary condition through the spec's own eval/deriv *)
SolveLaw == tv.op = "solve" =>
    LET K == NBC(tv.n)
        P == tv.P
        T == tv.T
        c == Mono(P)
        M == BCM(tv.n, T)
    IN /\ Len(P) = tv.n + 1 /\ Len(tv.w0) = K /\ Len(tv.w1) = K
       /\ \A k \in 1..(tv.n + 1) : RNorm(P[k])
       /\ \A m1 \in 1..K :
            LET D  == DerivCP(P, T, m1 - 1)
                b0 == RI(tv.w0[m1])
                b1 == RI(tv.w1[m1])
            IN /\ DeCasteljau(D, T, R0) = b0 /\ DeCasteljau(D, T, T) = b1
               /\ Bern(D, T, R0) = b0        /\ Bern(D, T, T) = b1
               /\ MonoD(c, T, R0, m1 - 1) = b0 /\ MonoD(c, T, T, m1 - 1) = b1
               /\ RDot(M[m1], P) = b0        /\ RDot(M[K + m1], P) = b1      \* the functionals the harness applies

(* the boundary-functional matrix: each entry is the boundary value of a Bernstein basis curve
   (by linearity that fixes the functional), and M is block-triangular with non-zero diagonal,
   so the boundary-value problem has exactly one solution (the Hermite control points)   *)
BCLaw == tv.op = "bcrows" =>
    LET n == tv.n  K == NBC(tv.n)  T == tv.T  M == tv.M IN
    /\ Len(M) = n + 1
    /\ \A e \in {0, 1}, m1 \in 1..K, k \in 1..(n + 1) :
          LET u  == RV(UnitP(n, k))
              te == IF e = 0 THEN R0 ELSE T
          IN /\ M[e * K + m1][k] = DeCasteljau(DerivCP(u, T, m1 - 1), T, te)
             /\ M[e * K + m1][k] = MonoD(Mono(u), T, te, m1 - 1)
    /\ \A m1 \in 1..K : /\ M[m1][m1] # R0 /\ \A k \in (m1 + 1)..(n + 1) : M[m1][k] = R0
                        /\ M[K + m1][n + 2 - m1] # R0 /\ \A k \in 1..(n + 1 - m1) : M[K + m1][k] = R0
=============================================================================
