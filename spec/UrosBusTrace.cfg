SPECIFICATION TraceSpec
CONSTANTS
  NS <- TrNS
  Topics <- TrTopics
  UserTypes = {"A", "B", "Imu", "Mag", "Attitude", "EstimatorStatus"}
  BadTypes = {"X"}
  ParamNames <- TrParams
  Vals <- TrInt
  LdtVals <- TrNatSet
  LDT0 = 640
  Procs <- TrProcs
  ProcTopics <- TrAll
  ProcParams <- TrAllP
  FreeNodes = TRUE
  Delays <- TrNat
  Offsets <- TrNone
  MaxPub = 1000000
  Horizon = 2000000000
  Budgets <- TrNatSet
  Kinds = {"sink", "relay", "follower", "free"}
  Acyclic = FALSE
  DueFirst = FALSE
  PostRunSetup = TRUE
  Phased = FALSE
  DefVals <- TrInt
  Sparse = FALSE
INVARIANTS ExactlyOnce NoStrangers InOrderUnlessReentrant StackOK ParamsSeen ParamsSeenRunning RowsOK
PROPERTIES TimeOK Rejected WrongType LockRespected
CONSTRAINT Track
POSTCONDITION Accepted
CHECK_DEADLOCK FALSE
