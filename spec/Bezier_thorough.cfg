SPECIFICATION Spec
CONSTANT Tier = "thorough"
INVARIANTS EvalLaw TrajLaw MultiLaw SolveLaw BCLaw
CHECK_DEADLOCK FALSE
