------------------------------- MODULE LieChain -------------------------------
(* C01 / C07 -- behaviours: a caller session that feeds results back in.

   Three registers hold elements of one group family; actions are the public operations
   (product, inverse, for SO(3) also re-representation).  TLC (-simulate) produces behaviours;
   the harness performs the same calls on real cyecca elements, FEEDING THE CODE'S OWN OUTPUTS
   BACK IN, and compares the matrix of every register with the exact element after every
   action.  This exercises what one-step vectors cannot: representative drift along chains
   (quaternion sign, MRP shadow switching, Euler wrap), accumulation, mixed conversions.
   The invariant below (matrix semantics of the whole history) is what TLC checks on the way:
   every register equals the exact matrix product of the factors that produced it.        *)
EXTENDS LieCalc
VARIABLES reg, last, hist            \* hist[k] = exact matrix (reduced) computed by MATRIX products only

Fams == 1..10
QCh == { <<1,1,0,0>>, <<-1,0,1,1>>, <<1,1,1,1>>, <<0,0,1,0>>, <<2,1,0,-1>>, <<-1,-1,1,0>>, <<1,0,0,-1>>, <<0,1,1,0>> }
Start(k) == CASE k \in 1..4 -> SO3Set(CASE k = 1 -> "quat" [] k = 2 -> "mrp" [] k = 3 -> "dcm" [] k = 4 -> "euler", QCh)
              [] k = 5 -> SE3Set("quat", QTri, TTri)
              [] k = 6 -> SE3Set("mrp", QTri, TTri)
              [] k = 7 -> SE23Set("quat", QTri, TTri)
              [] k = 8 -> SE23Set("mrp", QTri, TTri)
              [] k = 9 -> SE2Set(CTri, {<<1,0>>, <<-2,1>>})
              [] k = 10 -> ProdSet(2)
(* registers 2 and 3 start from a handful of elements (initial-state generation is sequential in TLC);
   the random walk provides the variety *)
Few(X) == CASE X.g = "SO3" -> X.q \in {<<1,1,0,0>>, <<-1,0,1,1>>, <<0,1,1,0>>}
            [] X.g = "SE3" -> X.q \in {<<1,1,0,0>>, <<-1,0,1,1>>} /\ X.p = <<1,-2,0>> /\ X.pd = 2
            [] X.g = "SE23" -> X.q \in {<<1,1,0,0>>, <<-1,0,1,1>>} /\ X.p = <<1,-2,0>> /\ X.v = <<1,1,3>>
            [] X.g = "SE2" -> X.cs \in {<<3,4,5>>, <<-4,-3,5>>} /\ X.p = <<-2,1>> /\ X.pd = 2
            [] X.g = "Prod" -> X.fs[1].q \in {<<1,1,0,0>>, <<-1,1,1,0>>} /\ X.fs[2].x = <<3,1,1>>
Small(X) == CASE X.g = "SO3" -> QNorm(X.q) <= 20000
              [] X.g = "SE3" -> QNorm(X.q) <= 30 /\ X.pd <= 60 /\ \A i \in 1..3 : Abs(X.p[i]) <= 300
              [] X.g = "SE23" -> QNorm(X.q) <= 30 /\ X.pd <= 60 /\ \A i \in 1..3 : Abs(X.p[i]) <= 300 /\ Abs(X.v[i]) <= 300
              [] X.g = "SE2" -> X.cs[3] <= 200 /\ X.pd <= 200 /\ Abs(X.p[1]) <= 2000 /\ Abs(X.p[2]) <= 2000
              [] X.g = "Prod" -> \A i \in 1..Len(X.fs) : (IF X.fs[i].g = "SO3" THEN QNorm(X.fs[i].q) <= 2000 ELSE TRUE)   \* (IF, not \/: inside an action TLC explores both disjuncts)
(* MRP registers: the CODE's representative decides which products are singular.  A conversion into MRP
   always returns the non-shadow MRP (w >= 0), so the abstract element is re-signed accordingly; half
   turns (w = 0: |r| = 1, either sign) are kept out of MRP registers because the sign the code picks is
   not determined by the rotation (false alarm of the first version: a 360-degree singular product was
   hit by the code's representative while the spec's opposite sign predicted a regular one)            *)
MrpDet(X) == IF X.g \in {"SO3", "SE3", "SE23"} THEN (X.rep = "mrp" => X.q[1] # 0) ELSE TRUE
SameRep(X, Y) == IF X.g \in {"SO3", "SE3", "SE23"} THEN X.rep = Y.rep ELSE TRUE

InitCh == /\ tv = 0
          /\ \E k \in Fams : \E a \in Start(k), b \in { X \in Start(k) : Few(X) }, c \in { X \in Start(k) : Few(X) } :
                /\ Valid(a) /\ Valid(b) /\ Valid(c) /\ MrpDet(a) /\ MrpDet(b) /\ MrpDet(c)
                /\ reg = <<a, b, c>> /\ hist = <<RMRed(Mat(a)), RMRed(Mat(b)), RMRed(Mat(c))>>
                /\ last = [op |-> "init", fam |-> k]
Mul(i, j, k) == SameRep(reg[i], reg[j]) /\ \E Z \in {Norm(Prod(reg[i], reg[j]))} :
   /\ Valid(Z) /\ Small(Z) /\ MrpDet(Z)
   /\ reg' = [reg EXCEPT ![k] = Z]
   /\ hist' = [hist EXCEPT ![k] = RMMul(hist[i], hist[j])]
   /\ last' = [op |-> "mul", i |-> i, j |-> j, k |-> k]
InvA(i, k) == \E Z \in {Norm(Inv(reg[i]))} :
   /\ Valid(Z) /\ Small(Z) /\ MrpDet(Z)
   /\ reg' = [reg EXCEPT ![k] = Z]
   /\ hist' = [hist EXCEPT ![k] = RMRed(Mat(Z))]          \* checked to be the matrix inverse by InvHist
   /\ last' = [op |-> "inv", i |-> i, k |-> k]
Conv(i, rep) == /\ reg[i].g = "SO3" /\ reg[i].rep # rep
                /\ \E Z \in {[reg[i] EXCEPT !.rep = rep, !.q = IF rep = "mrp" /\ reg[i].q[1] < 0 THEN QNeg(reg[i].q) ELSE reg[i].q]} :
                      Valid(Z) /\ MrpDet(Z)
                      /\ reg' = [reg EXCEPT ![i] = Z] /\ UNCHANGED hist
                      /\ last' = [op |-> "conv", i |-> i, rep |-> rep]
NextCh == UNCHANGED tv /\
   \/ \E i \in 1..3, j \in 1..3, k \in 1..3 : Mul(i, j, k)
   \/ \E i \in 1..3, k \in 1..3 : InvA(i, k)
   \/ \E i \in 1..3, rep \in Reps3 : Conv(i, rep)
SpecCh == InitCh /\ [][NextCh]_<<tv, reg, last, hist>>

(* the parameter-level element in each register has the matrix obtained by matrix products *)
MatSem == \A k \in 1..3 : RMRed(Mat(reg[k])) = hist[k]
InvHist == last.op = "inv" => RMIsIdent(RMMul(hist[last.k], RMRed(Mat(reg[last.i]))))
                              \/ last.i = last.k          \* (source overwritten: nothing left to multiply with)
=============================================================================
