SPECIFICATION Spec
CONSTANT Tier = "thorough"
INVARIANT BoxOK
CHECK_DEADLOCK FALSE
