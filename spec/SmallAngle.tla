------------------------------ MODULE SmallAngle ------------------------------
(* C06 -- small-angle handling: finite at zero, within 1e-9 of the exact value from 0 through
   the internal Taylor/closed-form switch up to 1 rad, differentiable at and around zero.

   Three regimes cover every magnitude with numbers that fit TLC's integers:
   (R2) half-angle lattice SALat: for six axes, both integer neighbours m of EVERY switch of
        every coefficient (theta = 1e-3, theta/2 = 1e-3, theta^2 = 1e-3, theta^2/4 = 1e-3,
        |mrp|^2 = 1e-3) plus a logarithmic ladder theta = 1 rad ... 2e-4 rad.  The expected
        values are the exact closed forms of ExpLog / Jacobians (the same test-vector records,
        so the same replay code is used), i.e. the 1e-9 bound is checked on BOTH sides of each
        switch and therefore no jump larger than 2e-9 can hide there;
   (R1) dyadic vectors x = 2^-k u, |x| <= 2^-12: second-order Maclaurin enclosure
        |f(x) - f2(x)| <= |x|^3  with  exp: I + X + X^2/2,  J_l: I + X/2 + X^2/6,
        J_l^-1: I - X/2 + X^2/12 (J_r: X -> -X), log(exp x) = x -- a sound interval oracle
        that needs no transcendental value, down to denormals;
   (R0) exactly zero: exact values.
   Linearisation: D exp(0)[e_i] = generator E_i (Adjoint!Wedge), J(0) = I.              *)
EXTENDS Jacobians

SALat == { <<2,-1,1,1>>, <<2,0,0,1>>, <<2,0,1,0>>, <<2,1,0,0>>, <<2,1,1,0>>, <<2,1,2,2>>, <<3,-1,1,1>>, <<3,0,0,1>>,
           <<3,0,1,0>>, <<3,1,0,0>>, <<3,1,1,0>>, <<3,1,2,2>>, <<5,-1,1,1>>, <<5,0,0,1>>, <<5,0,1,0>>, <<5,1,0,0>>,
           <<5,1,1,0>>, <<5,1,2,2>>, <<8,-1,1,1>>, <<8,0,0,1>>, <<8,0,1,0>>, <<8,1,0,0>>, <<8,1,1,0>>, <<8,1,2,2>>,
           <<15,0,0,1>>, <<15,0,1,0>>, <<15,1,0,0>>, <<16,-1,1,1>>, <<16,0,0,1>>, <<16,0,1,0>>, <<16,1,0,0>>, <<16,1,1,0>>,
           <<16,1,2,2>>, <<22,1,1,0>>, <<23,1,1,0>>, <<27,-1,1,1>>, <<28,-1,1,1>>, <<31,0,0,1>>, <<31,0,1,0>>, <<31,1,0,0>>,
           <<32,0,0,1>>, <<32,0,1,0>>, <<32,1,0,0>>, <<44,1,1,0>>, <<45,1,1,0>>, <<47,1,2,2>>, <<48,1,2,2>>, <<54,-1,1,1>>,
           <<55,-1,1,1>>, <<63,0,0,1>>, <<63,0,1,0>>, <<63,1,0,0>>, <<64,0,0,1>>, <<64,0,1,0>>, <<64,1,0,0>>, <<89,1,1,0>>,
           <<90,1,1,0>>, <<94,1,2,2>>, <<95,1,2,2>>, <<109,-1,1,1>>, <<110,-1,1,1>>, <<125,-1,1,1>>, <<125,0,0,1>>, <<125,0,1,0>>,
           <<125,1,0,0>>, <<125,1,1,0>>, <<125,1,2,2>>, <<189,1,2,2>>, <<190,1,2,2>>, <<500,-1,1,1>>, <<500,0,0,1>>, <<500,0,1,0>>,
           <<500,1,0,0>>, <<500,1,1,0>>, <<500,1,2,2>>, <<999,0,0,1>>, <<999,0,1,0>>, <<999,1,0,0>>, <<1000,0,0,1>>, <<1000,0,1,0>>,
           <<1000,1,0,0>>, <<1414,1,1,0>>, <<1415,1,1,0>>, <<1732,-1,1,1>>, <<1733,-1,1,1>>, <<1999,0,0,1>>, <<1999,0,1,0>>, <<1999,1,0,0>>,
           <<2000,0,0,1>>, <<2000,0,1,0>>, <<2000,1,0,0>>, <<2828,1,1,0>>, <<2829,1,1,0>>, <<2999,1,2,2>>, <<3000,1,2,2>>, <<3464,-1,1,1>>,
           <<3465,-1,1,1>>, <<5999,1,2,2>>, <<6000,1,2,2>>, <<10000,-1,1,1>>, <<10000,0,0,1>>, <<10000,0,1,0>>, <<10000,1,0,0>>, <<10000,1,1,0>>,
           <<10000,1,2,2>> }


Ks  == {12, 20, 40, 100, 300, 511, 515, 520, 530, 537, 700, 1000, 1022, 1060, 1074}   \* 511..537: theta^2 = 2^-2k is subnormal (1/theta^2 overflows)
Us  == { <<1,0,0>>, <<0,1,0>>, <<1,-1,1>>, <<3,-2,1>> }


InitS == /\ dummy = 0
         /\ \/ \E h \in SALat : tv = [op |-> "seeds", h |-> h]
            \/ tv = [op |-> "seedr"]
NextS == UNCHANGED dummy /\
  \/ /\ tv.op = "seeds"
     /\ LET h == tv.h cell == "small" IN
        \/ \E rep \in Reps3 : tv' = [op |-> "exp_so3", rep |-> rep, h |-> h, cell |-> cell, exp |-> RM(QMat(h), QNorm(h))]
        \/ \E rep \in Reps3 : tv' = [op |-> "log_so3", rep |-> rep, h |-> h, hp |-> h, cell |-> cell]
        \/ \E rep \in Reps2, rho \in {<<3,1,-1>>} :
              tv' = [op |-> "exp_se3_gen", rep |-> rep, h |-> h, rho |-> rho, cell |-> cell, p |-> GenP(h, rho),
                     exp |-> RM(QMat(h), QNorm(h))]
        \/ \E rep \in Reps2, r1 \in {<<3,1,-1>>}, r2 \in {<<0,-2,1>>} :
              tv' = [op |-> "exp_se23_gen", rep |-> rep, h |-> h, rho |-> r1, rho2 |-> r2, cell |-> cell,
                     p |-> GenP(h, r1), p2 |-> GenP(h, r2), exp |-> RM(QMat(h), QNorm(h))]
        \/ \E rep \in Reps2, p \in {<<3,1,-1>>} :
              tv' = [op |-> "log_se3", rep |-> rep, h |-> h, hp |-> h, p |-> p, cell |-> cell, u |-> GenU(h, p)]
        \/ \E rep \in Reps2, p \in {<<3,1,-1>>}, p2 \in {<<1,1,1>>} :
              tv' = [op |-> "log_se23", rep |-> rep, h |-> h, hp |-> h, p |-> p, p2 |-> p2, cell |-> cell,
                     u |-> GenU(h, p), u2 |-> GenU(h, p2)]
        \/ tv' = [op |-> "jac_so3", h |-> h, cell |-> cell, nV0 |-> nV0(h), NV1 |-> NV1(h), NV1r |-> NV1r(h),
                  W1 |-> W1x2n(h), W1r |-> W1rx2n(h), n |-> nOf(h), N |-> QNorm(h)]
        \/ /\ QNorm(h) <= 4100
           /\ \E alpha \in {1}, y \in {<<0,-2,1>>} :
              \E E \in {ScrewSE3("quat", h, 1, alpha, y)}, Em \in {ScrewSE3("quat", h, -1, alpha, y)} :
              tv' = [op |-> "jac_se3", h |-> h, alpha |-> alpha, y |-> y, cell |-> cell,
                     xi1 |-> Xi1_se3(h, alpha), xi0 |-> Xi0_se3(h, y), k2 |-> K2_se3(h),
                     ad1 |-> adm("se3", Xi1_se3(h, alpha)), ad0 |-> adm("se3", Xi0_se3(h, y)),
                     AdE |-> AdClosed(E), AdEm |-> AdClosed(Em)]
        \/ /\ QNorm(h) <= 4100
           /\ \E y1 \in {<<0,-2,1>>}, y2 \in {<<1,1,3>>} :
              \E E \in {ScrewSE23("quat", h, 1, 1, y1, -2, y2)}, Em \in {ScrewSE23("quat", h, -1, 1, y1, -2, y2)} :
              tv' = [op |-> "jac_se23", h |-> h, a1 |-> 1, y1 |-> y1, a2 |-> -2, y2 |-> y2, cell |-> cell,
                     xi1 |-> Xi1_se23(h, 1, -2), xi0 |-> Xi0_se23(h, y1, y2), k2 |-> K2_se23(h), k3 |-> K3_se23(h),
                     ad1 |-> adm("se23", Xi1_se23(h, 1, -2)), ad0 |-> adm("se23", Xi0_se23(h, y1, y2)),
                     AdE |-> AdClosed(E), AdEm |-> AdClosed(Em)]
        \/ \E rho \in {<<3,1,-1>>} :
              tv' = [op |-> "jac_se3_gen", h |-> h, rho |-> rho, p |-> GenP(h, rho), cell |-> cell, exp |-> RM(QMat(h), QNorm(h))]
        \/ \E r1 \in {<<3,1,-1>>}, r2 \in {<<0,-2,1>>} :
              tv' = [op |-> "jac_se23_gen", h |-> h, rho |-> r1, rho2 |-> r2, p |-> GenP(h, r1), p2 |-> GenP(h, r2), cell |-> cell,
                     exp |-> RM(QMat(h), QNorm(h))]
        (* AD: d/dx_i to_Matrix(exp x) = [J_l e_i]x R  with the exact symbolic J_l *)
        \/ tv' = [op |-> "ad_so3", h |-> h, cell |-> cell, nV0 |-> nV0(h), NV1 |-> NV1(h), n |-> nOf(h), N |-> QNorm(h),
                  exp |-> RM(QMat(h), QNorm(h))]
  \/ /\ tv.op = "seedr"
     /\ \/ \E k \in Ks, u \in Us : tv' = [op |-> "dyadic", k |-> k, u |-> u, U |-> Hat(u), U2 |-> M3Mul(Hat(u), Hat(u)), nu |-> NormSq(u)]
        \/ tv' = [op |-> "zero"]
        (* arguments EXACTLY on a switch: theta^2 = 1/1000 (and 4/1000, where theta^2/4 is on it) as vectors n/100 whose
           squared norm is exactly the threshold also in double arithmetic (0.03^2 + 0.01^2 == 0.001), planar angle 1/1000;
           the second-order enclosure of regime R1 still separates a dropped coefficient (error >= 1e-2) from the truth *)
        \/ \E xn \in {<<3,1,0>>, <<0,-3,1>>, <<-1,0,3>>, <<6,2,0>>, <<0,-2,6>>}, sg \in {1, -1} :
              tv' = [op |-> "switchx", xn |-> xn, xd |-> 100, tn |-> sg, td |-> 1000, U |-> Hat(xn), U2 |-> M3Mul(Hat(xn), Hat(xn)), nu |-> NormSq(xn)]
        (* SE(2): theta = atan2(+-2m, m^2-1) = +-2 atan(1/m): both signs, both neighbours of the
           theta = 1e-3 switch of the plain (non-squared) series, ladder up to 0.93 rad *)
        \/ \E m \in {2, 3, 5, 8, 16, 125, 1999, 2000, 2001, 10000}, sg \in {1, -1}, rho \in {<<3,-1>>} :
              LET cs == <<m * m - 1, sg * 2 * m, m * m + 1>> IN
              \/ tv' = [op |-> "exp_se2", cs |-> cs, rho |-> rho, vr |-> SE2V(cs, rho), exp |-> RM(CMat(cs), cs[3])]
              \/ tv' = [op |-> "log_se2", cs |-> cs, p |-> rho, ur |-> SE2U(cs, rho)]
        \/ \E kind \in {"so3", "se3", "se23", "se2"} :
              tv' = [op |-> "lin0", kind |-> kind,
                     gens |-> [i \in 1..Dim(kind, 0) |-> Wedge(kind, Unit(Dim(kind, 0), i))]]
SpecS == InitS /\ [][NextS]_<<tv, dummy>>

(* what TLC proves: the closed forms used as expectations satisfy their characterisations on this
   lattice too (where the numbers fit), and the second-order polynomials are consistent:
   (I + X/2 + X^2/6)(I - X/2 + X^2/12) = I + O(X^3)  <=>  the X and X^2 coefficients vanish       *)
SmallLaws == tv.op = "jac_so3" /\ QNorm(tv.h) <= 2000 => VLaws(tv.h) /\ JlRJr(tv.h)
OnSwitch == tv.op = "switchx" => (1000 * tv.nu = tv.xd * tv.xd \/ 1000 * tv.nu = 4 * tv.xd * tv.xd) /\ tv.td = 1000 /\ tv.tn \in {1, -1}
Poly2 == tv.op \in {"dyadic", "switchx"} =>
   /\ tv.U2 = M3Mul(tv.U, tv.U)
   /\ M3Mul(tv.U2, tv.U) = MScale(-tv.nu, tv.U)               \* X^3 = -|x|^2 X : the series are series in theta^2
=============================================================================
