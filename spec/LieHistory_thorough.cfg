SPECIFICATION Spec
CONSTANT Tier = "thorough"
INVARIANTS H1 H2 H3 FirstSeen
CHECK_DEADLOCK FALSE
