SPECIFICATION Spec
CONSTANT Tier = "thorough"
INVARIANTS H1 H2 H3 H4 FirstSeen
CHECK_DEADLOCK FALSE
