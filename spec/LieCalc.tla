------------------------------- MODULE LieCalc -------------------------------
(* C01 -- group axioms under the matrix representation.

   A caller session reduced to its essence: pick elements from exact lattices, apply one
   public operation; the state `tv` is the engine-A test vector: operation, operands and the
   exact expected MATRIX of the result (always computed through matrix semantics:
   product of the operands' matrices).  TLC additionally proves, on every state, that the
   textbook parameter-level formulas (LieGroups!Prod/Inv/IdOf) agree with the matrix
   semantics (homomorphism, inverse, identity, associativity).

   Two-level enumeration (seed X in Init, partner expansion in Next) so that the workers
   share the load.                                                                       *)
EXTENDS LieGroups, TLC
CONSTANTS Tier        \* "quick" | "thorough"
VARIABLE tv

(* ------------------------------ lattices ------------------------------------------- *)
QL1   == QLat(1)                                                \* 80 signed quaternions: 0,90,109.5,120,180 deg
QL2   == { q \in QLat(2) : Primitive(q) }                       \* 544 primitive ones
QSel  == { <<1,0,0,0>>, <<-1,0,0,0>>, <<1,1,0,0>>, <<0,1,0,0>>, <<1,1,1,1>>, <<-1,1,1,0>>, <<2,1,0,-1>>,
           <<0,1,1,0>>, <<1,-2,2,0>>, <<-2,0,1,1>>, <<1,0,0,2>>, <<1,0,1,0>> }
QSel8 == { <<1,0,0,0>>, <<-1,1,0,0>>, <<0,1,0,0>>, <<1,1,1,1>>, <<-1,1,1,0>>, <<2,1,0,-1>>, <<0,1,1,0>>, <<1,-2,2,0>> }
TSel4 == { <<0,0,0>>, <<0,-2,1>>, <<3,1,-1>>, <<1,1,1>> }
QTri  == { <<1,1,0,0>>, <<0,0,1,0>>, <<1,1,1,1>>, <<-1,0,1,1>>, <<2,1,0,-1>> }
TSel  == { <<0,0,0>>, <<1,0,0>>, <<0,-2,1>>, <<3,1,-1>>, <<-1,2,2>>, <<1,1,1>> }
TTri  == { <<0,0,0>>, <<1,-2,0>>, <<1,1,3>> }
T2Sel == { <<0,0>>, <<1,0>>, <<-2,1>>, <<3,-1>>, <<1,1>>, <<0,-3>> }
CSel  == { <<1,0,1>>, <<0,1,1>>, <<-1,0,1>>, <<0,-1,1>>, <<3,4,5>>, <<4,3,5>>, <<-3,4,5>>, <<3,-4,5>>,
           <<-4,-3,5>>, <<5,12,13>>, <<-12,5,13>>, <<8,-15,17>> }
CTri  == { <<0,1,1>>, <<3,4,5>>, <<-4,-3,5>>, <<5,-12,13>> }
PDs   == {1, 2}
Reps3 == {"quat", "mrp", "dcm", "euler"}
Reps2 == {"quat", "mrp"}

SO3Set(rep, Qs) == { [g |-> "SO3", rep |-> rep, q |-> q] : q \in Qs }
SE3Set(rep, Qs, Ts) == { [g |-> "SE3", rep |-> rep, q |-> q, p |-> p, pd |-> pd] : q \in Qs, p \in Ts, pd \in PDs }
SE23Set(rep, Qs, Ts) == { [g |-> "SE23", rep |-> rep, q |-> q, p |-> p, v |-> v, pd |-> 2] : q \in Qs, p \in Ts, v \in Ts }
SO2Set(Cs) == { [g |-> "SO2", cs |-> c] : c \in Cs }
SE2Set(Cs, Ts) == { [g |-> "SE2", cs |-> c, p |-> p, pd |-> pd] : c \in Cs, p \in Ts, pd \in PDs }
RnSet(Xs) == { [g |-> "Rn", x |-> x, pd |-> 2] : x \in Xs }
R3Small == { <<0,0,0>>, <<1,0,-2>>, <<3,1,1>> }
R2Small == { <<0,0>>, <<1,-2>>, <<3,1>> }
QP == { <<1,0,0,0>>, <<1,1,0,0>>, <<-1,1,1,0>>, <<0,1,2,-2>> }
(* direct products built with `*`: SO2 x R2, SO3Quat x R3, SE2 x SO3Mrp x R3, SE3Mrp x SO3Euler *)
ProdSet(k) ==
  CASE k = 1 -> { [g |-> "Prod", fs |-> <<a, b>>] : a \in SO2Set(CTri), b \in RnSet(R2Small) }
    [] k = 2 -> { [g |-> "Prod", fs |-> <<a, b>>] : a \in SO3Set("quat", QP), b \in RnSet(R3Small) }
    [] k = 3 -> { [g |-> "Prod", fs |-> <<a, b, c>>] : a \in SE2Set({<<3,4,5>>, <<0,-1,1>>}, {<<1,-2>>}),
                                                      b \in SO3Set("mrp", {<<1,1,0,0>>, <<-1,0,1,1>>}), c \in RnSet({<<1,0,-2>>}) }
    [] k = 4 -> { [g |-> "Prod", fs |-> <<a, b>>] : a \in SE3Set("mrp", {<<1,1,1,1>>, <<0,1,0,0>>}, {<<1,-2,0>>}),
                                                    b \in SO3Set("euler", {<<1,1,0,0>>, <<2,1,0,-1>>, <<1,0,0,2>>}) }
    (* products whose factors are instances of the SAME class in different representations (SE3Quat / SE3Mrp):
       anything remembered per "kind of product" instead of per product object collides between them *)
    [] k = 5 -> { [g |-> "Prod", fs |-> <<a, b>>] : a \in SE3Set("quat", {<<1,1,0,0>>, <<-1,0,1,1>>}, {<<1,-2,0>>}), b \in RnSet(R3Small) }
    [] k = 6 -> { [g |-> "Prod", fs |-> <<a, b>>] : a \in SE3Set("mrp",  {<<1,1,0,0>>, <<2,0,1,-1>>}, {<<1,-2,0>>}), b \in RnSet(R3Small) }
    [] k = 7 -> { [g |-> "Prod", fs |-> <<a, b>>] : a \in SE3Set("quat", {<<1,1,0,0>>}, {<<1,-2,0>>}), b \in SE3Set("mrp", {<<2,0,1,-1>>}, {<<3,1,1>>}) }
    [] k = 8 -> { [g |-> "Prod", fs |-> <<a, b>>] : a \in SE3Set("mrp", {<<2,0,1,-1>>}, {<<3,1,1>>}), b \in SE3Set("quat", {<<1,1,0,0>>}, {<<1,-2,0>>}) }
    (* the SAME group object more than once, with different values in the repeated factors *)
    [] k = 9  -> { [g |-> "Prod", fs |-> <<a, b>>] : a \in RnSet({<<1,0,-2>>, <<3,1,1>>}), b \in RnSet({<<0,0,0>>, <<-1,2,5>>}) }
    [] k = 10 -> { [g |-> "Prod", fs |-> <<a, b, c>>] : a \in SO2Set({<<3,4,5>>, <<0,-1,1>>}), b \in RnSet(R2Small), c \in SO2Set({<<-4,-3,5>>, <<1,0,1>>}) }

(* families: each family is a set of mutually composable elements *)
Thorough == Tier = "thorough"
(* Euler B321 elements 2e-3 .. 3.3e-3 rad from a gimbal pole, with yaw and roll: OUTSIDE the documented
   1e-3 band, so product / inverse / identity laws hold exactly there (unary vectors only: the
   integers of a product of two such elements do not fit 32 bits) *)
EulerNearPole == { QMul(QMul(z, y), x) : z \in {<<2,0,0,1>>, <<1,0,0,-1>>},
                                          y \in {<<501,0,500,0>>, <<401,0,-400,0>>, <<301,0,300,0>>},
                                          x \in {<<3,1,0,0>>, <<1,-1,0,0>>} }
NFam == 27
Families ==
  [ k \in 1..27 |->
    CASE k = 1  -> SO3Set("quat",  IF Thorough THEN QL2 ELSE QL1)
      [] k = 2  -> SO3Set("mrp",   IF Thorough THEN QL2 ELSE QL1)
      [] k = 3  -> SO3Set("dcm",   IF Thorough THEN QL2 ELSE QL1)
      [] k = 4  -> SO3Set("euler", IF Thorough THEN QL2 ELSE QL1)
      [] k = 5  -> IF Thorough THEN SE3Set("quat", QSel, TSel) ELSE { X \in SE3Set("quat", QSel8, TSel4) : X.pd = 2 }
      [] k = 6  -> IF Thorough THEN SE3Set("mrp",  QSel, TSel) ELSE { X \in SE3Set("mrp",  QSel8, TSel4) : X.pd = 2 }
      [] k = 7  -> SE23Set("quat", IF Thorough THEN QSel ELSE QTri, IF Thorough THEN TSel ELSE TTri)
      [] k = 8  -> SE23Set("mrp",  IF Thorough THEN QSel ELSE QTri, IF Thorough THEN TSel ELSE TTri)
      [] k = 9  -> SO2Set(CSel)
      [] k = 10 -> IF Thorough THEN SE2Set(CSel, T2Sel) ELSE { X \in SE2Set(CSel, {<<0,0>>, <<1,0>>, <<-2,1>>}) : X.pd = 2 }
      [] k = 11 -> RnSet({ <<a, b, c>> : a \in {-3, 0, 1}, b \in {-1, 0, 2}, c \in {-2, 0, 5} })
      [] k = 12 -> RnSet({ <<a, b>> : a \in {-3, 0, 1, 4}, b \in {-1, 0, 2} })
      [] k = 13 -> ProdSet(1)
      [] k = 14 -> ProdSet(2)
      [] k = 15 -> ProdSet(3)
      [] k = 16 -> ProdSet(4)
      [] k = 17 -> SO3Set("euler", EulerNearPole)
      [] k = 18 -> ProdSet(5)
      [] k = 19 -> ProdSet(6)
      [] k = 20 -> ProdSet(7)
      [] k = 21 -> ProdSet(8)
      (* SE(3) / SE_2(3) over the DCM and Euler parameterisations: the classes are generic over the SO(3)
         representation; cyecca.lie only instantiates quaternion and MRP, a user instantiates the others *)
      [] k = 22 -> { X \in SE3Set("dcm", QTri, TTri) : X.pd = 2 }
      [] k = 23 -> { X \in SE3Set("euler", QTri, TTri) : X.pd = 2 }
      [] k = 24 -> SE23Set("dcm", {<<1,1,0,0>>, <<2,1,0,-1>>}, {<<1,-2,0>>, <<3,1,1>>})
      [] k = 25 -> SE23Set("euler", {<<1,1,0,0>>, <<2,1,0,-1>>}, {<<1,-2,0>>, <<3,1,1>>})
      [] k = 26 -> ProdSet(9)
      [] k = 27 -> ProdSet(10) ]
(* small sub-family used for associativity triples *)
TriFamilies ==
  [ k \in 1..27 |->
    CASE k \in 1..4 -> { X \in Families[k] : X.q \in QTri \cup {<<0,1,0,0>>, <<-1,1,0,1>>} }
      [] k \in 5..6 -> { X \in Families[k] : X.q \in QTri /\ X.p \in TTri /\ X.pd = 2 }
      [] k \in 7..8 -> { X \in Families[k] : X.q \in {<<1,1,0,0>>, <<-1,0,1,1>>, <<2,1,0,-1>>} /\ X.p \in TTri /\ X.v \in {<<1,-2,0>>} }
      [] k = 9      -> { X \in Families[k] : X.cs \in CTri }
      [] k = 10     -> { X \in Families[k] : X.cs \in CTri /\ X.p \in {<<1,0>>, <<-2,1>>} /\ X.pd = 2 }
      [] k \in 11..12 -> { X \in Families[k] : X.x[1] # 0 /\ X.x[2] # 0 }
      [] OTHER -> { X \in Families[k] : TRUE } ]

(* ------------------------------ normal forms (keep integers small) ------------------ *)
GcdV(v) == IF Len(v) = 2 THEN Gcd(v[1], v[2]) ELSE Gcd(Gcd(v[1], v[2]), v[3])
QRed(q) == LET d == Gcd(Gcd(q[1], q[2]), Gcd(q[3], q[4])) IN <<q[1] \div d, q[2] \div d, q[3] \div d, q[4] \div d>>
CRed(c) == LET d == Gcd(Gcd(c[1], c[2]), c[3]) IN <<c[1] \div d, c[2] \div d, c[3] \div d>>
VDiv(v, d) == [k \in 1..Len(v) |-> v[k] \div d]
RECURSIVE Norm(_)
Norm(X) ==
  CASE X.g = "SO3"  -> [X EXCEPT !.q = QRed(X.q)]
    [] X.g = "SE3"  -> LET d == Gcd(GcdV(X.p), X.pd) IN [X EXCEPT !.q = QRed(X.q), !.p = VDiv(X.p, d), !.pd = X.pd \div d]
    [] X.g = "SE23" -> LET d == Gcd(Gcd(GcdV(X.p), GcdV(X.v)), X.pd) IN
                       [X EXCEPT !.q = QRed(X.q), !.p = VDiv(X.p, d), !.v = VDiv(X.v, d), !.pd = X.pd \div d]
    [] X.g = "SO2"  -> [X EXCEPT !.cs = CRed(X.cs)]
    [] X.g = "SE2"  -> LET d == Gcd(GcdV(X.p), X.pd) IN [X EXCEPT !.cs = CRed(X.cs), !.p = VDiv(X.p, d), !.pd = X.pd \div d]
    [] X.g = "Rn"   -> LET d == Gcd(GcdV(X.x), X.pd) IN [X EXCEPT !.x = VDiv(X.x, d), !.pd = X.pd \div d]
    [] X.g = "Prod" -> [X EXCEPT !.fs = [k \in 1..Len(X.fs) |-> Norm(X.fs[k])]]

(* does the implementation offer from_Matrix for this group? (others raise NotImplementedError) *)
OffersFromMat(X) == X.g \in {"SO3", "SE23", "SO2", "SE2"}

(* ------------------------------ test vectors ---------------------------------------- *)
V1(op, X, e)       == [op |-> op, a |-> <<X>>, exp |-> e]
V2(op, X, Y, e)    == [op |-> op, a |-> <<X, Y>>, exp |-> e]
V3(op, X, Y, Z, e) == [op |-> op, a |-> <<X, Y, Z>>, exp |-> e]

Init == \E k \in 1..27 : \E X \in Families[k] : Valid(X) /\ tv = [op |-> "seed", a |-> <<X>>, fam |-> k]

Unary(X) ==
   \/ tv' = V1("mat", X, Mat(X))
   \/ Valid(Inv(X)) /\ tv' = V1("inv", X, Mat(Inv(X)))
   \/ tv' = V1("ident", X, Mat(IdOf(X)))                       \* G.identity(), X*id, id*X
   \/ OffersFromMat(X) /\ tv' = V1("frommat", X, Mat(X))
(* building a direct product with `*` is a pure construction: an existing product object that is reused
   as the left operand of further `*` keeps its own factors, dimensions and matrix semantics
   (history quantifier: G = A*B;  G*R2;  G*SO3Quat;  G must still be A*B)                       *)
ProdHist(X, k) == k \in (13..16) \cup (18..21) \cup (26..27) /\ tv' = [op |-> "prodhist", a |-> <<X>>, exp |-> Mat(X), ident |-> Mat(IdOf(X))]
Binary(X, k) == k # 17 /\ \E Y \in Families[k] :
   /\ Valid(Y) /\ Valid(Prod(X, Y))
   /\ tv' = V2("mul", X, Y, RMMul(Mat(X), Mat(Y)))
Ternary(X, k) == k <= 14 /\ X \in TriFamilies[k] /\ \E Y \in TriFamilies[k], Z \in TriFamilies[k] :
   /\ Valid(Y) /\ Valid(Z) /\ Valid(Prod(X, Y)) /\ Valid(Prod(Y, Z)) /\ Valid(Prod(Prod(X, Y), Z))
   /\ tv' = V3("assoc", X, Y, Z, RMMul(RMMul(Mat(X), Mat(Y)), Mat(Z)))
Next == /\ tv.op = "seed"
        /\ LET X == tv.a[1] IN Unary(X) \/ Binary(X, tv.fam) \/ Ternary(X, tv.fam) \/ ProdHist(X, tv.fam)
Spec == Init /\ [][Next]_tv

(* ------------------------------ what TLC proves ------------------------------------- *)
Hom   == tv.op = "mul" => RMEq(Mat(Prod(tv.a[1], tv.a[2])), tv.exp)
Fits32(X) == X.g # "SO3" \/ QNorm(X.q) < 1000        \* (32-bit: the matrix products below must fit)
InvOK == tv.op = "inv" /\ Fits32(tv.a[1]) => LET X == tv.a[1] IN
            /\ RMIsIdent(RMMul(tv.exp, Mat(X))) /\ RMIsIdent(RMMul(Mat(X), tv.exp))
IdOK  == tv.op = "ident" => LET X == tv.a[1] E == IdOf(X) IN
            /\ RMIsIdent(tv.exp)
            /\ Norm(Prod(X, E)) = Norm(X) /\ Norm(Prod(E, X)) = Norm(X)
Assoc == tv.op = "assoc" => LET X == tv.a[1] Y == tv.a[2] Z == tv.a[3] IN
            /\ Norm(Prod(Norm(Prod(X, Y)), Z)) = Norm(Prod(X, Norm(Prod(Y, Z))))
            /\ RMEq(Mat(Norm(Prod(X, Norm(Prod(Y, Z))))), tv.exp)
RotProper == tv.op = "mat" /\ tv.a[1].g \in {"SO3", "SE3", "SE23"} /\ QNorm(tv.a[1].q) < 1000 => Proper(tv.a[1].q)   \* (32-bit: N^3 must fit)
=============================================================================
