------------------------------ MODULE Setpoints ------------------------------
(* C14 -- attitude set-points: exact integer geometry of the thrust-vector frame.

   FRAME.  Demanded force  F = T/den  (T in Z^3, den a power of two), commanded heading a
   Pythagorean point hd = <<c, s, h>> of the unit circle (x_C = (c, s, 0)/h, heading angle
   atan2(s, c)).  Unnormalised body axes -- all integer vectors:
        zt = T,     yt = T x (c, s, 0)   ( = h |F| den * (z_B x x_C) ),     xt = yt x T
   with integer squared norms nz, ny, nx.  The expected attitude is "normalise the columns"
   R = [ xt/sqrt(nx)  yt/sqrt(ny)  zt/sqrt(nz) ]; the harness divides by the square roots
   (the only non-exact step).  What makes this THE frame the property describes is checked
   by TLC on every state (FrameLaws): the three axes are mutually orthogonal, right-handed
   (det [xt yt zt] = nx > 0), zt is T, yt is perpendicular to x_C, nx = ny*nz, and the body
   x axis points to the commanded heading side (xt . x_C = nz h^2 - (T . x_C)^2 >= 0).
   Thrust magnitude^2 = nz / den^2.

   Cells:  "zero"     T = 0
           "tiny"     0 < |F|^2 <= 1e-6           (documented fallback z_W in the controllers)
           "parallel" |z_B x x_C|^2 <= 1e-6       (ny 10^6 <= h^2 nz; yt = 0 when exactly parallel)
           "generic"  everything else.
   Only "generic" carries the alignment clauses; "parallel" demands a finite proper rotation
   with z_B = F/|F|; "zero"/"tiny" demand a finite proper rotation, nothing else.

   The cells are stated on the FORCE.  mr_ref_traj takes the mass as an input, so force and specific force cross the
   1e-6 band at different accelerations unless m = 1; the harness sweeps |g e3 - a| through 1e-8 .. 1e-2 for masses
   0.027 .. 40 kg (mass_band_sweep): a finite proper rotation everywhere, z_B = F/|F| where both m |g e3 - a| and
   |g e3 - a| are above 1e-5 (whichever of the two a guard tests).

   CONTROLLERS (position_control, se23_position_control):
        F = sat(pt + vt + at) + (tr + zi) e3        (everything / den)
   pt, vt, at = the position-, velocity- and feed-forward parts of the PD term (the harness
   divides by the gains kp_pos, kp_vel, m read from the code), tr = trim thrust, zi = the
   integrator contribution ki_z * z_i.  "unsat" vectors have |PD|^2 <= 36 den^2 (the
   saturation radius 0.3 m g = 6.5856 is checked by the harness to lie in (6, 7)), so F = T
   is an exactly known dyadic vector.  "sat" vectors have |PD|^2 >= 49 den^2; the saturated
   force is irrational, so the harness evaluates the saturated formula itself and the spec
   only guarantees the cell (see SatCell).

   FLATNESS (f_ref, mr_ref_traj).  Trajectory p(t) = sum_k co[axis][k] t^k / 10 (k = 2..5;
   lower orders do not matter), evaluated at the rational time t = tn/td.  With the code's
   convention  thrust_e = m (g e3 - a)  (z down) and g = 49/5:
        a = A/(5 td^3),  j = Jn/(5 td^2),  s = Sn/(5 td)          (exact integers A, Jn, Sn)
        u = g e3 - a = U0/(5 td^3),   du/dt = -j = Ud0/(5 td^3),  U0 = 49 td^3 e3 - A,  Ud0 = -Jn td
   reduced by G = gcd of the six components:  U = U0/G, Ud = Ud0/G.  The frame is Frame(U, hd).
   Body rates of the thrust axis z = U/|U|:
        dz/dt = (nz Ud - (U.Ud) U) / nz^(3/2) = W / nz^(3/2),
        a frame with angular velocity  w = p x_b + q y_b + r z_b  has  dz/dt = w x z = -p y_b + q x_b
        ==>  p = -dz/dt . y_b = -(Ud . yt) / sqrt(nz ny),     q = dz/dt . x_b = (Ud . xt) / (nz sqrt(ny))
   (the normalisation terms drop out because yt, xt are perpendicular to U).  Independent
   second derivation, compared by TLC on every state (RateLaws): the world-frame angular
   velocity of the axis is  z x dz/dt = (U x Ud)/nz =: Om/nz  and p, q are its components
   along x_b, y_b:   Om . xt = -nz (Ud . yt)   and   Om . yt = Ud . xt ;   also W . U = 0,
   W . yt = nz (Ud . yt).   Sign convention validated by the harness against a finite
   difference of the code's own attitude output along the trajectory.

   EULER (input_auto_level, eulerB321_to_quat).  Angles are given by axis quaternions
   z0 = (a,0,0,b) (current yaw), zd (yaw increment), y = (c,0,d,0), x = (e,f,0,0); the
   angle is 2 atan2(b, a).  TLC proves (EulLaw) that q = z0 zd y x has the matrix
   Rz(yaw0 + dyaw) Ry(pitch) Rx(roll), so the harness embeds the plain angles.            *)
EXTENDS Rot, TLC
CONSTANT Tier
VARIABLE tv

Thorough == Tier = "thorough"
E3 == <<0, 0, 1>>

(* ------------------------------------------------------------------ frame ------------- *)
XC(hd) == <<hd[1], hd[2], 0>>
Frame(T, hd) ==
    LET yt == Cross(T, XC(hd))
        xt == Cross(yt, T)
    IN [xt |-> xt, yt |-> yt, zt |-> T, nx |-> NormSq(xt), ny |-> NormSq(yt), nz |-> NormSq(T)]

TinyMax(den) == CASE den = 1 -> 0 [] den = 256 -> 0 [] den = 2048 -> 4      \* floor(den^2 / 10^6)
                  [] den = 2097152 -> 4398046
Cell(T, den, hd) ==
    LET nz == NormSq(T) ny == NormSq(Cross(T, XC(hd))) IN
    IF nz = 0 THEN "zero"
    ELSE IF nz <= TinyMax(den) THEN "tiny"
    ELSE IF ny = 0 \/ (ny <= 2000 /\ ny * 1000000 <= hd[3] * hd[3] * nz) THEN "parallel"
    ELSE "generic"

FrameLaws(T, hd, f) ==
    /\ hd[1] * hd[1] + hd[2] * hd[2] = hd[3] * hd[3] /\ hd[3] > 0      \* heading is on the unit circle
    /\ f.zt = T                                                        \* z_B parallel to the demanded force
    /\ Dot(f.xt, f.yt) = 0 /\ Dot(f.yt, f.zt) = 0 /\ Dot(f.xt, f.zt) = 0
    /\ Dot(f.yt, XC(hd)) = 0                                           \* y_B perpendicular to the heading vector
    /\ f.nx = f.ny * f.nz
    /\ Dot(f.xt, Cross(f.yt, f.zt)) = f.nx                             \* det [xt yt zt] = nx
    /\ (f.nx < 10000000 => Det3(MT(<<f.xt, f.yt, f.zt>>)) = f.nx)
    /\ (f.ny > 0 /\ f.nz > 0 => f.nx > 0)                              \* right-handed, non-degenerate
    /\ Dot(f.xt, XC(hd)) = f.nz * hd[3] * hd[3] - Dot(T, XC(hd)) * Dot(T, XC(hd))
    /\ Dot(f.xt, XC(hd)) >= 0                                          \* x_B on the heading side

(* ------------------------------------------------------------------ lattices ---------- *)
HeadQ == { <<1,0,1>>, <<0,1,1>>, <<-1,0,1>>, <<0,-1,1>>, <<3,4,5>>, <<-4,3,5>>, <<4,-3,5>>, <<-5,-12,13>> }
HeadT == HeadQ \cup { <<4,3,5>>, <<-3,-4,5>>, <<3,-4,5>>, <<-3,4,5>>, <<12,5,13>>, <<5,-12,13>>, <<-12,5,13>>,
                      <<8,15,17>>, <<-15,8,17>>, <<15,-8,17>>, <<-8,-15,17>> }
Heads == IF Thorough THEN HeadT ELSE HeadQ
HeadTraj == IF Thorough THEN { <<1,0,1>>, <<0,1,1>>, <<-1,0,1>>, <<0,-1,1>>, <<3,4,5>>, <<-4,3,5>>, <<-3,-4,5>> }
            ELSE { <<1,0,1>>, <<3,4,5>>, <<-4,3,5>>, <<0,-1,1>> }

KF == IF Thorough THEN 3 ELSE 2
Box(K) == ((-K)..K) \X ((-K)..K) \X ((-K)..K)
(* <<T, den>> seeds of the frame lattice *)
FrameSeeds ==
    { <<T, 1>> : T \in Box(KF) }
    \cup { <<T, 2048>> : T \in { <<1,0,0>>, <<0,0,1>>, <<0,-2,0>>, <<1,1,1>>, <<0,0,-2>>,      \* tiny (|F| < 1e-3)
                                 <<2,1,0>>, <<0,0,3>>, <<3,0,0>>, <<1,-2,2>> } }              \* just above
    \cup { <<T, 2097152>> : T \in { <<1,0,0>>, <<0,0,1>>, <<1,2,2>> } }                       \* |F| < 1e-6
    \cup { <<T, 256>> : T \in { <<600,800,1>>, <<600,800,-1>>, <<300,400,1>>, <<1000,0,1>>, <<500,0,-1>>,
                                <<0,-1000,1>>, <<600,800,0>>, <<-600,-800,1>>, <<0,400,1>> } } \* near parallel

(* split of the force into  PD part + k e3  and of the PD part into  pt + vt + at  *)
Split(T, d) ==
    CASE d = 1 -> [pt |-> T, vt |-> <<0,0,0>>, at |-> <<0,0,0>>, tr |-> 0, zi |-> 0]
      [] d = 2 -> [pt |-> <<0,0,0>>, vt |-> <<T[1], T[2], 0>>, at |-> <<0,0,0>>, tr |-> T[3], zi |-> 0]
      [] d = 3 -> [pt |-> <<1, 0, -1>>, vt |-> <<0, -2, 0>>, at |-> <<T[1] - 1, T[2] + 2, 2>>, tr |-> T[3] + 1, zi |-> -2]
      [] d = 4 -> [pt |-> <<0,0,0>>, vt |-> <<0,0,0>>, at |-> <<T[1], T[2], -1>>, tr |-> 0, zi |-> T[3] + 1]
SplitPD(sp) == VAdd(VAdd(sp.pt, sp.vt), sp.at)
SplitT(sp)  == VAdd(SplitPD(sp), VScale(sp.tr + sp.zi, E3))
Unsat(sp, den) == IF den > 2048 THEN TRUE ELSE NormSq(SplitPD(sp)) <= 36 * den * den       \* (IF: no overflow for 2^21)
SizeOk(T, hd) == IF NormSq(T) <= 100 THEN TRUE ELSE NormSq(Cross(T, XC(hd))) <= 2000          \* 32-bit: nx = ny nz must fit
SplitsOf(T, hd) == IF Thorough \/ NormSq(T) > 100 THEN 1..4 ELSE { 1 + ((T[1] + 2 * T[2] + 3 * T[3] + hd[1]) % 4), 3 }

FrameVec(T, den, hd, d) ==
    LET f == Frame(T, hd) sp == Split(T, d) IN
    [op |-> "frame", T |-> T, den |-> den, hd |-> hd, cell |-> Cell(T, den, hd), sat |-> FALSE,
     xt |-> f.xt, yt |-> f.yt, zt |-> f.zt, nx |-> f.nx, ny |-> f.ny, nz |-> f.nz,
     pt |-> sp.pt, vt |-> sp.vt, at |-> sp.at, tr |-> sp.tr, zi |-> sp.zi, w |-> <<0,0,0>>, split |-> d]

(* saturated vectors: PD = P (|P|^2 >= 49), F = 0.3 m g P/|P| + k e3 -- irrational.
   The cell is decided exactly:  k = 0: F is parallel to P, so the cell of P;  k # 0: F x x_C has the
   third component lambda (P1 s - P2 c) with lambda > 0, so P1 s # P2 c guarantees "generic".       *)
SatP == { <<7,0,0>>, <<0,-9,0>>, <<0,0,12>>, <<0,0,-8>>, <<6,8,0>>, <<-6,-8,0>>, <<20,-15,3>>, <<8,9,12>>,
          <<-12,4,-3>>, <<30,40,0>>, <<5,5,5>>, <<-4,-4,7>>, <<100,0,-1>>, <<3,-4,12>> }
SatK == { 0, 22, -5, 3 }
SatOk(P, k, hd) == k = 0 \/ P[1] * hd[2] # P[2] * hd[1]
SatCell(P, k, hd) == IF k = 0 THEN Cell(P, 1, hd) ELSE "generic"
SatVec(P, k, hd, d) ==
    [op |-> "frame", T |-> P, den |-> 1, hd |-> hd, cell |-> SatCell(P, k, hd), sat |-> TRUE,
     pt |-> IF d = 1 THEN P ELSE <<0,0,0>>, vt |-> IF d = 2 THEN P ELSE <<0,0,0>>,
     at |-> IF d = 3 THEN P ELSE <<0,0,0>>, tr |-> IF d = 1 THEN k ELSE 0, zi |-> IF d = 1 THEN 0 ELSE k,
     w |-> <<0,0,0>>, split |-> d]

(* se_2(3) error with a rotation part w/4 (rad): the left-Jacobian gain is not the identity, the
   force is not a lattice point; the harness evaluates the demanded force from the library's own
   Jacobian (that matrix is C05's business) and asserts the frame clauses on it.                  *)
RotW == IF Thorough THEN { <<1,-2,2>>, <<0,0,3>>, <<-2,1,0>> } ELSE { <<1,-2,2>>, <<-2,1,0>> }
RotVec(T, hd, w) == [FrameVec(T, 1, hd, 1) EXCEPT !.w = w, !.cell = "inexact"]

(* ------------------------------------------------------------------ flatness ---------- *)
(* coefficient 4-tuples <<c2, c3, c4, c5>> (units 1/10) *)
CoXY == IF Thorough
        THEN { <<0,0,0,0>>, <<5,0,0,0>>, <<-3,2,0,0>>, <<2,-1,1,0>>, <<0,1,-1,1>>, <<10,-3,0,1>>, <<-6,0,0,0>>,
               <<-8,0,0,0>>, <<-3,0,0,0>>, <<-4,0,0,0>>, <<-20,5,1,-1>> }
        ELSE { <<0,0,0,0>>, <<5,0,0,0>>, <<-3,2,0,0>>, <<2,-1,1,0>>, <<0,1,-1,1>>, <<-6,0,0,0>>, <<-8,0,0,0>> }
CoZ  == IF Thorough
        THEN { <<0,0,0,0>>, <<49,0,0,0>>, <<49,1,0,0>>, <<9,-2,0,0>>, <<-10,0,1,0>>, <<40,3,-1,1>>, <<60,0,0,-1>>, <<25,-4,2,0>> }
        ELSE { <<0,0,0,0>>, <<49,0,0,0>>, <<49,1,0,0>>, <<9,-2,0,0>>, <<40,3,-1,1>> }
Times == IF Thorough THEN { <<0,1>>, <<1,1>>, <<-1,1>>, <<2,1>>, <<-2,1>>, <<1,2>>, <<-1,2>>, <<3,2>> }
         ELSE { <<0,1>>, <<1,1>>, <<-1,1>>, <<2,1>>, <<1,2>> }
(* heading rates <<psidot num, psiddot num, den>> *)
PrSet(t, hd) == IF (t[1] + hd[1]) % 2 = 0 THEN (IF Thorough THEN { <<0,0,1>>, <<-1,1,4>> } ELSE { <<0,0,1>> })
                ELSE (IF Thorough THEN { <<1,-1,2>>, <<2,-3,1>> } ELSE { <<1,-1,2>> })

AccN(c, tn, td) == c[1]*td*td*td + 3*c[2]*tn*td*td + 6*c[3]*tn*tn*td + 10*c[4]*tn*tn*tn      \* a = AccN/(5 td^3)
JrkN(c, tn, td) == 3 * (c[2]*td*td + 4*c[3]*tn*td + 10*c[4]*tn*tn)                           \* j = JrkN/(5 td^2)
SnpN(c, tn, td) == 12 * (c[3]*td + 5*c[4]*tn)                                                \* s = SnpN/(5 td)

Gcd3(v) == Gcd(Gcd(v[1], v[2]), v[3])
TrajData(co, t) ==
    LET tn == t[1] td == t[2]
        A  == <<AccN(co[1], tn, td), AccN(co[2], tn, td), AccN(co[3], tn, td)>>
        Jn == <<JrkN(co[1], tn, td), JrkN(co[2], tn, td), JrkN(co[3], tn, td)>>
        Sn == <<SnpN(co[1], tn, td), SnpN(co[2], tn, td), SnpN(co[3], tn, td)>>
        U0 == VSub(VScale(49 * td * td * td, E3), A)
        Ud0 == VScale(-td, Jn)
        g0 == Gcd(Gcd3(U0), Gcd3(Ud0))
        G  == IF g0 = 0 THEN 1 ELSE g0
    IN [A |-> A, Jn |-> Jn, Sn |-> Sn, G |-> G, D |-> 5 * td * td * td,
        U |-> <<U0[1] \div G, U0[2] \div G, U0[3] \div G>>,
        Ud |-> <<Ud0[1] \div G, Ud0[2] \div G, Ud0[3] \div G>>]
TrajOk(d) == NormSq(d.U) <= 3000 /\ NormSq(d.Ud) <= 40000

TrajVec(co, t, hd, pr, d, f) ==
    [op |-> "traj", co |-> co, t |-> t, hd |-> hd, psir |-> pr, cell |-> Cell(d.U, 1, hd),
     A |-> d.A, Jn |-> d.Jn, Sn |-> d.Sn, G |-> d.G, D |-> d.D, U |-> d.U, Ud |-> d.Ud,
     xt |-> f.xt, yt |-> f.yt, zt |-> f.zt, nx |-> f.nx, ny |-> f.ny, nz |-> f.nz,
     pnum |-> -Dot(d.Ud, f.yt),        \* p = pnum / sqrt(nz ny)
     qnum |-> Dot(d.Ud, f.xt)]         \* q = qnum / (nz sqrt(ny))

RateLaws(U, Ud, f, pnum, qnum) ==
    LET Om == Cross(U, Ud)                                               \* nz * (z x dz/dt)
        W  == VSub(VScale(f.nz, Ud), VScale(Dot(U, Ud), U))              \* nz^(3/2) dz/dt
    IN /\ Dot(W, U) = 0                                                  \* the axis stays a unit vector
       /\ Dot(W, f.yt) = f.nz * Dot(Ud, f.yt)                            \* normalisation drops out
       /\ -Dot(W, f.yt) = f.nz * pnum
       /\ Dot(Om, f.xt) = f.nz * pnum                                    \* p: both derivations agree
       /\ Dot(Om, f.yt) = qnum                                           \* q: both derivations agree
       /\ Dot(Om, U) = 0

(* ------------------------------------------------------------------ Euler ------------- *)
Z0s == { <<1,0,0,0>>, <<2,0,0,1>>, <<1,0,0,1>>, <<0,0,0,1>>, <<1,0,0,-2>>, <<3,0,0,-1>> }
Zds == { <<1,0,0,0>>, <<4,0,0,1>>, <<8,0,0,-1>>, <<2,0,0,1>> }
Ys  == IF Thorough THEN { <<1,0,0,0>>, <<4,0,1,0>>, <<8,0,-1,0>>, <<5,0,1,0>>, <<1,0,1,0>>, <<1,0,-1,0>>, <<3,0,-1,0>> }
       ELSE { <<1,0,0,0>>, <<4,0,1,0>>, <<8,0,-1,0>>, <<1,0,1,0>>, <<3,0,-1,0>> }
Xs  == IF Thorough THEN { <<1,0,0,0>>, <<4,1,0,0>>, <<8,-1,0,0>>, <<5,-1,0,0>>, <<1,1,0,0>>, <<0,1,0,0>>, <<-2,1,0,0>> }
       ELSE { <<1,0,0,0>>, <<4,1,0,0>>, <<8,-1,0,0>>, <<0,1,0,0>>, <<-2,1,0,0>> }
Curs == IF Thorough THEN { << <<1,0,0,0>>, <<1,0,0,0>> >>, << <<5,0,1,0>>, <<4,1,0,0>> >>, << <<3,0,-1,0>>, <<1,1,0,0>> >> }
        ELSE { << <<1,0,0,0>>, <<1,0,0,0>> >>, << <<3,0,-1,0>>, <<1,1,0,0>> >> }                        \* current pitch, roll
EulVec(z0, zd, y, x, cur) ==
    [op |-> "euler", z0 |-> z0, zd |-> zd, y |-> y, x |-> x,
     qcur |-> QMul(QMul(z0, cur[1]), cur[2]),
     q |-> QMul(QMul(QMul(z0, zd), y), x),
     exp |-> [num |-> QMat(QMul(QMul(QMul(z0, zd), y), x)), den |-> QNorm(z0) * QNorm(zd) * QNorm(y) * QNorm(x)],
     cell |-> IF Abs(y[3]) = y[1] THEN "pitch90" ELSE IF 3 * Abs(y[3]) <= y[1] /\ 3 * Abs(x[2]) <= Abs(x[1]) THEN "level" ELSE "steep"]

(* ------------------------------------------------------------------ behaviour --------- *)
Init == \/ \E s \in FrameSeeds : tv = [op |-> "seedF", T |-> s[1], den |-> s[2]]
        \/ \E P \in SatP : tv = [op |-> "seedS", T |-> P]
        \/ \E cx \in CoXY, cy \in CoXY : tv = [op |-> "seedT", cx |-> cx, cy |-> cy]
        \/ \E z0 \in Z0s, zd \in Zds : tv = [op |-> "seedE", z0 |-> z0, zd |-> zd]
Next ==
  \/ /\ tv.op = "seedF"
     /\ \/ \E hd \in Heads : SizeOk(tv.T, hd) /\ \E d \in SplitsOf(tv.T, hd) :
               Unsat(Split(tv.T, d), tv.den) /\ tv' = FrameVec(tv.T, tv.den, hd, d)
        \/ \E hd \in HeadTraj, w \in RotW : tv.den = 1 /\ tv.T[1] = 1 /\ tv' = RotVec(tv.T, hd, w)
  \/ /\ tv.op = "seedS"
     /\ \E hd \in Heads, k \in SatK, d \in 1..3 :
          /\ IF Thorough THEN TRUE ELSE d = 1 + ((hd[1] + hd[2] + k) % 3)
          /\ SatOk(tv.T, k, hd) /\ tv' = SatVec(tv.T, k, hd, d)
  \/ /\ tv.op = "seedT"
     /\ \E cz \in CoZ, t \in Times :
          \E d \in { TrajData(<<tv.cx, tv.cy, cz>>, t) } :
             /\ TrajOk(d)
             /\ \E hd \in HeadTraj : \E pr \in PrSet(t, hd), f \in { Frame(d.U, hd) } :
                   tv' = TrajVec(<<tv.cx, tv.cy, cz>>, t, hd, pr, d, f)
  \/ /\ tv.op = "seedE"
     /\ \E y \in Ys, x \in Xs, cur \in Curs : tv' = EulVec(tv.z0, tv.zd, y, x, cur)
Spec == Init /\ [][Next]_tv

(* ------------------------------------------------------------------ what TLC proves --- *)
FrameOK == (tv.op = "frame" /\ ~tv.sat) \/ tv.op = "traj" =>
              LET T == IF tv.op = "traj" THEN tv.U ELSE tv.T
                  f == [xt |-> tv.xt, yt |-> tv.yt, zt |-> tv.zt, nx |-> tv.nx, ny |-> tv.ny, nz |-> tv.nz]
              IN FrameLaws(T, tv.hd, f)
ForceOK == tv.op = "frame" =>          \* the enumerated inputs produce exactly the force T (unsaturated) / the PD vector P
              LET sp == [pt |-> tv.pt, vt |-> tv.vt, at |-> tv.at, tr |-> tv.tr, zi |-> tv.zi] IN
              IF tv.sat THEN SplitPD(sp) = tv.T /\ NormSq(tv.T) >= 49 /\ SatOk(tv.T, tv.tr + tv.zi, tv.hd)
              ELSE SplitT(sp) = tv.T /\ Unsat(sp, tv.den)
CellOK == tv.op \in {"frame", "traj"} /\ tv.cell \in {"generic", "parallel"} /\ ~(tv.op = "frame" /\ tv.sat) =>
              /\ tv.nz > 0
              /\ (tv.cell = "generic" => tv.ny > 0 /\ tv.nx > 0)
RateOK == tv.op = "traj" =>
              /\ RateLaws(tv.U, tv.Ud,
                          [xt |-> tv.xt, yt |-> tv.yt, zt |-> tv.zt, nx |-> tv.nx, ny |-> tv.ny, nz |-> tv.nz],
                          tv.pnum, tv.qnum)
              /\ VScale(tv.G, tv.U) = VSub(VScale(49 * tv.t[2] * tv.t[2] * tv.t[2], E3), tv.A)     \* u = g e3 - a
              /\ VScale(tv.G, tv.Ud) = VScale(-tv.t[2], tv.Jn)                                      \* du/dt = -j
              /\ tv.D = 5 * tv.t[2] * tv.t[2] * tv.t[2] /\ tv.G > 0
EulLaw == tv.op = "euler" =>
              LET z == QMul(tv.z0, tv.zd) IN
              /\ M3Mul(M3Mul(QMat(z), QMat(tv.y)), QMat(tv.x)) = QMat(tv.q)                         \* R(q) = Rz Ry Rx
              /\ M3Mul(QMat(tv.z0), QMat(tv.zd)) = QMat(z)                                          \* yaw angles add
              /\ QNorm(tv.q) = tv.exp.den /\ tv.exp.num = QMat(tv.q)
              /\ z[2] = 0 /\ z[3] = 0 /\ tv.y[2] = 0 /\ tv.y[4] = 0 /\ tv.x[3] = 0 /\ tv.x[4] = 0
              /\ tv.y[1] > 0 /\ Abs(tv.y[3]) <= tv.y[1]                                             \* pitch in [-pi/2, pi/2]
=============================================================================
