---------------------------- MODULE EstimatorNode ----------------------------
(* C20 (second sentence) -- the scheduling decisions of the AttitudeEstimator node
   (cyecca/estimate/attitude/estimator.py: imu_callback, mag_callback, params_callback).
   Only the decisions are modelled (which of initialize / predict / correct_accel /
   correct_mag runs and with which dt); the numerical content is C11/C12.
   Time is integer microseconds (message time stamps, which the node uses exclusively).

   Guards transcribed from estimator.py:
     imu:  dt = t - t_last_imu; t_last_imu = t; last_imu = msg
           not initialized: (last_imu and last_mag present) -> initialize(); ret = 0 -> initialized; return
           dt <= 0 -> return
           predict(dt); if t - t_last_accel >= dt_min_accel - eps: correct_accel; t_last_accel = t
           publish attitude, status
     mag:  last_mag = msg; if not initialized or t - t_last_mag < dt_min_mag - eps: return
           t_last_mag = t; correct_mag
   eps = 1 ms.  The code compares doubles; when the gap equals the limit exactly in
   microseconds the double comparison may fall either way (0.001 is not a binary
   fraction), so at an exact tie the model allows both outcomes (parameter tb) and records
   dec.tie -- both outcomes satisfy the property.                                         *)
EXTENDS Integers, TLC

CONSTANTS Times,      \* time stamps offered to the node (microseconds; any order, duplicates)
          DtMins,     \* values the dt_min parameters can take (microseconds)
          DtMin0,     \* their default (1/200 s = 5000)
          StartInit   \* set of initial values of `initialized` (constructor flag initialize)

EPS == 1000

VARIABLES initialized, has_imu, has_mag, tli, tla, tlm, dma, dmm,
          ca, pa, cm, pm,       \* HISTORY: a correction has happened / time of the previous one
          dec                   \* last decision (what the proxy eqs observe)

vars == <<initialized, has_imu, has_mag, tli, tla, tlm, dma, dmm, ca, pa, cm, pm, dec>>

Init == /\ initialized \in StartInit
        /\ has_imu = FALSE /\ has_mag = FALSE
        /\ tli = 0 /\ tla = 0 /\ tlm = 0
        /\ dma = DtMin0 /\ dmm = DtMin0
        /\ ca = FALSE /\ pa = 0 /\ cm = FALSE /\ pm = 0
        /\ dec = [a |-> "init"]

(* gap >= lim, with both outcomes at an exact tie *)
Pass(gap, lim, tb) == gap > lim \/ (gap = lim /\ tb)

OnParams(da, dm) ==
    /\ dma' = da /\ dmm' = dm
    /\ dec' = [a |-> "params", dma |-> da, dmm |-> dm]
    /\ UNCHANGED <<initialized, has_imu, has_mag, tli, tla, tlm, ca, pa, cm, pm>>

OnImu(t, ok, tb) ==
    LET dt == t - tli IN
    /\ tli' = t /\ has_imu' = TRUE
    /\ UNCHANGED <<has_mag, tlm, dma, dmm, cm, pm>>
    /\ IF ~initialized THEN
          /\ UNCHANGED <<tla, ca, pa>>
          /\ IF has_mag
             THEN /\ initialized' = ok
                  /\ dec' = [a |-> "imu", t |-> t, dt |-> dt, d |-> IF ok THEN "init-ok" ELSE "init-fail",
                             predict |-> 0, acc |-> 0, tie |-> FALSE, pa |-> pa, ca |-> ca, lim |-> dma - EPS]
             ELSE /\ UNCHANGED initialized
                  /\ dec' = [a |-> "imu", t |-> t, dt |-> dt, d |-> "skip-uninit",
                             predict |-> 0, acc |-> 0, tie |-> FALSE, pa |-> pa, ca |-> ca, lim |-> dma - EPS]
       ELSE IF dt <= 0 THEN
          /\ UNCHANGED <<initialized, tla, ca, pa>>
          /\ dec' = [a |-> "imu", t |-> t, dt |-> dt, d |-> "skip-dt",
                     predict |-> 0, acc |-> 0, tie |-> FALSE, pa |-> pa, ca |-> ca, lim |-> dma - EPS]
       ELSE
          LET gap == t - tla
              lim == dma - EPS
              go  == Pass(gap, lim, tb)
          IN /\ UNCHANGED initialized
             /\ tla' = IF go THEN t ELSE tla
             /\ ca' = (ca \/ go)
             /\ pa' = IF go THEN t ELSE pa
             /\ dec' = [a |-> "imu", t |-> t, dt |-> dt, d |-> "predict",
                        predict |-> 1, acc |-> IF go THEN 1 ELSE 0, tie |-> (gap = lim),
                        pa |-> pa, ca |-> ca, lim |-> lim]

OnMag(t, tb) ==
    LET gap == t - tlm
        lim == dmm - EPS
        go  == initialized /\ Pass(gap, lim, tb)
    IN /\ has_mag' = TRUE
       /\ tlm' = IF go THEN t ELSE tlm
       /\ cm' = (cm \/ go)
       /\ pm' = IF go THEN t ELSE pm
       /\ dec' = [a |-> "mag", t |-> t, corr |-> IF go THEN 1 ELSE 0,
                  d |-> IF ~initialized THEN "skip-uninit" ELSE IF go THEN "correct" ELSE "skip-rate",
                  tie |-> (initialized /\ gap = lim), pm |-> pm, cm |-> cm, lim |-> lim]
       /\ UNCHANGED <<initialized, has_imu, tli, tla, dma, dmm, ca, pa>>

(* tb is only meaningful at a tie: canonical FALSE otherwise keeps the graph small *)
Next == \/ \E t \in Times, ok \in BOOLEAN, tb \in BOOLEAN :
              /\ (tb => (initialized /\ t - tli > 0 /\ t - tla = dma - EPS))
              /\ (~ok => (~initialized /\ has_mag))
              /\ OnImu(t, ok, tb)
        \/ \E t \in Times, tb \in BOOLEAN :
              /\ (tb => (initialized /\ t - tlm = dmm - EPS))
              /\ OnMag(t, tb)
        \/ \E da \in DtMins, dm \in DtMins : OnParams(da, dm)

Spec == Init /\ [][Next]_vars

(* ---------------- the property (not the code's formula: stated on the observations) --- *)
(* never a prediction with a non-positive step *)
PredictPositive == (dec.a = "imu" /\ dec.predict = 1) => dec.dt > 0
(* a correction only together with / after a prediction of the same message, never before init *)
AccelOnlyAfterPredict == (dec.a = "imu" /\ dec.acc = 1) => dec.predict = 1
(* consecutive accelerometer corrections are at least dt_min - 1 ms apart *)
AccelRate == (dec.a = "imu" /\ dec.acc = 1 /\ dec.ca) => dec.t - dec.pa >= dec.lim
MagRate   == (dec.a = "mag" /\ dec.corr = 1 /\ dec.cm) => dec.t - dec.pm >= dec.lim
(* auxiliary: the node's time stamp of the last correction is the last correction *)
Aux == (ca => tla = pa) /\ (cm => tlm = pm) /\ (~ca => tla = 0) /\ (~cm => tlm = 0)
NoUninitWork == (dec.a = "mag" /\ dec.corr = 1) => initialized
NoTie == dec.a \in {"imu", "mag"} => ~dec.tie          \* only for tie-free constant sets (engine B)

(* constant sets *)
TimesX == {500 * k : k \in 0..12}                          \* 0 .. 6 ms, step 0.5 ms (exhaustive; ties reachable)
TimesB == {300 * k : k \in 0..60} \cup {-300, 30000}   \* engine B: gaps are multiples of 0.3 ms, no tie with DtMinsB or the default
TimesQ == {500 * k : k \in 0..8}
DtMinsX == {0, 2000, 5000}
DtMinsB == {250, 2250, 5250}
=============================================================================
