SPECIFICATION Spec
CONSTANT Tier = "thorough"
INVARIANTS RotLaws ComposeLaw FlowLaws ImplLaws D2QLaws
CHECK_DEADLOCK FALSE
