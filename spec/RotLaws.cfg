INIT Init
NEXT Next
CONSTANT K = 2
INVARIANTS Hom NormMult ConjT ProperP NegSame Pow
CHECK_DEADLOCK FALSE
