SPECIFICATION SpecS
CONSTANT Tier = "quick"
INVARIANTS PlusMinus NegIsInv PlusInv PlusZero MatHom EqLaw UnLaw ShapeLaw PStructLaw VecSpace BrLaw AeqLaw AmatLaw
CHECK_DEADLOCK FALSE
