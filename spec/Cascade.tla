------------------------------- MODULE Cascade -------------------------------
(* C17 -- the shipped control cascade stabilises the shipped quadrotor model.

   The discrete closed loop at the control rate (one state per control period).  The plant
   step and the controller arithmetic are OPAQUE here (doubles, RK4): the state is the
   integer-coded OBSERVATION of the real closed loop at t = k*DtMs,

     obs = [k, t (ms), mode,
            e, ex, ey, ez   position error to the current commanded hover set-point (mm),
            sp              displacement of that set-point from the launch set-point (mm),
            tilt, yaw       angle body-z / world-z, heading error (mrad),
            rate            norm of the body rate (mrad/s),
            m, lim          the four motor commands and the limit sqrt(F_max/C_T) (milli-rad/s),
            ri, imax        rate integrator and its bound (1e-6 rad),  zi, zmax  z integrator, bound,
            alt             height of the body origin above the model's ground plane (mm),
            nan]            1 iff any plant state / controller signal is non-finite

   and what the property promises is the PHASE ENVELOPE below (constants from the property
   text, cf. DESIGN.md C17: 10 s, 25 s, 0.05 rad, 0.1 rad/s, 0.05 m -- set in the cfg, never
   tuned to trajectories).  Every clause is an operator over an observation record x, so that
   (a) as a state predicate over `obs` it is an INVARIANT evaluated by TLC at every line of
   every recorded run (CascadeTrace), and (b) a rejected run can name its first failing clause.

   The same module enumerates the LAUNCH CONFIGURATIONS (spec -> code): states `ic` over the
   lattice  offset in {0,+-1,+-3}^3 m, attitude error q = signed integer quaternion of QLat(3)
   with rotation angle <= 60 deg, velocity / body rate in {-1,0,1}^3, both control modes, and a
   commanded heading `yaw` (a z-axis integer quaternion: 0, +-90, 180, 53, -127 deg); the launch
   attitude is q0 = yaw * q (exact product), i.e. the vehicle starts within 60 deg of the
   commanded hover attitude, whose body frame differs from the world frame unless yaw = 0
   (INIT ICInit / NEXT ICNext, dumped with -dump and replayed by harness/cascade.py).      *)
EXTENDS Rot, FiniteSets, TLC

CONSTANTS DtMs,        \* control period (ms)
          TEndMs,      \* length of a run (ms)
          TAttMs,      \* from here on attitude and rates are settled
          TPosMs,      \* from here on the position is settled
          TiltMax,     \* mrad
          YawMax,      \* mrad
          RateMax,     \* mrad/s
          PosMax,      \* mm
          Tier         \* "quick" | "thorough" | "mc"   (launch lattice / abstract model)

VARIABLES ic,          \* launch configuration of the run
          obs          \* observation at the current control period

cvars == <<ic, obs>>
Modes == {"mellinger", "loglinear"}

(* ------------------------------------------------------------------------------------ *)
(* launch lattice                                                                        *)
(* ------------------------------------------------------------------------------------ *)
V5 == <<0, 1, -1, 3, -3>>
V3 == <<0, 1, -1>>
OffAt(i) == << V5[(i % 5) + 1], V5[((i \div 5) % 5) + 1], V5[((i \div 25) % 5) + 1] >>     \* i in 0..124
UnitAt(i) == << V3[(i % 3) + 1], V3[((i \div 3) % 3) + 1], V3[((i \div 9) % 3) + 1] >>     \* i in 0..26

(* rotation angle theta of Q = (w, v):  cos(theta/2) = |w|/sqrt(N);  theta <= 60 deg  <=>
   w^2 >= 3 |v|^2  (cos^2 30 deg = 3/4)                                                    *)
AngleLe60(q) == q[1] * q[1] >= 3 * (q[2] * q[2] + q[3] * q[3] + q[4] * q[4])
AngleEq60(q) == q[1] * q[1] = 3 * (q[2] * q[2] + q[3] * q[3] + q[4] * q[4])
Tilts(K) == { q \in QLat(K) : AngleLe60(q) /\ Primitive(q) }

Yaws == << <<1, 0, 0, 0>>, <<1, 0, 0, 1>>, <<0, 0, 0, 1>>, <<1, 0, 0, -1>>, <<2, 0, 0, 1>>, <<1, 0, 0, -2>> >>
IsYaw(y) == y[2] = 0 /\ y[3] = 0 /\ y # <<0, 0, 0, 0>>

(* commanded hover positions (m): the closed loop does not depend on where in the world the set-point is --
   one near the world origin, one tens of metres away from it in every axis; both >= 10 m above ground *)
HoverPositions == << <<0, 0, 10>>, <<30, -20, 25>> >>
ICOK(c) == /\ c.mode \in Modes /\ c.spi \in {0, 1}
           /\ IsYaw(c.yaw) /\ c.q0 = QMul(c.yaw, c.q)
           /\ \A i \in 1..3 : c.off[i] \in {0, 1, -1, 3, -3} /\ c.vel[i] \in {-1, 0, 1} /\ c.rate[i] \in {-1, 0, 1}
           /\ c.q # <<0, 0, 0, 0>> /\ AngleLe60(c.q)

QHash(q) == (q[1] + 4) + 9 * (q[2] + 4) + 81 * (q[3] + 4) + 729 * (q[4] + 4)
MI(mode) == IF mode = "mellinger" THEN 0 ELSE 1
MkICy(mode, q, n, h, mi, y) ==
    [kind |-> "ic", mode |-> mode, q |-> q, n |-> n, yaw |-> y, q0 |-> QMul(y, q),
     spi  |-> (h + n + mi) % 2,           \* which commanded hover position (see HoverPositions)
     off  |-> OffAt((37 * h + 61 * n + 17 * mi) % 125),
     vel  |-> UnitAt((11 * h + 5 * n + 7 * mi + 3) % 27),
     rate |-> UnitAt((13 * h + 8 * n + 2 * mi + 5) % 27)]
(* n >= 1: heading command 0 (the simulator's own initial psi_sp -- the domain the property lists);
   n = 0 : one launch per seed with a commanded heading /= 0 (reported, not alarming: the property
           does not list the commanded heading)                                                   *)
MkIC(mode, q, n) == MkICy(mode, q, n, QHash(q), MI(mode),
                          IF n = 0 THEN Yaws[2 + (((QHash(q) % 13) + 3 * MI(mode)) % 5)] ELSE Yaws[1])
HeadingZero(c) == c.yaw[4] = 0 /\ c.yaw[1] > 0

(* quick: hand-picked attitudes (identity, 53 deg roll, exactly 60 deg about (1,1,1) and about
   (1,-1,1) with NEGATIVE scalar part, 53 deg pure yaw, 50 deg with negative scalar part)     *)
QuickTilts == { <<1, 0, 0, 0>>, <<2, 1, 0, 0>>, <<3, 1, 1, 1>>, <<-3, 1, -1, 1>>, <<2, 0, 0, 1>>, <<-3, 0, 1, -1>>,
                <<-3, 1, -1, 0>>, <<-3, -1, 1, 1>>, <<3, -1, -1, 0>>, <<3, 0, 1, 1>>, <<-2, 0, 1, 0>>, <<3, 1, 0, -1>> }
SeedTilts == IF Tier = "thorough" THEN Tilts(3) ELSE QuickTilts
PerSeed   == IF Tier = "thorough" THEN 4 ELSE 2
HeadingTilts == IF Tier = "thorough" THEN SeedTilts ELSE { <<1, 0, 0, 0>>, <<3, 1, 1, 1>> }
NoObs     == [k |-> -1]

ICInit == /\ obs = NoObs
          /\ \E mode \in Modes, q \in SeedTilts : ic = [kind |-> "seed", mode |-> mode, q |-> q]
(* corner launches (both tiers): farthest offset, moving AWAY from the set-point, tilted 53-60 deg, unit
   body rates -- the region where the outer-loop force demand sits on its 0.3 m g cap for seconds.
   (added after a seeded change confined to the capped branch went unnoticed by the 12 quick launches) *)
CornerTilts == { <<3, 1, 1, 1>>, <<2, 1, 0, 0>> }
CornerOff   == << <<3, 3, 3>>, <<-3, 3, -3>> >>
CornerVel   == << <<1, 1, 1>>, <<-1, 1, -1>> >>
MkCorner(mode, q, k) == [kind |-> "ic", mode |-> mode, q |-> q, n |-> 100 + k, yaw |-> Yaws[1], q0 |-> QMul(Yaws[1], q),
                         spi |-> k - 1,
                         off |-> CornerOff[k], vel |-> CornerVel[k], rate |-> <<1, -1, 1>>]
(* degenerate launches (both tiers): exactly above / below the hover point with purely vertical velocity and level,
   and exactly ON the hover point at rest but tilted -- the outer loop then demands exactly zero lateral force, the
   thrust direction is exactly vertical and every "which way is sideways" fallback of the set-point construction is hit *)
DegQ   == << <<1, 0, 0, 0>>, <<1, 0, 0, 0>>, <<2, 1, 0, 0>>, <<3, 1, 1, 1>> >>
DegOff == << <<0, 0, 3>>, <<0, 0, -3>>, <<0, 0, 0>>, <<0, 0, 0>> >>
DegVel == << <<0, 0, -1>>, <<0, 0, 0>>, <<0, 0, 0>>, <<0, 0, 0>> >>
MkDegenerate(mode, k) == [kind |-> "ic", mode |-> mode, q |-> DegQ[k], n |-> 200 + k, yaw |-> Yaws[1], q0 |-> QMul(Yaws[1], DegQ[k]),
                          spi |-> k % 2, off |-> DegOff[k], vel |-> DegVel[k], rate |-> <<0, 0, 0>>]
ICNext == /\ ic.kind = "seed"
          /\ \/ \E n \in 0..PerSeed : /\ n = 0 => ic.q \in HeadingTilts
                                      /\ ic' = MkIC(ic.mode, ic.q, n)
             \/ \E k \in 1..2 : ic.q \in CornerTilts /\ ic' = MkCorner(ic.mode, ic.q, k)
             \/ \E k \in 1..4 : ic.q = <<1, 0, 0, 0>> /\ ic' = MkDegenerate(ic.mode, k)
          /\ UNCHANGED obs
ICInv  == ic.kind = "ic" => ICOK(ic) /\ (HeadingZero(ic) <=> ic.n >= 1)
ICSeedInv == ic.kind = "seed" => AngleLe60(ic.q) /\ Primitive(ic.q)
(* the heading pre-rotation does not change the tilt: body z of q0 and of q have the same world-z
   component (QMat[3][3]/N), and q0 is the same rotation as Rz(yaw) * R(q)                       *)
ICTiltInv == ic.kind = "ic" =>
               /\ QMat(ic.q0)[3][3] * QNorm(ic.q) = QMat(ic.q)[3][3] * QNorm(ic.q0)
               /\ QMat(ic.q0) = M3Mul(QMat(ic.yaw), QMat(ic.q))

(* ------------------------------------------------------------------------------------ *)
(* clauses of the property over an observation record x (c = launch configuration)        *)
(* ------------------------------------------------------------------------------------ *)
IsInt31(v) == v \in Int /\ -2000000000 <= v /\ v <= 2000000000
C_Type(x) == /\ x.mode \in Modes /\ x.nan \in {0, 1}
             /\ IsInt31(x.k) /\ IsInt31(x.t) /\ IsInt31(x.e) /\ IsInt31(x.ex) /\ IsInt31(x.ey) /\ IsInt31(x.ez)
             /\ IsInt31(x.sp) /\ IsInt31(x.tilt) /\ IsInt31(x.yaw) /\ IsInt31(x.rate) /\ IsInt31(x.lim)
             /\ IsInt31(x.zi) /\ IsInt31(x.zmax) /\ IsInt31(x.alt)
             /\ x.e >= 0 /\ x.tilt >= 0 /\ x.yaw >= 0 /\ x.rate >= 0 /\ x.sp >= 0 /\ x.lim > 0
             /\ Len(x.m) = 4 /\ Len(x.ri) = 3 /\ Len(x.imax) = 3
             /\ \A i \in 1..4 : IsInt31(x.m[i])
             /\ \A i \in 1..3 : IsInt31(x.ri[i]) /\ IsInt31(x.imax[i])
C_Clock(x)      == x.t = x.k * DtMs /\ 0 <= x.k /\ x.t <= TEndMs
(* launch: the first line is the launch configuration TLC generated (premise of the property) *)
C_Launch(c, x)  == x.k = 0 =>
                     /\ ICOK(c) /\ x.mode = c.mode
                     /\ x.ex = 1000 * c.off[1] /\ x.ey = 1000 * c.off[2] /\ x.ez = 1000 * c.off[3] /\ x.sp = 0
                     /\ x.tilt <= 1048                                   \* 60 deg = 1047.2 mrad
                     /\ LET n2 == 1000000 * NormSq(c.rate) IN            \* |rate| logged = |c.rate| rad/s +- 1 mrad/s
                        /\ x.rate >= 0 /\ n2 <= (x.rate + 1) * (x.rate + 1)
                        /\ (x.rate <= 1 \/ (x.rate - 1) * (x.rate - 1) <= n2)
C_NoNan(x)      == x.nan = 0
(* the vehicle never touches the model's ground plane (alt = height of the body origin above it, mm):
   every launch is >= 7 m above it, and "converges to the commanded hover position from the launch
   condition" is not met by a vehicle that falls to the ground and takes off again towards a set-point
   that the simulator's set-point dragging has meanwhile moved down with it                           *)
C_Airborne(x)   == x.alt > 0
C_MotorLimit(x) == \A i \in 1..4 : 0 <= x.m[i] /\ x.m[i] <= x.lim
C_RateInt(x)    == \A i \in 1..3 : -x.imax[i] <= x.ri[i] /\ x.ri[i] <= x.imax[i]
C_ZInt(x)       == -x.zmax <= x.zi /\ x.zi <= x.zmax
C_Tilt(x)       == x.t >= TAttMs => x.tilt <= TiltMax
C_Yaw(x)        == x.t >= TAttMs => x.yaw <= YawMax
C_Rate(x)       == x.t >= TAttMs => x.rate <= RateMax
C_Pos(x)        == x.t >= TPosMs => x.e <= PosMax /\ Abs(x.ex) <= x.e + 1 /\ Abs(x.ey) <= x.e + 1 /\ Abs(x.ez) <= x.e + 1

Envelope(c, x) == /\ C_Type(x) /\ C_Clock(x) /\ C_Launch(c, x) /\ C_NoNan(x) /\ C_Airborne(x) /\ C_MotorLimit(x) /\ C_RateInt(x)
                  /\ C_ZInt(x) /\ C_Tilt(x) /\ C_Yaw(x) /\ C_Rate(x) /\ C_Pos(x)
(* name of the first failing clause (the harness maps it to a violation key) *)
FirstFailing(c, x) ==
    IF ~C_Type(x) THEN "type" ELSE IF ~C_Clock(x) THEN "clock" ELSE IF ~C_Launch(c, x) THEN "launch"
    ELSE IF ~C_NoNan(x) THEN "nan" ELSE IF ~C_Airborne(x) THEN "ground_contact" ELSE IF ~C_MotorLimit(x) THEN "motor_limit"
    ELSE IF ~C_RateInt(x) THEN "rate_integrator" ELSE IF ~C_ZInt(x) THEN "z_integrator"
    ELSE IF ~C_Tilt(x) THEN "attitude_settle" ELSE IF ~C_Yaw(x) THEN "yaw_settle"
    ELSE IF ~C_Rate(x) THEN "rate_settle" ELSE IF ~C_Pos(x) THEN "position_settle" ELSE "ok"

(* one control period: the next observation x is produced by the (opaque) plant + cascade;
   what the spec fixes is the bookkeeping: consecutive periods, constant mode and limits     *)
StepOK(o, x) == /\ x.k = o.k + 1 /\ x.t = o.t + DtMs /\ o.t < TEndMs
                /\ x.mode = o.mode /\ x.lim = o.lim /\ x.imax = o.imax /\ x.zmax = o.zmax
Step(x) == /\ StepOK(obs, x)
           /\ obs' = x
           /\ UNCHANGED ic

(* ------------------------------------------------------------------------------------ *)
(* state predicates (the INVARIANTS of the closed loop) and the temporal reading          *)
(* ------------------------------------------------------------------------------------ *)
Live       == obs.k >= 0                      \* an observation is bound (not the launch-lattice generator)
TypeOK     == Live => C_Type(obs)
ClockOK    == Live => C_Clock(obs)
LaunchOK   == Live => C_Launch(ic, obs)
NoNan      == Live => C_NoNan(obs)
Airborne   == Live => C_Airborne(obs)
MotorLimit == Live => C_MotorLimit(obs)
RateIntegratorBound == Live => C_RateInt(obs)
ZIntegratorBound    == Live => C_ZInt(obs)
AttitudeSettled == Live => C_Tilt(obs)
YawSettled      == Live => C_Yaw(obs)
RateSettled     == Live => C_Rate(obs)
PositionSettled == Live => C_Pos(obs)
VerdictSound    == Live => ((FirstFailing(ic, obs) = "ok") <=> Envelope(ic, obs))

Settled      == Live /\ obs.t >= TPosMs /\ obs.e <= PosMax
AttSettled   == Live /\ obs.t >= TAttMs /\ obs.tilt <= TiltMax /\ obs.rate <= RateMax
(* "once Settled, always Settled to the end of the run" *)
StaysSettled    == [][Settled => Settled']_cvars
StaysAttSettled == [][AttSettled => AttSettled']_cvars

(* ------------------------------------------------------------------------------------ *)
(* abstract model (Tier = "mc", coarse clock): an implementation that meets the envelope at *)
(* every period; TLC checks that the time-guarded invariants give the temporal reading      *)
(* (StaysSettled, StaysAttSettled) and that the phases are reached.                         *)
(* ------------------------------------------------------------------------------------ *)
MCObs(kk, md) ==
    { [k |-> kk, t |-> kk * DtMs, mode |-> md, e |-> ee, ex |-> ee, ey |-> 0, ez |-> 0, sp |-> 0,
       tilt |-> tt, yaw |-> 0, rate |-> rr, m |-> <<mm, 0, 5, 10>>, lim |-> 10, ri |-> <<0, 0, 0>>,
       imax |-> <<0, 0, 0>>, zi |-> 0, zmax |-> 0, alt |-> aa, nan |-> nn] :
      ee \in {0, PosMax, PosMax + 1, 3000}, tt \in {0, TiltMax, TiltMax + 1}, rr \in {0, RateMax + 1},
      mm \in {0, 10, 11}, nn \in {0, 1}, aa \in {0, 7000} }
MCIC   == [kind |-> "ic", mode |-> "mellinger", q |-> <<1, 0, 0, 0>>, yaw |-> <<1, 0, 0, 1>>, q0 |-> <<1, 0, 0, 1>>, spi |-> 0,
           n |-> 1, off |-> <<3, 0, 0>>,
           vel |-> <<0, 0, 0>>, rate |-> <<0, 0, 0>>]
MCInit == ic = MCIC /\ obs \in { x \in MCObs(0, ic.mode) : Envelope(ic, x) }
MCNext == \E x \in MCObs(obs.k + 1, obs.mode) : Envelope(ic, x) /\ Step(x)
MCSpec == MCInit /\ [][MCNext]_cvars
MCPhase == (obs.t >= TPosMs => Settled) /\ (obs.t >= TAttMs => AttSettled)
=============================================================================
