-------------------------------- MODULE Expr --------------------------------
(* C19 -- SymPy <-> CasADi expression conversion.

   Grammar (trees are tagged tuples; the tag is always the first component):
     <<"int",k>>  <<"rat",p,q>>  <<"flt",m,e>> (= m * 2^-e, a non-integer dyadic float)
     <<"sym","x">> <<"sym","y">>
     <<"neg",E>> <<"sqrt",E>> <<"pow",E,n>> (n a small integer, also negative)
     <<"sin",E>> <<"cos",E>> <<"tan",E>> <<"atan",E>>          (opaque: transcendental)
     <<"add",E,E>> <<"sub",E,E>> <<"mul",E,E>> <<"div",E,E>>
     <<"lt",E,E>> <<"le",E,E>> <<"eq",E,E>> <<"ne",E,E>>       (value 0 / 1)
     <<"min",E,E>> <<"max",E,E>>
     <<"fmod",E,E>>  C fmod: truncated quotient, result has the sign of the dividend
     <<"rem",E,E>>   IEEE remainder: x - round_half_even(x/y)*y
     <<"ite",C,E,E>> piecewise selection / if_else
     <<"call",k,E>>  user function number k of the function table  (UserFn below)
     <<"mat",r,c,<<E,...>>>>  r x c matrix, entries row-major (top level only)

   Eval(E, env) is the reference semantics in exact normalised rationals.  Results are
   tagged:  <<"val",n,d>> (d > 0, gcd 1) | <<"und">> (outside the domain: division by 0,
   sqrt of a negative, fmod/rem by 0) | <<"opq">> (defined but not rational: transcendental
   node, sqrt of a non-square) | <<"big">> (rational but beyond the 32-bit guard).
   The harness compares the converter's result with the exact value for "val", and
   differentially (against the SOURCE expression's own numeric value) for "opq"/"big";
   "und" vectors are counted and skipped.

   TLC checks on every state the laws that pin each operator independently of the way
   Eval computes it (Laws*, below).                                                     *)
EXTENDS IntLin, TLC
CONSTANT Tier
VARIABLE tv

Thorough == Tier = "thorough"

(* ------------------------------ tagged rationals ------------------------------ *)
Bnd == 20000                       \* operands up to Bnd: products/sums stay below 2^31
Und == <<"und">>   Opq == <<"opq">>   Big == <<"big">>
IsVal(r) == r[1] = "val"
Norm(n, d) == LET g == Gcd(n, d)  s == IF d < 0 THEN -1 ELSE 1
              IN <<"val", (s * n) \div g, (s * d) \div g>>          \* d # 0; exact divisions
Small(a)   == Abs(a[2]) <= Bnd /\ a[3] <= Bnd
Pow2(e)    == CASE e = 0 -> 1 [] e = 1 -> 2 [] e = 2 -> 4 [] e = 3 -> 8 [] e = 4 -> 16
                [] e = 5 -> 32 [] e = 6 -> 64 [] e = 7 -> 128 [] e = 8 -> 256
                [] e = 20 -> 1048576 [] e = 30 -> 1073741824

(* strictness/propagation shared by all binary operators: und > big > opq > val *)
Tag2(a, b) == IF a[1] = "und" \/ b[1] = "und" THEN "und"
              ELSE IF a[1] = "big" \/ b[1] = "big" THEN "big"
              ELSE IF a[1] = "opq" \/ b[1] = "opq" THEN "opq"
              ELSE IF Small(a) /\ Small(b) THEN "val" ELSE "big"
NoVal(t)   == IF t = "und" THEN Und ELSE IF t = "big" THEN Big ELSE Opq

RAdd(a, b) == IF Tag2(a, b) = "val" THEN Norm(a[2] * b[3] + b[2] * a[3], a[3] * b[3]) ELSE NoVal(Tag2(a, b))
RSub(a, b) == IF Tag2(a, b) = "val" THEN Norm(a[2] * b[3] - b[2] * a[3], a[3] * b[3]) ELSE NoVal(Tag2(a, b))
RMul(a, b) == IF Tag2(a, b) = "val" THEN Norm(a[2] * b[2], a[3] * b[3]) ELSE NoVal(Tag2(a, b))
RDiv(a, b) == IF Tag2(a, b) = "val" THEN (IF b[2] = 0 THEN Und ELSE Norm(a[2] * b[3], a[3] * b[2]))
              ELSE IF IsVal(b) /\ b[2] = 0 /\ a[1] # "und" THEN Und ELSE NoVal(Tag2(a, b))
RNeg(a)    == IF IsVal(a) THEN <<"val", -a[2], a[3]>> ELSE a
Bool(p)    == IF p THEN <<"val", 1, 1>> ELSE <<"val", 0, 1>>
Less(a, b) == a[2] * b[3] < b[2] * a[3]                  \* on small values only
RLt(a, b)  == IF Tag2(a, b) = "val" THEN Bool(Less(a, b)) ELSE NoVal(Tag2(a, b))
RLe(a, b)  == IF Tag2(a, b) = "val" THEN Bool(~Less(b, a)) ELSE NoVal(Tag2(a, b))
REq(a, b)  == IF Tag2(a, b) = "val" THEN Bool(a = b) ELSE NoVal(Tag2(a, b))          \* normal forms
RNe(a, b)  == IF Tag2(a, b) = "val" THEN Bool(a # b) ELSE NoVal(Tag2(a, b))
RMin(a, b) == IF Tag2(a, b) = "val" THEN (IF Less(b, a) THEN b ELSE a) ELSE NoVal(Tag2(a, b))
RMax(a, b) == IF Tag2(a, b) = "val" THEN (IF Less(a, b) THEN b ELSE a) ELSE NoVal(Tag2(a, b))

(* integer parts of n/d, d > 0 (written without relying on \div for negative numbers) *)
Floor(n, d) == IF n >= 0 THEN n \div d ELSE -((-n + d - 1) \div d)
Trunc(n, d) == IF n >= 0 THEN n \div d ELSE -((-n) \div d)
RoundHE(n, d) == LET f == Floor(n, d)  r2 == 2 * (n - f * d)       \* 2*frac*d in [0, 2d)
                 IN IF r2 < d THEN f ELSE IF r2 > d THEN f + 1 ELSE IF f % 2 = 0 THEN f ELSE f + 1
RFmod(a, b) == LET q == RDiv(a, b) IN
               IF IsVal(q) THEN RSub(a, RMul(b, <<"val", Trunc(q[2], q[3]), 1>>)) ELSE q
RRem(a, b)  == LET q == RDiv(a, b) IN
               IF IsVal(q) THEN RSub(a, RMul(b, <<"val", RoundHE(q[2], q[3]), 1>>)) ELSE q

RInv(a)     == RDiv(<<"val", 1, 1>>, a)
RPow(a, n)  == CASE n = 0 -> (IF a[1] = "und" THEN Und ELSE <<"val", 1, 1>>)
                 [] n = 1 -> a
                 [] n = 2 -> RMul(a, a)
                 [] n = 3 -> RMul(RMul(a, a), a)
                 [] n = 4 -> RMul(RMul(a, a), RMul(a, a))
                 [] n = -1 -> RInv(a)
                 [] n = -2 -> RInv(RMul(a, a))
                 [] n = -3 -> RInv(RMul(RMul(a, a), a))
SqRoots     == 0..200
IsSq(n)     == \E k \in SqRoots : k * k = n
Root(n)     == CHOOSE k \in SqRoots : k * k = n
RSqrt(a)    == IF ~IsVal(a) THEN a
               ELSE IF a[2] < 0 THEN Und
               ELSE IF a[2] <= 40000 /\ a[3] <= 40000 /\ IsSq(a[2]) /\ IsSq(a[3]) THEN <<"val", Root(a[2]), Root(a[3])>>
               ELSE Opq
ROpaque(a)  == IF a[1] = "und" THEN Und ELSE IF a[1] = "big" THEN Big ELSE Opq
RIte(c, a, b) == IF c[1] = "und" \/ a[1] = "und" \/ b[1] = "und" THEN Und          \* strict (both branches are evaluated)
                 ELSE IF IsVal(c) THEN (IF c[2] # 0 THEN a ELSE b)
                 ELSE NoVal(c[1])

(* user function table (what the harness puts into f_dict under the names f1, f2, f3) *)
UserFn(k, a) == CASE k = 1 -> RAdd(a, <<"val", 1, 1>>)              \* f1(t) = t + 1
                  [] k = 2 -> RMul(a, <<"val", 3, 1>>)              \* f2(t) = 3 t
                  [] k = 3 -> RSub(<<"val", 1, 2>>, a)              \* f3(t) = 1/2 - t

(* ------------------------------ the evaluator ------------------------------ *)
UnOps   == {"neg", "sqrt", "sin", "cos", "tan", "atan"}
ArOps   == {"add", "sub", "mul", "div"}
CmpOps  == {"lt", "le", "eq", "ne"}
SelOps  == {"min", "max", "fmod", "rem"}
BinOps  == ArOps \cup CmpOps \cup SelOps
PowNs   == {2, 3, -1, -2}

Bin(t, a, b) == CASE t = "add" -> RAdd(a, b) [] t = "sub" -> RSub(a, b) [] t = "mul" -> RMul(a, b)
                  [] t = "div" -> RDiv(a, b) [] t = "lt" -> RLt(a, b) [] t = "le" -> RLe(a, b)
                  [] t = "eq" -> REq(a, b) [] t = "ne" -> RNe(a, b) [] t = "min" -> RMin(a, b)
                  [] t = "max" -> RMax(a, b) [] t = "fmod" -> RFmod(a, b) [] t = "rem" -> RRem(a, b)

RECURSIVE Eval(_, _)
Eval(E, env) ==
    LET t == E[1] IN
    CASE t = "int"  -> <<"val", E[2], 1>>
      [] t = "rat"  -> Norm(E[2], E[3])
      [] t = "flt"  -> Norm(E[2], Pow2(E[3]))
      [] t = "sym"  -> IF E[2] = "x" THEN <<"val", env[1][1], env[1][2]>> ELSE <<"val", env[2][1], env[2][2]>>
      [] t = "neg"  -> RNeg(Eval(E[2], env))
      [] t = "sqrt" -> RSqrt(Eval(E[2], env))
      [] t = "pow"  -> RPow(Eval(E[2], env), E[3])
      [] t \in {"sin", "cos", "tan", "atan"} -> ROpaque(Eval(E[2], env))
      [] t \in BinOps -> Bin(t, Eval(E[2], env), Eval(E[3], env))
      [] t = "ite"  -> RIte(Eval(E[2], env), Eval(E[3], env), Eval(E[4], env))
      [] t = "call" -> UserFn(E[2], Eval(E[3], env))

RECURSIVE HasSym(_)
HasSym(E) == LET t == E[1] IN
    CASE t \in {"int", "rat", "flt"} -> FALSE
      [] t = "sym" -> TRUE
      [] t \in UnOps \cup {"pow"} -> HasSym(E[2])
      [] t \in BinOps -> HasSym(E[2]) \/ HasSym(E[3])
      [] t = "ite" -> HasSym(E[2]) \/ HasSym(E[3]) \/ HasSym(E[4])
      [] t = "call" -> HasSym(E[3])
      [] t = "mat" -> \E i \in 1..Len(E[4]) : HasSym(E[4][i])

RECURSIVE Depth(_)
Depth(E) == LET t == E[1] IN
    CASE t \in {"int", "rat", "flt", "sym"} -> 0
      [] t \in UnOps \cup {"pow"} -> 1 + Depth(E[2])
      [] t \in BinOps -> 1 + Max2(Depth(E[2]), Depth(E[3]))
      [] t = "ite" -> 1 + Max2(Depth(E[2]), Max2(Depth(E[3]), Depth(E[4])))
      [] t = "call" -> 1 + Depth(E[3])

(* ------------------------------ enumeration sets ------------------------------ *)
X == <<"sym", "x">>   Y == <<"sym", "y">>
(* depth-1 leaves: every number class the converters special-case (0, 1, -1, 1/2),
   negative integer and rational, non-integer dyadic floats 2.5 and 13/128            *)
L1 == { <<"int", -3>>, <<"int", 2>>, <<"int", 0>>, <<"int", 1>>, <<"int", -1>>, <<"rat", 1, 2>>,
        <<"rat", -7, 3>>, <<"flt", 5, 1>>, <<"flt", 13, 7>>, X, Y }
L2 == IF Thorough THEN { <<"int", 2>>, <<"rat", -7, 3>>, <<"flt", 5, 1>>, X, Y }
                  ELSE { <<"rat", -7, 3>>, <<"flt", 5, 1>>, X }
L3 == { <<"rat", -7, 3>>, <<"flt", 5, 1>>, X }               \* both-sides nesting (thorough) / conditions

Wrap1(E)   == { <<u, E>> : u \in UnOps } \cup { <<"pow", E, n>> : n \in PowNs }
D1(LS)     == UNION { Wrap1(a) : a \in LS } \cup { <<b, a1, a2>> : b \in BinOps, a1 \in LS, a2 \in LS }
Cmp1(LS)   == { <<c, a1, a2>> : c \in CmpOps, a1 \in LS, a2 \in LS }

(* environments (x, y) as pairs of rationals <<n,d>> *)
Q(n, d)    == <<n, d>>
EnvVals    == { Q(-5, 2), Q(-1, 1), Q(0, 1), Q(1, 3), Q(2, 1), Q(7, 2) }
EnvsFull   == { <<a, b>> : a \in EnvVals, b \in EnvVals }
EnvsSome   == { <<Q(-5, 2), Q(2, 1)>>, <<Q(2, 1), Q(2, 1)>>, <<Q(1, 3), Q(-1, 1)>>, <<Q(7, 2), Q(-5, 2)>>, <<Q(0, 1), Q(1, 3)>> }
EnvsFew    == { <<Q(-5, 2), Q(2, 1)>>, <<Q(1, 3), Q(-1, 1)>> }
EnvsIte    == { <<Q(-5, 2), Q(2, 1)>>, <<Q(7, 2), Q(7, 2)>>, <<Q(2, 1), Q(1, 3)>> }     \* x < y, x = y, x > y
Env0       == <<Q(0, 1), Q(0, 1)>>
Envs1      == IF Thorough THEN EnvsFull ELSE EnvsSome         \* depth <= 1
Envs2      == IF Thorough THEN EnvsSome ELSE EnvsFew          \* deeper trees
EnvsOf(E, S) == IF HasSym(E) THEN S ELSE {Env0}

Vec(E, env, nf) == [op |-> "vec", tree |-> E, env |-> env, exp |-> Eval(E, env), depth |-> Depth(E), nf |-> nf]

(* matrices: entries are a window of a fixed pool; the expectation is the tuple of entry values *)
MatPool == << X, <<"int", 2>>, <<"flt", 5, 1>>, <<"mul", X, Y>>, <<"int", 0>>, <<"rat", -7, 3>>, Y,
              <<"sin", X>>, <<"pow", Y, 2>>, <<"add", X, <<"flt", 13, 7>> >>, <<"int", 1>>, <<"sqrt", Y>> >>
Shapes  == { <<2, 2>>, <<1, 3>>, <<3, 1>>, <<2, 3>>, <<3, 2>>, <<1, 1>> }
MatOf(sh, s) == <<"mat", sh[1], sh[2], [i \in 1..(sh[1] * sh[2]) |-> MatPool[((s + i - 2) % Len(MatPool)) + 1]]>>
MatVec(M, env) == [op |-> "mat", tree |-> <<M[1], M[2], M[3], SubSeq(M[4], 1, Len(M[4]))>>, env |-> env,
                   exp |-> SubSeq([i \in 1..Len(M[4]) |-> Eval(M[4][i], env)], 1, Len(M[4])), depth |-> 1, nf |-> 0]

(* depth-3 sample (thorough): deterministic thinning of the one-sided depth-2 trees *)
Keep3(o, T) == T[1] \in {"fmod", "rem", "min", "lt", "eq", "sub", "div", "pow", "sqrt", "sin"} /\ o \in {"add", "mul", "max", "fmod", "rem", "le", "ne"}

(* constants whose conversion must be EXACT (a converter may not round, truncate or snap a constant): tiny
   dyadics, values within 1e-9 of an integer, large integers, negative zero-ish -- 2^-30 = 9.3e-10 needs a
   2^30 denominator, so these appear as bare leaves only (32-bit evaluator)                              *)
ConstLeaves == { <<"flt", 1, 30>>, <<"flt", -1, 30>>, <<"flt", 1073741825, 30>>, <<"flt", -1073741823, 30>>, <<"flt", 3, 20>>,
                 <<"flt", 7340033, 20>>, <<"int", 2000000000>>, <<"int", -1999999999>>, <<"rat", 1, 1000000007>>,
                 <<"rat", 999999999, 1000000000>>, <<"flt", 5, 1>>, <<"int", 0>> }

(* ------------------------------ two-level enumeration ------------------------------ *)
Seed(form, a, b) == [op |-> "seed", form |-> form, a |-> a, b |-> b]
Init ==
  \/ \E a \in L1 : tv = Seed("d1", a, 0)
  \/ \E T \in D1(L2) : tv = Seed("d2", T, 0)
  \/ Thorough /\ \E T \in D1(L3) : tv = Seed("d2f", T, 0)
  \/ Thorough /\ \E T \in D1(L3), o \in BinOps : Keep3(o, T) /\ tv = Seed("d3", T, o)
  \/ \E C \in Cmp1({ <<"int", 2>>, X, Y }) : tv = Seed("ite", C, 0)
  \/ \E nf \in 1..3 : \E k \in 1..nf : tv = Seed("call", k, nf)
  \/ \E sh \in Shapes : tv = Seed("mat", sh, 0)
  \/ \E c \in ConstLeaves : tv = Seed("const", c, 0)

Next == tv.op = "seed" /\
  \/ /\ tv.form = "const"
     /\ tv' = [op |-> "const", tree |-> tv.a, exp |-> Eval(tv.a, Env0)]
  \/ /\ tv.form = "d1"
     /\ \/ \E E \in Wrap1(tv.a) \cup {tv.a} : \E env \in EnvsOf(E, Envs1) : tv' = Vec(E, env, 0)
        \/ \E b \in BinOps, a2 \in L1 : LET E == <<b, tv.a, a2>> IN \E env \in EnvsOf(E, Envs1) : tv' = Vec(E, env, 0)
  \/ /\ tv.form = "d2"
     /\ \/ \E E \in Wrap1(tv.a) : \E env \in EnvsOf(E, Envs2) : tv' = Vec(E, env, 0)
        \/ \E b \in BinOps, l \in L2 : \E E \in { <<b, tv.a, l>>, <<b, l, tv.a>> } :
              \E env \in EnvsOf(E, Envs2) : tv' = Vec(E, env, 0)
  \/ /\ tv.form = "d2f"
     /\ \E b \in BinOps, T2 \in D1(L3) : LET E == <<b, tv.a, T2>> IN \E env \in EnvsOf(E, EnvsFew) : tv' = Vec(E, env, 0)
  \/ /\ tv.form = "d3"
     /\ \E l \in L3, l2 \in {X, <<"flt", 5, 1>>} : LET T2 == <<tv.b, tv.a, l>> IN
          \E E \in Wrap1(T2) \cup { <<"sub", l2, T2>>, <<"fmod", T2, l2>>, <<"ite", <<"lt", T2, l2>>, T2, l2>> } :
             \E env \in EnvsOf(E, EnvsFew) : tv' = Vec(E, env, 0)
  \/ /\ tv.form = "ite"
     /\ \/ \E a \in {X, <<"flt", 5, 1>>}, b \in {Y, <<"rat", -7, 3>>, <<"mul", X, Y>>, <<"sqrt", X>>} :
              LET E == <<"ite", tv.a, a, b>> IN \E env \in EnvsOf(E, EnvsIte) : tv' = Vec(E, env, 0)
        \/ \E o \in {"add", "mul", "min", "fmod"}, l \in L3 :       \* selection nested below an operator
              LET E == <<o, <<"ite", tv.a, X, <<"flt", 5, 1>> >>, l>> IN \E env \in EnvsOf(E, EnvsIte) : tv' = Vec(E, env, 0)
        \/ /\ tv.a[2] = X                                           \* compound condition operand
           /\ \E T \in D1(L3) : T[1] \in {"add", "fmod", "pow"} /\
              LET E == <<"ite", <<tv.a[1], T, tv.a[3]>>, tv.a[2], <<"rat", -7, 3>> >> IN \E env \in EnvsOf(E, EnvsIte) : tv' = Vec(E, env, 0)
  \/ /\ tv.form = "call"
     /\ \/ \E a \in L1 \cup D1(L3) : LET E == <<"call", tv.a, a>> IN \E env \in EnvsOf(E, Envs2) : tv' = Vec(E, env, tv.b)
        \/ \E k2 \in 1..tv.b, o \in {"add", "mul", "sub"} :          \* two table entries in one expression
              LET E == <<o, <<"call", tv.a, X>>, <<"call", k2, Y>> >> IN \E env \in Envs2 : tv' = Vec(E, env, tv.b)
        \/ \E k2 \in 1..tv.b : LET E == <<"call", tv.a, <<"call", k2, X>> >> IN \E env \in Envs2 : tv' = Vec(E, env, tv.b)
  \/ /\ tv.form = "mat"
     /\ \E s \in 1..Len(MatPool) : \E env \in Envs2 : tv' = MatVec(MatOf(tv.a, s), env)
Spec == Init /\ [][Next]_tv

(* ------------------------------ what TLC proves ------------------------------ *)
One == <<"val", 1, 1>>   Zero == <<"val", 0, 1>>
AbsV(a) == <<"val", Abs(a[2]), a[3]>>
IsInt(a) == IsVal(a) /\ a[3] = 1
Half(a) == Norm(a[2], 2 * a[3])
Root1 == tv.op = "vec"
T0 == tv.tree   EV == tv.env   R0 == tv.exp
A0 == Eval(T0[2], EV)   B0 == Eval(T0[3], EV)

(* results are normalised rationals; the vector carries the evaluator's value *)
NormalForm == Root1 => /\ R0 = Eval(T0, EV)
                       /\ IsVal(R0) => R0[3] > 0 /\ Gcd(R0[2], R0[3]) = 1
(* fmod: the unique r with a = k b + r, k integer, |r| < |b|, r = 0 or sign r = sign a *)
LawFmod == (Root1 /\ T0[1] = "fmod" /\ IsVal(R0)) =>
              LET k == RDiv(RSub(A0, R0), B0) IN
              /\ IsVal(k) => IsInt(k)
              /\ Less(AbsV(R0), AbsV(B0))
              /\ Sgn(R0[2]) \in {0, Sgn(A0[2])}
(* IEEE remainder: a = k b + r, k integer, |r| <= |b|/2, ties have k even *)
LawRem  == (Root1 /\ T0[1] = "rem" /\ IsVal(R0)) =>
              LET k == RDiv(RSub(A0, R0), B0) IN
              /\ IsVal(k) => IsInt(k)
              /\ ~Less(Half(AbsV(B0)), AbsV(R0))
              /\ (IsVal(k) /\ AbsV(R0) = Half(AbsV(B0))) => k[2] % 2 = 0
LawMinMax == (Root1 /\ T0[1] \in {"min", "max"} /\ IsVal(R0)) =>
              LET other == IF T0[1] = "min" THEN RMax(A0, B0) ELSE RMin(A0, B0) IN
              /\ R0 \in {A0, B0}
              /\ IF T0[1] = "min" THEN ~Less(A0, R0) /\ ~Less(B0, R0) ELSE ~Less(R0, A0) /\ ~Less(R0, B0)
              /\ IsVal(RAdd(A0, B0)) => RAdd(R0, other) = RAdd(A0, B0)
LawArith == (Root1 /\ T0[1] \in ArOps /\ IsVal(R0)) =>
              /\ T0[1] = "add" => R0 = Eval(<<"add", T0[3], T0[2]>>, EV) /\ RSub(R0, B0) \in {A0, Big}
              /\ T0[1] = "mul" => R0 = Eval(<<"mul", T0[3], T0[2]>>, EV) /\ (B0[2] # 0 => RDiv(R0, B0) \in {A0, Big})
              /\ T0[1] = "sub" => RAdd(R0, B0) \in {A0, Big} /\ R0 = Eval(<<"add", T0[2], <<"neg", T0[3]>> >>, EV)
              /\ T0[1] = "div" => RMul(R0, B0) \in {A0, Big} /\ R0 \in {Eval(<<"mul", T0[2], <<"pow", T0[3], -1>> >>, EV), Big}
LawPow  == (Root1 /\ T0[1] = "pow" /\ IsVal(R0)) =>
              /\ T0[3] = 2 => R0 = Eval(<<"mul", T0[2], T0[2]>>, EV)
              /\ T0[3] = 3 => R0 = Eval(<<"mul", T0[2], <<"mul", T0[2], T0[2]>> >>, EV)
              /\ T0[3] < 0 => RMul(R0, RPow(A0, -T0[3])) \in {One, Big}
LawSqrt == (Root1 /\ T0[1] = "sqrt" /\ IsVal(R0)) => R0[2] >= 0 /\ RMul(R0, R0) = A0
LawCmp  == (Root1 /\ T0[1] \in CmpOps /\ IsVal(R0)) =>
              LET lt == RLt(A0, B0) gt == RLt(B0, A0) eq == REq(A0, B0) IN
              /\ R0 \in {Zero, One}
              /\ lt[2] + gt[2] + eq[2] = 1                                  \* trichotomy
              /\ T0[1] = "lt" => R0 = lt
              /\ T0[1] = "le" => R0[2] = lt[2] + eq[2]
              /\ T0[1] = "eq" => (R0 = One <=> RSub(A0, B0) = Zero)
              /\ T0[1] = "ne" => R0[2] = 1 - eq[2]
LawIte  == (Root1 /\ T0[1] = "ite" /\ IsVal(R0)) =>
              LET c == Eval(T0[2], EV) a == Eval(T0[3], EV) b == Eval(T0[4], EV) IN
              IsVal(c) /\ c \in {Zero, One} /\ (IsVal(a) /\ IsVal(b) =>
                  RAdd(RMul(c, a), RMul(RSub(One, c), b)) \in {R0, Big})
LawCall == (Root1 /\ T0[1] = "call") => T0[2] \in 1..tv.nf /\ tv.nf \in 1..3
LawMat  == tv.op = "mat" => Len(tv.tree[4]) = tv.tree[2] * tv.tree[3] /\ Len(tv.exp) = Len(tv.tree[4])
=============================================================================
