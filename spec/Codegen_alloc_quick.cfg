SPECIFICATION Spec
CONSTANTS
  FMs = {8}
  Geos <- GeosQuick
  K = 3
  TPad = 1
INVARIANT Refinement
INVARIANT Sound
CHECK_DEADLOCK FALSE
