SPECIFICATION Spec
CONSTANT Tier = "quick"
INVARIANTS RotOK EulLaw
CHECK_DEADLOCK FALSE
