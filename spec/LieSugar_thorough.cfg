SPECIFICATION SpecS
CONSTANT Tier = "thorough"
INVARIANTS PlusMinus NegIsInv PlusInv PlusZero MatHom EqLaw UnLaw ShapeLaw PStructLaw VecSpace BrLaw AeqLaw AmatLaw
CHECK_DEADLOCK FALSE
