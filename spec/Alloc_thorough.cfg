SPECIFICATION Spec
CONSTANTS
  FMs = {4, 8, 20}
  Geos <- GeosThorough
  K = 12
  TPad = 4
INVARIANT Refinement
INVARIANT Sound
INVARIANT RangeLimited
CHECK_DEADLOCK FALSE
