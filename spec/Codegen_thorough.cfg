\* C09: model-check the generated module CodegenMC.tla (EXTENDS Codegen; written by harness/checks/c09.py
\* from the repository's export lists) with this configuration:  ./check C09 thorough
SPECIFICATION Spec
CONSTANTS
  Tier = "thorough"
  Exports <- MCExports
  Defaults <- MCDefaults
INVARIANTS Complete NoDuplicate Accepted Shape EvalOK BundleOK
CHECK_DEADLOCK FALSE
