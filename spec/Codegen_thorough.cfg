SPECIFICATION Spec
CONSTANTS
  Tier = "thorough"
  Exports <- MCExports
  Defaults <- MCDefaults
INVARIANTS Complete NoDuplicate Accepted Shape EvalOK
CHECK_DEADLOCK FALSE
