SPECIFICATION Spec
CONSTANT Tier = "quick"
INVARIANTS RotLaws ComposeLaw FlowLaws ImplLaws D2QLaws
CHECK_DEADLOCK FALSE
