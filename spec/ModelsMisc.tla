----------------------------- MODULE ModelsMisc -----------------------------
(* G02 (growth, part B) -- exported model helpers that no listed property anchors:

     rotate_vector_w_to_b / rotate_vector_b_to_w   (cyecca.models.rdd2.derive_common)
     attitude_covariance_propagation               (cyecca.models.rdd2.derive_attitude_estimator)
     dcm_to_quat                                   (cyecca.models.bezier.derive_dcm_to_quat)

   Everything is exact: rotations are signed integer quaternions (Rot.tla), vectors and
   covariance matrices are integer, times are rationals <<n, d>>.

   ROTATE.  b_to_w(q, v) = R(q) v,  w_to_b(q, v) = R(q)^T v  with  R(q) = QMat(q)/N(q).
   TLC proves on every state that the two expectations are mutually inverse, preserve the
   norm, and compose like the quaternion product (R(q1 q2) v = R(q1) R(q2) v), so "R(q) v" is
   pinned by its characterisation and not by a formula copied from the code.

   COVARIANCE.  The function propagates the covariance P of the attitude error eta over dt with
   the gyro rate w and noise density Q.  The error obeys  d eta/dt = -w x eta + noise,  so
        P(t + dt) = F P F^T + Q dt ,     F = exp(-[w]x dt) = R(w dt)^T  (a rotation).
   The code implements the first-order form  P + (A P + P A^T + Q)  with A = -[w]x  (and does
   not use dt at all).  Clauses:
     PROMISE (deviation if the code breaks them)
       sym      the result is a symmetric matrix                  (structural: 6 numbers out)
       psd      P, Q positive semidefinite  =>  result positive semidefinite
       zero     w = 0 and Q = 0             =>  result = P
       commute  (derived) [w]x P = P [w]x and Q = 0  =>  result = P   (F P F^T = P F F^T = P;
                in particular isotropic P = c I is invariant under every rotation)
       trace    (derived) Q = 0  =>  trace(result) = trace(P)         (F orthogonal)
       dt0      (derived) dt = 0 =>  result = P                       (no time elapses)
     IMPLEMENTATION SHAPE (spec_drift only, never a deviation)
       the numerical value: exact flow  F P F^T + Q dt  (rational when w dt is a half-angle
       element h: F = QMat(QConj h)/N(h)),  first-order with dt  P + dt (A P + P A^T + Q),
       first-order without dt (what the pinned code does), sign convention of A.
   TLC proves psd/zero/commute/trace/sym on the exact flow (FlowLaws) -- so the promise clauses
   are satisfiable together and are consequences of the intended computation -- and evaluates
   the implementation-shaped integer form on integer rates to PREDICT the cells where the
   pinned code must lose positive semidefiniteness (field implpsd).

   DCM_TO_QUAT.  Input R = QMat(q)/N(q) (exact rational DCM of an integer quaternion); the
   result must be a unit quaternion of the same rotation, either sign.  cell = Shepperd
   branch of the textbook algorithm, "tie" marks exactly equal competing pivots.           *)
EXTENDS LieGroups, TLC
CONSTANT Tier
VARIABLE tv
Thorough == Tier = "thorough"

(* ------------------------------ rotate ------------------------------------------------ *)
QRot  == IF Thorough THEN { q \in QLat(2) : Primitive(q) }
         ELSE QLat(1) \cup { <<2,1,0,-1>>, <<1,-2,2,0>>, <<-2,0,1,1>>, <<0,1,2,-2>>, <<64,1,2,2>>, <<-1,0,0,20>> }
VRot  == { <<1,0,0>>, <<0,1,0>>, <<0,0,1>>, <<1,-2,3>>, <<0,0,0>> }
Q2Rot == { <<1,1,0,0>>, <<-1,0,1,1>>, <<0,0,1,0>> }
RotCell(q) == IF q[2] = 0 /\ q[3] = 0 /\ q[4] = 0 THEN (IF q[1] > 0 THEN "identity" ELSE "minus_identity")
              ELSE IF q[1] = 0 THEN "pi" ELSE IF q[1] < 0 THEN "wneg" ELSE "wpos"
RotVec(q, v) == [op |-> "rot", q |-> q, v |-> v, N |-> QNorm(q), cell |-> RotCell(q),
                 b2w |-> M3Vec(QMat(q), v), w2b |-> M3Vec(M3T(QMat(q)), v)]
Rot2Vec(q, p, v) == [op |-> "rot2", q |-> q, p |-> p, qp |-> QMul(q, p), v |-> v, N |-> QNorm(q) * QNorm(p),
                     cell |-> RotCell(q), b2w |-> M3Vec(QMat(QMul(q, p)), v)]

(* ------------------------------ covariance -------------------------------------------- *)
Sym3(a, b, c, d, e, f) == << <<a, b, c>>, <<b, d, e>>, <<c, e, f>> >>
IsSym3(S) == S[1][2] = S[2][1] /\ S[1][3] = S[3][1] /\ S[2][3] = S[3][2]
Minor2(S, i, j) == S[i][i] * S[j][j] - S[i][j] * S[j][i]
IsPSD3(S) ==        \* symmetric integer matrix: all seven principal minors non-negative
    /\ IsSym3(S)
    /\ S[1][1] >= 0 /\ S[2][2] >= 0 /\ S[3][3] >= 0
    /\ Minor2(S, 1, 2) >= 0 /\ Minor2(S, 1, 3) >= 0 /\ Minor2(S, 2, 3) >= 0
    /\ Det3(S) >= 0
IsPD3(S) == IsSym3(S) /\ S[1][1] > 0 /\ Minor2(S, 1, 2) > 0 /\ Det3(S) > 0
(* 32-bit integers: the 3x3 determinant is evaluated only while 6 e^3 < 2^31 (|entries| <= 600); above
   that the necessary conditions (diagonal, 2x2 minors, x^T S x >= 0 on the integer cube {-2..2}^3) *)
MaxAbs3(S) == MaxSeq(<< Abs(S[1][1]), Abs(S[1][2]), Abs(S[1][3]), Abs(S[2][2]), Abs(S[2][3]), Abs(S[3][3]) >>)
Cube2 == { <<a, b, c>> : a \in -2..2, b \in -2..2, c \in -2..2 }
IsPSD3Big(S) ==
    IF MaxAbs3(S) <= 600 THEN IsPSD3(S)
    ELSE /\ IsSym3(S) /\ S[1][1] >= 0 /\ S[2][2] >= 0 /\ S[3][3] >= 0
         /\ (MaxAbs3(S) <= 30000 => Minor2(S, 1, 2) >= 0 /\ Minor2(S, 1, 3) >= 0 /\ Minor2(S, 2, 3) >= 0)
         /\ (MaxAbs3(S) <= 1000000 => \A x \in Cube2 : Dot(x, M3Vec(S, x)) >= 0)
ZeroM  == Sym3(0, 0, 0, 0, 0, 0)
PSet   == { ZeroM, Sym3(1,0,0,1,0,1), Sym3(3,0,0,3,0,3),                   \* zero, isotropic
            Sym3(4,0,0,1,0,1), Sym3(1,0,0,0,0,0), Sym3(2,1,0,2,0,1),       \* pd anisotropic, singular, pd coupled
            Sym3(1,1,0,1,0,0), Sym3(2,-1,1,2,0,3), Sym3(1,0,0,1,0,4) }     \* singular coupled, pd full, axisymmetric about z
QSet   == { ZeroM, Sym3(1,0,0,1,0,1), Sym3(1,0,0,0,0,2), Sym3(1,1,0,1,0,0) }
(* half-angle elements for w*dt (exact rotation F = R(h)^T), and integer rates *)
HCov   == { <<1,0,0,0>>, <<1,0,0,1>>, <<0,0,0,1>>, <<7,0,0,1>>, <<2,1,0,-1>>, <<1,1,1,1>>, <<-1,1,0,0>>, <<12,1,2,2>> }
WInt   == { <<0,0,0>>, <<0,0,1>>, <<1,0,0>>, <<1,-2,2>>, <<0,0,-3>> }
Dts    == { <<1,1>>, <<1,2>>, <<1,100>>, <<2,1>> }                          \* dt > 0 as <<n, d>>
Dts0   == Dts \cup { <<0,1>> }
Commutes(v, P) == M3Mul(Hat(v), P) = M3Mul(P, Hat(v))
PClass(P, v) == IF P = ZeroM THEN "zero"
                ELSE IF P[1][1] = P[2][2] /\ P[2][2] = P[3][3] /\ P[1][2] = 0 /\ P[1][3] = 0 /\ P[2][3] = 0 THEN "iso"
                ELSE IF Commutes(v, P) THEN "commuting"
                ELSE IF IsPD3(P) THEN "pd" ELSE "singular"
(* exact flow over den = N^2 * dd :  dd * M P M^T + N^2 dn * Q ,   M = QMat(QConj h)  (F = M/N) *)
FlowNum(h, dt, P, Q) == LET M == QMat(QConj(h)) N == QNorm(h) IN
    MAdd(MScale(dt[2], M3Mul(M3Mul(M, P), M3T(M))), MScale(N * N * dt[1], Q))
FlowDen(h, dt) == QNorm(h) * QNorm(h) * dt[2]
(* first-order generator  G(v, P) = A P + P A^T  with A = -[v]x  (integer);  w dt = nu v *)
Gen(v, P) == MSub(M3Mul(P, Hat(v)), M3Mul(Hat(v), P))
CovFlowVec(h, dt, P, Q) ==
    [op |-> "cov_flow", h |-> h, dt |-> dt, P |-> P, Q |-> Q, v |-> QV(h),
     pclass |-> PClass(P, QV(h)), commutes |-> Commutes(QV(h), P),
     rate |-> IF NormSq(QV(h)) = 0 THEN "w0" ELSE "w", gen |-> Gen(QV(h), P),
     flow |-> [num |-> FlowNum(h, dt, P, Q), den |-> FlowDen(h, dt)]]
(* integer rate w, any dt: implementation-shaped value  P + G(w,P) + Q  and the dt-aware first-order value *)
CovIntVec(w, dt, P, Q) == LET impl == MAdd(MAdd(P, Gen(w, P)), Q) IN
    [op |-> "cov_int", w |-> w, dt |-> dt, P |-> P, Q |-> Q,
     pclass |-> PClass(P, w), commutes |-> Commutes(w, P),
     rate |-> IF NormSq(w) = 0 THEN "w0" ELSE "w",
     impl |-> impl, implpsd |-> IsPSD3(impl),
     fo |-> [num |-> MAdd(MScale(dt[2], P), MScale(dt[1], MAdd(Gen(w, P), Q))), den |-> dt[2]]]

(* ------------------------------ dcm_to_quat ------------------------------------------- *)
QD2Q == (IF Thorough THEN { q \in QLat(2) : Primitive(q) } ELSE QLat(1))
        \cup { <<2,1,0,-1>>, <<1,-2,2,0>>, <<-2,0,1,1>>, <<0,1,2,-2>>, <<100,1,0,0>>, <<1,0,0,100>>, <<-1,100,100,0>>,
               <<0,3,4,0>>, <<0,1,1,1>>, <<1,1,1,1>>, <<1,2,2,1>> }
ShepTie(q) == LET M == QMat(q) tr == M[1][1] + M[2][2] + M[3][3] IN
    IF tr = 0 THEN "tie_trace"
    ELSE IF tr < 0 /\ ((M[1][1] = M[2][2] /\ M[1][1] >= M[3][3]) \/ (M[1][1] = M[3][3] /\ M[1][1] >= M[2][2])
                       \/ (M[2][2] = M[3][3] /\ M[2][2] >= M[1][1])) THEN "tie_pivot" ELSE "plain"
D2QVec(q) == [op |-> "d2q", q |-> q, exp |-> [num |-> QMat(q), den |-> QNorm(q)],
              branch |-> ShepperdBranch(q), cell |-> ShepTie(q)]

(* ------------------------------ enumeration ------------------------------------------- *)
Init == \/ \E q \in QRot : tv = [op |-> "seedq", q |-> q]
        \/ \E P \in PSet, Q \in QSet : tv = [op |-> "seedP", P |-> P, Q |-> Q]
        \/ \E q \in QD2Q : tv = D2QVec(q)
Next ==
  \/ /\ tv.op = "seedq"
     /\ \/ \E v \in VRot : tv' = RotVec(tv.q, v)
        \/ \E p \in Q2Rot, v \in {<<1,-2,3>>} : QNorm(tv.q) < 100 /\ tv' = Rot2Vec(tv.q, p, v)
  \/ /\ tv.op = "seedP"
     /\ \/ \E h \in HCov, dt \in Dts : tv' = CovFlowVec(h, dt, tv.P, tv.Q)
        \/ \E w \in WInt, dt \in Dts0 : tv' = CovIntVec(w, dt, tv.P, tv.Q)
Spec == Init /\ [][Next]_tv

(* ------------------------------ what TLC proves --------------------------------------- *)
RotLaws == tv.op = "rot" => LET M == QMat(tv.q) N == tv.N IN
    /\ M3Vec(M, tv.w2b) = VScale(N * N, tv.v)                 \* b_to_w o w_to_b = id
    /\ M3Vec(M3T(M), tv.b2w) = VScale(N * N, tv.v)            \* w_to_b o b_to_w = id
    /\ NormSq(tv.b2w) = N * N * NormSq(tv.v)                  \* isometry
    /\ NormSq(tv.w2b) = N * N * NormSq(tv.v)
    /\ (N < 1000 => Proper(tv.q))                             \* proper rotation (32-bit: N^3)
    /\ M3Vec(QMat(QNeg(tv.q)), tv.v) = tv.b2w                 \* q and -q act alike
ComposeLaw == tv.op = "rot2" =>                               \* R(q p) v = R(q) (R(p) v)
    /\ tv.b2w = M3Vec(QMat(tv.q), M3Vec(QMat(tv.p), tv.v))
    /\ tv.N = QNorm(tv.qp)
FlowLaws == tv.op = "cov_flow" => LET F == tv.flow N == QNorm(tv.h) IN
    /\ IsPSD3(tv.P) /\ IsPSD3(tv.Q)                                            \* the lattice is inside the premise
    /\ IsSym3(F.num)                                                          \* sym
    /\ IsPSD3Big(F.num)                                                       \* psd (den > 0)
    /\ (tv.Q = ZeroM => Trace3(F.num) = F.den * Trace3(tv.P))                 \* trace
    /\ (tv.commutes /\ tv.Q = ZeroM => F.num = MScale(F.den, tv.P))           \* commute
    /\ (tv.rate = "w0" /\ tv.Q = ZeroM => F.num = MScale(F.den, tv.P))        \* zero
    /\ (tv.pclass = "iso" => tv.commutes)
    /\ IsSym3(tv.gen) /\ Trace3(tv.gen) = 0                                   \* the generator keeps symmetry and trace
    /\ (tv.commutes => tv.gen = ZeroM)
ImplLaws == tv.op = "cov_int" =>
    /\ IsPSD3(tv.P) /\ IsPSD3(tv.Q)
    /\ IsSym3(tv.impl) /\ IsSym3(tv.fo.num)
    /\ (tv.commutes => tv.impl = MAdd(tv.P, tv.Q))            \* where the shape cannot matter the forms agree
    /\ (tv.commutes => tv.implpsd)
    /\ (tv.dt = <<0,1>> => tv.fo.num = tv.P)                  \* the dt-aware first-order form has dt0
    /\ (tv.dt = <<1,1>> => tv.fo.num = tv.impl)               \* and is the pinned code's form at dt = 1
D2QLaws == tv.op = "d2q" =>
    /\ SameRot(tv.q, QNeg(tv.q))
    /\ (QNorm(tv.q) < 1000 => Proper(tv.q))
    /\ tv.branch \in 1..4
    /\ (tv.branch = 1 <=> 4 * tv.q[1] * tv.q[1] > QNorm(tv.q))      \* trace > 0  <=>  |w| > 1/2 for the unit quaternion
=============================================================================
