SPECIFICATION Spec
CONSTANT Tier = "quick"
INVARIANT BoxOK
CHECK_DEADLOCK FALSE
