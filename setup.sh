#!/bin/bash
# offline setup: nothing to build; verify the tool chain the checks rely on.
set -e
cd "$(dirname "$0")"
java -version 2>&1 | head -1
test -f /opt/veriftools/tla/tla2tools.jar
PYTHONPATH=/repo:/verif /venv/bin/python -c "import casadi, numpy, sympy, simpy, cyecca; print('python ok', casadi.__version__)"
cd spec; for f in *.tla; do
  java -cp /opt/veriftools/tla/tla2tools.jar:/opt/veriftools/tla/CommunityModules-deps.jar tla2sany.SANY "$f" > /tmp/sany.$$ 2>&1 || { tail -5 /tmp/sany.$$; echo "WARNING: SANY failed: $f"; }
done
rm -f /tmp/sany.$$; cd ..
mkdir -p evidence replay
echo "setup ok"
