"""C20: recording through the guarded source hook (hooks/uros_hooks.patch; CYECCA_VERIF=1).

Only used when the imported cyecca tree carries the hook (`uros._verif_emit` exists).  The hook is
what makes `launch_sim` itself observable: it builds its object graph internally and locks the bus
before a caller could attach recording callbacks.  The raw hook events are converted (second pass)
into the same event lines as harness/uros_rec.py produces, validated by TLC against UrosBusTrace,
and the estimator's decisions against EstimatorNodeTrace.
"""
from __future__ import annotations

import contextlib
import io
import json
import math
import os
import re

from harness.core import MachineryError
from harness.uros_rec import quanta, LDT, mname


class HookRecorder:
    def __init__(self, uros):
        self.uros = uros
        self.raw = []
        self.params = {}

    def __call__(self, event, fields):
        f = dict(fields)
        if "core" in f and event in ("publish_begin", "logger_row", "deliver"):
            f["now"] = float(f["core"].now)
        if event == "logger_row":
            f["row"] = f["row"].copy()
            f["dtv"] = float(f["dt"])
        if event in ("deliver",) and f["sub"].topic != "params":
            f["mtime"] = float(f["msg"].data["time"])
        if event == "param_update":
            f["value"] = float(f["param"].value)
        if event == "declare_param":
            f["value"] = float(f["param"].value)
            f["name"] = f["param"].name
            self.params[f["name"]] = f["param"]
        if event == "publish_end" and f["pub"].topic == "params":
            f["caches"] = {n: float(p.value) for n, p in self.params.items()}     # snapshot at event time
        self.raw.append((event, f))

    # ------------------------------------------------------------------ second pass
    def convert(self):
        enc = lambda n, v: quanta(v) if n == LDT else int(round(float(v) * 1e6))
        # pass 1: subscriber ids, logger's subscribers, owners of parameters
        sid, logger_subs, order = {}, set(), []
        in_logger = False
        for ev, f in self.raw:
            if ev == "declare_param" and f["name"] == LDT:
                in_logger = True
            elif ev == "subscriber_new":
                if in_logger:
                    logger_subs.add(id(f["sub"]))
                else:
                    sid[id(f["sub"])] = len(sid) + 1
            elif ev == "logger_new":
                in_logger = False
        owner, frames = {}, []
        for ev, f in self.raw:
            if ev == "publish_begin":
                frames.append(None)
            elif ev == "deliver":
                frames[-1] = f["sub"]
            elif ev == "publish_end":
                frames.pop()
            elif ev == "param_update" and frames and frames[-1] is not None:
                s = frames[-1]
                owner.setdefault(f["param"].name, 0 if id(s) in logger_subs else sid[id(s)])
        followers = {o for o in owner.values() if o > 0}
        # pass 2: event lines
        out, stack = [], []
        nmsg = 0
        absorb = None
        running = False
        params_obj = {}
        topics, pnames = [], []
        lrecv, ltime = {}, {}
        in_logger = False
        for ev, f in self.raw:
            if ev == "publisher_new":
                if f["topic"] != "params":
                    topics.append(f["topic"])
                    out.append({"a": "CreatePublisher", "topic": f["topic"], "ty": f["pub"].msg_type.__name__, "err": "ok"})
            elif ev == "subscriber_new":
                if id(f["sub"]) in sid:
                    s = sid[id(f["sub"])]
                    kind = ("follower" if s in followers else "sink") if f["topic"] == "params" else "free"
                    out.append({"a": "CreateSubscriber", "sub": s, "topic": f["topic"], "kind": kind, "out": "none", "budget": 0, "err": "ok"})
            elif ev == "declare_param":
                params_obj[f["name"]] = f["param"]
                if f["name"] == LDT:
                    in_logger = True
                else:
                    pnames.append(f["name"])
                    out.append({"a": "DeclareParam", "p": f["name"], "owner": owner.get(f["name"], -2), "v": enc(f["name"], f["value"]), "err": "ok"})
            elif ev == "logger_new":
                out.append({"a": "CreateLogger", "err": "ok"})
            elif ev == "init_params":
                out.append({"a": "InitParams"})
            elif ev == "set_param":
                absorb = {"a": "SetParam", "p": mname(f["name"]), "v": enc(f["name"], f["value"]), "err": "ok"}
                out.append(absorb)
            elif ev == "run":
                absorb = {"a": "Run"}
                out.append(absorb)
                running = True
            elif ev == "publish_reject":
                out.append({"a": "PublishBegin", "topic": f["pub"].topic, "ty": type(f["msg"]).__name__, "err": "type"})
            elif ev == "publish_begin":
                nmsg += 1
                t = f["pub"].topic
                if absorb is not None:
                    absorb = None
                elif stack:
                    out.append({"a": "Nested", "topic": t, "msg": nmsg})
                elif running:
                    out.append({"a": "ProcPublish", "topic": t, "t_now": quanta(f["now"]), "msg": nmsg})
                else:
                    out.append({"a": "PublishBegin", "topic": t, "ty": type(f["msg"]).__name__, "err": "ok", "msg": nmsg})
                stack.append((t, nmsg))
            elif ev == "deliver":
                t, m = stack[-1]
                s = f["sub"]
                is_log = id(s) in logger_subs
                out.append({"a": "Deliver", "topic": t, "msg": m, "sub": 0 if is_log else sid[id(s)], "depth": len(stack)})
                if is_log:
                    lrecv.setdefault(t, []).append(m)
                    if t != "params":
                        ltime[t] = f["mtime"]
            elif ev == "publish_end":
                t, m = stack.pop()
                out.append({"a": "PublishEnd", "topic": t, "msg": m})
                if t == "params" and not stack:
                    out.append({"a": "Obs", "cache": {mname(n): enc(n, v) for n, v in f["caches"].items()}, "idle": 1})
            elif ev == "logger_row":
                row = f["row"]
                latest, lpar = {}, {}
                for t in row.dtype.names:
                    if t == "time":
                        continue
                    if t == "params":
                        for n in row["params"].dtype.names:
                            if n != "time":
                                v = float(row["params"][n])
                                lpar[mname(n)] = -1 if math.isnan(v) else enc(n, v)
                        latest[t] = lrecv[t][-1] if lrecv.get(t) else -1
                    else:
                        v = float(row[t]["time"])
                        exp = ltime.get(t, float("nan"))
                        same = v == exp or (math.isnan(v) and math.isnan(exp))
                        latest[t] = (lrecv[t][-1] if lrecv.get(t) else -1) if same else -2
                out.append({"a": "LoggerRow", "t_now": quanta(float(row["time"])), "dt": quanta(f["dtv"]), "latest": latest, "lpar": lpar})
        hdr = {"a": "Header", "topics": topics, "params": pnames, "procs": [], "ns": max(len(sid), 1)}
        return hdr, out

    def estimator_traces(self):
        """one decision trace per estimator node"""
        per = {}
        for ev, f in self.raw:
            if ev not in ("est_imu", "est_mag"):
                continue
            st = per.setdefault(id(f["node"]), {"ev": [], "dma": 5000, "dmm": 5000, "name": f["node"].name})
            t = int(round(float(f["t"]) * 1e6))
            dm = int(round(float(f["dt_min"]) * 1e6))
            if ev == "est_imu":
                if dm != st["dma"]:
                    st["dma"] = dm
                    st["ev"].append({"a": "params", "dma": st["dma"], "dmm": st["dmm"]})
                dt = int(round(float(f["dt"]) * 1e6))
                st["ev"].append({"a": "imu", "t": t, "ok": 1 if f["initialized"] else 0, "init": f["init"], "predict": f["predict"],
                                 "acc": f["acc"], "dt": dt, "dt_pos": 1 if float(f["dt"]) > 0 else 0,
                                 "pub": 2 if f["predict"] else 0, "initialized": 1 if f["initialized"] else 0})
            else:
                if dm != st["dmm"]:
                    st["dmm"] = dm
                    st["ev"].append({"a": "params", "dma": st["dma"], "dmm": st["dmm"]})
                st["ev"].append({"a": "mag", "t": t, "corr": f["corr"], "other": 0})
        return [(v["name"], v["ev"]) for v in per.values()]


def run_hooked(run, validate_traces, tlc_trace):
    """launch_sim runs recorded through the hook; returns the number of traces validated"""
    import cyecca.sim.uros as uros
    from harness.checks.c20 import est_props, write_est_traces, report, CLAUSE
    if not getattr(uros, "_VERIF", False):
        run.assumptions.append("hook present in the source but CYECCA_VERIF is not 1: hook path skipped")
        return 0
    from cyecca.estimate.attitude.launch import launch_sim
    cases = [{"tf": 0.12, "estimators": ["mrp"]},
             {"tf": 0.12, "estimators": ["mrp"], "params": {"mrp/dt_min_accel": 0.01, "mrp/dt_min_mag": 0.04, "logger/dt": 2.0 ** -8}},
             {"tf": 0.08, "estimators": ["mrp"], "initialize": False, "params": {"sim/dt_imu": 0.0025}}]
    n = 0
    est_all = []
    for k, case in enumerate(cases):
        rec = HookRecorder(uros)
        uros._verif_set_recorder(rec)
        try:
            with contextlib.redirect_stdout(io.StringIO()):
                launch_sim(case)
        finally:
            uros._verif_set_recorder(None)
        hdr, ev = rec.convert()
        res, rej, inv = validate_traces(run, "UrosBusTrace.tla", "UrosBusTrace.cfg", [(1, ev)], f"hook{k}", hdr)
        run.add_tlc("UrosBusTrace/launch_sim(hook)", res)
        if inv:
            run.violation(f"trace/invariant/{inv['invariant']}", f"launch_sim({case}) violates {inv['invariant']}", {"engine": "hook", "case": case})
        for tid, (line, e) in rej.items():
            a = e["a"] if e else "end"
            run.violation(f"trace/rejected/{a}", f"launch_sim({case}) rejected at line {line}: {e}; clause: {CLAUSE.get(a, a)}",
                          {"engine": "hook", "case": case, "line": line, "event": e})
        if not rej and not inv:
            n += 1
        run.count("hook_events", len(ev))
        for name, evs in rec.estimator_traces():
            report(run, est_props(evs), {"engine": "C-est", "events": evs})
            est_all.append((len(est_all) + 1, not case.get("initialize", True), evs))
    if est_all:
        path = os.path.join(run.workdir, "hook_est.ndjson")
        write_est_traces(path, est_all)
        r = tlc_trace("EstimatorNodeTrace.tla", "EstimatorNodeTrace.cfg", run.workdir, path, "hook_est")
        run.add_tlc("EstimatorNodeTrace/launch_sim(hook)", r)
        rej = {int(m.group(1)): int(m.group(2)) for m in re.finditer(r'<<"REJECT", (\d+), (\d+), (\d+)>>', r["out"])}
        mi = re.search(r"Error: Invariant (\w+) is violated", r["out"])
        if mi:
            run.violation(f"estimator/trace/invariant/{mi.group(1)}", f"launch_sim estimator decisions violate {mi.group(1)}", {"engine": "hook"})
        for tid, line in rej.items():
            run.spec_drift("estimator/trace/hook", f"launch_sim estimator decision differs from EstimatorNode at line {line}: {est_all[tid-1][2][line-1]}")
        n += len(est_all) - len(rej)
    return n
