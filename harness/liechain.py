"""Engine B for C01/C07: behaviours of spec/LieChain.tla (tlc -simulate) replayed into real cyecca
elements, feeding the code's own outputs back in; every register is compared with the exact matrix
after every action."""
import glob, os
import numpy as np
import casadi as ca
from harness.core import run_tlc, parse_sim_file, MachineryError
from harness.lie import group_of, group_key, embed, rm_to_np, FnCache, sym_elem

TOL = 1e-9
_METH = {"quat": "from_Quat", "mrp": "from_Mrp", "dcm": "from_Dcm", "euler": "from_Euler"}


def _fn(cache, kind, X, rep_to=None):
    G = group_of(X)
    gk = group_key(X)

    def mk():
        a, A = sym_elem(G, "a")
        if kind == "mat":
            return ca.Function("f", [a], [ca.densify(A.to_Matrix())])
        if kind == "inv":
            return ca.Function("f", [a], [A.inverse().param])
        if kind == "mul":
            b, B = sym_elem(G, "b")
            return ca.Function("f", [a, b], [(A * B).param])
        if kind == "conv":
            Y = dict(X); Y["rep"] = rep_to
            Gt = group_of(Y)
            return ca.Function("f", [a], [getattr(Gt, _METH[X["rep"]])(A).param])
    return cache.get((kind, gk, rep_to), mk)


def run_chains(run, tier, num=None, depth=10):
    cache = FnCache()
    num = num or (60 if tier == "quick" else 600)
    simdir = os.path.join(run.workdir, "sim"); os.makedirs(simdir, exist_ok=True)
    res = run_tlc("LieChain.tla", "LieChain.cfg", workdir=run.workdir, simulate=f"file={simdir}/tr,num={num}", depth=depth,
                  seed=run.seed + 11, workers=1, timeout=3000)
    files = sorted(glob.glob(simdir + "/tr_*"))
    if len(files) < num // 2:
        raise MachineryError(f"LieChain simulation produced only {len(files)} behaviours")
    nsteps = 0; ops = {}; fams = set()
    for fpath in files:
        steps = parse_sim_file(fpath)
        if not steps:
            continue
        st0 = steps[0][1]
        regs = [np.array(embed(X), float) for X in st0["reg"]]
        elems = list(st0["reg"])
        fams.add(st0["last"]["fam"])
        for n, (act, st) in enumerate(steps[1:], start=1):
            last = st["last"]; op = last["op"]
            ops[op] = ops.get(op, 0) + 1
            try:
                if op == "mul":
                    i, j, k = last["i"] - 1, last["j"] - 1, last["k"] - 1
                    f = _fn(cache, "mul", elems[i])
                    regs[k] = np.array(f(regs[i], regs[j])).flatten()
                elif op == "inv":
                    i, k = last["i"] - 1, last["k"] - 1
                    f = _fn(cache, "inv", elems[i])
                    regs[k] = np.array(f(regs[i])).flatten()
                elif op == "conv":
                    i = last["i"] - 1
                    f = _fn(cache, "conv", elems[i], last["rep"])
                    regs[i] = np.array(f(regs[i])).flatten()
            except Exception as e:      # noqa
                run.violation(f"{group_key(elems[0])}/chain/{op}/raises:{type(e).__name__}", str(e), {"file_state": st["last"]})
                break
            elems = list(st["reg"])
            nsteps += 1
            bad = False
            for k in range(3):
                fm = _fn(cache, "mat", elems[k])
                M = np.array(fm(regs[k]))
                want = rm_to_np(st["hist"][k])
                with np.errstate(invalid="ignore"):
                    d = float(np.max(np.abs(M - want))) if M.shape == want.shape else float("nan")
                if not d <= TOL * max(1.0, float(np.max(np.abs(want)))):
                    run.violation(f"{group_key(elems[k])}/chain/{op}", f"after {n} chained operations fed back through the code, register {k+1} differs from the exact element",
                                  {"history": [s[1]["last"] for s in steps[:n + 1]], "start": st0["reg"], "err": d})
                    bad = True
                else:
                    run.err(d)
            if bad:
                break
    run.tlc.append({"name": "LieChain(simulate)", "states": res.get("states", nsteps), "distinct": nsteps, "depth": depth, "wall_s": round(res["wall_s"], 2)})
    run.count("chain_behaviours", len(files)); run.count("chain_steps", nsteps)
    if not {"mul", "inv", "conv"} <= set(ops) or len(fams) < 8:
        raise MachineryError(f"vacuous coverage in chains: ops={ops} families={sorted(fams)}")
    return {"behaviours": len(files), "steps": nsteps, "ops": ops, "families": sorted(fams)}
