"""Batched TLC trace validation for monitor-style Trace specs (one TLC step per NDJSON line,
REJECT lines printed by the spec, acceptance = whole file consumed)."""
import json, os, re, subprocess, time
from concurrent.futures import ThreadPoolExecutor
from harness.core import SPEC, JAR, MachineryError

_re_rej = re.compile(r'<<"REJECT",\s*(-?\d+),\s*(\d+),\s*"([^"]*)">>')


def validate(spec, cfg, traces, workdir, shards=4, env_var="TRACE_FILE", timeout=1800):
    """traces: list of lists of dict lines (one list per run). Returns dict(rejects=[(tid, line, clause)], lines, states, wall_s)."""
    shards = max(1, min(shards, len(traces)))
    files = []
    for k in range(shards):
        path = os.path.join(workdir, f"trace_{k}.ndjson")
        n = 0
        with open(path, "w") as f:
            for tr in traces[k::shards]:
                for ln in tr:
                    f.write(json.dumps(ln) + "\n"); n += 1
        files.append((path, n))

    def one(item):
        k, (path, n) = item
        meta = os.path.join(workdir, f"meta_trace_{k}")
        cmd = ["java", "-XX:+UseSerialGC", "-Xmx4g", "-Xss64m", f"-Djava.io.tmpdir={workdir}", "-cp", JAR, "tlc2.TLC", "-workers", "1", "-metadir", meta,
               "-noGenerateSpecTE", "-config", os.path.join(SPEC, cfg), os.path.join(SPEC, spec)]
        e = dict(os.environ); e[env_var] = path
        p = subprocess.run(cmd, capture_output=True, text=True, env=e, cwd=SPEC, timeout=timeout)
        out = p.stdout + p.stderr
        if "Model checking completed. No error has been found." not in out:
            raise MachineryError("trace validation failed to run:\n" + "\n".join(out.splitlines()[-40:]))
        m = re.search(r"The depth of the complete state graph search is (\d+)", out)
        depth = int(m.group(1)) if m else 0
        if depth != n + 1:
            raise MachineryError(f"trace not consumed: depth {depth} for {n} lines ({path})")
        return [(int(a), int(b), c) for a, b, c in _re_rej.findall(out)], n
    t0 = time.time()
    with ThreadPoolExecutor(max_workers=shards) as ex:
        res = list(ex.map(one, enumerate(files)))
    rej = [r for rs, _ in res for r in rs]
    n = sum(c for _, c in res)
    return {"rejects": rej, "lines": n, "states": n + len(files), "wall_s": time.time() - t0}
