"""C08 -- strapdown INS propagation is the exact flow (spec/Strapdown.tla)."""
import sys, json, math
import numpy as np
import casadi as ca
from harness.core import Run, run_tlc, parse_dump, main_wrap, MachineryError
from harness.lie import so3_param, rot
from harness import explog as E

PID = "C08"


def build():
    from cyecca.models import rdd2
    return rdd2.derive_strapdown_ins_propagation()["strapdown_ins_propagate"]


def build_mrp():
    """the same mixed-invariant propagation through the group method exp_mixed of SE23Mrp (the property names the
    SE_2(3) group method, not only the quaternion instance shipped in rdd2.py)"""
    import cyecca.lie as lie
    dt = ca.SX.sym("dt"); X0 = lie.SE23Mrp.elem(ca.SX.sym("X0", 9)); a_b = ca.SX.sym("a_b", 3); g = ca.SX.sym("g")
    omega_b = ca.SX.sym("omega_b", 3)
    l = lie.se23.elem(ca.vertcat(0, 0, 0, a_b, omega_b))
    r = lie.se23.elem(ca.vertcat(0, 0, 0, 0, 0, -g, 0, 0, 0))
    B = ca.sparsify(ca.SX([[0, 1], [0, 0]]))
    X1 = lie.SE23Mrp.exp_mixed(X0, l * dt, r * dt, B * dt)
    return ca.Function("strapdown_mrp", [X0.param, a_b, omega_b, g, dt], [X1.param, ca.densify(X1.R.to_Matrix())])


def pval(P, mu):
    c = np.array(P["c"], float)
    return (c[0] + mu * c[1] + mu * mu * c[2]) / P["d"]


def state_vec(s, mu, vscale=1.0):
    return np.concatenate([pval(s["p"], mu), pval(s["v"], mu) * vscale, so3_param("quat", s["q"])])


_FM = {}


def replay(run, f, tv):
    cmp = E.Cmp(run)
    h = tv["h"]; th, nu, mu, v, n = E.hscal(h)
    mu = mu if mu is not None else 0.0
    T = 1.0 if tv["op"] == "tick" else 2.0
    phi = nu * v                      # rotation vector per unit time
    a = np.array(tv["a"], float); g = float(tv["g"])
    cell = tv["cell"]
    x0 = state_vec(tv["pre"], mu)
    want_p = pval(tv["post"]["p"], mu); want_v = pval(tv["post"]["v"], mu); R1 = rot(tv["post"]["q"])
    run.count("evaluations")

    def check(x1, tag, vs=1.0, extra=None):
        x1 = np.array(x1).flatten()
        ok = cmp.vec(f"strapdown/position/{tag}/{cell}", "position is not the exact flow", x1[:3], want_p, tv, extra)
        ok &= cmp.vec(f"strapdown/velocity/{tag}/{cell}", "velocity is not the exact flow", x1[3:6] / vs, want_v, tv, extra)
        q = x1[6:]
        ok &= cmp.vec(f"strapdown/attitude/{tag}/{cell}", "attitude is not R0 exp(w dt)", rot_of(q), R1, tv, extra)
        ok &= cmp.vec(f"strapdown/unit_norm/{tag}/{cell}", "quaternion norm not kept", np.array([q @ q]), np.ones(1), tv, extra)
        return ok
    # (1) the step itself, dt = T
    x1 = f(x0, a, phi, g, T)
    check(x1, "dt=T")
    from harness import cas as _cas
    _cas.named_probe(f, [x0, a, phi, [g], [T]], [np.array(x1).flatten()])       # the same call by argument NAME
    # (1b) the same step through SE23Mrp.exp_mixed (MRP attitude; skipped when the pre-attitude has no MRP)
    qp = tv["pre"]["q"]; qn = tv["post"]["q"]
    mrp_singular = lambda q: q[1] == 0 and q[2] == 0 and q[3] == 0 and q[0] < 0     # 360-degree MRP singularity (inherent)
    if not (mrp_singular(qp) or mrp_singular(qn)):
        if "f" not in _FM:
            _FM["f"] = build_mrp()
        x0m = np.concatenate([x0[:6], so3_param("mrp", qp)])
        xm, Rm = _FM["f"](x0m, a, phi, g, T)
        xm = np.array(xm).flatten()
        cmp.vec(f"exp_mixed_mrp/position/{cell}", "SE23Mrp.exp_mixed: position is not the exact flow", xm[:3], want_p, tv)
        cmp.vec(f"exp_mixed_mrp/velocity/{cell}", "SE23Mrp.exp_mixed: velocity is not the exact flow", xm[3:6], want_v, tv)
        cmp.vec(f"exp_mixed_mrp/attitude/{cell}", "SE23Mrp.exp_mixed: attitude is not R0 exp(w dt)", np.array(Rm), R1, tv)
    # (2) time scaling: any dt gives the same flow (dt = T/100: rates x100, accelerations x1e4)
    k = 100.0
    x0s = state_vec(tv["pre"], mu, vscale=k)
    x1s = f(x0s, a * k * k, phi * k, g * k * k, T / k)
    check(x1s, "dt=T/100", vs=k)
    # (3) composition on the code itself: dt1 then dt2 == dt1 + dt2, and dt = 0 is the identity
    xa = f(f(x0, a, phi, g, 0.3 * T), a, phi, g, 0.7 * T)
    check(xa, "dt=0.3T+0.7T")
    # (3b) negative steps ("for any dt": the flow is a group in dt): forward dt = T then dt = -T is the identity, and
    #      1.5 T followed by -0.5 T is the step T itself
    xb = np.array(f(f(x0, a, phi, g, T), a, phi, g, -T)).flatten()
    cmp.vec(f"strapdown/negative_step_roundtrip/{cell}", "dt = T followed by dt = -T is not the identity",
            np.concatenate([xb[:6], rot_of(xb[6:]).flatten()]), np.concatenate([x0[:6], rot(tv["pre"]["q"]).flatten()]), tv)
    xc = f(f(x0, a, phi, g, 1.5 * T), a, phi, g, -0.5 * T)
    check(xc, "dt=1.5T-0.5T")
    # (3c) the group method itself called with NUMBERS and a tiny step (a 10 kHz IMU, dt = 1e-4 ... 5e-7): increments such as
    #      a*dt of 1e-7 are ordinary data; the result must equal the exported function evaluated at the same numbers
    if _TINY["n"] < 24:
        _TINY["n"] += 1
        import cyecca.lie as lie_
        for dts in (1e-4, 5e-7):
            a_t = np.array([a[0] * 1e-3, a[1] * 1e-3, a[2]])          # small horizontal specific force
            xt = np.array(f(x0, a_t, phi, g, dts)).flatten()
            X0n = lie_.SE23Quat.elem(ca.DM(x0))
            ln = lie_.se23.elem(ca.DM(np.concatenate([[0, 0, 0], a_t, phi]) * dts))
            rn = lie_.se23.elem(ca.DM(np.array([0, 0, 0, 0, 0, -g, 0, 0, 0.0]) * dts))
            Bn = ca.sparsify(ca.SX([[0, 1], [0, 0]])) * dts
            try:
                xn = np.array(ca.DM(lie_.SE23Quat.exp_mixed(X0n, ln, rn, Bn).param)).flatten()
            except Exception as ex:     # noqa
                run.violation(f"exp_mixed/numeric_tiny_step/raises", f"{type(ex).__name__}: {ex}", {"tv": tv}); break
            cmp.vec(f"exp_mixed/numeric_tiny_step/dt={dts:g}", "SE23Quat.exp_mixed called with numbers and a tiny step differs from the exported "
                    "function at the same numbers", (xn - x0) / dts, (xt - x0) / dts, tv)
    xz = np.array(f(x0, a, phi, g, 0.0)).flatten()
    cmp.vec(f"strapdown/dt0_identity/{cell}", "dt = 0 is not the identity", np.concatenate([xz[:6], rot_of(xz[6:]).flatten()]),
            np.concatenate([x0[:6], rot(tv["pre"]["q"]).flatten()]), tv)


_TINY = {"n": 0}


def replay_long(run, f, tv):
    """a long schedule with the output fed back (Strapdown!LongSegs): after every segment the state must be the exact
    flow of the segment (5x5 matrix exponential of the augmented system), the quaternion norm 1 at EVERY step"""
    from scipy.linalg import expm
    cmp = E.Cmp(run)
    dt = tv["dt"][0] / tv["dt"][1]
    x = state_vec(tv["pre"], 0.0)
    p, v, R = x[:3].copy(), x[3:6].copy(), rot(tv["pre"]["q"])
    step = 0
    for k, sg in enumerate(tv["segs"]):
        w = np.array(sg["w"], float) / sg["wd"]; a = np.array(sg["a"], float); g = float(sg["g"]); n = sg["n"]
        worst = 0.0
        for _ in range(n):
            x = np.array(f(x, a, w, g, dt)).flatten()
            step += 1
            worst = max(worst, abs(float(x[6:] @ x[6:]) - 1.0)) if np.all(np.isfinite(x[6:])) else float("inf")
        run.count("evaluations", n)
        T = n * dt
        M = np.zeros((5, 5)); M[:3, :3] = [[0, -w[2], w[1]], [w[2], 0, -w[0]], [-w[1], w[0], 0]]; M[:3, 3] = a; M[3, 4] = 1.0
        Ex = expm(M * T)
        e3 = np.array([0, 0, 1.0])
        p = p + v * T + R @ Ex[:3, 4] - g * e3 * T * T / 2
        v = v + R @ Ex[:3, 3] - g * e3 * T
        R = R @ Ex[:3, :3]
        tag = f"seg{k + 1}"
        info = {"segment": sg, "steps_so_far": step, "dt": dt}
        cmp.vec(f"strapdown/long/position/{tag}", "position after a long sequence of steps is not the exact flow", x[:3], p, tv, info)
        cmp.vec(f"strapdown/long/velocity/{tag}", "velocity after a long sequence of steps is not the exact flow", x[3:6], v, tv, info)
        cmp.vec(f"strapdown/long/attitude/{tag}", "attitude after a long sequence of steps is not R0 exp(w t)", rot_of(x[6:]), R, tv, info)
        if not worst <= 1e-9:
            run.violation(f"strapdown/long/unit_norm/{tag}", "the quaternion norm drifts when the output is fed back step after step",
                          {"tv": tv, "worst_abs_norm_sq_minus_1": worst, "steps_so_far": step, "dt": dt})


def rot_of(q):
    w, x, y, z = q
    return np.array([[w*w + x*x - y*y - z*z, 2*(x*y - w*z), 2*(x*z + w*y)],
                     [2*(x*y + w*z), w*w - x*x + y*y - z*z, 2*(y*z - w*x)],
                     [2*(x*z - w*y), 2*(y*z + w*x), w*w - x*x - y*y + z*z]]) / (q @ q)


def main():
    tier = sys.argv[1] if len(sys.argv) > 1 else "quick"
    run = Run(PID, tier)
    from harness.lie import touch_all as _touch_all
    _touch_all()        # first uses of the Lie API happen BEFORE the models are derived (see harness/lie.py)
    from harness import history as _history      # derivation histories in fresh interpreters (spec/DeriveHistory.tla)
    _history.run_models(run, tier, ("rdd2:strapdown",))
    if _history.hook(run, tier, {"scaled", "mixed", "mixed2"}):      # exp_mixed / l * dt called repeatedly with the same objects (spec/LieHistory.tla, H3/H4)
        return run.finish()
    f = build()
    if "--replay" in sys.argv:
        d = json.load(open(sys.argv[sys.argv.index("--replay") + 1]))
        (replay_long if d["data"]["tv"].get("op") == "long" else replay)(run, f, d["data"]["tv"])
        return run.finish()
    E.selftest()
    res = run_tlc("Strapdown.tla", f"Strapdown_{tier}.cfg", workdir=run.workdir, dump=True)
    run.add_tlc("Strapdown", res)
    n = 0; ops = {}; cells = {}; depths = {}
    for st in parse_dump(res["dump"]):
        tv = st["tv"]
        if tv["op"] == "start":
            continue
        if tv["op"] == "long":
            ops["long"] = ops.get("long", 0) + 1
            replay_long(run, f, tv)
            continue
        n += 1
        ops[tv["op"]] = ops.get(tv["op"], 0) + 1
        cells[tv["cell"]] = cells.get(tv["cell"], 0) + 1
        depths[tv["depth"]] = depths.get(tv["depth"], 0) + 1
        if n % 997 == 1:
            run.sample({k: tv[k] for k in ("op", "h", "a", "g", "depth")} | {"pre_q": tv["pre"]["q"]}, limit=6)
        replay(run, f, tv)
    if not {"tick", "double", "long"} <= set(ops) or not {"zero", "small", "regular", "beyondpi", "pi"} <= set(cells) or max(depths) < 2:
        raise MachineryError(f"vacuous coverage: ops={ops} cells={cells} depths={depths}")
    run.assumptions += [
        "rotation per step of rational half-angle type (0, 1e-3 .. 4.7 rad incl. both sides of the small-angle switch and beyond pi); integer specific force and gravity; initial states rational",
        "histories: up to 3 consecutive steps with the same angular rate and changing specific force/gravity (the spec state is closed under such steps); steps with different non-parallel rates are composed code-vs-code only (dt1 then dt2 vs dt1+dt2)",
        "trusted: embedding double mu (mpmath self-test)",
    ]
    return run.finish({
        "traces_validated_against_impl": n, "evaluations": run.counts.get("evaluations", 0) * 4,
        "distinct_nontrivial": n - cells.get("zero", 0),
        "rule": "one TLC state = one step (pre-state, rotation element, specific force, gravity, exact post-state) reached after 0-2 earlier steps; non-trivial = non-zero rotation",
        "per_op": ops, "cells": cells, "depths": depths, "exhaustive": True,
    })


if __name__ == "__main__":
    main_wrap(main)
