"""G01 (growth) -- the PLANT side of the attitude-estimation simulation.

 (1) spec/SensorModel.tla: TLC enumerates exact test vectors for algorithms/sim.py (get_state,
     measure_gyro/accel/mag, rotation_error, simulate, constants), proving on every state the laws
     that make the expectation the right one; every state is replayed into the real CasADi
     functions built from the working tree (engine A), two-sided 1e-9 (RK4 clause: 3 theta^5).
 (2) spec/SimulatorNode.tla: TLC model-checks the schedule of the Simulator node on a lattice of
     period settings (incl. one parameter change per run); real executions of the node are
     recorded (harness/simnode_rec.py) and validated line by line by TLC against
     spec/SimulatorNodeTrace.tla (engine C), plus a self-test that corrupts / drops lines.

Growth specs never raise a property alarm: harness.core prints DEVIATION for ids starting with G."""
import copy
import json
import math
import os
import random
import sys
import time
from concurrent.futures import ThreadPoolExecutor

import numpy as np

from harness.core import Run, run_tlc, parse_dump, main_wrap, MachineryError, NCPU
from harness.cas import batch_call
from harness import tracecheck

PID = "G01"
TOL = 1e-9
RK4_C = 3.0          # |R(r1) - R(q h)| <= RK4_C theta^5 + 1e-9 per step (justified in spec/SensorModel.tla)


# ------------------------------------------------------------------ embedding of exact values
def fr(s):
    return s["num"] / s["den"]


def vfr(v):
    return np.array(v["num"], float) / float(v["den"])


def xvec(tv):
    return np.concatenate([vfr(tv["x"]["r"]), vfr(tv["x"]["b"])])


def qmat(q):
    w, x, y, z = [float(c) for c in q]
    return np.array([[w*w + x*x - y*y - z*z, 2*(x*y - w*z), 2*(x*z + w*y)],
                     [2*(x*y + w*z), w*w - x*x + y*y - z*z, 2*(y*z - w*x)],
                     [2*(x*z - w*y), 2*(y*z + w*x), w*w - x*x - y*y + z*z]])


def rot_cols_mrp(R):
    """rotation matrices (9 x N, row-major) of MRP columns R (3 x N): textbook quaternion route"""
    n2 = np.sum(R * R, axis=0)
    w = (1 - n2) / (1 + n2); v = 2 * R / (1 + n2)
    return rot_cols_quat(np.vstack([w, v]))


def rot_cols_quat(Q):
    w, x, y, z = Q
    n = w*w + x*x + y*y + z*z
    return np.vstack([w*w + x*x - y*y - z*z, 2*(x*y - w*z), 2*(x*z + w*y),
                      2*(x*y + w*z), w*w - x*x + y*y - z*z, 2*(y*z - w*x),
                      2*(x*z - w*y), 2*(y*z + w*x), w*w - x*x - y*y + z*z]) / n


def rm_cols(tvs, key):
    return np.array([(np.array(tv[key]["num"], float) / float(tv[key]["den"])).flatten() for tv in tvs]).T


def colerr(A, B):
    """per-column max |A - B| and the 1e-9 tolerance of the house rule"""
    with np.errstate(invalid="ignore"):
        d = np.max(np.abs(A - B), axis=0)
    tol = TOL * np.maximum(1.0, np.max(np.abs(B), axis=0))
    return d, tol


def flag(run, bad, keyf, what, tvs, extra=None):
    for k in np.nonzero(bad)[0]:
        data = {"tv": tvs[k]}
        if extra is not None:
            data.update(extra(int(k)))
        run.violation(keyf(int(k)), what, data)


def sgn(v):
    return "-" if v < 0 else ("+" if v > 0 else "0")


def build():
    from cyecca.estimate.attitude.algorithms import sim
    return sim.eqs()


# ------------------------------------------------------------------ engine A: one group per operation
def rp_get_state(run, E, tvs):
    X = np.array([xvec(tv) for tv in tvs]).T
    q, r, b = batch_call(E["get_state"], [X])
    cell = [tv["cell"] for tv in tvs]
    d, tol = colerr(r, X[:3]); run.err(float(np.nanmax(d)))
    flag(run, ~(d <= tol), lambda k: f"get_state/r_passthrough/{cell[k]}", "returned MRP is not the MRP of the state", tvs)
    d, tol = colerr(b, X[3:])
    flag(run, ~(d <= tol), lambda k: f"get_state/b_passthrough/{cell[k]}", "returned bias is not the bias of the state", tvs)
    d, tol = colerr(np.sum(q * q, axis=0)[None], np.ones((1, len(tvs))))
    flag(run, ~(d <= tol), lambda k: f"get_state/q_unit/{cell[k]}", "returned quaternion is not of unit norm", tvs,
         lambda k: {"q": q[:, k].tolist()})
    d, tol = colerr(rot_cols_quat(q), rm_cols(tvs, "eR")); run.err(float(np.nanmax(d)))
    flag(run, ~(d <= tol), lambda k: f"get_state/q_rotation/{cell[k]}", "returned quaternion is a different rotation than the MRP of the state", tvs,
         lambda k: {"q": q[:, k].tolist()})
    ds, tol = colerr(q, np.array([vfr(tv["eq"]) for tv in tvs]).T)
    for k in np.nonzero(~(ds <= tol) & (d <= tol))[0]:
        run.spec_drift(f"get_state/q_sign/{cell[k]}", "quaternion has the other sign than (1-|r|^2, 2r)/(1+|r|^2) (same rotation)")


def noise_cols(tvs):
    return np.array([fr(tv["std"]) for tv in tvs])[None], np.array([tv["w"] for tv in tvs], float).T


def rp_measure(run, E, tvs, name):
    """measure_accel / measure_mag / measure_gyro: value, norm at zero noise, linearity in the noise"""
    X = np.array([xvec(tv) for tv in tvs]).T
    std, W = noise_cols(tvs)
    n = len(tvs)
    if name == "measure_accel":
        sc = np.array([fr(tv["g"]) for tv in tvs])[None]
        args = lambda w: [X, sc, std, w]
        y0 = sc * np.array([vfr(tv["ydir"]) for tv in tvs]).T
        cell = [tv["cell"] for tv in tvs]
        nrm = "g"
    elif name == "measure_mag":
        sc = np.array([fr(tv["ms"]) for tv in tvs])[None]
        decl = np.array([math.atan2(tv["decl"][1], tv["decl"][0]) for tv in tvs])[None]
        incl = np.array([math.atan2(tv["incl"][1], tv["incl"][0]) for tv in tvs])[None]
        args = lambda w: [X, sc, decl, incl, std, w]
        y0 = sc * np.array([vfr(tv["ydir"]) for tv in tvs]).T
        cell = [f"{tv['cell']}/decl{'pi' if tv['decl'][1] == 0 and tv['decl'][0] < 0 else sgn(tv['decl'][1])}/incl{sgn(tv['incl'][1])}" for tv in tvs]
        nrm = "mag_str"
    else:
        om = np.array([vfr(tv["y0"]["om"]) for tv in tvs]).T
        sc = None
        args = lambda w: [X, om, std, w]
        y0 = om + np.array([vfr(tv["y0"]["b"]) for tv in tvs]).T
        cell = [tv["cell"] for tv in tvs]
        nrm = None
    f = E[name]
    (y,) = batch_call(f, args(W))
    (yz,) = batch_call(f, args(np.zeros((3, n))))
    run.count("evaluations", 2 * n)
    want = y0 + std * W
    d, tol = colerr(y, want); run.err(float(np.nanmax(d)))
    flag(run, ~(d <= tol), lambda k: f"{name}/value/{cell[k]}", f"{name} differs from the exact sensor model (reference vector rotated by R^T, plus std*w)", tvs,
         lambda k: {"got": y[:, k].tolist(), "want": want[:, k].tolist()})
    if nrm:
        d, tol = colerr(np.sqrt(np.sum(yz * yz, axis=0))[None], np.abs(sc))
        flag(run, ~(d <= tol), lambda k: f"{name}/norm/{cell[k]}", f"|{name}| at zero noise is not {nrm}", tvs, lambda k: {"got": yz[:, k].tolist()})
    d, tol = colerr(y - yz, std * W)
    flag(run, ~(d <= tol), lambda k: f"{name}/noise_linear/{cell[k]}", "noise does not enter as std*w", tvs,
         lambda k: {"got": (y - yz)[:, k].tolist(), "want": (std * W)[:, k].tolist()})
    return set(cell)


def rp_rotation_error(run, E, tvs):
    n = len(tvs)
    Q1 = np.array([np.array(tv["q1"], float) / math.sqrt(sum(c * c for c in tv["q1"])) for tv in tvs]).T
    Q2 = np.array([np.array(tv["q2"], float) / math.sqrt(sum(c * c for c in tv["q2"])) for tv in tvs]).T
    f = E["rotation_error"]
    (xi,) = batch_call(f, [Q1, Q2])
    (xr,) = batch_call(f, [Q2, Q1])
    run.count("evaluations", 2 * n)
    want = np.zeros((3, n))
    for k, tv in enumerate(tvs):
        w, v = tv["dqp"][0], np.array(tv["dqp"][1:], float)
        s = math.sqrt(float(v @ v))
        if s > 0:
            want[:, k] = 2.0 * math.atan2(s, w) / s * v
    cell = [tv["cell"] for tv in tvs]
    pi = np.array([c == "pi" for c in cell])
    d, tol = colerr(xi, want)
    dm, _ = colerr(xi, -want)
    d = np.where(pi, np.minimum(d, dm), d)          # exactly 180 degrees: both signs are the principal value
    run.err(float(np.nanmax(d)))
    flag(run, ~(d <= tol), lambda k: f"rotation_error/value/{cell[k]}", "rotation_error is not the principal log of q1^-1 q2", tvs,
         lambda k: {"got": xi[:, k].tolist(), "want": want[:, k].tolist()})
    d, tol = colerr(xi + xr, np.zeros((3, n)))
    flag(run, ~(d <= tol) & ~pi, lambda k: f"rotation_error/antisymmetry/{cell[k]}", "rotation_error(q1,q2) is not -rotation_error(q2,q1)", tvs,
         lambda k: {"xi12": xi[:, k].tolist(), "xi21": xr[:, k].tolist()})


def sim_inputs(tvs):
    X = np.array([xvec(tv) for tv in tvs]).T
    sd = np.array([fr(tv["sd"]) for tv in tvs])
    dt = (sd * sd)[None]
    sn = np.array([fr(tv["sn"]) for tv in tvs])[None]
    W = np.array([tv["w"] for tv in tvs], float).T
    return X, dt, sn, W


def rp_sim0(run, E, tvs):
    n = len(tvs)
    X, dt, sn, W = sim_inputs(tvs)
    f = E["simulate"]
    (x1,) = batch_call(f, [np.full((1, n), 0.37), X, np.zeros((3, n)), sn, W, dt])
    run.count("evaluations", n)
    cell = [tv["cell"] for tv in tvs]
    d, tol = colerr(rot_cols_mrp(x1[:3]), np.array([(qmat(tv["q"]) / sum(c * c for c in tv["q"])).flatten() for tv in tvs]).T)
    run.err(float(np.nanmax(d)))
    flag(run, ~(d <= tol), lambda k: f"simulate/omega0_attitude/{cell[k]}", "omega = 0: the attitude changed", tvs, lambda k: {"x1": x1[:, k].tolist()})
    r1 = np.array([vfr(tv["r1"]) for tv in tvs]).T
    dr, tolr = colerr(x1[:3], r1)
    notpi = np.array([c != "pi" for c in cell])
    flag(run, ~(dr <= tolr) & notpi & (d <= tol), lambda k: f"simulate/omega0_mrp/{cell[k]}",
         "omega = 0: the returned MRP is not the representative of norm <= 1 of the same rotation", tvs, lambda k: {"x1": x1[:, k].tolist()})
    nr = np.sqrt(np.sum(x1[:3] ** 2, axis=0))
    flag(run, ~(nr <= 1 + TOL), lambda k: f"simulate/norm_le_1/{cell[k]}", "returned MRP has norm > 1 (shadow switch missing)", tvs,
         lambda k: {"x1": x1[:, k].tolist(), "norm": float(nr[k])})
    wantb = X[3:] + np.array([vfr(tv["db"]) for tv in tvs]).T
    d, tol = colerr(x1[3:], wantb)
    flag(run, ~(d <= tol), lambda k: f"simulate/bias_walk/{cell[k]}", "bias is not b + sn sqrt(dt) w", tvs,
         lambda k: {"got": x1[3:, k].tolist(), "want": wantb[:, k].tolist()})


def rp_simw(run, E, tvs, stats):
    n = len(tvs)
    X, dt, sn, W = sim_inputs(tvs)
    f = E["simulate"]
    th = np.empty(n); OM = np.empty((3, n))
    for k, tv in enumerate(tvs):
        v = np.array(tv["h"][1:], float); s = math.sqrt(float(v @ v))
        th[k] = 2.0 * math.atan2(s, tv["h"][0])
        OM[:, k] = th[k] / s * v / dt[0, k]
    K = np.array([tv["k"] for tv in tvs])
    x = X.copy()
    nmax = np.zeros(n)
    for step in range(1, int(K.max()) + 1):
        (xn,) = batch_call(f, [np.full((1, n), 0.37 + step), x, OM, sn, W, dt])
        act = K >= step
        x[:, act] = xn[:, act]
        nmax = np.maximum(nmax, np.where(act, np.sqrt(np.sum(xn[:3] ** 2, axis=0)), 0))
        run.count("evaluations", int(act.sum()))
    (xt,) = batch_call(f, [np.full((1, n), 123.0), X, OM, sn, W, dt])          # other time argument, first step
    (x1,) = batch_call(f, [np.full((1, n), 1.37), X, OM, sn, W, dt])
    cell = [tv["cell"] for tv in tvs]
    op = [tv["op"] for tv in tvs]
    with np.errstate(invalid="ignore"):
        d = np.max(np.abs(rot_cols_mrp(x[:3]) - rm_cols(tvs, "eR")), axis=0)
    bound = K * RK4_C * th ** 5 * 1.01 + TOL
    ok = d <= bound
    outside = np.array([c == "shadow_in" for c in cell])       # |r0| > 1: outside the derivation of the bound (informational)
    for k in np.nonzero(~ok & outside)[0]:
        run.spec_drift(f"simulate/rk4_flow/{op[k]}/shadow_in", "input outside the unit ball: attitude after the step further than 3 theta^5 from q*exp(omega dt)")
    ok = ok | outside
    flag(run, ~ok, lambda k: f"simulate/rk4_flow/{op[k]}/{cell[k]}",
         "attitude after the step is not q*exp(omega dt) within the RK4 truncation bound 3 theta^5 per step", tvs,
         lambda k: {"x1": x[:, k].tolist(), "err": float(d[k]), "bound": float(bound[k]), "theta": float(th[k])})
    if np.any(ok):
        stats["rk4_max_err_over_theta5"] = max(stats.get("rk4_max_err_over_theta5", 0.0), float(np.max((d / (K * th ** 5))[ok & (d <= bound)])))
        stats["rk4_max_err"] = max(stats.get("rk4_max_err", 0.0), float(np.max(d[ok])))
    flag(run, ~(nmax <= 1 + TOL), lambda k: f"simulate/norm_le_1/{cell[k]}", "returned MRP has norm > 1 (shadow switch missing)", tvs,
         lambda k: {"x1": x[:, k].tolist(), "norm": float(nmax[k])})
    wantb = X[3:] + np.array([vfr(tv["db"]) for tv in tvs]).T
    dd, tol = colerr(x[3:], wantb)
    flag(run, ~(dd <= tol), lambda k: f"simulate/bias_walk/{cell[k]}", "bias is not b + k sn sqrt(dt) w (it must not depend on attitude or rate)", tvs,
         lambda k: {"got": x[3:, k].tolist(), "want": wantb[:, k].tolist()})
    dd, tol = colerr(xt, x1)
    flag(run, ~(dd <= tol), lambda k: "simulate/time_invariance", "result depends on the time argument", tvs)


def rp_constants(run, E, tvs):
    x0 = np.array(E["constants"]()["x0"]).flatten()
    run.count("evaluations")
    if x0.shape != (6,) or not np.all(np.isfinite(x0)) or float(x0[:3] @ x0[:3]) > 1 + TOL:
        run.violation("constants/valid_state", "x0 is not a valid plant state (6 finite numbers, |mrp| <= 1)", {"tv": tvs[0], "x0": x0.tolist()})
    elif not np.allclose(x0, vfr(tvs[0]["x0"]), rtol=0, atol=1e-12):
        run.spec_drift("constants/x0", f"x0 = {x0.tolist()} differs from the transcribed default (implementation detail)")


def replay_group(run, E, op, tvs, stats):
    run.count("evaluations", 0)
    if op == "get_state":
        run.count("evaluations", len(tvs)); rp_get_state(run, E, tvs)
    elif op in ("measure_accel", "measure_mag", "measure_gyro"):
        stats.setdefault("cells_" + op, set()).update(rp_measure(run, E, tvs, op))
    elif op == "rotation_error":
        rp_rotation_error(run, E, tvs)
    elif op == "sim0":
        rp_sim0(run, E, tvs)
    elif op in ("simw", "simn"):
        rp_simw(run, E, tvs, stats)
    elif op == "constants":
        rp_constants(run, E, tvs)
    else:
        raise MachineryError(f"unknown op {op}")


NEED = {
    "get_state": {"identity", "inside", "pi", "shadow"}, "measure_accel": {"identity", "inside", "pi", "shadow"},
    "measure_gyro": {"inside", "shadow"}, "measure_mag": {"identity", "inside", "pi", "shadow"},
    "rotation_error": {"zero", "zero_neg", "pi", "wneg", "wpos", "small", "nearpi"},
    "sim0": {"identity", "inside", "pi", "shadow"}, "simw": {"inside", "cross", "boundary", "shadow_in"},
    "simn": {"inside", "cross"}, "constants": {"x0"},
}


# ------------------------------------------------------------------ engine C: the Simulator node
SS = {"quick": (1000, 2500, 5000), "thorough": (500, 1000, 2500, 4000, 5000)}
IS = {"quick": (2500, 5000, 7500), "thorough": (2500, 5000, 7500, 10000)}
MS = {"quick": (5000, 7500, 12500, 20000, 50000), "thorough": (2500, 5000, 7500, 12500, 20000, 50000)}
HS = {"quick": (20000, 31000), "thorough": (31000, 60000)}
CHANGE = {"quick": ((2500, 5000, 7500), (5000, 5000, 20000), (1000, 2500, 12500)),
          "thorough": ((2500, 5000, 7500), (5000, 5000, 20000), (1000, 2500, 12500), (4000, 10000, 50000), (500, 2500, 2500))}
EPS = 1000


def lattice(tier):
    """python mirror of CfgsQuick / CfgsThorough of spec/SimulatorNode.tla (the number of TLC initial states is compared)"""
    return [(S, I, M) for S in SS[tier] for I in IS[tier] for M in MS[tier]]


def tie_free(S, per, H):
    """no wake-up time k*S <= H has a gap to a previous publication equal to per - 1 ms (double comparison undecided)"""
    return (per - EPS) <= 0 or (per - EPS) % S != 0


def cfg_class(c):
    S, I, M = c["S"], c["I"], c["M"]
    if c.get("change"):
        return "param_change"
    if not (tie_free(S, I, c["H"]) and tie_free(S, M, c["H"])):
        return "tie"
    if M - EPS > c["H"]:
        return "mag_period>run"
    if I == M:
        return "equal_periods"
    if M % I != 0:
        return "mag_not_multiple_of_imu"
    return "mag_multiple_of_imu"


X0S = [[0.0, 0.0, 0.0, 0.0, 0.0, 0.0], [0.1, 0.2, 0.3, 0.01, -0.02, 0.03], [0.0, 0.6, -0.79, -0.07, 0.0, 0.07],
       [-0.5, 0.5, 0.5, 0.0, 0.05, 0.0], [0.3, 0.9, 0.3, 0.02, 0.02, -0.02]]


def make_cfgs(tier, seed):
    from harness import simnode_rec as R
    rnd = random.Random(seed)
    lat = lattice(tier)
    pars = [dict(R.DEFAULT_PAR, noise=False),
            dict(sn=2e-5, sg=2e-3, sa=0.5, sm=1.5e-3, g=9.81, ms=0.25, decl=0.3, incl=-0.45, noise=False),
            dict(sn=1e-3, sg=1.1e-3, sa=36e-3, sm=2.6e-3, g=1.0, ms=1.5, decl=-2.5, incl=1.2, noise=True)]
    cfgs = []

    def add(c, H, par, change=None):
        cfgs.append({"tid": len(cfgs) + 1, "S": c[0], "I": c[1], "M": c[2], "H": H, "x0": X0S[len(cfgs) % len(X0S)], "par": par, "change": change})
    if tier == "thorough":
        for i, c in enumerate(lat):                  # the whole lattice once, horizons rotating
            add(c, HS[tier][i % len(HS[tier])] + 100 * (i % 2), pars[i % 3])
        extra = 60
    else:
        extra = 14
        # one representative of every class first
        for pick in ((2500, 5000, 7500), (2500, 5000, 5000), (2500, 5000, 20000), (5000, 5000, 50000), (1000, 5000, 12500), (5000, 2500, 7500)):
            add(pick, 31000 if pick[2] != 50000 else 31100, pars[len(cfgs) % 3])
    for _ in range(extra):
        add(rnd.choice(lat), rnd.choice(HS[tier]) + rnd.choice((0, 100, 350)), rnd.choice(pars))
    nch = 6 if tier == "quick" else 40
    for i in range(nch):                           # parameter change while the node sleeps (off the wake-up grid)
        c = rnd.choice([c for c in lat if c[0] >= 1000])
        to = rnd.choice([t for t in CHANGE[tier] if t != c])
        k = rnd.randrange(2, 8)
        at = k * c[0] + rnd.choice((c[0] // 4, c[0] // 2))
        add(c, 31000 + 100 * (i % 2), pars[i % 3], {"at": at, "S": to[0], "I": to[1], "M": to[2], "par": pars[(i + 1) % 3]})
    return cfgs


def selftest(run, traces, rejected):
    """binding demo on real recorded runs: corrupt one field / drop one line => must be rejected with the right clause"""
    clean = [t for t in traces if t[0]["tid"] not in rejected and any(ln["e"] == "mag" and ln["now"] > 0 for ln in t)
             and sum(1 for ln in t if ln["e"] == "imu") >= 3 and not any(ln["e"] == "params" for ln in t)]
    if not clean:
        if run.viol:          # every recorded run was rejected: the rejection itself is the demonstration
            run.count("selftest_skipped_no_accepted_trace")
            return {"skipped": "no accepted trace"}
        raise MachineryError("selftest: no accepted trace to corrupt")
    base = clean[0]

    def variant(i, edit):
        t = copy.deepcopy(base)
        t = edit(t) or t
        for ln in t:
            ln["tid"] = 9000 + i
        return t

    def first(t, e, pred=lambda ln: True):
        return next(i for i, ln in enumerate(t) if ln["e"] == e and pred(ln))

    def e_stamp(t):
        i = first(t, "mag", lambda ln: ln["now"] > 0); t[i]["stamp"] = t[i]["stamp"] - t[0]["S"]

    def e_dt(t):
        i = first(t, "sim", lambda ln: ln["now"] > t[0]["S"]); t[i]["dt"] += 500

    def e_ver(t):
        i = first(t, "imu", lambda ln: ln["now"] > 0); t[i]["va"] -= 1

    def e_drop_sim(t):
        i = first(t, "sim", lambda ln: ln["now"] > t[0]["S"]); del t[i]

    def e_drop_imu(t):
        i = first(t, "imu", lambda ln: ln["now"] > 0); del t[i]

    def e_content(t):
        i = first(t, "imu", lambda ln: ln["now"] > 0); t[i]["accel"] = 0

    def e_trunc(t):
        del t[-1]

    def e_decl(t):
        t[0]["defaults"][4] = 1000

    edits = [(e_stamp, "mag_stamp_is_not_now"), (e_dt, "sim_dt_is_not_elapsed_time"), (e_ver, "imu_from_stale_state"),
             (e_drop_sim, "state_not_advanced"), (e_drop_imu, None), (e_content, "imu_accel_is_not_the_sensor_model"),
             (e_trunc, "trace_truncated"), (e_decl, "declared_parameter_defaults")]
    vs = [variant(i, e) for i, (e, _) in enumerate(edits)]
    os.makedirs(run.workdir + "/st", exist_ok=True)
    # the truncated variant must be followed by another run for the truncation to be visible; the clean base goes last
    res = tracecheck.validate("SimulatorNodeTrace.tla", "SimulatorNodeTrace.cfg", vs + [base], run.workdir + "/st", shards=1)
    got = {}
    for tid, line, clause in res["rejects"]:
        got.setdefault(tid, clause)
    for i, (_, want) in enumerate(edits):
        if 9000 + i not in got or (want is not None and got[9000 + i] != want):
            raise MachineryError(f"selftest: corrupted trace {i} ({edits[i][0].__name__}) not rejected as expected: want {want}, got {got.get(9000 + i)}")
    if base[0]["tid"] in got:
        raise MachineryError("selftest: the unmodified trace was rejected next to its corrupted copies")
    run.count("selftest_corruptions_rejected", len(edits))
    return {edits[i][0].__name__[2:]: got[9000 + i] for i in range(len(edits))}


def node_part(run, tier, tlc_node, only=None):
    from harness import simnode_rec as R
    from cyecca.estimate.attitude.algorithms import sim as simalg
    sim_eqs = simalg.eqs()
    cfgs = only if only is not None else make_cfgs(tier, run.seed)
    traces, infos = [], {}
    for c in cfgs:
        try:
            lines, info = R.run_node(c, sim_eqs)
        except Exception as e:      # noqa: the node itself failed
            run.violation(f"simulator/exception/{cfg_class(c)}", f"Simulator run raised {type(e).__name__}: {e}", {"cfg": c})
            continue
        traces.append(lines); infos[c["tid"]] = info
        for key, what in info["drift"]:
            run.spec_drift(key, what)
        run.err(info["max_content_err"])
    if not traces:
        raise MachineryError("no Simulator run could be recorded")
    for c in cfgs:          # informational: the absolute 1 ms slack shortens a period when dt_sim <= 1 ms (see SimulatorNode.tla, GridGap)
        i = infos.get(c["tid"])
        if i and not c.get("change"):
            for name, per, st in (("imu", c["I"], i["imu_stamps"]), ("mag", c["M"], i["mag_stamps"])):
                gaps = {b - a for a, b in zip(st, st[1:])}
                if gaps and min(gaps) < per:
                    run.spec_drift(f"simulator/{name}_period_shortened_by_1ms_slack",
                                   f"dt_sim={c['S']}us, dt_{name}={per}us: consecutive {name} stamps only {min(gaps)}us apart "
                                   "(rate limit is period - 1 ms on the dt_sim grid; model-conformant, but faster than configured)")
    val = tracecheck.validate("SimulatorNodeTrace.tla", "SimulatorNodeTrace.cfg", traces, run.workdir, shards=min(6, max(1, len(traces) // 8)))
    run.tlc.append({"name": "SimulatorNodeTrace", "states": val["states"], "distinct": val["states"], "depth": val["lines"], "wall_s": round(val["wall_s"], 2)})
    bytid = {c["tid"]: c for c in cfgs}
    rejected = set()
    for tid, line, clause in val["rejects"]:
        c = bytid.get(tid)
        rejected.add(tid)
        tr = next(t for t in traces if t[0]["tid"] == tid)
        # `line` is the line number inside the shard file: recover the offending line by searching this run's lines is not
        # possible in general, so the replay record carries the configuration (re-run reproduces it) and a short excerpt
        run.violation(f"simulator/{clause}/{cfg_class(c)}", f"recorded Simulator run rejected by SimulatorNodeTrace: {clause}",
                      {"cfg": c, "clause": clause, "shard_line": line, "imu_stamps": infos[tid]["imu_stamps"][:12], "mag_stamps": infos[tid]["mag_stamps"][:12],
                       "first_lines": tr[1:12]})
    return cfgs, traces, infos, val, rejected


# ------------------------------------------------------------------ main
def main():
    tier = sys.argv[1] if len(sys.argv) > 1 else "quick"
    run = Run(PID, tier)
    stats = {}
    if "--replay" in sys.argv:
        d = json.load(open(sys.argv[sys.argv.index("--replay") + 1]))
        if "tv" in d["data"]:
            tv = d["data"]["tv"]
            replay_group(run, build(), tv["op"], [tv], stats)
        else:
            node_part(run, tier, None, only=[d["data"]["cfg"]])
        return run.finish()
    # the two model-checking runs go side by side with the (slow) import of cyecca
    with ThreadPoolExecutor(max_workers=2) as ex:
        w = max(2, NCPU // 2)
        f1 = ex.submit(run_tlc, "SensorModel.tla", f"SensorModel_{tier}.cfg", workdir=run.workdir, dump=True, workers=w)
        f2 = ex.submit(run_tlc, "SimulatorNode.tla", f"SimulatorNode_{tier}.cfg", workdir=run.workdir, workers=w)
        try:
            E = build()
        except Exception as e:      # noqa: the equations cannot even be constructed from this tree
            E = None
            run.violation(f"sim.eqs/raises/{type(e).__name__}", f"building the simulation equations raises: {e}", {"exception": repr(e)})
        res, resn = f1.result(), f2.result()
    if E is None:
        return run.finish()
    run.add_tlc("SensorModel", res)
    run.add_tlc("SimulatorNode", resn)
    m = None
    import re
    m = re.search(r"Finished computing initial states: (\d+) distinct", resn["out"])
    if not m or int(m.group(1)) != len(lattice(tier)) * len(HS[tier]):
        raise MachineryError(f"python mirror of the period lattice is out of date: TLC has {m.group(1) if m else '?'} initial states, "
                             f"mirror {len(lattice(tier)) * len(HS[tier])}")
    # ---- engine A
    groups, cells = {}, {}
    n = 0
    for st in parse_dump(res["dump"]):
        tv = st["tv"]
        if tv["op"] == "seed":
            continue
        n += 1
        groups.setdefault(tv["op"], []).append(tv)
        cells[(tv["op"], tv["cell"])] = cells.get((tv["op"], tv["cell"]), 0) + 1
    os.remove(res["dump"])
    for op, tvs in sorted(groups.items()):
        tvs.sort(key=lambda t: json.dumps(t, sort_keys=True))
        t = tvs[len(tvs) // 3]
        run.sample({k: t[k] for k in ("op", "cell", "q", "h", "k", "decl", "incl", "q1", "q2") if k in t}, limit=12)
        for s in range(0, len(tvs), 20000):
            replay_group(run, E, op, tvs[s:s + 20000], stats)
    for op, need in NEED.items():
        seen = {c for (o, c) in cells if o == op}
        if not need <= seen:
            raise MachineryError(f"vacuous coverage: {op}: cells never reached: {sorted(need - seen)}")
    mc = stats.get("cells_measure_mag", set())
    if not any("/incl+" in c for c in mc) or not any("/incl-" in c for c in mc) or not any("/decl+" in c for c in mc) or not any("/declpi" in c for c in mc):
        raise MachineryError(f"vacuous coverage: measure_mag declination/inclination signs: {sorted(mc)[:8]}")
    # ---- engine C
    cfgs, traces, infos, val, rejected = node_part(run, tier, resn)
    classes = {}
    for c in cfgs:
        classes[cfg_class(c)] = classes.get(cfg_class(c), 0) + 1
    need = {"param_change", "tie", "mag_period>run", "equal_periods", "mag_not_multiple_of_imu", "mag_multiple_of_imu"}
    if not need <= set(classes):
        raise MachineryError(f"vacuous coverage: Simulator configuration classes never run: {sorted(need - set(classes))}")
    kinds = {}
    for t in traces:
        for ln in t:
            kinds[ln["e"]] = kinds.get(ln["e"], 0) + 1
    if not {"start", "sim", "att", "imu", "mag", "sleep", "params", "end"} <= set(kinds):
        raise MachineryError(f"vacuous coverage: trace event kinds: {kinds}")
    if not any(c["par"]["noise"] for c in cfgs) or not any(not c["par"]["noise"] for c in cfgs):
        raise MachineryError("vacuous coverage: runs with and without noise are required")
    st = selftest(run, traces, rejected)
    for c in cfgs[:4]:
        i = infos.get(c["tid"])
        if i:
            run.sample({"simulator_run": {k: c[k] for k in ("S", "I", "M", "H")}, "class": cfg_class(c), "imu_stamps": i["imu_stamps"][:8],
                        "mag_stamps": i["mag_stamps"][:6], "events": i["n"]}, limit=16)
    # what the real node did at exact double ties (informational)
    ties = sorted({(c["S"], c["I"], infos[c["tid"]]["imu_stamps"][1] - infos[c["tid"]]["imu_stamps"][0]) for c in cfgs
                   if c["tid"] in infos and not c.get("change") and not tie_free(c["S"], c["I"], c["H"]) and len(infos[c["tid"]]["imu_stamps"]) > 1})
    run.assumptions += [
        "attitudes are integer quaternions of integer norm (rational MRP); declination/inclination Pythagorean; validity between lattice points is not decided",
        f"simulate with omega != 0: one-sided bound {RK4_C} theta^5 + 1e-9 per step on rotation-matrix entries, theta <= 0.26 rad (derivation in spec/SensorModel.tla); everything else 1e-9 two-sided",
        "Simulator schedule: times are whole microseconds; at an exact tie gap = period - 1 ms the model accepts both outcomes of the double comparison",
        "monitoring: the schedule is validated on the executed configurations only (stratified + seeded sample of the TLC period lattice; thorough = whole lattice)",
        "trusted: harness/simnode_rec.py sensor model (textbook formulas) and the bit-identity version tagging of state vectors",
    ]
    nontriv = sum(v for (o, c), v in cells.items() if c not in ("inside", "wpos", "identity", "x0"))
    return run.finish({
        "traces_validated_against_impl": n + len(traces) - len(rejected),
        "evaluations": run.counts.get("evaluations", 0) + val["lines"],
        "distinct_nontrivial": nontriv + sum(v for k, v in classes.items() if k != "mag_multiple_of_imu"),
        "rule": "engine A: one TLC state of SensorModel = one vector (non-trivial = shadow / 180 deg / crossing |r| = 1 / w < 0 / near-identity / near-pi cell); "
                "engine C: one recorded Simulator run = one trace, every line validated by TLC (non-trivial = any class but mag period a multiple of the IMU period)",
        "cells": {f"{o}/{c}": v for (o, c), v in sorted(cells.items())},
        "rk4": {k: v for k, v in stats.items() if k.startswith("rk4")},
        "simulator_runs": len(traces), "simulator_classes": classes, "trace_lines_validated": val["lines"], "trace_event_kinds": kinds,
        "selftest": st, "double_tie_outcomes_S_I_gap": ties, "exhaustive": tier == "thorough",
    })


if __name__ == "__main__":
    main_wrap(main)
