"""C05 -- Jacobians of exp and attitude-kinematics Jacobians (spec/Jacobians.tla)."""
import sys, json, math
import numpy as np
import casadi as ca
from harness import cas as _cas
from harness.core import Run, run_tlc, parse_dump, main_wrap, MachineryError
from harness.lie import rm_to_np, FnCache, so3_param, rot
from harness import explog as E

PID = "C05"


def f_alg(cache, kind):
    """param -> [Jl, Jl_inv, Jr, Jr_inv, Jl(-x)]"""
    def mk():
        L = E.groups()
        alg = {"so3": L.so3, "se3": L.se3, "se23": L.se23}[kind]
        a = ca.SX.sym("a", alg.n_param)
        x = alg.elem(a); xm = alg.elem(-a)
        outs = [ca.densify(x.left_jacobian()), ca.densify(x.left_jacobian_inv()),
                ca.densify(x.right_jacobian()), ca.densify(x.right_jacobian_inv()),
                ca.densify(xm.left_jacobian())]
        # a second element object of the same value on which the RIGHT variants are asked for first: what a method
        # returns must not depend on which other method of the same object ran before it
        y = alg.elem(a)
        jr_y = ca.densify(y.right_jacobian()); jri_y = ca.densify(y.right_jacobian_inv())
        outs += [ca.densify(y.left_jacobian()), ca.densify(y.left_jacobian_inv()), jr_y, jri_y]
        return ca.Function("f", [a], outs)
    return cache.get(("alg", kind), mk)


def f_group(cache, rep):
    """group-level Jacobians: param -> [Jright, Jleft?, dvec(R)/dparam]"""
    def mk():
        G = E.so3_group(rep)
        a = ca.SX.sym("a", G.n_param)
        X = G.elem(a)
        outs = [ca.densify(X.right_jacobian()), ca.densify(ca.jacobian(ca.vec(X.to_Matrix()), a))]
        if rep == "quat":
            outs.append(ca.densify(X.left_jacobian()))
        return ca.Function("f", [a], outs)
    return cache.get(("group", rep), mk)


def hat(u):
    return np.array([[0, -u[2], u[1]], [u[2], 0, -u[0]], [-u[1], u[0], 0]], float)


def call_alg(run, cache, kind, xi, tv):
    """[Jl, Jli, Jr, Jri, Jl(-x)] of element x; the same four from a second object asked in the other order must agree"""
    out = call(f_alg(cache, kind), xi)
    for nm, a_, b_ in (("left_jacobian", out[0], out[5]), ("left_jacobian_inv", out[1], out[6]),
                       ("right_jacobian", out[2], out[7]), ("right_jacobian_inv", out[3], out[8])):
        with np.errstate(invalid="ignore"):
            ok = np.array_equal(np.isnan(a_), np.isnan(b_)) and np.all(np.abs(np.nan_to_num(a_) - np.nan_to_num(b_)) <= 1e-12 * max(1.0, float(np.nanmax(np.abs(a_))) if np.any(np.isfinite(a_)) else 1.0))
        if not ok:
            run.violation(f"{kind}/{nm}/call_order", f"{nm} of an element differs depending on whether the right or the left variants of the same "
                          "object were asked for first", {"tv": tv, "left_first": np.asarray(a_).tolist(), "right_first": np.asarray(b_).tolist()})
    return out[:5]


def call(f, *a):
    r = f(*a)
    out = [np.array(x) for x in (r if isinstance(r, (list, tuple)) else [r])]
    _cas.direct_probe(f, a, out)
    return out


def replay(run, cache, tv):
    cmp = E.Cmp(run)
    op = tv["op"]; cell = tv.get("cell", "")
    run.count("evaluations")
    I = np.eye
    if op == "jac_so3":
        h = tv["h"]; th, nu, mu, v, n = E.hscal(h)
        V0 = np.array(tv["nV0"], float) / tv["n"]
        Jl = V0 + mu * np.array(tv["NV1"], float) / tv["N"]
        Jr = V0 + mu * np.array(tv["NV1r"], float) / tv["N"]
        Jli = V0 + nu * np.array(tv["W1"], float) / (2 * tv["n"])
        Jri = V0 + nu * np.array(tv["W1r"], float) / (2 * tv["n"])
        out = call_alg(run, cache, "so3", nu * v, tv)
        if cell == "nearturn":
            # within 1e-4 rad of the full turn the inverse-Jacobian coefficient itself (it contains cos(theta) - 1 = -5e-9, known
            # to 1e-16) is only determined to ~1e-8 in doubles: compare to 1e-6 (a capped / truncated coefficient is off by tens of %)
            cmp = E.Cmp(run, tol=1e-6)
        for nm, got, want in (("left_jacobian", out[0], Jl), ("left_jacobian_inv", out[1], Jli),
                              ("right_jacobian", out[2], Jr), ("right_jacobian_inv", out[3], Jri)):
            cmp.vec(f"so3/{nm}/closed_form/{cell}", f"so(3) {nm} differs from the exact differential of exp", got, want, tv)
        R = rot(h)
        cmp.vec(f"so3/Jl_eq_Ad_Jr/{cell}", "J_l != Ad_exp(x) J_r", out[0], R @ out[2], tv)
        cmp.vec(f"so3/Jr_eq_Jl_neg/{cell}", "J_r(x) != J_l(-x)", out[2], out[4], tv)
    elif op in ("jac_se3", "jac_se23"):
        kind = op[4:]
        h = tv["h"]; th, nu, mu, v, n = E.hscal(h)
        xi = np.array(tv["xi1"], float) + nu * np.array(tv["xi0"], float)
        ad = np.array(tv["ad1"], float) + nu * np.array(tv["ad0"], float)
        AdE = rm_to_np(tv["AdE"]); AdEm = rm_to_np(tv["AdEm"])
        d = ad.shape[0]
        Jl, Jli, Jr, Jri, Jlm = call_alg(run, cache, kind, xi, tv)
        ks = [xi, np.array(tv["k2"], float)] + ([np.array(tv["k3"], float)] if kind == "se23" else [])
        cmp.vec(f"{kind}/left_jacobian/dexp/{cell}", "J_l ad_xi != Ad_exp(xi) - I", Jl @ ad, AdE - I(d), tv)
        cmp.vec(f"{kind}/right_jacobian/dexp/{cell}", "J_r ad_xi != I - Ad_exp(-xi)", Jr @ ad, I(d) - AdEm, tv)
        for i, k in enumerate(ks):
            cmp.vec(f"{kind}/left_jacobian/kernel{i}/{cell}", "J_l k != k on ker ad_xi", Jl @ k, k, tv)
            cmp.vec(f"{kind}/right_jacobian/kernel{i}/{cell}", "J_r k != k on ker ad_xi", Jr @ k, k, tv)
        cmp.vec(f"{kind}/left_jacobian_inv/inverse/{cell}", "J_l J_l^-1 != I", Jl @ Jli, I(d), tv)
        cmp.vec(f"{kind}/right_jacobian_inv/inverse/{cell}", "J_r J_r^-1 != I", Jr @ Jri, I(d), tv)
        cmp.vec(f"{kind}/Jl_eq_Ad_Jr/{cell}", "J_l != Ad_exp(xi) J_r", Jl, AdE @ Jr, tv)
        cmp.vec(f"{kind}/Jr_eq_Jl_neg/{cell}", "J_r(xi) != J_l(-xi)", Jr, Jlm, tv)
    elif op in ("jac_se3_gen", "jac_se23_gen"):
        kind = "se3" if op == "jac_se3_gen" else "se23"
        h = tv["h"]; th, nu, mu, v, n = E.hscal(h)
        R = rm_to_np(tv["exp"])
        Hm = hat(v); Z = np.zeros((3, 3))
        rho = np.array(tv["rho"], float); pp = E.sym_vec(tv["p"], mu)
        if kind == "se3":
            xi = np.concatenate([rho, nu * v])
            ad = np.block([[nu * Hm, hat(rho)], [Z, nu * Hm]])
            AdE = np.block([[R, hat(pp) @ R], [Z, R]])
            AdEm = np.block([[R.T, -R.T @ hat(pp)], [Z, R.T]])
            ks = [xi, np.concatenate([v, np.zeros(3)])]
        else:
            rho2 = np.array(tv["rho2"], float); pv = E.sym_vec(tv["p2"], mu)
            xi = np.concatenate([rho, rho2, nu * v])
            ad = np.block([[nu * Hm, Z, hat(rho)], [Z, nu * Hm, hat(rho2)], [Z, Z, nu * Hm]])
            AdE = np.block([[R, Z, hat(pp) @ R], [Z, R, hat(pv) @ R], [Z, Z, R]])
            AdEm = np.block([[R.T, Z, -R.T @ hat(pp)], [Z, R.T, -R.T @ hat(pv)], [Z, Z, R.T]])
            ks = [xi, np.concatenate([v, np.zeros(6)]), np.concatenate([np.zeros(3), v, np.zeros(3)])]
        d = ad.shape[0]
        Jl, Jli, Jr, Jri, Jlm = call_alg(run, cache, kind, xi, tv)
        # the dexp equations are scaled by 1/theta so that small angles are not hidden by the tolerance
        sc = 1.0 / max(th, 1e-3) if th < 1 else 1.0
        cmp.vec(f"{kind}/left_jacobian/dexp_gen/{cell}", "J_l ad_xi != Ad_exp(xi) - I", sc * (Jl @ ad), sc * (AdE - I(d)), tv)
        cmp.vec(f"{kind}/right_jacobian/dexp_gen/{cell}", "J_r ad_xi != I - Ad_exp(-xi)", sc * (Jr @ ad), sc * (I(d) - AdEm), tv)
        for i, k in enumerate(ks):
            cmp.vec(f"{kind}/left_jacobian/kernel{i}_gen/{cell}", "J_l k != k on ker ad_xi", Jl @ k, k, tv)
            cmp.vec(f"{kind}/right_jacobian/kernel{i}_gen/{cell}", "J_r k != k on ker ad_xi", Jr @ k, k, tv)
        cmp.vec(f"{kind}/left_jacobian_inv/inverse_gen/{cell}", "J_l J_l^-1 != I", Jl @ Jli, I(d), tv)
        cmp.vec(f"{kind}/right_jacobian_inv/inverse_gen/{cell}", "J_r J_r^-1 != I", Jr @ Jri, I(d), tv)
        cmp.vec(f"{kind}/Jl_eq_Ad_Jr_gen/{cell}", "J_l != Ad_exp(xi) J_r", Jl, AdE @ Jr, tv)
        # tiny translational part (Jacobians!TinyTranslation): the coupling blocks are linear in it
        s_ = 4e-7
        xi_s = xi.copy(); xi_s[:d - 3] *= s_
        Js = call_alg(run, cache, kind, xi_s, tv)
        for nm, J0, J1 in zip(("left_jacobian", "left_jacobian_inv", "right_jacobian", "right_jacobian_inv"), (Jl, Jli, Jr, Jri), Js[:4]):
            J0 = np.asarray(J0, float); J1 = np.asarray(J1, float)
            cmp.vec(f"{kind}/{nm}/tiny_translation/{cell}", "coupling block for a translational part of 1e-6 is not the scaled coupling block (Q is linear in it)",
                    J1[:d - 3, d - 3:] / s_, J0[:d - 3, d - 3:], tv, {"scale": s_})
            cmp.vec(f"{kind}/{nm}/tiny_translation_diag/{cell}", "rotational blocks change with the size of the translational part",
                    J1[d - 3:, d - 3:], J0[d - 3:, d - 3:], tv, {"scale": s_})
    elif op == "jac_zero":
        kind = tv["kind"]
        ad = np.array(tv["ad"], float); d = ad.shape[0]
        Jl, Jli, Jr, Jri, Jlm = call_alg(run, cache, kind, np.array(tv["xi"], float), tv)
        cmp.vec(f"{kind}/left_jacobian/zero_rotation", "J_l != I + ad/2 at zero rotation", Jl, I(d) + ad / 2, tv)
        cmp.vec(f"{kind}/right_jacobian/zero_rotation", "J_r != I - ad/2 at zero rotation", Jr, I(d) - ad / 2, tv)
        cmp.vec(f"{kind}/left_jacobian_inv/zero_rotation", "J_l^-1 != I - ad/2 at zero rotation", Jli, I(d) - ad / 2, tv)
        cmp.vec(f"{kind}/right_jacobian_inv/zero_rotation", "J_r^-1 != I + ad/2 at zero rotation", Jri, I(d) + ad / 2, tv)
        # the same element built EAGERLY from numbers (what a user does with x = alg.elem(ca.DM(...))): structural-zero
        # shortcuts (`param.is_zero()`, sparsity tests) fire only on this path, never on a symbolic argument
        L = E.groups()
        alg = {"so3": L.so3, "se3": L.se3, "se23": L.se23}[kind]
        x = alg.elem(ca.DM(np.array(tv["xi"], float)))
        for nm, want in (("left_jacobian", I(d) + ad / 2), ("right_jacobian", I(d) - ad / 2),
                         ("left_jacobian_inv", I(d) - ad / 2), ("right_jacobian_inv", I(d) + ad / 2)):
            try:
                got = np.array(ca.DM(ca.densify(getattr(x, nm)())))
            except Exception as ex:     # noqa
                run.violation(f"{kind}/{nm}/raises_numeric", f"{type(ex).__name__}: {ex}", {"tv": tv}); continue
            cmp.vec(f"{kind}/{nm}/zero_rotation_numeric", f"{nm} of a numerically built element differs at zero rotation", got, want, tv)
    elif op == "gjac":
        Q = tv["q"]; w = np.array(tv["w"], float)
        N = float(sum(c * c for c in Q)); s = math.sqrt(N)
        R = rot(Q)
        RW = np.array(tv["RW"], float) / N; WR = np.array(tv["WR"], float) / N
        # quaternion, body frame:  q' = 1/2 q (x) (0,w)
        Jr, dR, Jl = call(f_group(cache, "quat"), so3_param("quat", Q))
        qd = Jr @ w
        cmp.vec("SO3quat/right_jacobian/qdot", "body-frame Jacobian: q' != 1/2 q(x)(0,w)", qd, np.array(tv["dR"], float) / (2 * s), tv)
        cmp.vec("SO3quat/right_jacobian/Rdot", "body-frame Jacobian: R' != R [w]x", (dR @ qd).reshape(3, 3, order="F"), RW, tv)
        cmp.vec("SO3quat/right_jacobian/unit_norm", "q . q' != 0", np.array([so3_param("quat", Q) @ qd]), np.zeros(1), tv)
        qdl = Jl @ w
        cmp.vec("SO3quat/left_jacobian/qdot", "world-frame Jacobian: q' != 1/2 (0,w)(x)q", qdl, np.array(tv["dL"], float) / (2 * s), tv)
        cmp.vec("SO3quat/left_jacobian/Rdot", "world-frame Jacobian: R' != [w]x R", (dR @ qdl).reshape(3, 3, order="F"), WR, tv)
        cmp.vec("SO3quat/left_jacobian/unit_norm", "q . q' != 0", np.array([so3_param("quat", Q) @ qdl]), np.zeros(1), tv)
        # MRP, body frame; expectation through the quaternion route r = qv/(1+q0)
        if not (Q[1] == 0 and Q[2] == 0 and Q[3] == 0 and Q[0] < 0):
            q = so3_param("quat", Q); qdot = np.array(tv["dR"], float) / (2 * s)
            rd = qdot[1:] / (1 + q[0]) - q[1:] * qdot[0] / (1 + q[0]) ** 2
            Jm, dRm = call(f_group(cache, "mrp"), so3_param("mrp", Q))
            scale = max(1.0, float(np.max(np.abs(rd))))
            cmp.vec("SO3mrp/right_jacobian/rdot", "MRP body-frame Jacobian: r' differs from the quaternion-route derivative", (Jm @ w) / scale, rd / scale, tv)
            cmp.vec("SO3mrp/right_jacobian/Rdot", "MRP body-frame Jacobian: R' != R [w]x", (dRm @ (Jm @ w)).reshape(3, 3, order="F"), RW, tv)


def main():
    tier = sys.argv[1] if len(sys.argv) > 1 else "quick"
    run = Run(PID, tier)
    cache = FnCache()
    from harness.lie import prelude as _prelude
    _prelude(run, report=())
    from harness import history as _history      # engine H: call histories in fresh interpreters (spec/LieHistory.tla)
    if _history.hook(run, tier, {"Jl", "Jr", "Jli", "Jri", "Jl_after_Jr", "Jr_after_Jl"}):
        return run.finish()
    if "--replay" in sys.argv:
        d = json.load(open(sys.argv[sys.argv.index("--replay") + 1]))
        replay(run, cache, d["data"]["tv"])
        return run.finish()
    E.selftest()
    res = run_tlc("Jacobians.tla", f"Jacobians_{tier}.cfg", workdir=run.workdir, dump=True)
    run.add_tlc("Jacobians", res)
    n = 0; ops = {}; cells = {}
    for st in parse_dump(res["dump"]):
        tv = st["tv"]
        if tv["op"].startswith("seed"):
            continue
        n += 1
        ops[tv["op"]] = ops.get(tv["op"], 0) + 1
        c = tv.get("cell", "n/a"); cells[c] = cells.get(c, 0) + 1
        if ops[tv["op"]] == 4:
            run.sample({k: tv[k] for k in tv if k in ("op", "h", "alpha", "y", "y1", "y2", "q", "w", "xi", "kind", "cell")}, limit=8)
        replay(run, cache, tv)
    need = {"jac_so3", "jac_se3", "jac_se23", "jac_se3_gen", "jac_se23_gen", "jac_zero", "gjac"}
    if not need <= set(ops) or not {"small", "beyondpi", "regular", "nearpi"} <= set(cells):
        raise MachineryError(f"vacuous coverage: ops={sorted(need - set(ops))} cells={sorted(cells)}")
    run.assumptions += [
        "algebra elements in half-angle / screw form (rotation angle 5e-4 rad .. 5.4 rad incl. beyond pi, exactly 0); a matrix identity covers every perturbation direction by linearity, but only at lattice x",
        "trusted: embedding doubles nu, mu (mpmath self-test); group-level R' obtained with casadi.jacobian of the code's own to_Matrix",
    ]
    return run.finish({
        "traces_validated_against_impl": n, "evaluations": run.counts.get("evaluations", 0),
        "distinct_nontrivial": n - ops.get("jac_zero", 0),
        "rule": "one TLC state = (algebra element or (quaternion, angular velocity), exact right-hand sides of the characterising equations); non-trivial = non-zero rotation",
        "per_op": ops, "cells": cells, "exhaustive": True,
    })


if __name__ == "__main__":
    main_wrap(main)
