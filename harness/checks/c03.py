"""C03 -- log inverts exp; principal and representation independent (spec/ExpLog.tla)."""
import sys, json, math
import numpy as np
import casadi as ca
from harness import cas as _cas
from harness.core import Run, run_tlc, parse_dump, main_wrap, MachineryError
from harness.lie import rm_to_np, FnCache, rot, so3_param
from harness import explog as E

PID = "C03"
OPS = {"log_so3", "log_se3", "log_se23", "log_se2", "exp_so3", "exp_se3_gen", "exp_se23_gen", "exp_prod"}


def call(f, *args):
    r = f(*args)
    out = [np.array(x) for x in (r if isinstance(r, (list, tuple)) else [r])]
    _cas.direct_probe(f, args, out)
    return out


def principal_vec(hp):
    th, nu, mu, v, n = E.hscal(hp)
    return nu * v


def replay(run, cache, tv):
    cmp = E.Cmp(run)
    op = tv["op"]; cell = tv.get("cell", "")
    L = E.groups()
    run.count("evaluations")
    if op in ("log_so3", "log_se3", "log_se23"):
        kind = op[4:]
        rep = tv["rep"]
        f = E.f_log(cache, kind, rep)
        if isinstance(f, tuple):
            run.violation(f"{kind.upper()}{rep}/log/raises", str(f[1]), {"tv": tv}); return
        h = tv["h"]; hp = tv["hp"]
        sgn = "wneg" if h[0] < 0 else "wpos"
        rp = so3_param(rep, h)
        R = rot(h)
        th, nu, mu, v, n = E.hscal(hp)
        omega = nu * v
        canonical = not (rep == "mrp" and h[0] < 0)          # shadow-set MRP input: only exp(log X) = X is promised
        if kind == "so3":
            a = rp; want = omega; M = R
        elif kind == "se3":
            p = np.array(tv["p"], float)
            u = p if n == 0 else E.sym_vec(tv["u"], nu)
            a = np.concatenate([p, rp]); want = np.concatenate([u, omega]); M = E.mat_se3(R, p)
        else:
            p = np.array(tv["p"], float); p2 = np.array(tv["p2"], float)
            u = p if n == 0 else E.sym_vec(tv["u"], nu)
            u2 = p2 if n == 0 else E.sym_vec(tv["u2"], nu)
            a = np.concatenate([p, p2, rp]); want = np.concatenate([u, u2, omega]); M = E.mat_se23(R, p2, p)
        out = call(f, a)
        k = f"{kind.upper()}{rep}/log"
        rt = E.Cmp(run, tol=2e-3) if (rep == "euler" and cell == "band") else cmp     # documented gimbal band tolerance
        rt.vec(f"{k}/exp_log_roundtrip/{cell}/{sgn}", "exp(log X) is not X", out[1], M, tv)
        if canonical:
            cmp.vec(f"{k}/principal/{cell}/{sgn}", "log(X) is not the principal (angle <= pi) vector of X's rotation / V^-1 p", out[0], want, tv)
        else:
            run.count("noncanonical_mrp_roundtrip_only")
    elif op == "exp_prod":
        # log on direct products: componentwise log of a group element given by its exact parameters
        # (factor order and factor kinds chosen so that group and algebra parameter counts differ
        #  before a later factor: quaternion 4/3, DCM 9/3)
        h = tv["h"]; hp = [-c for c in h] if h[0] < 0 else list(h)
        r3 = np.array(tv["x"], float)
        omega = principal_vec(hp)
        c, s_, hh = tv["cs"]; th = math.atan2(s_, c)
        rho = np.array(tv["rho"], float)
        cases = [("SO3quat*R3", L.SO3Quat * L.R3, np.concatenate([so3_param("quat", h), r3]), np.concatenate([omega, r3])),
                 ("SO3dcm*R3", L.SO3Dcm * L.R3, np.concatenate([so3_param("dcm", h), r3]), np.concatenate([omega, r3])),
                 ("R3*SO3quat*SO3quat", L.R3 * L.SO3Quat * L.SO3Quat,
                  np.concatenate([r3, so3_param("quat", h), so3_param("quat", hp)]), np.concatenate([r3, omega, omega])),
                 # the SAME group object in non-adjacent positions
                 ("R3*SO3quat*R3", L.R3 * L.SO3Quat * L.R3, np.concatenate([r3, so3_param("quat", h), -2 * r3]), np.concatenate([r3, omega, -2 * r3])),
                 ("SO3quat*R3*SO3quat", L.SO3Quat * L.R3 * L.SO3Quat,
                  np.concatenate([so3_param("quat", h), r3, so3_param("quat", [1, 0, 0, 0])]), np.concatenate([omega, r3, np.zeros(3)])),
                 ("SO2*SO3quat*R2", L.SO2 * L.SO3Quat * L.R2,
                  np.concatenate([[th], so3_param("quat", h), rho]), np.concatenate([[th], omega, rho]))]
        for name, G, a, want in cases:
            try:
                got = np.array(ca.DM(G.elem(ca.DM(a)).log().param)).flatten()
            except Exception as ex:     # noqa
                run.violation(f"({name})/log/raises", f"{type(ex).__name__}: {ex}", {"tv": tv}); continue
            cmp.vec(f"({name})/log/principal/{cell or 'prod'}", "direct-product log differs from the componentwise principal logs", got, want, tv)
            try:
                back = np.array(ca.DM(G.algebra.elem(ca.DM(got)).exp(G).to_Matrix()))
                M = np.array(ca.DM(G.elem(ca.DM(a)).to_Matrix()))
                cmp.vec(f"({name})/log/exp_log_roundtrip/{cell or 'prod'}", "exp(log X) is not X on a direct product", back, M, tv)
            except Exception as ex:     # noqa
                run.violation(f"({name})/log/raises", f"{type(ex).__name__}: {ex}", {"tv": tv})
    elif op == "log_se2":
        c, s, h = tv["cs"]; th = math.atan2(s, c)
        if tv.get("wrap"):
            th = th - 2 * math.pi * (1 if th > 0 else -1)
        p = np.array(tv["p"], float)
        u = p if th == 0 else th * np.array(tv["ur"], float) / (2.0 * (h - c))
        X = L.SE2.elem(ca.DM([p[0], p[1], th]))
        lg = X.log()
        cmp.vec("SE2/log/value", "SE2 log translation is not V^-1 p", np.array(ca.DM(lg.param)), np.array([u[0], u[1], th]), tv)
        cmp.vec("SE2/log/exp_log_roundtrip", "exp(log X) is not X", np.array(ca.DM(lg.exp(L.SE2).to_Matrix())), np.array(ca.DM(X.to_Matrix())), tv)
    elif op in ("exp_so3", "exp_se3_gen", "exp_se23_gen"):
        # log(exp x) = x whenever the rotation angle of x is below pi  (w > 0)
        h = tv["h"]
        if h[0] <= 0 or cell == "nearpi":
            return
        kind = {"exp_so3": "so3", "exp_se3_gen": "se3", "exp_se23_gen": "se23"}[op]
        f, names = E.f_exp(cache, kind, tv["rep"])
        x = E.xvec(h)
        if kind == "so3":
            a = x
        elif kind == "se3":
            a = np.concatenate([np.array(tv["rho"], float), x])
        else:
            a = np.concatenate([np.array(tv["rho"], float), np.array(tv["rho2"], float), x])
        out = call(f, a)
        cmp.vec(f"{kind.upper()}{tv['rep']}/log_exp_roundtrip/{cell}", "log(exp x) is not x (angle < pi)", out[3], a, tv)
        run.count("logexp")


def main():
    tier = sys.argv[1] if len(sys.argv) > 1 else "quick"
    run = Run(PID, tier)
    cache = FnCache()
    from harness.lie import prelude as _prelude
    _prelude(run, report=("log",))
    from harness import history as _history      # engine H: call histories in fresh interpreters (spec/LieHistory.tla)
    if _history.hook(run, tier, {"log", "log_after_extend"}):
        return run.finish()
    if "--replay" in sys.argv:
        d = json.load(open(sys.argv[sys.argv.index("--replay") + 1]))
        replay(run, cache, d["data"]["tv"])
        return run.finish()
    E.selftest()
    res = run_tlc("ExpLog.tla", f"ExpLog_{tier}.cfg", workdir=run.workdir, dump=True)
    run.add_tlc("ExpLog", res)
    n = 0; ops = {}; cells = {}; signs = {}
    for st in parse_dump(res["dump"]):
        tv = st["tv"]
        if tv["op"] not in OPS:
            continue
        n += 1
        ops[tv["op"]] = ops.get(tv["op"], 0) + 1
        c = tv.get("cell", "n/a"); cells[c] = cells.get(c, 0) + 1
        if tv["op"].startswith("log_s") and "h" in tv:
            k = (tv["rep"], tv["h"][0] < 0); signs[k] = signs.get(k, 0) + 1
        if ops[tv["op"]] == 5:
            run.sample({k: tv[k] for k in tv if k not in ("exp", "u", "u2", "p2")}, limit=10)
        replay(run, cache, tv)
    need_signs = {(r, s) for r in ("quat", "mrp", "dcm", "euler") for s in (False, True)}
    if not OPS <= set(ops) or not need_signs <= set(signs) or not {"small", "nearpi", "beyondpi", "zero", "nearpole", "band"} <= set(cells):
        raise MachineryError(f"vacuous coverage: ops={sorted(OPS - set(ops))} signs={sorted(need_signs - set(signs))} cells={sorted(cells)}")
    run.assumptions += [
        "group elements with rational rotations (integer quaternions of both signs => shadow and non-shadow MRPs), integer translations",
        "excluded as the property states: rotation angle within 0.01 rad of pi (exactly-pi lattice points dropped, nearest kept point pi-0.08), SE(2) |theta| >= 2 pi; shadow-set MRP inputs only for exp(log X) = X",
        "trusted: embedding doubles nu, mu (self-tested against mpmath.expm)",
    ]
    return run.finish({
        "traces_validated_against_impl": n, "evaluations": run.counts.get("evaluations", 0),
        "distinct_nontrivial": n - cells.get("zero", 0),
        "rule": "one TLC state = (group element: representation, signed integer quaternion, translation; exact principal log); non-trivial = non-zero rotation",
        "per_op": ops, "cells": cells, "rep_sign_coverage": {f"{r}/{'w<0' if s else 'w>=0'}": v for (r, s), v in sorted(signs.items())},
        "exhaustive": True,
    })


if __name__ == "__main__":
    main_wrap(main)
