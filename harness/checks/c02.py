"""C02 -- exp is the matrix exponential (spec/ExpLog.tla; exact half-angle / screw forms)."""
import sys, json, math
import numpy as np
import casadi as ca
from harness import cas as _cas
from harness.core import Run, run_tlc, parse_dump, main_wrap, MachineryError
from harness.lie import rm_to_np, FnCache, rot
from harness import explog as E

PID = "C02"
OPS = {"exp_so3", "exp_se3_gen", "exp_se23_gen", "exp_se3_screw", "exp_se23_screw", "hom_se3", "hom_so3",
       "exp_so2", "exp_se2", "exp_rn", "exp_prod", "hom_c", "exp_nearturn"}


def call(f, *args):
    r = f(*args)
    out = [np.array(x) for x in (r if isinstance(r, (list, tuple)) else [r])]
    _cas.direct_probe(f, args, out)
    return out


def replay(run, cache, tv):
    cmp = E.Cmp(run)
    op = tv["op"]
    cell = tv.get("cell", "")
    L = E.groups()
    run.count("evaluations")
    if op == "exp_so3":
        built = E.f_exp(cache, "so3", tv["rep"])
        if isinstance(built, tuple) and not callable(built[0]):
            run.violation(f"so3->{tv['rep']}/exp/raises", str(built[1]), {"tv": tv}); return
        f, names = built
        x = E.xvec(tv["h"])
        out = call(f, x)
        R = rm_to_np(tv["exp"])
        k = f"SO3{tv['rep']}/exp"
        cmp.vec(f"{k}/matrix/{cell}", "exp(x) is not the matrix exponential", out[0], R, tv)
        cmp.vec(f"{k}/neg_is_inverse/{cell}", "exp(-x) is not the inverse of exp(x)", out[1], R.T, tv)
        cmp.vec(f"{k}/inverse/{cell}", "exp(x).inverse() is not the matrix inverse", out[2], R.T, tv)
    elif op in ("exp_se3_gen", "exp_se23_gen"):
        kind = "se3" if op == "exp_se3_gen" else "se23"
        f, names = E.f_exp(cache, kind, tv["rep"])
        th, nu, mu, v, n = E.hscal(tv["h"])
        x = nu * v
        rho = np.array(tv["rho"], float)
        p = rho if n == 0 else E.sym_vec(tv["p"], mu)
        R = rm_to_np(tv["exp"])
        if kind == "se3":
            a = np.concatenate([rho, x]); M = E.mat_se3(R, p)
        else:
            rho2 = np.array(tv["rho2"], float)
            p2 = rho2 if n == 0 else E.sym_vec(tv["p2"], mu)
            a = np.concatenate([rho, rho2, x]); M = E.mat_se23(R, p2, p)
        out = call(f, a)
        k = f"{kind.upper()}{tv['rep']}/exp"
        cmp.vec(f"{k}/matrix/{cell}", "exp(xi) is not the matrix exponential (V-matrix form)", out[0], E.colF(M).reshape(M.shape, order="F"), tv)
        cmp.vec(f"{k}/neg_is_inverse/{cell}", "exp(-xi) is not the inverse of exp(xi)", out[1], np.linalg.inv(M), tv)
    elif op in ("exp_se3_screw", "exp_se23_screw"):
        kind = "se3" if op == "exp_se3_screw" else "se23"
        f, names = E.f_exp(cache, kind, tv["rep"])
        s = tv["s"]
        x = E.xvec(tv["h"])
        if kind == "se3":
            a = s * np.concatenate([E.screw_rho(tv["h"], tv["alpha"], tv["y"]), x])
        else:
            a = s * np.concatenate([E.screw_rho(tv["h"], tv["a1"], tv["y1"]), E.screw_rho(tv["h"], tv["a2"], tv["y2"]), x])
        out = call(f, a)
        M = rm_to_np(tv["exp"])
        k = f"{kind.upper()}{tv['rep']}/exp_screw"
        cmp.vec(f"{k}/matrix/{cell}", "exp(s*xi) differs from the exact one-parameter subgroup element", out[0], M, tv)
        cmp.vec(f"{k}/neg_is_inverse/{cell}", "exp(-s*xi) is not the inverse", out[1], np.linalg.inv(M), tv)
    elif op in ("hom_se3", "hom_so3"):
        kind = "se3" if op == "hom_se3" else "so3"
        f = E.f_hom(cache, kind, tv["rep"])
        x = E.xvec(tv["h"])
        a = np.concatenate([E.screw_rho(tv["h"], tv["alpha"], tv["y"]), x]) if kind == "se3" else x
        out = call(f, a, float(tv["s"]), float(tv["t"]))
        M = rm_to_np(tv["exp"])
        k = f"{kind.upper()}{tv['rep']}/hom"
        cmp.vec(f"{k}/lhs/{cell}", "exp((s+t)x) differs from the exact element", out[0], M, tv)
        cmp.vec(f"{k}/rhs/{cell}", "exp(sx)exp(tx) differs from exp((s+t)x)", out[1], M, tv)
    elif op == "exp_nearturn":
        # rotation angle 2 pi - 10^-k ("just under 2 pi"): the expectation is the matrix exponential at 50 digits
        import mpmath as mp
        kind, rep = tv["kind"], tv["rep"]
        built = E.f_exp(cache, kind, rep)
        if isinstance(built, tuple) and not callable(built[0]):
            run.violation(f"{kind}->{rep}/exp/raises", str(built[1]), {"tv": tv}); return
        f, names = built
        u = np.array(tv["axis"], float); u = u / np.linalg.norm(u)
        x = (2 * math.pi - 10.0 ** (-tv["k"])) * u
        a = {"so3": x, "se3": np.concatenate([[0.3, -1.2, 2.0], x]), "se23": np.concatenate([[0.3, -1.2, 2.0], [-0.7, 0.4, 1.1], x])}[kind]

        def hat(a_):
            w = a_[-3:]
            K = [[0, -w[2], w[1]], [w[2], 0, -w[0]], [-w[1], w[0], 0]]
            n = {"so3": 3, "se3": 4, "se23": 5}[kind]
            M = mp.zeros(n)
            for i in range(3):
                for j in range(3):
                    M[i, j] = mp.mpf(float(K[i][j]))
            if kind == "se3":
                for i in range(3):
                    M[i, 3] = mp.mpf(float(a_[i]))
            if kind == "se23":
                for i in range(3):
                    M[i, 3] = mp.mpf(float(a_[3 + i])); M[i, 4] = mp.mpf(float(a_[i]))     # columns (v, p) of the 5x5 form
            return M
        with mp.workdps(50):
            W = np.array(mp.expm(hat(a)).tolist(), dtype=float)
            Wn = np.array(mp.expm(-hat(a)).tolist(), dtype=float)
        out = call(f, a)
        kk = f"{kind.upper()}{rep}/exp_nearturn"
        cmp.vec(f"{kk}/matrix/k{tv['k']}", "exp(x) is not the matrix exponential just under a full turn", out[0], W, tv)
        cmp.vec(f"{kk}/neg_is_inverse/k{tv['k']}", "exp(-x) is not the inverse of exp(x) just under a full turn", out[1], Wn, tv)
        cmp.vec(f"{kk}/inverse/k{tv['k']}", "exp(x).inverse() is not the matrix inverse just under a full turn", out[2], Wn, tv)
    elif op == "exp_so2":
        c, s, h = tv["cs"]
        th = math.atan2(s, c)
        M = np.array(ca.DM(L.so2.elem(ca.DM([th])).exp(L.SO2).to_Matrix()))
        cmp.vec("SO2/exp/matrix", "SO2 exp is not the rotation by theta", M, rm_to_np(tv["exp"]), tv)
    elif op == "hom_c":
        # R(a) R(b) for planar rotations, with each angle also taken on the other side (|theta| in [pi, 2 pi)), so that
        # the sum falls below -pi, above pi and in between; and the same composition inside SE(2) with translations
        a0 = math.atan2(tv["cs"][1], tv["cs"][0]); b0 = math.atan2(tv["cs2"][1], tv["cs2"][0])
        want = rm_to_np(tv["exp"])
        other = lambda t: t - 2 * math.pi * (1 if t > 0 else -1) if t != 0 else t

        def se2m(th, rho):
            M = np.eye(3); c_, s_ = math.cos(th), math.sin(th)
            M[:2, :2] = [[c_, -s_], [s_, c_]]
            V = np.eye(2) if th == 0 else np.array([[s_, -(1 - c_)], [1 - c_, s_]]) / th
            M[:2, 2] = V @ rho
            return M
        for a in (a0, other(a0)):
            for b in (b0, other(b0)):
                X = L.so2.elem(ca.DM([a])).exp(L.SO2) * L.so2.elem(ca.DM([b])).exp(L.SO2)
                cmp.vec("SO2/exp/composition", "exp(a) exp(b) is not the rotation by a + b", np.array(ca.DM(X.to_Matrix())), want, tv)
                r1, r2 = np.array([1.0, -0.5]), np.array([-2.0, 0.25])
                Y = L.se2.elem(ca.DM([r1[0], r1[1], a])).exp(L.SE2) * L.se2.elem(ca.DM([r2[0], r2[1], b])).exp(L.SE2)
                cmp.vec("SE2/exp/composition", "exp(x) exp(y) differs from the product of their matrices", np.array(ca.DM(Y.to_Matrix())), se2m(a, r1) @ se2m(b, r2), tv)
                Yi = (L.se2.elem(ca.DM([r1[0], r1[1], a])).exp(L.SE2)).inverse()
                cmp.vec("SE2/exp/inverse", "exp(x)^-1 is not the inverse matrix", np.array(ca.DM(Yi.to_Matrix())), np.linalg.inv(se2m(a, r1)), tv)
    elif op == "exp_se2":
        c, s, h = tv["cs"]
        th = math.atan2(s, c)
        if tv.get("wrap"):
            th = th - 2 * math.pi * (1 if th > 0 else -1)      # same (c, s), angle on the other side, |th| < 2 pi
        rho = np.array(tv["rho"], float)
        p = rho if th == 0 else np.array(tv["vr"], float) / (th * h)
        M = np.eye(3); M[:2, :2] = rm_to_np(tv["exp"]); M[:2, 2] = p
        X = L.se2.elem(ca.DM([rho[0], rho[1], th])).exp(L.SE2)
        Xm = L.se2.elem(ca.DM([-rho[0], -rho[1], -th])).exp(L.SE2)
        cmp.vec("SE2/exp/matrix", "SE2 exp is not the matrix exponential", np.array(ca.DM(X.to_Matrix())), M, tv)
        cmp.vec("SE2/exp/neg_is_inverse", "SE2 exp(-x) is not the inverse", np.array(ca.DM(Xm.to_Matrix())), np.linalg.inv(M), tv)
    elif op == "exp_rn":
        x = np.array(tv["x"], float)
        M = np.eye(4); M[:3, 3] = x
        cmp.vec("R3/exp/matrix", "R3 exp is not I + x^", np.array(ca.DM(L.r3.elem(ca.DM(x)).exp(L.R3).to_Matrix())), M, tv)
        M2 = np.eye(3); M2[:2, 2] = x[:2]
        cmp.vec("R2/exp/matrix", "R2 exp is not I + x^", np.array(ca.DM(L.r2.elem(ca.DM(x[:2])).exp(L.R2).to_Matrix())), M2, tv)
    elif op == "exp_prod":
        c, s, h = tv["cs"]; th = math.atan2(s, c)
        x3 = E.xvec(tv["h"]); r3 = np.array(tv["x"], float); rho = np.array(tv["rho"], float)
        R = rm_to_np(tv["exp"])
        # so3 (+) r3 -> SO3Quat x R3
        G = L.SO3Quat * L.R3
        X = G.algebra.elem(ca.DM(np.concatenate([x3, r3]))).exp(G)
        M = np.zeros((7, 7)); M[:3, :3] = R; M[3:, 3:] = np.eye(4); M[3:6, 6] = r3
        cmp.vec("(SO3quat*R3)/exp/matrix", "direct-sum exp differs from block-diagonal expm", np.array(ca.DM(X.to_Matrix())), M, tv)
        # se2 (+) so3 (+) r3 -> SE2 x SO3Mrp x R3
        G2 = L.SE2 * L.SO3Mrp * L.R3
        X2 = G2.algebra.elem(ca.DM(np.concatenate([rho, [th], x3, r3]))).exp(G2)
        p = rho if th == 0 else np.array(tv["vr"], float) / (th * h)
        M2 = np.zeros((10, 10)); M2[:2, :2] = np.array([[c, -s], [s, c]], float) / h; M2[:2, 2] = p; M2[2, 2] = 1
        M2[3:6, 3:6] = R; M2[6:, 6:] = np.eye(4); M2[6:9, 9] = r3
        cmp.vec("(SE2*SO3mrp*R3)/exp/matrix", "direct-sum exp differs from block-diagonal expm", np.array(ca.DM(X2.to_Matrix())), M2, tv)


def main():
    tier = sys.argv[1] if len(sys.argv) > 1 else "quick"
    run = Run(PID, tier)
    cache = FnCache()
    from harness.lie import prelude as _prelude
    _prelude(run, report=())
    from harness import history as _history      # engine H: call histories in fresh interpreters (spec/LieHistory.tla)
    if _history.hook(run, tier, {"exp"}):
        return run.finish()
    if "--replay" in sys.argv:
        d = json.load(open(sys.argv[sys.argv.index("--replay") + 1]))
        replay(run, cache, d["data"]["tv"])
        return run.finish()
    E.selftest()
    res = run_tlc("ExpLog.tla", f"ExpLog_{tier}.cfg", workdir=run.workdir, dump=True)
    run.add_tlc("ExpLog", res)
    n = 0; ops = {}; cells = {}
    for st in parse_dump(res["dump"]):
        tv = st["tv"]
        if tv["op"] not in OPS:
            continue
        n += 1
        ops[tv["op"]] = ops.get(tv["op"], 0) + 1
        c = tv.get("cell", "n/a"); cells[c] = cells.get(c, 0) + 1
        if ops[tv["op"]] == 3:
            run.sample({k: tv[k] for k in tv if k not in ("exp", "Ad", "E", "p", "p2")}, limit=12)
        replay(run, cache, tv)
    if set(ops) != OPS or not {"zero", "small", "nearpi", "pi", "beyondpi", "regular", "nearpole", "nearturn"} <= set(cells):
        raise MachineryError(f"vacuous coverage: ops={sorted(OPS - set(ops))} cells={sorted(cells)}")
    run.assumptions += [
        "algebra elements of rational half-angle type (dense, countable): theta = 2 atan2(|v|, w) for integer (w, v), from 5e-4 rad to just under 2 pi, both sides of both Taylor switches, exactly 0 and exactly pi",
        "trusted: the embedding doubles nu = theta/sigma, mu = 1/(theta sigma) (self-tested against mpmath.expm at 40 digits at start-up)",
        "Euler targets exactly at a gimbal pole and MRP targets at the 360-degree singularity are excluded, as the property states",
    ]
    return run.finish({
        "traces_validated_against_impl": n, "evaluations": run.counts.get("evaluations", 0),
        "distinct_nontrivial": n - cells.get("zero", 0),
        "rule": "one TLC state = (algebra element in half-angle/screw form, target group, exact expectation); non-trivial = rotation angle != 0",
        "per_op": ops, "cells": cells, "exhaustive": True,
    })


if __name__ == "__main__":
    main_wrap(main)
