"""C10 -- filter numerics (cyecca/util.py): rk4, sqrt_covariance_predict, sqrt_correct,
ldl_/udu_symmetric_decomposition.

Two families of vectors, kept apart in the evidence:

* TLC-driven (engine A): spec/FilterNum.tla enumerates exact test vectors for n <= 3 and
  proves the defining laws on every state; each state is replayed into the real function
  (one ca.Function per dimension) and compared ENTRY-WISE with the exact expectation where
  the result is unique (rk4 value, L, D, U, K, W'), and through the defining identities
  where it is not (Ss Ss^T = S, W+ W+^T = P+, triangular pattern).
* identity-residual (harness lattice, no TLC expectation): n = 4..6 (the estimator uses
  n = 6, m in {1, 2}); integer W, F, Q, H, Rs, P from a seeded lattice, the defining
  identities are evaluated on the code's output against exact integer / rational
  right-hand sides computed here with python integers.

Tolerance 1e-9 * max(1, |expected|_inf), two-sided."""
import sys, json
import numpy as np
import casadi as ca
from harness.core import Run, run_tlc, parse_dump, main_wrap, MachineryError
from harness.cas import batch_call

PID = "C10"
TOL = 1e-9


# --------------------------------------------------------------------------------------
# small helpers
# --------------------------------------------------------------------------------------
def rat(p):
    return p[0] / p[1]


def rvec(v):
    return np.array([p[0] / p[1] for p in v], float)


def rmat(M):
    return np.array([[p[0] / p[1] for p in row] for row in M], float)


def vecs(A):
    """(N, r, c) -> (r*c, N), column-major per matrix"""
    A = np.asarray(A, float)
    N, r, c = A.shape
    return A.transpose(0, 2, 1).reshape(N, r * c).T


def unvec(a, r, c):
    """(r*c, N) column-major -> (N, r, c)"""
    N = a.shape[1]
    return a.T.reshape(N, c, r).transpose(0, 2, 1)


def mats(items, name, conv=None):
    return np.array([(conv(t[name]) if conv else np.array(t[name], float)) for t in items], float)


def AAt(A):
    return np.einsum("nij,nkj->nik", A, A)


def compare(run, key, what, out, exp, items, tag="tv", scale=None, extra=None):
    """out, exp: (k, N).  Flags columns with max|out-exp| > TOL*max(1, |exp|_inf [, scale])."""
    out = np.atleast_2d(out); exp = np.atleast_2d(exp)
    with np.errstate(invalid="ignore"):
        d = np.max(np.abs(out - exp), axis=0)
    sc = np.maximum(1.0, np.max(np.abs(exp), axis=0))
    if scale is not None:
        sc = np.maximum(sc, scale)
    bad = ~(d <= TOL * sc)
    if np.any(~bad):
        run.err(float(np.max(d[~bad])))
    for k in np.nonzero(bad)[0]:
        data = {tag: items[k], "got": out[:, k].tolist(), "want": exp[:, k].tolist()}
        if extra:
            data.update(extra)
        run.violation(key, what, data)
    return int(np.sum(bad))


# --------------------------------------------------------------------------------------
# building ca.Functions from the code under test (once per dimension / configuration)
# --------------------------------------------------------------------------------------
class Fns:
    def __init__(self, run):
        self.run = run
        self.c = {}

    def get(self, key, mk, fname, cell, sample):
        """returns the function, or None after recording a violation when building raises"""
        if key not in self.c:
            try:
                self.c[key] = mk()
            except Exception as e:          # the symbolic construction itself fails
                self.c[key] = e
        f = self.c[key]
        if isinstance(f, Exception):
            self.run.violation(f"{fname}/raises:{type(f).__name__}/{cell}",
                               f"{fname} raises {type(f).__name__} for {cell}: {str(f)[:200]}", sample)
            return None
        return f


def lower_sym(n, dense=False):
    """symbolic W fed from an n*n column-major vector; lower-triangular sparsity (as the
    estimator declares it) unless dense"""
    w = ca.SX.sym("w", n * n)
    if dense:
        return w, ca.reshape(w, n, n)
    W = ca.SX(ca.Sparsity.lower(n))
    for j in range(n):
        for i in range(j, n):
            W[i, j] = w[j * n + i]
    return w, W


def mk_predict(n, shape="dense"):
    def mk():
        from cyecca import util
        w, W = lower_sym(n)
        if shape == "dense":
            f = ca.SX.sym("f", n * n); F = ca.reshape(f, n, n)
            q = ca.SX.sym("q", n * n); Q = ca.reshape(q, n, n)
        else:       # estimator-shaped (n = 6): F = [[0, -R], [0, 0]], Q diagonal, both sparse
            f = ca.SX.sym("f", 9); F = ca.SX(6, 6); F[0:3, 3:6] = -ca.reshape(f, 3, 3)
            q = ca.SX.sym("q", 6); Q = ca.diag(q)
        Wd = util.sqrt_covariance_predict(W, F, Q)
        assert tuple(Wd.shape) == (n, n), Wd.shape
        return ca.Function("pred", [w, f, q], [ca.vec(ca.densify(Wd))])
    return mk


def mk_correct(n, m, shape="dense"):
    def mk():
        from cyecca import util
        w, W = lower_sym(n, dense=(shape == "Wdense"))
        if shape in ("dense", "Wdense"):
            h = ca.SX.sym("h", m * n); H = ca.reshape(h, m, n)
            r = ca.SX.sym("r", m * m); Rs = ca.reshape(r, m, m)
        elif shape == "mag":        # H = e_3^T (1x6, structurally sparse), scalar Rs
            h = ca.SX.sym("h", 1); H = ca.SX(1, 6); H[0, 2] = 1
            r = ca.SX.sym("r", 1); Rs = r
        else:                       # accel: H = [I2 0] (2x6 sparse), Rs = r*I2 (sparse)
            h = ca.SX.sym("h", 1); H = ca.SX(2, 6); H[0, 0] = 1; H[1, 1] = 1
            r = ca.SX.sym("r", 1); Rs = ca.SX.eye(2) * r
        Wp, K, Ss = util.sqrt_correct(Rs, H, W)
        assert tuple(Wp.shape) == (n, n) and tuple(K.shape) == (n, m) and tuple(Ss.shape) == (m, m)
        return ca.Function("corr", [r, h, w], [ca.vec(ca.densify(Wp)), ca.vec(ca.densify(K)), ca.vec(ca.densify(Ss))])
    return mk


def mk_fact(n, which):
    def mk():
        from cyecca import util
        p = ca.SX.sym("p", n * n); P = ca.reshape(p, n, n)
        T, D = (util.ldl_symmetric_decomposition if which == "ldl" else util.udu_symmetric_decomposition)(P)
        assert tuple(T.shape) == (n, n) and tuple(D.shape) == (n, n)
        return ca.Function(which, [p], [ca.vec(ca.densify(T)), ca.vec(ca.densify(D))])
    return mk


def mk_rk4(kind):
    def mk():
        from cyecca import util
        h = ca.SX.sym("h")
        if kind == "cubic":
            c = ca.SX.sym("c", 4); t0 = ca.SX.sym("t0"); y0 = ca.SX.sym("y0")
            y1 = util.rk4(lambda t, y: c[0] + c[1] * t + c[2] * t ** 2 + c[3] * t ** 3, t0, y0, h)
            return ca.Function("rk_cubic", [c, t0, y0, h], [y1])
        if kind == "auto":      # (s, y)' = (1, p(s)); the time argument is not used
            c = ca.SX.sym("c", 4); y0 = ca.SX.sym("y0", 2)
            y1 = util.rk4(lambda t, y: ca.vertcat(1, c[0] + c[1] * y[0] + c[2] * y[0] ** 2 + c[3] * y[0] ** 3), 0, y0, h)
            return ca.Function("rk_auto", [c, y0, h], [y1])
        if kind == "exp":
            lam = ca.SX.sym("lam"); y0 = ca.SX.sym("y0")
            return ca.Function("rk_exp", [lam, y0, h], [util.rk4(lambda t, y: lam * y, ca.SX(0), y0, h)])
        if kind == "lin2":
            a = ca.SX.sym("a", 4); A = ca.reshape(a, 2, 2); y0 = ca.SX.sym("y0", 2)
            return ca.Function("rk_lin2", [a, y0, h], [util.rk4(lambda t, y: ca.mtimes(A, y), 0.0, y0, h)])
        if kind == "riccati":
            y0 = ca.SX.sym("y0")
            return ca.Function("rk_ric", [y0, h], [util.rk4(lambda t, y: y * y, ca.DM(0), y0, h)])
        raise KeyError(kind)
    return mk


# --------------------------------------------------------------------------------------
# checks shared by the TLC-driven and the identity-residual vectors
# --------------------------------------------------------------------------------------
def check_fact(run, fns, which, n, Pm, items, tag, Texp=None, Dexp=None):
    """Pm (N,n,n) integer-valued SPD.  Unit-triangular factor T, diagonal D, T D T^T = P."""
    cell = f"n={n}"
    f = fns.get((which, n), mk_fact(n, which), f"{which}_symmetric_decomposition", cell, {tag: items[0]})
    if f is None:
        run.count("skipped_raises", len(items)); return
    T, D = batch_call(f, [vecs(Pm)])
    run.count("evaluations", len(items))
    Tm, Dm = unvec(T, n, n), unvec(D, n, n)
    name = "L" if which == "ldl" else "U"
    # pattern: unit diagonal, zero on the other side, D diagonal
    pat = np.tril(np.ones((n, n)), -1) if which == "udu" else np.triu(np.ones((n, n)), 1)
    off = 1.0 - np.eye(n)
    struct = np.concatenate([vecs(Tm * pat), vecs(Tm * np.eye(n)), vecs(Dm * off)])
    want = np.concatenate([vecs(0 * Tm), vecs(np.broadcast_to(np.eye(n), Tm.shape)), vecs(0 * Dm)])
    compare(run, f"{which}/unit_triangular/{cell}", f"{name} is not unit {'lower' if which == 'ldl' else 'upper'} triangular or D is not diagonal",
            struct, want, items, tag)
    rec = np.einsum("nij,njk,nlk->nil", Tm, Dm, Tm)
    compare(run, f"{which}/reconstruct/{cell}", f"{name} D {name}^T differs from P", vecs(rec), vecs(Pm), items, tag)
    # scale: c P is SPD with P, has the same unit-triangular factor and the pivots c D ("all SPD matrices": a bias covariance
    # with sigma 1e-5 has entries of 1e-10) -- an ABSOLUTE pivot threshold breaks small-scale input
    sub = slice(0, min(len(items), 300))
    for c_ in (1e-10, 1e-13, 1e8):
        Ts_, Ds_ = batch_call(f, [vecs(Pm[sub]) * c_])
        run.count("scaled_evaluations", Ts_.shape[1])
        with np.errstate(invalid="ignore"):
            badT = ~(np.max(np.abs(Ts_ - T[:, :Ts_.shape[1]]), axis=0) <= 1e-9 * np.maximum(1.0, np.max(np.abs(T[:, :Ts_.shape[1]]), axis=0)))
            badD = ~(np.max(np.abs(Ds_ / c_ - D[:, :Ds_.shape[1]]), axis=0) <= 1e-9 * np.maximum(1.0, np.max(np.abs(D[:, :Ds_.shape[1]]), axis=0)))
        for k in np.nonzero(badT | badD)[0][:20]:
            run.violation(f"{which}/scale_invariance/{cell}", f"the factorisation of {c_:g} * P is not ({name}, {c_:g} * D) of the factorisation of P",
                          {tag: items[k], "scale": c_, "T_scaled": Ts_[:, k].tolist(), "T": T[:, k].tolist()})
    # the same matrices handed over with their STRUCTURAL zeros (sparse SX, as a block-structured covariance is in
    # practice): a shortcut keyed on the input pattern must still account for the fill-in of the elimination
    from cyecca import util
    fn = util.ldl_symmetric_decomposition if which == "ldl" else util.udu_symmetric_decomposition
    done = 0
    for k in range(len(items)):
        Pk = np.asarray(Pm[k], float)
        if done >= 40 or not np.any((Pk == 0) & (off > 0)):
            continue
        done += 1
        try:
            Ts, Ds = fn(ca.SX(ca.sparsify(ca.DM(Pk))))
            Ts = np.array(ca.evalf(ca.densify(Ts))); Ds = np.array(ca.evalf(ca.densify(Ds)))
        except Exception as ex:     # noqa
            run.violation(f"{which}/sparse_input/raises/{cell}", f"{type(ex).__name__}: {ex}", {tag: items[k]})
            continue
        run.count("sparse_pattern_evaluations")
        rs = Ts @ Ds @ Ts.T
        if not (np.all(np.isfinite(rs)) and np.max(np.abs(rs - Pk)) <= 1e-9 * max(1.0, np.max(np.abs(Pk)))):
            run.violation(f"{which}/reconstruct_sparse_input/{cell}", f"{name} D {name}^T differs from P when P is passed with its structural zeros",
                          {tag: items[k], "got": rs.tolist()})
    if Texp is not None:
        compare(run, f"{which}/{name}/{cell}", f"{name} differs from the exact unit-triangular factor", T, vecs(Texp), items, tag)
        compare(run, f"{which}/D/{cell}", "D differs from the exact pivots", np.einsum("nii->in", Dm), Dexp.T, items, tag)
    else:   # positive pivots (SPD input)
        dmin = np.einsum("nii->in", Dm).min(axis=0)
        for k in np.nonzero(~(dmin > 0))[0]:
            run.violation(f"{which}/D_positive/{cell}", "SPD input but a pivot is not positive", {tag: items[k], "got": Dm[k].tolist()})


def check_predict(run, fns, n, Wm, Fm, Qm, items, tag, Wdexp=None, shape="dense", fq_cols=None):
    cell = f"n={n}" + ("" if shape == "dense" else f",{shape}")
    f = fns.get(("pred", n, shape), mk_predict(n, shape), "sqrt_covariance_predict", cell, {tag: items[0]})
    if f is None:
        run.count("skipped_raises", len(items)); return
    cols = [vecs(Wm)] + (list(fq_cols) if fq_cols else [vecs(Fm), vecs(Qm)])
    Wd = batch_call(f, cols)[0]
    run.count("evaluations", len(items))
    Wdm = unvec(Wd, n, n)
    P = AAt(Wm)
    FP = np.einsum("nij,njk->nik", Fm, P)
    M = FP + FP.transpose(0, 2, 1) + Qm                    # exact: small integers in doubles
    lhs = np.einsum("nij,nkj->nik", Wdm, Wm)
    lhs = lhs + lhs.transpose(0, 2, 1)
    fin = np.all(np.isfinite(Wd), axis=0)
    for k in np.nonzero(~fin)[0]:
        run.violation(f"sqrt_covariance_predict/finite/{cell}", "non-finite W' for invertible lower-triangular W", {tag: items[k], "got": Wd[:, k].tolist()})
    it = [items[k] for k in np.nonzero(fin)[0]]
    if not it:
        return
    Wd, Wdm, M, lhs = Wd[:, fin], Wdm[fin], M[fin], lhs[fin]
    wscale = np.max(np.abs(Wd), axis=0)
    compare(run, f"sqrt_covariance_predict/lower_triangular/{cell}", "W' has entries above the diagonal",
            vecs(Wdm * np.triu(np.ones((n, n)), 1)), vecs(0 * Wdm), it, tag, scale=wscale)
    compare(run, f"sqrt_covariance_predict/lyapunov/{cell}", "W' W^T + W W'^T differs from F P + P F^T + Q",
            vecs(lhs), vecs(M), it, tag)
    if Wdexp is not None:
        compare(run, f"sqrt_covariance_predict/value/{cell}", "W' differs from the unique lower-triangular solution",
                Wd, vecs(Wdexp[fin]), it, tag)


def exact_correct(W, H, Rs):
    """python-integer oracle for one vector: S, K = P H^T S^-1, P+ = P - K S K^T (m <= 2)"""
    W = [[int(x) for x in r] for r in W]; H = [[int(x) for x in r] for r in H]; Rs = [[int(x) for x in r] for r in Rs]
    n, m = len(W), len(H)
    P = [[sum(W[i][k] * W[j][k] for k in range(n)) for j in range(n)] for i in range(n)]
    G = [[sum(P[i][k] * H[a][k] for k in range(n)) for a in range(m)] for i in range(n)]          # P H^T
    S = [[sum(H[a][k] * G[k][b] for k in range(n)) + sum(Rs[a][k] * Rs[b][k] for k in range(m)) for b in range(m)] for a in range(m)]
    if m == 1:
        det, adj = S[0][0], [[1]]
    else:
        det = S[0][0] * S[1][1] - S[0][1] * S[1][0]
        adj = [[S[1][1], -S[0][1]], [-S[1][0], S[0][0]]]
    assert det > 0
    Kn = [[sum(G[i][a] * adj[a][b] for a in range(m)) for b in range(m)] for i in range(n)]      # K * det
    Ppn = [[P[i][j] * det - sum(Kn[i][b] * G[j][b] for b in range(m)) for j in range(n)] for i in range(n)]
    return (np.array(S, float), np.array([[x / det for x in r] for r in Kn]), np.array([[x / det for x in r] for r in Ppn]),
            np.array(G, float))


def check_correct_scaled(run, fns, n, m, tvs):
    """FilterNum!ScalePairs: W := sw W, Rs := sr Rs; exact rational expectation, comparison relative to each result's size"""
    from fractions import Fraction as Fr
    cell = f"n={n},m={m}"
    f = fns.get(("corr", n, m, "dense"), mk_correct(n, m, "dense"), "sqrt_correct", cell, {"tv": tvs[0]})
    if f is None:
        run.count("skipped_raises", len(tvs)); return
    # a bounded, deterministic subset per cell (every scale pair, spread over the vectors)
    by_sp = {}
    for t in tvs:
        by_sp.setdefault(tuple(t["sp"]), []).append(t)
    pick = []
    for sp, lst in sorted(by_sp.items()):
        step = max(1, len(lst) // 12)
        pick += lst[::step][:12]
    for t in pick:
        a, b, c, d = t["sp"]; sw, sr = Fr(a, b), Fr(c, d)
        W = [[Fr(int(x)) * sw for x in r] for r in t["W"]]; H = [[Fr(int(x)) for x in r] for r in t["H"]]; R = [[Fr(int(x)) * sr for x in r] for r in t["Rs"]]
        P = [[sum(W[i][k] * W[j][k] for k in range(n)) for j in range(n)] for i in range(n)]
        G = [[sum(P[i][k] * H[q][k] for k in range(n)) for q in range(m)] for i in range(n)]
        S = [[sum(H[q][k] * G[k][r_] for k in range(n)) + sum(R[q][k] * R[r_][k] for k in range(m)) for r_ in range(m)] for q in range(m)]
        if m == 1:
            det, adj = S[0][0], [[Fr(1)]]
        else:
            det = S[0][0] * S[1][1] - S[0][1] * S[1][0]; adj = [[S[1][1], -S[0][1]], [-S[1][0], S[0][0]]]
        if det <= 0:
            continue
        K = [[sum(G[i][q] * adj[q][r_] for q in range(m)) / det for r_ in range(m)] for i in range(n)]
        Pp = [[P[i][j] - sum(K[i][q] * G[j][q] for q in range(m)) for j in range(n)] for i in range(n)]
        tofl = lambda M: np.array([[float(x) for x in r] for r in M])
        try:
            o = batch_call(f, [vecs(tofl(R)[None]), vecs(tofl(H)[None]), vecs(tofl(W)[None])])
            Wp, Kg, Ss = unvec(o[0], n, n)[0], unvec(o[1], n, m)[0], unvec(o[2], m, m)[0]
        except Exception as ex:     # noqa
            run.violation(f"sqrt_correct/scaled/raises/{cell}", f"{type(ex).__name__}: {str(ex)[-300:]}", {"tv": t}); continue
        run.count("evaluations"); run.count("scaled_evaluations")
        # K = P H^T S^-1 is only as well determined as S is conditioned (parallel measurement rows with a tiny R make S nearly
        # singular: ANY implementation loses cond(S) * eps there); W+ and Ss come out of the orthogonal factorisation itself
        smax = max(abs(x) for r in S for x in r)
        kappa = float(smax * smax / abs(det)) if m == 2 else 1.0
        for name, got, want in (("Wp", Wp @ Wp.T, tofl(Pp)), ("K", Kg, tofl(K)), ("Ss", Ss @ Ss.T, tofl(S))):
            if name == "K" and kappa > 1e3:
                continue
            ref = float(np.max(np.abs(want)))
            bad = (not np.all(np.isfinite(got))) or (ref > 0 and float(np.max(np.abs(got - want))) > 1e-6 * ref)
            if bad:
                run.violation(f"sqrt_correct/scaled/{name}/{cell}", {"Wp": "W+ W+^T differs from (I - K H) P", "K": "K differs from P H^T S^-1",
                              "Ss": "Ss Ss^T differs from H P H^T + Rs Rs^T"}[name] + " when the measurement is far more accurate than the prior "
                              "(relative to the size of the result)", {"tv": t, "sw": float(sw), "sr": float(sr), "got": got.tolist(), "want": want.tolist()})


def check_correct(run, fns, n, m, Wm, Hm, Rm, Sx, Kx, Ppx, items, tag, shape="dense", rh_cols=None):
    cell = f"n={n},m={m}" + ("" if shape == "dense" else f",{shape}")
    f = fns.get(("corr", n, m, shape), mk_correct(n, m, shape), "sqrt_correct", cell, {tag: items[0]})
    if f is None:
        run.count("skipped_raises", len(items)); return
    cols = (list(rh_cols) if rh_cols else [vecs(Rm), vecs(Hm)]) + [vecs(Wm)]
    Wp, K, Ss = batch_call(f, cols)
    run.count("evaluations", len(items))
    fin = np.all(np.isfinite(Wp), axis=0) & np.all(np.isfinite(K), axis=0) & np.all(np.isfinite(Ss), axis=0)
    for k in np.nonzero(~fin)[0]:
        run.violation(f"sqrt_correct/finite/{cell}", "non-finite output for invertible W and Rs", {tag: items[k]})
    idx = np.nonzero(fin)[0]
    if not len(idx):
        return
    it = [items[k] for k in idx]
    Wp, K, Ss, Wm, Hm, Sx, Kx, Ppx = Wp[:, fin], K[:, fin], Ss[:, fin], Wm[fin], Hm[fin], Sx[fin], Kx[fin], Ppx[fin]
    Wpm, Km, Ssm = unvec(Wp, n, n), unvec(K, n, m), unvec(Ss, m, m)
    P = AAt(Wm)
    compare(run, f"sqrt_correct/K/{cell}", "K differs from P H^T S^-1", K, vecs(Kx), it, tag)
    compare(run, f"sqrt_correct/KS/{cell}", "K S differs from P H^T", vecs(np.einsum("nia,nab->nib", Km, Sx)),
            vecs(np.einsum("nij,naj->nia", P, Hm)), it, tag)
    compare(run, f"sqrt_correct/Ss/{cell}", "Ss Ss^T differs from H P H^T + Rs Rs^T", vecs(AAt(Ssm)), vecs(Sx), it, tag)
    compare(run, f"sqrt_correct/Wp_lower_triangular/{cell}", "W+ has entries above the diagonal",
            vecs(Wpm * np.triu(np.ones((n, n)), 1)), vecs(0 * Wpm), it, tag)
    compare(run, f"sqrt_correct/Wp/{cell}", "W+ W+^T differs from (I - K H) P", vecs(AAt(Wpm)), vecs(Ppx), it, tag)
    # covariance never grows: trace(W+ W+^T) <= trace(P)
    tr_p, tr_0 = np.einsum("nij,nij->n", Wpm, Wpm), np.einsum("nii->n", P)
    for k in np.nonzero(~(tr_p <= tr_0 * (1 + TOL) + TOL))[0]:
        run.violation(f"sqrt_correct/trace/{cell}", "trace(W+ W+^T) exceeds trace(P)", {tag: it[k], "got": float(tr_p[k]), "want_le": float(tr_0[k])})


# --------------------------------------------------------------------------------------
# TLC-driven replay
# --------------------------------------------------------------------------------------
def replay_rk4(run, fns, op, tvs):
    kind = op[4:]
    f = fns.get(("rk4", kind), mk_rk4(kind), "rk4", kind, {"tv": tvs[0]})
    if f is None:
        run.count("skipped_raises", len(tvs)); return
    h = np.array([rat(t["h"]) for t in tvs])[None]
    if kind == "cubic":
        cols = [np.array([t["c"] for t in tvs], float).T, np.array([rat(t["t0"]) for t in tvs])[None],
                np.array([rat(t["y0"]) for t in tvs])[None], h]
        out = batch_call(f, cols)[0]
        compare(run, "rk4/cubic_exact", "step differs from the exact integral of a cubic polynomial in time",
                out, np.array([rat(t["exp"]) for t in tvs])[None], tvs)
    elif kind == "auto":
        cols = [np.array([t["c"] for t in tvs], float).T, np.array([[rat(t["t0"]), rat(t["y0"])] for t in tvs]).T, h]
        out = batch_call(f, cols)[0]
        compare(run, "rk4/autonomous_cubic_exact", "step on (s, y)' = (1, p(s)) differs from the exact flow",
                out, np.array([rvec(t["exp"]) for t in tvs]).T, tvs)
    elif kind == "exp":
        cols = [np.array([t["lam"] for t in tvs], float)[None], np.array([rat(t["y0"]) for t in tvs])[None], h]
        out = batch_call(f, cols)[0]
        compare(run, "rk4/stability_polynomial", "step on y' = lam*y differs from y0 (1 + z + z^2/2 + z^3/6 + z^4/24)",
                out, np.array([rat(t["exp"]) for t in tvs])[None], tvs)
    elif kind == "lin2":
        cols = [np.array([np.array(t["A"], float).flatten(order="F") for t in tvs]).T, np.array([rvec(t["y0"]) for t in tvs]).T, h]
        out = batch_call(f, cols)[0]
        compare(run, "rk4/linear_system", "step on y' = A y differs from sum_{k<=4} (hA)^k/k! y0",
                out, np.array([rvec(t["exp"]) for t in tvs]).T, tvs)
    elif kind == "riccati":
        y0 = np.array([rat(t["y0"]) for t in tvs])[None]
        e1 = np.abs(batch_call(f, [y0, h])[0][0] - np.array([rat(t["exp"]) for t in tvs]))
        e2 = np.abs(batch_call(f, [y0, h / 2])[0][0] - np.array([rat(t["exph"]) for t in tvs]))
        run.count("evaluations", len(tvs))
        z = np.abs(y0[0] * h[0])
        for k, t in enumerate(tvs):
            # local error of an order-4 method: C z^5 (1 + O(z)); halving the step divides it by ~2^5
            ok_ratio = e2[k] > 0 and 16.0 <= e1[k] / e2[k] <= 64.0
            ok_size = e1[k] <= abs(y0[0, k]) * z[k] ** 5          # |C| <= 1 with a wide margin (classical RK4: ~0.1)
            if not (np.isfinite(e1[k]) and ok_ratio and ok_size):
                run.violation("rk4/order4", "local error on y' = y^2 does not scale like h^5 (ratio under step halving outside [16, 64]) or exceeds |y0| z^5",
                              {"tv": t, "err_h": float(e1[k]), "err_h2": float(e2[k]), "ratio": float(e1[k] / e2[k]) if e2[k] > 0 else None})
    run.count("evaluations", len(tvs))


def replay_tlc(run, fns, by):
    for (op, n, m), tvs in sorted(by.items()):
        if op.startswith("rk4_"):
            replay_rk4(run, fns, op, tvs)
        elif op in ("ldl", "udu"):
            check_fact(run, fns, op, n, mats(tvs, "P"), tvs, "tv", Texp=mats(tvs, "L" if op == "ldl" else "U", rmat),
                       Dexp=np.array([rvec(t["D"]) for t in tvs]))
        elif op == "predict":
            check_predict(run, fns, n, mats(tvs, "W"), mats(tvs, "F"), mats(tvs, "Q"), tvs, "tv", Wdexp=mats(tvs, "Wd", rmat))
        elif op == "correct":
            Wm, Hm, Rm = mats(tvs, "W"), mats(tvs, "H"), mats(tvs, "Rs")
            args = (Wm, Hm, Rm, mats(tvs, "S"), mats(tvs, "K", rmat), mats(tvs, "Pp", rmat), tvs, "tv")
            check_correct(run, fns, n, m, *args)
            check_correct(run, fns, n, m, *args, shape="Wdense")       # second configuration: dense symbolic W
        elif op == "correct_scaled":
            check_correct_scaled(run, fns, n, m, tvs)
        else:
            raise MachineryError(f"unknown op {op}")


def keyof(tv):
    return (tv["op"], tv.get("n", 0), tv.get("m", 0))


def nontrivial(tv):
    op = tv["op"]
    nz = lambda M: any(x != 0 for r in M for x in r)
    if op in ("rk4_cubic", "rk4_auto"):
        return any(tv["c"][1:])
    if op == "rk4_exp":
        return tv["lam"] != 0
    if op == "rk4_lin2":
        return nz(tv["A"])
    if op in ("ldl", "udu"):
        return any(tv["P"][i][j] != 0 for i in range(tv["n"]) for j in range(i))
    if op == "predict":
        return tv["n"] > 1 and (nz(tv["F"]) or nz(tv["Q"]))
    if op == "correct":
        return nz(tv["H"])
    return True


# --------------------------------------------------------------------------------------
# identity-residual vectors (harness lattice, n = 4..6)
# --------------------------------------------------------------------------------------
def gen_W(rng, n):
    W = np.tril(rng.integers(-1, 2, (n, n)), -1)
    W[np.diag_indices(n)] = rng.choice([-3, -2, 2, 3], n)
    return W


def gen_resid(seed, tier):
    """list of residual vectors rv = {kind, n, m, shape, integer matrices as nested lists}"""
    rng = np.random.default_rng(1000003 + seed)
    N = 150 if tier == "quick" else 1500
    out = []
    for _ in range(N):
        for n in (4, 5, 6):
            A = rng.integers(-2, 4, (n, n))
            P = A @ A.T + np.diag(rng.integers(1, 4, n))
            out.append({"kind": "ldl", "n": n, "P": P.tolist()})
            out.append({"kind": "udu", "n": n, "P": P.tolist()})
        # structured SPD: "arrow" (states uncorrelated with each other, all correlated with the last / first one) and
        # block-diagonal-plus-common-bias -- the patterns whose elimination creates fill-in
        n = int(rng.choice([3, 4, 5, 6]))
        d = rng.integers(3, 9, n) + n
        P = np.diag(d)
        j = int(rng.choice([0, n - 1]))
        col = rng.integers(-2, 3, n); col[col == 0] = 1
        P[j, :] = col; P[:, j] = col; P[j, j] = d[j] + int(np.sum(np.abs(col)))
        if n >= 5:
            P[1, 2] = P[2, 1] = 1
        out.append({"kind": "ldl", "n": n, "P": P.tolist()})
        out.append({"kind": "udu", "n": n, "P": P.tolist()})
        for n in (4, 6):
            k = int(rng.choice([0, 2, n]))
            A = rng.integers(-1, 3, (n, k))
            out.append({"kind": "predict", "n": n, "shape": "dense", "W": gen_W(rng, n).tolist(),
                        "F": rng.integers(-2, 4, (n, n)).tolist(), "Q": (A @ A.T).tolist()})
        F = np.zeros((6, 6), int); F[0:3, 3:6] = -rng.integers(-2, 4, (3, 3))
        out.append({"kind": "predict", "n": 6, "shape": "estimator", "W": gen_W(rng, 6).tolist(), "F": F.tolist(),
                    "Q": np.diag(rng.integers(0, 4, 6)).tolist()})
        for m in (1, 2):
            while True:
                Rs = rng.integers(-2, 4, (m, m))
                if round(np.linalg.det(Rs)) != 0:
                    break
            out.append({"kind": "correct", "n": 6, "m": m, "shape": "dense", "W": gen_W(rng, 6).tolist(),
                        "H": rng.integers(-2, 4, (m, 6)).tolist(), "Rs": Rs.tolist()})
        r = int(rng.choice([1, 2, 3, -2]))
        out.append({"kind": "correct", "n": 6, "m": 1, "shape": "mag", "W": gen_W(rng, 6).tolist(),
                    "H": [[0, 0, 1, 0, 0, 0]], "Rs": [[r]]})
        out.append({"kind": "correct", "n": 6, "m": 2, "shape": "accel", "W": gen_W(rng, 6).tolist(),
                    "H": [[1, 0, 0, 0, 0, 0], [0, 1, 0, 0, 0, 0]], "Rs": [[r, 0], [0, r]]})
    return out


def replay_resid(run, fns, rvs):
    by = {}
    for rv in rvs:
        by.setdefault((rv["kind"], rv["n"], rv.get("m", 0), rv.get("shape", "dense")), []).append(rv)
    for (kind, n, m, shape), it in sorted(by.items()):
        if kind in ("ldl", "udu"):
            check_fact(run, fns, kind, n, mats(it, "P"), it, "rv")
        elif kind == "predict":
            Wm, Fm, Qm = mats(it, "W"), mats(it, "F"), mats(it, "Q")
            fq = None
            if shape == "estimator":
                fq = [vecs(-Fm[:, 0:3, 3:6]), np.einsum("nii->in", Qm)]
            check_predict(run, fns, n, Wm, Fm, Qm, it, "rv", shape=shape, fq_cols=fq)
        elif kind == "correct":
            ex = [exact_correct(rv["W"], rv["H"], rv["Rs"]) for rv in it]
            Sx, Kx, Ppx = (np.array([e[i] for e in ex]) for i in range(3))
            rh = None
            if shape in ("mag", "accel"):
                rh = [np.array([rv["Rs"][0][0] for rv in it], float)[None], np.zeros((1, len(it)))]
            check_correct(run, fns, n, m, mats(it, "W"), mats(it, "H"), mats(it, "Rs"), Sx, Kx, Ppx, it, "rv", shape=shape, rh_cols=rh)
        run.count(f"resid:{kind}/n={n}" + (f",m={m}" if m else "") + ("" if shape == "dense" else f",{shape}"), len(it))
    return {f"{k[0]}/n={k[1]}" + (f",m={k[2]}" if k[2] else "") + ("" if k[3] == "dense" else f",{k[3]}"): len(v) for k, v in sorted(by.items())}


def selftest():
    """the python-integer oracle of the residual family against a literal 1x1 example:
    W = 2, H = 3, Rs = 1: P = 4, S = 37, K = 12/37, P+ = 4/37."""
    S, K, Pp, _ = exact_correct([[2]], [[3]], [[1]])
    if not (S[0, 0] == 37 and abs(K[0, 0] - 12 / 37) < 1e-15 and abs(Pp[0, 0] - 4 / 37) < 1e-15):
        raise MachineryError("exact_correct self-test failed")
    a = np.arange(12.0).reshape(2, 3, 2)
    if not np.array_equal(unvec(vecs(a), 3, 2), a):
        raise MachineryError("vecs/unvec self-test failed")


# --------------------------------------------------------------------------------------
def history_probe(run):
    """call histories in one process (the property quantifies over every W, F, Q, H, R -- also the second one a
    program passes): each routine is called with STRUCTURALLY SPARSE arguments first (diagonal Q, block F, unit-row H:
    how the estimators call it) and then, for the same dimensions, with full ones; every result is checked against
    its defining identity.  State kept between calls (a cache keyed by dimension, a memoised pattern) shows here.
    Dimension 5 is used: no other part of this check touches it, so these are the first calls for that size."""
    from cyecca import util
    rng = np.random.default_rng(12345)
    n = 5

    def num(x):
        return np.array(ca.evalf(ca.densify(x)))

    def lyap(tag, W, F, Q):
        try:
            Wd = num(util.sqrt_covariance_predict(ca.SX(W), ca.SX(F), ca.SX(Q)))
        except Exception as ex:     # noqa
            run.violation(f"sqrt_covariance_predict/history/raises/{tag}", f"{type(ex).__name__}: {ex}", {"history": tag}); return
        Wn, Fn, Qn = num(W), num(F), num(Q)
        P = Wn @ Wn.T
        lhs = Wd @ Wn.T + Wn @ Wd.T
        rhs = Fn @ P + P @ Fn.T + Qn
        run.count("history_calls")
        if not (np.all(np.isfinite(Wd)) and np.max(np.abs(lhs - rhs)) <= 1e-9 * max(1.0, np.max(np.abs(rhs)))):
            run.violation(f"sqrt_covariance_predict/history/lyapunov/{tag}", "W' W^T + W W'^T differs from F P + P F^T + Q for a call that follows "
                          "calls with differently structured arguments of the same size", {"history": tag, "lhs": lhs.tolist(), "rhs": rhs.tolist()})
    Wl = np.tril(rng.integers(1, 4, (n, n))).astype(float) + np.eye(n)
    Fs = np.zeros((n, n)); Fs[0:2, 3:5] = rng.integers(-2, 3, (2, 2))
    Qd = np.diag(rng.integers(1, 4, n)).astype(float)
    Fd = rng.integers(-2, 4, (n, n)).astype(float)
    A = rng.integers(-1, 3, (n, n)).astype(float); Qf = A @ A.T
    lyap("1:sparse", ca.sparsify(ca.DM(Wl)), ca.sparsify(ca.DM(Fs)), ca.sparsify(ca.DM(Qd)))
    lyap("2:dense_after_sparse", ca.DM(Wl), ca.DM(Fd), ca.DM(Qf))
    lyap("3:sparse_after_dense", ca.sparsify(ca.DM(Wl)), ca.sparsify(ca.DM(Fs)), ca.sparsify(ca.DM(Qd)))
    lyap("4:other_dense", ca.DM(Wl.T @ np.tril(np.ones((n, n))) * 0 + np.tril(Wl + 1)), ca.DM(Fd.T), ca.DM(Qf + np.eye(n)))

    def corr(tag, W, H, Rs):
        try:
            Wp, K, Ss = util.sqrt_correct(ca.SX(Rs), ca.SX(H), ca.SX(W))
            Wp, K, Ss = num(Wp), num(K), num(Ss)
        except Exception as ex:     # noqa
            run.violation(f"sqrt_correct/history/raises/{tag}", f"{type(ex).__name__}: {ex}", {"history": tag}); return
        Wn, Hn, Rn = num(W), num(H), num(Rs)
        P = Wn @ Wn.T
        S = Hn @ P @ Hn.T + Rn @ Rn.T
        Kx = P @ Hn.T @ np.linalg.inv(S)
        Pp = (np.eye(n) - Kx @ Hn) @ P
        run.count("history_calls")
        ok = (np.max(np.abs(K - Kx)) <= 1e-9 * max(1.0, np.max(np.abs(Kx))) and np.max(np.abs(Ss @ Ss.T - S)) <= 1e-9 * np.max(np.abs(S))
              and np.max(np.abs(Wp @ Wp.T - Pp)) <= 1e-9 * max(1.0, np.max(np.abs(Pp))))
        if not ok:
            run.violation(f"sqrt_correct/history/identities/{tag}", "K, Ss or W+ violate their defining identities for a call that follows calls with "
                          "differently structured arguments of the same size", {"history": tag, "K": K.tolist(), "K_expected": Kx.tolist()})
    Hs = np.zeros((2, n)); Hs[0, 0] = 1; Hs[1, 1] = 1
    Hd = rng.integers(-2, 4, (2, n)).astype(float)
    corr("1:sparse", ca.sparsify(ca.DM(Wl)), ca.sparsify(ca.DM(Hs)), ca.sparsify(ca.DM(2 * np.eye(2))))
    corr("2:dense_after_sparse", ca.DM(Wl), ca.DM(Hd), ca.DM(np.array([[2.0, 1.0], [-1.0, 3.0]])))
    corr("3:sparse_after_dense", ca.sparsify(ca.DM(Wl)), ca.sparsify(ca.DM(Hs)), ca.sparsify(ca.DM(2 * np.eye(2))))

    def fact(tag, which, P):
        fn = util.ldl_symmetric_decomposition if which == "ldl" else util.udu_symmetric_decomposition
        try:
            T, D = fn(ca.SX(P)); T, D = num(T), num(D)
        except Exception as ex:     # noqa
            run.violation(f"{which}/history/raises/{tag}", f"{type(ex).__name__}: {ex}", {"history": tag}); return
        Pn = num(P)
        run.count("history_calls")
        if not np.max(np.abs(T @ D @ T.T - Pn)) <= 1e-9 * np.max(np.abs(Pn)):
            run.violation(f"{which}/history/reconstruct/{tag}", "T D T^T differs from P for a call that follows calls with differently structured "
                          "arguments of the same size", {"history": tag})
    Pa = np.diag([6.0, 7, 8, 9, 12]); Pa[4, :4] = Pa[:4, 4] = [1, -1, 2, 1]
    Pf = Qf + 3 * np.eye(n)
    for which in ("ldl", "udu"):
        fact("1:sparse", which, ca.sparsify(ca.DM(Pa)))
        fact("2:dense_after_sparse", which, ca.DM(Pf))
        fact("3:sparse_after_dense", which, ca.sparsify(ca.DM(Pa)))


def main():
    tier = sys.argv[1] if len(sys.argv) > 1 else "quick"
    run = Run(PID, tier)
    fns = Fns(run)
    selftest()
    if "--replay" not in sys.argv:
        history_probe(run)
    if "--replay" in sys.argv:
        d = json.load(open(sys.argv[sys.argv.index("--replay") + 1]))["data"]
        if "history" in d:
            history_probe(run)
        elif "tv" in d:
            replay_tlc(run, fns, {keyof(d["tv"]): [d["tv"]]})
        else:
            replay_resid(run, fns, [d["rv"]])
        return run.finish()
    res = run_tlc("FilterNum.tla", f"FilterNum_{tier}.cfg", workdir=run.workdir, dump=True)
    run.add_tlc("FilterNum", res)
    by, n_tlc, n_nontriv = {}, 0, 0
    for st in parse_dump(res["dump"]):
        tv = st["tv"]
        if tv["op"].startswith("seed"):
            continue
        n_tlc += 1
        n_nontriv += bool(nontrivial(tv))
        by.setdefault(keyof(tv), []).append(tv)
    for key, tvs in sorted(by.items()):
        t = tvs[len(tvs) // 2]
        run.sample({k: v for k, v in t.items()}, limit=12)
    need = {(op, n, 0) for op in ("ldl", "udu", "predict") for n in (1, 2, 3)}
    need |= {("correct", n, m) for n in (1, 2, 3) for m in (1, 2)}
    need |= {(f"rk4_{k}", 0, 0) for k in ("cubic", "auto", "exp", "lin2", "riccati")}
    if not need <= set(by):
        raise MachineryError(f"vacuous coverage: never exercised: {sorted(need - set(by))}")
    if not any(t["h"][0] < 0 for t in by[("rk4_cubic", 0, 0)]):
        raise MachineryError("vacuous coverage: no negative step size")
    replay_tlc(run, fns, by)
    rvs = gen_resid(run.seed, tier)
    per_resid = replay_resid(run, fns, rvs)
    need_r = {"ldl/n=6", "udu/n=6", "predict/n=6", "predict/n=6,estimator", "correct/n=6,m=1", "correct/n=6,m=2",
              "correct/n=6,m=1,mag", "correct/n=6,m=2,accel"}
    if not need_r <= set(per_resid):
        raise MachineryError(f"vacuous coverage (identity-residual family): {sorted(need_r - set(per_resid))}")
    run.assumptions += [
        "TLC-driven vectors: n <= 3, m <= 2, integer W/F/Q/H/Rs/P with entries in -2..3 (SPD diagonals up to 5), rational step sizes and initial values; expectations exact rationals embedded as doubles",
        "identity-residual vectors (n = 4..6, m <= 2): no exact expectation from the spec; the defining identities are evaluated on the code's output against python-integer right-hand sides (they determine L, D, U, W', K uniquely; W+ and Ss up to an orthogonal factor)",
        "rk4: exactness is decided on fields where every 4-stage order-4 method is exact (cubic quadrature, its autonomous form, linear constant-coefficient systems); on y' = y^2 only the order (error ratio under step halving) is decided; general smooth fields are not",
        "validity between lattice points is not decided",
    ]
    return run.finish({
        "traces_validated_against_impl": n_tlc,
        "evaluations": run.counts.get("evaluations", 0),
        "distinct_nontrivial": n_nontriv,
        "rule": "one TLC state = (operation, exact arguments, exact expectation); non-trivial = cubic/linear field not constant/zero, P not diagonal, (F,Q) != 0 and n > 1, H != 0",
        "tlc_driven": {"count": n_tlc, "per_op": {f"{k[0]}" + (f"/n={k[1]}" if k[1] else "") + (f",m={k[2]}" if k[2] else ""): len(v) for k, v in sorted(by.items())}},
        "identity_residual": {"count": len(rvs), "per_kind": per_resid,
                              "rule": "seeded integer lattice generated in the harness (not by TLC); pass = defining identities hold to 1e-9*max(1,|rhs|)"},
        "exhaustive": True,
    })


if __name__ == "__main__":
    main_wrap(main)
