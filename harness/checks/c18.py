"""C18 -- Bezier trajectories (spec/Bezier.tla, cyecca/models/bezier.py).

TLC enumerates exact-rational test vectors (control polygons in -3..3, T in {1, 2, 5/2},
t in {-1/2, 0, 1/4, 1/2, 1, T, 3T/2}) and checks on every state that De Casteljau =
Bernstein = monomial form, that the derivative control points reproduce the power-rule
derivative of the monomial form for every order, end-point interpolation, and that the
closed-form Hermite control points meet every boundary condition.  Every state is replayed
into the real code (engine A):

  eval       Bezier(P, T).eval(t), .deriv(m).eval(t) and the chained .deriv()....deriv().eval(t)
  traj       bezier3_traj / bezier7_traj (+ d/dt of output i == output i+1 by CasADi AD)
  solve      bezier3_solve / bezier7_solve: boundary functionals (matrix M proved by TLC)
             applied to the returned control points; the code's own traj at 0 and T;
             control points against the (unique) Hermite solution
  multirotor bezier_multirotor: every output against the exact derivative values and the
             mutual-derivative relations by AD
"""
import sys, json, io, contextlib
import numpy as np
import casadi as ca
from harness.core import Run, run_tlc, parse_dump, main_wrap, MachineryError
from harness.cas import batch_call

PID = "C18"
TOL = 1e-9
BC_NAMES = {3: ["start_pos", "start_vel", "end_pos", "end_vel"],
            7: ["start_pos", "start_vel", "start_acc", "start_jerk", "end_pos", "end_vel", "end_acc", "end_jerk"]}
ORDER = ["pos", "vel", "acc", "jerk", "snap"]
MR_NAMES = ["x", "y", "z", "psi", "psidot", "psiddot"] + [f"{w}[{i}]" for w in "vajs" for i in range(3)]
MR_OUT = [s.split("[")[0] for s in MR_NAMES]          # name of the CasADi output a component belongs to
# (output index, index of the output that must be its time derivative)
MR_PAIRS = [(0, 6), (1, 7), (2, 8), (3, 4), (4, 5)] + [(6 + i, 9 + i) for i in range(9)]


def q(r):
    return r[0] / r[1]


def qv(v):
    return [q(r) for r in v]


def tcell(tv):
    t, T = q(tv["t"]), q(tv["T"])
    return "t<0" if t < 0 else "t=0" if t == 0 else "inside" if t < T else "t=T" if t == T else "t>T"


def close(got, exp):
    """two-sided, per component; non-finite never passes.  Returns (ok mask, scaled error)."""
    with np.errstate(invalid="ignore"):
        e = np.abs(got - exp) / np.maximum(1.0, np.abs(exp))
        return (e <= TOL) & np.isfinite(got), e


# ---------------------------------------------------------------------------------------
# functions built from the working tree
# ---------------------------------------------------------------------------------------
class Code:
    def __init__(self):
        with contextlib.redirect_stdout(io.StringIO()):        # the module prints at import
            from cyecca.models import bezier as bz
        self.bz = bz
        self.cache = {}
        self.eqs = {}
        self.eqs.update(bz.derive_bezier3())
        self.eqs.update(bz.derive_bezier7())
        self.eqs.update(bz.derive_multirotor())
        for name in ("bezier3_solve", "bezier3_traj", "bezier7_solve", "bezier7_traj", "bezier_multirotor"):
            if name not in self.eqs:
                raise MachineryError(f"{name} is not produced by cyecca.models.bezier")

    def get(self, key, mk):
        if key not in self.cache:
            try:
                self.cache[key] = mk()
            except MachineryError:
                raise
            except Exception as e:          # the library itself fails while building the expression
                self.cache[key] = ("error", e)
        return self.cache[key]

    def eval_fn(self, n, dim, m, mode):
        def mk():
            Pf, T, t = ca.SX.sym("P", dim * (n + 1)), ca.SX.sym("T"), ca.SX.sym("t")
            C = self.bz.Bezier(ca.reshape(Pf, dim, n + 1), T)
            if mode == "eval":
                assert m == 0
            elif mode == "deriv(m)":
                C = C.deriv(m)
            else:
                for _ in range(m):
                    C = C.deriv()
            return ca.Function("bez_eval", [Pf, T, t], [ca.densify(ca.reshape(C.eval(t), dim, 1))])
        return self.get(("eval", n, dim, m, mode), mk)

    def traj_fn(self, n):
        def mk():
            t, T, P = ca.SX.sym("t"), ca.SX.sym("T"), ca.SX.sym("P", n + 1)
            r = self.eqs[f"bezier{n}_traj"](t, T, P.T)
            return ca.Function("traj", [t, T, P], [ca.densify(r), ca.densify(ca.jacobian(r, t))])
        return self.get(("traj", n), mk)

    def solve_fn(self, n):
        def mk():
            K = (n + 1) // 2
            w0, w1, T = ca.SX.sym("w0", K), ca.SX.sym("w1", K), ca.SX.sym("T")
            P = self.eqs[f"bezier{n}_solve"](w0, w1, T)
            if P.shape != (1, n + 1):
                raise MachineryError(f"bezier{n}_solve returns shape {P.shape}")
            traj = self.eqs[f"bezier{n}_traj"]
            r0, r1 = traj(0, T, P), traj(T, T, P)
            return ca.Function("solve", [w0, w1, T], [ca.densify(P.T), ca.densify(ca.vertcat(r0[:K], r1[:K]))])
        return self.get(("solve", n), mk)

    def multi_fn(self):
        def mk():
            t, T = ca.SX.sym("t"), ca.SX.sym("T")
            PX, PY, PZ, Pp = ca.SX.sym("PX", 8), ca.SX.sym("PY", 8), ca.SX.sym("PZ", 8), ca.SX.sym("Pp", 4)
            f = self.eqs["bezier_multirotor"]
            names = [f.name_out(i) for i in range(f.n_out())]
            want = ["x", "y", "z", "psi", "psidot", "psiddot", "v", "a", "j", "s"]
            if names != want:
                raise MachineryError(f"bezier_multirotor outputs are {names}, expected {want}")
            val = ca.vertcat(*f(t, T, PX.T, PY.T, PZ.T, Pp.T))
            return ca.Function("multi", [t, T, PX, PY, PZ, Pp], [ca.densify(val), ca.densify(ca.jacobian(val, t))])
        return self.get(("multi",), mk)


# ---------------------------------------------------------------------------------------
# replay
# ---------------------------------------------------------------------------------------
def built_ok(run, f, fn, tv):
    if isinstance(f, tuple):
        run.violation(f"{fn}/raises:{type(f[1]).__name__}", f"building the expression raises: {f[1]}", {"tv": tv})
        return False
    return True


def replay_eval(run, code, key, tvs):
    n, dim, m = key
    Pf = np.array([[tv["P"][r][k] for k in range(n + 1) for r in range(dim)] for tv in tvs], float).T
    T = np.array([q(tv["T"]) for tv in tvs])
    t = np.array([q(tv["t"]) for tv in tvs])
    E = np.array([qv(tv["exp"]) for tv in tvs], float).T
    for mode in (("deriv(m)", "chain") if m > 0 else ("eval", "deriv(m)")):
        fn = "Bezier.eval" if mode == "eval" else "Bezier.deriv"
        f = code.eval_fn(n, dim, m, mode)
        if not built_ok(run, f, fn, tvs[0]):
            continue
        if mode in ("eval", "deriv(m)") and not (mode == "deriv(m)" and m == 0):
            numeric_paths(run, code, key, tvs)
        (Y,) = batch_call(f, [Pf, T[None], t[None]])
        run.count("evaluations", len(tvs))
        ok, e = close(Y, E)
        good = np.all(ok, axis=0)
        if np.any(good):
            run.err(float(np.max(e[:, good])))
        for k in np.nonzero(~good)[0]:
            tv, c = tvs[k], tcell(tvs[k])
            data = {"tv": tv, "mode": mode, "got": Y[:, k].tolist(), "expected": E[:, k].tolist()}
            if mode == "eval" and c in ("t=0", "t=T"):
                run.violation(f"Bezier.eval/endpoint/{c}", "curve does not start/end at its first/last control point", data)
            elif mode == "eval":
                run.violation(f"Bezier.eval/bernstein/{c}", "eval(t) differs from the Bernstein polynomial of the control points", data)
            else:
                run.violation(f"Bezier.deriv/time_derivative/{mode}/{c}",
                              f"derivative curve differs from the exact time derivative (e.g. degree {n}, order {m})", data)


def numeric_paths(run, code, key, tvs, limit=8):
    """the same curves built from NUMBERS, in the container types a user has at hand (integer numpy array, float numpy
    array, DM, SX constants), time and duration as plain floats: every way of handing over the same control points
    must give the same curve"""
    n, dim, m = key
    step = max(1, len(tvs) // limit)
    for tv in tvs[::step][:limit]:
        Pm = np.array([[tv["P"][r][k] for k in range(n + 1)] for r in range(dim)], float)
        T, t = float(q(tv["T"])), float(q(tv["t"]))
        want = np.array(qv(tv["exp"]), float).flatten()
        integral = bool(np.all(Pm == np.round(Pm)))
        variants = [("numpy_float", Pm.copy()), ("DM", ca.DM(Pm)), ("SX_const", ca.SX(ca.DM(Pm)))]
        if integral:
            variants.insert(0, ("numpy_int", Pm.astype(np.int64)))
        for vname, P in variants:
            try:
                C = code.bz.Bezier(P, T)
                if m:
                    C = C.deriv(m)
                got = np.array(ca.DM(ca.densify(ca.SX(C.eval(t))))).flatten()
            except Exception as ex:     # noqa
                run.spec_drift(f"Bezier/numeric_container:{vname}/raises:{type(ex).__name__}", "this container type is not accepted for control points")
                continue
            run.count("numeric_container_evaluations")
            if got.shape != want.shape or not np.all(np.abs(got - want) <= 1e-9 * np.maximum(1.0, np.abs(want))):
                run.violation(f"Bezier.{'deriv' if m else 'eval'}/numeric_container:{vname}", "the curve built from numeric control points in this container "
                              "differs from the Bernstein polynomial / exact derivative", {"tv": tv, "container": vname, "got": got.tolist(), "expected": want.tolist()})


def replay_traj(run, code, n, tvs):
    fn = f"bezier{n}_traj"
    f = code.traj_fn(n)
    if not built_ok(run, f, fn, tvs[0]):
        return
    P = np.array([tv["P"] for tv in tvs], float).T
    T = np.array([q(tv["T"]) for tv in tvs])
    t = np.array([q(tv["t"]) for tv in tvs])
    E = np.array([qv(tv["exp"]) for tv in tvs], float).T
    R, dR = batch_call(f, [t[None], T[None], P])
    run.count("evaluations", len(tvs))
    ok, e = close(R, E)
    okd, ed = close(dR[:-1], R[1:])
    if np.any(ok):
        run.err(float(np.max(e[ok])))
    for i, k in zip(*np.nonzero(~ok)):
        run.violation(f"{fn}/value/{ORDER[i]}", f"output {i} is not the exact derivative of order {i} of the curve",
                      {"tv": tvs[k], "got": R[:, k].tolist(), "expected": E[:, k].tolist()})
    for i, k in zip(*np.nonzero(~okd)):
        run.violation(f"{fn}/consistency/d_{ORDER[i]}", f"d/dt of output {i} (by AD) is not output {i + 1}",
                      {"tv": tvs[k], "got": R[:, k].tolist(), "d_dt": dR[:, k].tolist()})


def replay_solve(run, code, n, tvs, Ms):
    fn = f"bezier{n}_solve"
    f = code.solve_fn(n)
    if not built_ok(run, f, fn, tvs[0]):
        return
    K = (n + 1) // 2
    names = BC_NAMES[n]
    w0 = np.array([tv["w0"] for tv in tvs], float).T
    w1 = np.array([tv["w1"] for tv in tvs], float).T
    T = np.array([q(tv["T"]) for tv in tvs])
    b = np.vstack([w0, w1])
    E = np.array([qv(tv["P"]) for tv in tvs], float).T
    P, via = batch_call(f, [w0, w1, T[None]])
    run.count("evaluations", len(tvs))
    got = np.empty_like(b)
    for k, tv in enumerate(tvs):
        Mq = Ms.get((n, tuple(tv["T"])))
        if Mq is None:
            raise MachineryError(f"no boundary-functional matrix for n={n}, T={tv['T']}")
        with np.errstate(invalid="ignore"):
            got[:, k] = np.array([[q(x) for x in row] for row in Mq]) @ P[:, k]
    fin = np.all(np.isfinite(P), axis=0)
    okb, eb = close(got, b)
    okv, _ = close(via, b)
    okp, ep = close(P, E)
    if np.any(okb):
        run.err(float(np.max(eb[okb])))

    def data(k):
        return {"tv": tvs[k], "M": Ms[(n, tuple(tvs[k]["T"]))], "P_code": P[:, k].tolist(), "P_spec": E[:, k].tolist(),
                "requested": dict(zip(names, b[:, k].tolist())), "achieved": dict(zip(names, got[:, k].tolist())),
                "achieved_via_code_traj": dict(zip(names, via[:, k].tolist()))}
    for k in np.nonzero(~fin)[0]:
        run.violation(f"{fn}/finite", "non-finite control points", data(k))
    for i, k in zip(*np.nonzero(~okb)):
        if fin[k]:
            run.violation(f"{fn}/boundary/{names[i]}",
                          f"the curve of the returned control points misses the requested {names[i]}", data(k))
    for i, k in zip(*np.nonzero(~okv)):
        if fin[k]:
            run.violation(f"{fn}/boundary_via_traj/{names[i]}",
                          f"bezier{n}_traj of the returned control points misses the requested {names[i]}", data(k))
    for k in np.nonzero(fin & np.all(okb, axis=0) & ~np.all(okp, axis=0))[0]:
        run.violation(f"{fn}/control_points", "boundary conditions met but control points differ from the unique Hermite solution", data(k))


def replay_multi(run, code, tvs):
    fn = "bezier_multirotor"
    f = code.multi_fn()
    if not built_ok(run, f, fn, tvs[0]):
        return
    cols = [np.array([q(tv["t"]) for tv in tvs])[None], np.array([q(tv["T"]) for tv in tvs])[None]]
    cols += [np.array([tv[p] for tv in tvs], float).T for p in ("PX", "PY", "PZ", "Ppsi")]
    E = np.array([[q(tv["x"][0]), q(tv["y"][0]), q(tv["z"][0])] + qv(tv["psi"]) +
                  [q(tv[ax][o]) for o in (1, 2, 3, 4) for ax in "xyz"] for tv in tvs], float).T
    V, dV = batch_call(f, cols)
    run.count("evaluations", len(tvs))
    ok, e = close(V, E)
    if np.any(ok):
        run.err(float(np.max(e[ok])))
    for i, k in zip(*np.nonzero(~ok)):
        run.violation(f"{fn}/value/{MR_OUT[i]}", f"output {MR_OUT[i]} is not the exact derivative of the axis curve",
                      {"tv": tvs[k], "got": dict(zip(MR_NAMES, V[:, k].tolist())), "expected": dict(zip(MR_NAMES, E[:, k].tolist()))})
    for a, d in MR_PAIRS:
        okd, _ = close(dV[a], V[d])
        for k in np.nonzero(~okd)[0]:
            run.violation(f"{fn}/consistency/d_{MR_OUT[a]}", f"d/dt {MR_OUT[a]} (by AD) is not output {MR_OUT[d]}",
                          {"tv": tvs[k], "got": dict(zip(MR_NAMES, V[:, k].tolist())), "d_dt": dict(zip(MR_NAMES, dV[:, k].tolist()))})


def nontrivial(tv):
    nz = lambda v: any(r[0] != 0 for r in v)
    if tv["op"] == "eval":
        return tv["n"] >= 1 and nz(tv["exp"])
    if tv["op"] == "traj":
        return nz(tv["exp"])
    if tv["op"] == "solve":
        return any(tv["w0"]) or any(tv["w1"])
    return True


def main():
    tier = sys.argv[1] if len(sys.argv) > 1 else "quick"
    run = Run(PID, tier)
    from harness.lie import touch_all as _touch_all
    _touch_all()        # first uses of the Lie API happen BEFORE the models are derived (see harness/lie.py)
    from harness import history as _history      # derivation histories in fresh interpreters (spec/DeriveHistory.tla)
    _history.run_models(run, tier, ("bezier:bezier",))
    try:        # every exported trajectory function once by position and by its documented argument names
        from harness import cas as _cas
        from cyecca.models import bezier as _bz
        for _n in dir(_bz):
            if _n.startswith("derive_"):
                for _f in (getattr(_bz, _n)() or {}).values():
                    if isinstance(_f, ca.Function):
                        _cas.named_selfcheck(_f)
    except Exception as _ex:     # noqa
        raise MachineryError(f"named self-check could not run: {_ex}")
    code = Code()
    if "--replay" in sys.argv:
        d = json.load(open(sys.argv[sys.argv.index("--replay") + 1]))["data"]
        tv = d["tv"]
        if tv["op"] == "eval":
            replay_eval(run, code, (tv["n"], tv["dim"], tv["m"]), [tv])
        elif tv["op"] == "traj":
            replay_traj(run, code, tv["n"], [tv])
        elif tv["op"] == "solve":
            replay_solve(run, code, tv["n"], [tv], {(tv["n"], tuple(tv["T"])): d["M"]})
        elif tv["op"] == "multirotor":
            replay_multi(run, code, [tv])
        else:
            raise MachineryError(f"cannot replay op {tv['op']}")
        return run.finish()

    res = run_tlc("Bezier.tla", f"Bezier_{tier}.cfg", workdir=run.workdir, dump=True)
    run.add_tlc("Bezier", res)
    grp, Ms, cov = {}, {}, {}
    n_tv = n_nontriv = 0
    for st in parse_dump(res["dump"]):
        tv = st["tv"]
        op = tv["op"]
        if op.startswith("seed"):
            continue
        if op == "bcrows":
            Ms[(tv["n"], tuple(tv["T"]))] = tv["M"]
            continue
        n_tv += 1
        n_nontriv += bool(nontrivial(tv))
        if op == "eval":
            key = (op, tv["n"], tv["dim"], tv["m"])
            cov.setdefault("eval_n_m", set()).add((tv["n"], tv["m"]))
            cov.setdefault("eval_n_cell", set()).add((tv["n"], tcell(tv)))
            cov.setdefault("eval_dim", set()).add(tv["dim"])
        elif op in ("traj", "solve"):
            key = (op, tv["n"])
            cov.setdefault(op, set()).add((tv["n"], tcell(tv)) if op == "traj" else (tv["n"], tuple(tv["T"])))
        elif op == "multirotor":
            key = (op,)
            cov.setdefault(op, set()).add(tcell(tv))
        else:
            raise MachineryError(f"unknown op in dump: {op}")
        cov.setdefault("T", set()).add(tuple(tv["T"]))
        grp.setdefault(key, []).append(tv)

    per_op = {}
    for key, tvs in sorted(grp.items()):
        per_op[key[0]] = per_op.get(key[0], 0) + len(tvs)
        if key[0] == "eval":
            if key[1] in (2, 5, 7) and key[3] == key[1] // 2 + 1:
                s = tvs[len(tvs) // 2]
                run.sample({k: s[k] for k in ("op", "n", "dim", "P", "T", "t", "m", "exp")}, limit=3)
            replay_eval(run, code, key[1:], tvs)
        elif key[0] == "traj":
            replay_traj(run, code, key[1], tvs)
        elif key[0] == "solve":
            run.sample(tvs[len(tvs) // 2], limit=5)
            replay_solve(run, code, key[1], tvs, Ms)
        else:
            run.sample({k: tvs[len(tvs) // 2][k] for k in ("op", "PX", "Ppsi", "T", "t", "x", "psi")}, limit=6)
            replay_multi(run, code, tvs)

    # vacuity control
    cells = {"t<0", "t=0", "inside", "t=T", "t>T"}
    Tall = {(1, 1), (2, 1), (5, 2)}
    miss = []
    high = {n for n, _ in cov.get("eval_n_m", set()) if n > 7}
    if not high or max(high) < 24 or {c for n, c in cov.get("eval_n_cell", set()) if n > 7} != {"t=0", "inside", "t=T"}:
        miss.append(f"eval: high degrees (up to >= 24, at t = 0, T/2, T) never exercised: {sorted(high)}")
    cov["eval_n_m"] = {x for x in cov.get("eval_n_m", set()) if x[0] <= 7}
    cov["eval_n_cell"] = {x for x in cov.get("eval_n_cell", set()) if x[0] <= 7}
    if cov.get("eval_n_m", set()) != {(n, m) for n in range(8) for m in range(n + 1)}:
        miss.append("eval: some (degree, order) pair with order <= degree <= 7 never exercised")
    if cov.get("eval_n_cell", set()) != {(n, c) for n in range(8) for c in cells}:
        miss.append("eval: some (degree, time cell) never exercised")
    if cov.get("eval_dim", set()) != {1, 2, 3}:
        miss.append("eval: dimensions 1..3 not all exercised")
    if cov.get("traj", set()) != {(n, c) for n in (3, 7) for c in cells}:
        miss.append("traj: some (degree, time cell) never exercised")
    if cov.get("solve", set()) != {(n, T) for n in (3, 7) for T in Tall}:
        miss.append("solve: some (degree, T) never exercised")
    if cov.get("multirotor", set()) != cells:
        miss.append("multirotor: some time cell never exercised")
    if set(Ms) != {(n, T) for n in (3, 7) for T in Tall}:
        miss.append("bcrows: boundary-functional matrices missing")
    Tsmall = {(1, 2000), (1, 4000), (1, 16), (40, 1)}      # Bezier!SmallTs (eval vectors of degree 1..2 only)
    if cov.get("T", set()) != Tall | Tsmall or not run.counts.get("evaluations"):
        miss.append("durations / evaluations")
    if miss:
        raise MachineryError("vacuous coverage: " + "; ".join(miss))
    run.assumptions += [
        "control points and boundary values are integers in -3..3, T in {1, 2, 5/2}, t in {-1/2, 0, 1/4, 1/2, 1, T, 3T/2} "
        "(all exactly representable doubles); validity between lattice points is not decided",
        "Bezier.eval/deriv are exercised through ca.Function objects built from symbolic control points, T and t "
        "(degrees 0..7, dimensions 1..3, orders 0..degree, deriv(m) and m chained deriv() calls)",
        "mutual consistency is checked two ways: against the spec's exact derivative values and by CasADi AD "
        "(d/dt of an output equals the next output)",
        "derive_ref / f_ref (flatness map) and the generated C code are not part of C18",
    ]
    return run.finish({
        "traces_validated_against_impl": n_tv,
        "evaluations": run.counts.get("evaluations", 0),
        "distinct_nontrivial": n_nontriv,
        "rule": "one TLC state = one vector (operation, exact arguments, exact expectation); non-trivial = degree >= 1 and "
                "a non-zero expected value (eval/traj), a non-zero boundary vector (solve), every multirotor vector",
        "per_op": per_op,
        "tolerance": "|delta| <= 1e-9 * max(1, |expected|) per component, two-sided; non-finite fails",
        "exhaustive": True,
    })


if __name__ == "__main__":
    main_wrap(main)
