"""C12 -- closed-loop convergence of the attitude estimator: TLC enumerates the configuration
lattice (spec/AttitudeLoop.tla), every chosen configuration is one real launch_sim run, and the
whole recorded history is validated by TLC against spec/AttitudeLoopTrace.tla (phase envelope,
measurement model, step contracts, non-vacuity)."""
import sys, json, math, os, random, copy
import numpy as np
from harness.core import Run, run_tlc, parse_dump, main_wrap, MachineryError
from harness.lie import so3_param
from harness import estloop, tracecheck

PID = "C12"
TF = 20.0


def cfg_of(tv, tid):
    c, s, h, ci, si, hi = tv["mag"]
    r = tv["rates"]
    return {"tid": tid, "x0": list(so3_param("mrp", tv["q"])) + [b / 100.0 for b in tv["b"]], "initialize": tv["init"],
            "decl": math.atan2(s, c), "incl": math.atan2(si, ci), "dt_sim": r[0] * 1e-6, "dt_imu": r[1] * 1e-6,
            "dt_mag": r[2] * 1e-6, "dt_log": r[3] * 1e-6, "tf": TF, "row_every": max(1, int(round(0.05 / (r[3] * 1e-6)))), "tv": tv}


def selftest(run, traces, rejected_tids):
    """binding demo: corrupt one recorded field / drop lines and require rejection"""
    clean = [t for t in traces if t[0]["tid"] not in rejected_tids]
    if not clean:
        run.count("selftest_skipped_no_clean_trace")
        return
    base = clean[0]
    t1 = copy.deepcopy(base)
    for ln in t1:
        if ln["e"] == "row" and ln["t_us"] >= 16000000 and ln["att"] >= 0:
            ln["att"] = 45000; break
    t2 = copy.deepcopy(base)
    for ln in t2:
        if ln["e"] == "accel" and ln["t_us"] > 3000000:
            ln["ret"] = 1; ln["unchanged"] = 0; break
    t3 = [ln for ln in copy.deepcopy(base) if not (ln["e"] == "accel" and 4000000 < ln["t_us"] < 6000000)]
    t4 = [ln for ln in copy.deepcopy(base) if ln["e"] != "end"] + [copy.deepcopy(base[0])]
    for i, t in enumerate((t1, t2, t3, t4)):
        for ln in t:
            ln["tid"] = 9000 + i
    res = tracecheck.validate("AttitudeLoopTrace.tla", "AttitudeLoopTrace.cfg", [t1, t2, t3, t4, base], run.workdir + "/st", shards=1)
    got = {(tid, c) for tid, _, c in res["rejects"]}
    want = {(9000, "attitude_error_after_transient"), (9001, "rejected_correction_changed_state"),
            (9002, "no_accepted_accel_correction_for_1s"), (9003, "trace_truncated")}
    if not want <= got or any(tid == base[0]["tid"] for tid, _ in got):
        raise MachineryError(f"selftest: corrupted traces not rejected as expected: got {sorted(got)}")
    run.count("selftest_corruptions_rejected", 4)


SENSOR_CLAUSES = ("mag_from_stale_state", "imu_from_stale_state", "imu_accel_is_not_the_sensor_model", "mag_is_not_the_sensor_model",
                  "state_not_advanced", "att_content_is_not_the_true_state", "att_from_stale_state")


class _Shim:
    """routes the Simulator-node trace validation (spec/SimulatorNode.tla + SimulatorNodeTrace.tla, growth check G01) into this
    check: only the clauses of C12's sensor sentence ("the simulated accelerometer and magnetometer readings have the configured
    magnitudes and rotate with the true attitude") are verdicts here, everything else stays with G01"""
    def __init__(self, run):
        self._run = run

    def __getattr__(self, name):
        return getattr(self._run, name)

    def violation(self, key, what, data=None):
        parts = key.split("/")
        if len(parts) >= 2 and parts[1] in SENSOR_CLAUSES:
            self._run.violation("sensors/" + "/".join(parts[1:]), what + " [a published reading or truth message is not the sensor model of the "
                                "CURRENT true state: the readings do not rotate with the true attitude]", data)
        else:
            self._run.count("simulator_node_rejects_outside_C12")


def sensor_clause(run, tier):
    """every sensor-rate setting of the SimulatorNode lattice (commensurate or not, with parameter changes and ties): each
    published reading must be the sensor model applied to the state of THAT instant"""
    from harness.checks import g01
    cfgs, traces, infos, val, rejected = g01.node_part(_Shim(run), "quick", None)
    classes = {g01.cfg_class(c) for c in cfgs}
    if not {"mag_not_multiple_of_imu", "tie"} <= classes or len(traces) < 8:
        raise MachineryError(f"vacuous coverage of the sensor clause: classes={sorted(classes)} traces={len(traces)}")
    run.count("simulator_node_runs", len(traces))
    run.count("simulator_node_trace_lines", val["lines"])


def main():
    tier = sys.argv[1] if len(sys.argv) > 1 else "quick"
    run = Run(PID, tier)
    os.makedirs(run.workdir + "/st", exist_ok=True)
    if "--replay" in sys.argv:
        d = json.load(open(sys.argv[sys.argv.index("--replay") + 1]))
        if str(d.get("key", "")).startswith("sensors/"):        # a Simulator-node run: re-record and re-validate that configuration
            from harness.checks import g01
            g01.node_part(_Shim(run), "quick", None, only=[d["data"]["cfg"]])
            return run.finish({"traces_validated_against_impl": 1, "rule": "replay of one recorded Simulator run"})
        cfgs = [cfg_of(d["data"]["tv"], 1)]
    else:
        res = run_tlc("AttitudeLoop.tla", f"AttitudeLoop_{tier}.cfg", workdir=run.workdir, dump=True)
        run.add_tlc("AttitudeLoop", res)
        tvs = sorted((st["tv"] for st in parse_dump(res["dump"])), key=lambda t: json.dumps(t, sort_keys=True))
        rnd = random.Random(run.seed)
        n = 16 if tier == "quick" else 200
        # stratified: every (cell, initialise-or-zero) pair and every rate setting represented, rest random
        strata = {}
        for tv in tvs:
            strata.setdefault((tv["cell"], tv["init"]), []).append(tv)
        rates = sorted({tuple(tv["rates"]) for tv in tvs})
        chosen = []
        for i, (k, v) in enumerate(sorted(strata.items())):
            want = rates[i % len(rates)]
            chosen.append(rnd.choice([tv for tv in v if tuple(tv["rates"]) == want] or v))
        for r in rates:                                  # every rate setting at least twice (once per start mode if possible)
            for init in (0, 1):
                if not any(tuple(tv["rates"]) == r and tv["init"] == init for tv in chosen):
                    chosen.append(rnd.choice([tv for tv in tvs if tuple(tv["rates"]) == r and tv["init"] == init]))
        pool = [tv for tv in tvs if tv not in chosen]
        chosen += rnd.sample(pool, max(0, n - len(chosen)))
        cfgs = [cfg_of(tv, i + 1) for i, tv in enumerate(chosen)]
        run.count("configurations_in_lattice", len(tvs))
    results = estloop.run_many(cfgs, procs=8)
    traces = [ln for ln, _ in results]
    summ = {s["tid"]: s for _, s in results}
    val = tracecheck.validate("AttitudeLoopTrace.tla", "AttitudeLoopTrace.cfg", traces, run.workdir, shards=6)
    run.tlc.append({"name": "AttitudeLoopTrace", "states": val["states"], "distinct": val["states"], "depth": val["lines"], "wall_s": round(val["wall_s"], 2)})
    bytid = {c["tid"]: c for c in cfgs}
    seen = set()
    for tid, line, clause in val["rejects"]:
        c = bytid[tid]
        key = f"launch_sim/{clause}/init={c['initialize']}/{c['tv']['cell']}"
        if (tid, clause) in seen:
            continue
        seen.add((tid, clause))
        run.violation(key, f"closed-loop history rejected by AttitudeLoopTrace at line {line}: {clause}",
                      {"tv": c["tv"], "line": line, "clause": clause, "summary": summ.get(tid)})
    for c in cfgs[:6]:
        s = summ[c["tid"]]
        run.sample({"q0": c["tv"]["q"], "bias": c["tv"]["b"], "init": c["initialize"], "mag": c["tv"]["mag"], "rates_us": c["tv"]["rates"],
                    "worst_att_after_5s_rad": round(s.get("worst_att_after_5s", -1), 5),
                    "worst_bias_after_15s": round(s.get("worst_bias_after_15s", -1), 5), "events": s["events"]}, limit=6)
    if "--replay" not in sys.argv:
        selftest(run, traces, {tid for tid, _, _ in val["rejects"]})
        sensor_clause(run, tier)
    if not any(c["initialize"] for c in cfgs) or not any(not c["initialize"] for c in cfgs):
        if "--replay" not in sys.argv:
            raise MachineryError("vacuous coverage: both initialised and zero-state starts are required")
    run.assumptions += [
        "monitoring, not prediction: convergence is decided on the executed configurations only (stratified sample of the TLC configuration lattice, seeded by VERIF_SEED)",
        "envelope constants from the property text: 0.03 rad after 5 s, bias max(0.01, initial/4) after 15 s; noise disabled; runs of 20 simulated seconds with the simulator's time-varying rates up to 10 rad/s",
        "box: zero-state starts within 120 degrees of the truth; initialised starts from any lattice attitude",
    ]
    worst_att = max((s.get("worst_att_after_5s", 0) for s in summ.values()), default=0)
    worst_b = max((s.get("worst_bias_after_15s", 0) for s in summ.values()), default=0)
    return run.finish({
        "traces_validated_against_impl": len(traces), "evaluations": val["lines"],
        "distinct_nontrivial": len(traces),
        "rule": "one configuration of the TLC lattice = one launch_sim run of 20 s; every recorded estimator step and sampled logger row is one validated trace line",
        "trace_lines_validated": val["lines"], "worst_attitude_error_after_5s_rad": worst_att,
        "worst_bias_error_after_15s": worst_b, "exhaustive": False,
    })


if __name__ == "__main__":
    main_wrap(main)
