"""C06 -- small-angle handling (spec/SmallAngle.tla): exact closed forms on both sides of every
Taylor switch (R2), second-order enclosures for dyadic vectors down to denormals (R1), exact zero
(R0), AD derivatives finite and equal to the generators at the identity."""
import sys, json, math, re
import numpy as np
import casadi as ca
from harness import cas as _cas
from harness.core import Run, run_tlc, parse_dump, main_wrap, MachineryError
from harness.lie import rm_to_np, FnCache, so3_param
from harness import explog as E
from harness.checks import c02, c03, c05

PID = "C06"
EPS = 4e-15


def hat(u):
    return np.array([[0, -u[2], u[1]], [u[2], 0, -u[0]], [-u[1], u[0], 0]], float)


def f_ad(cache, rep):
    def mk():
        L = E.groups(); G = E.so3_group(rep)
        a = ca.SX.sym("a", 3)
        X = L.so3.elem(a).exp(G)
        lg = X.log().param
        return ca.Function("f", [a], [ca.densify(ca.jacobian(ca.vec(X.to_Matrix()), a)), ca.densify(ca.jacobian(lg, a)),
                                      ca.densify(X.to_Matrix()), lg])
    return cache.get(("ad", rep), mk)


def f_lin(cache, kind, rep):
    def mk():
        alg, G = E.alg_group(kind, rep)
        a = ca.SX.sym("a", alg.n_param)
        x = alg.elem(a); X = x.exp(G)
        outs = [ca.densify(ca.jacobian(ca.vec(X.to_Matrix()), a)), ca.densify(ca.jacobian(X.log().param, a)),
                ca.densify(X.to_Matrix()), X.log().param,
                ca.densify(x.left_jacobian()), ca.densify(x.right_jacobian()),
                ca.densify(x.left_jacobian_inv()), ca.densify(x.right_jacobian_inv())]
        outs += [ca.densify(ca.jacobian(ca.vec(o), a)) for o in outs[4:8]]
        return ca.Function("f", [a], outs)
    return cache.get(("lin", kind, rep), mk)


def _wedge(kind, xi):
    """se(3): xi = (v, w) -> [[w^, v],[0,0]];  se_2(3): xi = (p, v, w) -> [[w^, v, p],[0,0,0],[0,0,0]]"""
    if kind == "se3":
        M = np.zeros((4, 4)); M[:3, :3] = hat(xi[3:6]); M[:3, 3] = xi[0:3]
    else:
        M = np.zeros((5, 5)); M[:3, :3] = hat(xi[6:9]); M[:3, 3] = xi[3:6]; M[:3, 4] = xi[0:3]
    return M


def _vee(kind, M):
    w = np.array([M[2, 1], M[0, 2], M[1, 0]])
    if kind == "se3":
        return np.concatenate([M[:3, 3], w])
    return np.concatenate([M[:3, 4], M[:3, 3], w])


def ad_numeric(kind, xi):
    n = len(xi)
    W = _wedge(kind, np.asarray(xi, float))
    cols = []
    for k_ in range(n):
        e = np.zeros(n); e[k_] = 1.0
        Ek = _wedge(kind, e)
        cols.append(_vee(kind, W @ Ek - Ek @ W))
    return np.array(cols).T


def call(f, *a):
    r = f(*a)
    out = [np.array(x) for x in (r if isinstance(r, (list, tuple)) else [r])]
    _cas.direct_probe(f, a, out)
    return out


def finite(run, key, arrs, tv):
    for a in arrs:
        if not np.all(np.isfinite(a)):
            run.violation(key, "non-finite value or derivative", {"tv": tv})
            return False
    return True


def replay_own(run, cache, tv):
    cmp = E.Cmp(run)
    op = tv["op"]
    run.count("evaluations")
    if op == "ad_so3":
        h = tv["h"]; th, nu, mu, v, n = E.hscal(h)
        Jl = np.array(tv["nV0"], float) / tv["n"] + mu * np.array(tv["NV1"], float) / tv["N"]
        R = rm_to_np(tv["exp"])
        want = np.column_stack([(hat(Jl[:, i]) @ R).flatten(order="F") for i in range(3)])
        for rep in ("quat", "mrp", "dcm"):
            dM, dlog, M, lg = call(f_ad(cache, rep), nu * v)
            if finite(run, f"so3->{rep}/AD/finite/small", [dM, dlog], tv):
                cmp.vec(f"so3->{rep}/AD/dexp/small", "AD derivative of to_Matrix(exp x) differs from [J_l e_i]x R", dM, want, tv)
                cmp.vec(f"so3->{rep}/AD/dlogexp/small", "AD derivative of log(exp x) is not I", dlog, np.eye(3), tv)
    elif op in ("dyadic", "switchx"):
        if op == "dyadic":
            k = tv["k"]; u = np.array(tv["u"], float)
            x = np.ldexp(u, -k)
            thx_ = float(np.ldexp(1.0, -k))
        else:                       # exactly on a Taylor / closed-form switch
            x = np.array(tv["xn"], float) / tv["xd"]
            thx_ = tv["tn"] / tv["td"]
            k = "sw" + ("+" if tv["tn"] > 0 else "-") + "".join(str(abs(c)) for c in tv["xn"])
        X = hat(x); X2 = X @ X
        nx = float(np.linalg.norm(x)); bound = nx ** 3 + EPS
        L = E.groups()

        def encl(key, got, f2, what):
            d = float(np.max(np.abs(np.asarray(got) - f2))) if np.all(np.isfinite(got)) else float("inf")
            if not d <= bound:
                run.violation(key, what + f" (|f - f2| = {d:.3e} > |x|^3 = {bound:.3e})", {"tv": tv, "x": x.tolist()})
            else:
                run.err(d)
        for rep in ("quat", "mrp", "dcm", "euler"):
            dM, dlog, M, lg = call(f_ad(cache, rep), x)
            encl(f"so3->{rep}/exp/enclosure/k{k}", M, np.eye(3) + X + X2 / 2, "exp outside its second-order enclosure")
            encl(f"so3->{rep}/logexp/enclosure/k{k}", lg.flatten(), x, "log(exp x) outside its enclosure")
            finite(run, f"so3->{rep}/AD/finite/k{k}", [dM, dlog], tv)
        Jl, Jli, Jr, Jri, Jlm = c05.call_alg(run, cache, "so3", x, tv)
        encl(f"so3/left_jacobian/enclosure/k{k}", Jl, np.eye(3) + X / 2 + X2 / 6, "J_l outside its enclosure")
        encl(f"so3/right_jacobian/enclosure/k{k}", Jr, np.eye(3) - X / 2 + X2 / 6, "J_r outside its enclosure")
        encl(f"so3/left_jacobian_inv/enclosure/k{k}", Jli, np.eye(3) - X / 2 + X2 / 12, "J_l^-1 outside its enclosure")
        encl(f"so3/right_jacobian_inv/enclosure/k{k}", Jri, np.eye(3) + X / 2 + X2 / 12, "J_r^-1 outside its enclosure")
        rho = np.array([1.0, -0.5, 0.25])
        for rep in ("quat", "mrp"):
            f, names = E.f_exp(cache, "se3", rep)
            out = call(f, np.concatenate([rho, x]))
            M2 = E.mat_se3(np.eye(3) + X + X2 / 2, (np.eye(3) + X / 2 + X2 / 6) @ rho)
            encl(f"se3->{rep}/exp/enclosure/k{k}", out[0], M2, "SE(3) exp outside its enclosure")
            encl(f"se3->{rep}/logexp/enclosure/k{k}", out[3].flatten(), np.concatenate([rho, x]), "SE(3) log(exp xi) outside its enclosure")
            f, names = E.f_exp(cache, "se23", rep)
            out = call(f, np.concatenate([rho, -rho, x]))
            M3 = E.mat_se23(np.eye(3) + X + X2 / 2, -(np.eye(3) + X / 2 + X2 / 6) @ rho, (np.eye(3) + X / 2 + X2 / 6) @ rho)
            encl(f"se23->{rep}/exp/enclosure/k{k}", out[0], M3, "SE_2(3) exp outside its enclosure")
            encl(f"se23->{rep}/logexp/enclosure/k{k}", out[3].flatten(), np.concatenate([rho, -rho, x]), "SE_2(3) log(exp xi) outside its enclosure")
        # se(3) / se_2(3) Jacobians with an O(1) translation: J_l = I + ad/2 + ad^2/6 + R,  |R| <= |x|^3 + |x|^2 |rho|
        # (ad^k has diagonal blocks X^k and coupling blocks sum_i X^i V X^(k-1-i); the series starts at k = 3).
        # ad is built here from matrix commutators of hand-written generators, not from the library.
        for kind, xi in (("se3", np.concatenate([rho, x])), ("se23", np.concatenate([rho, -rho, x]))):
            ad = ad_numeric(kind, xi)
            d_ = ad.shape[0]
            bj = nx ** 3 + nx ** 2 * 2 * float(np.linalg.norm(rho)) + EPS

            def enclj(key, got, f2, what):
                dd = float(np.max(np.abs(np.asarray(got) - f2))) if np.all(np.isfinite(got)) else float("inf")
                if not dd <= bj:
                    run.violation(key, what + f" (|f - f2| = {dd:.3e} > {bj:.3e})", {"tv": tv, "xi": xi.tolist()})
                else:
                    run.err(dd)
            Jl, Jli, Jr, Jri, Jlm = c05.call_alg(run, cache, kind, xi, tv)
            I_ = np.eye(d_); a2 = ad @ ad
            enclj(f"{kind}/left_jacobian/enclosure/k{k}", Jl, I_ + ad / 2 + a2 / 6, "J_l outside its second-order enclosure")
            enclj(f"{kind}/right_jacobian/enclosure/k{k}", Jr, I_ - ad / 2 + a2 / 6, "J_r outside its second-order enclosure")
            enclj(f"{kind}/left_jacobian_inv/enclosure/k{k}", Jli, I_ - ad / 2 + a2 / 12, "J_l^-1 outside its second-order enclosure")
            enclj(f"{kind}/right_jacobian_inv/enclosure/k{k}", Jri, I_ + ad / 2 + a2 / 12, "J_r^-1 outside its second-order enclosure")
        # SE(2): theta = 2^-k
        thx = thx_
        Xg = L.se2.elem(ca.DM([1.0, -0.5, thx])).exp(L.SE2)
        J2 = np.array([[0, -1], [1, 0]], float)
        M2 = np.eye(3); M2[:2, :2] = np.eye(2) + thx * J2 + thx * thx * (J2 @ J2) / 2
        M2[:2, 2] = (np.eye(2) + thx * J2 / 2 + thx * thx * (J2 @ J2) / 6) @ np.array([1.0, -0.5])
        b = abs(thx) ** 3 + EPS
        d = float(np.max(np.abs(np.array(ca.DM(Xg.to_Matrix())) - M2)))
        if not d <= b:
            run.violation(f"se2/exp/enclosure/k{k}", "SE(2) exp outside its enclosure", {"tv": tv})
        d = float(np.max(np.abs(np.array(ca.DM(Xg.log().param)).flatten() - np.array([1.0, -0.5, thx]))))
        if not d <= b:
            run.violation(f"se2/logexp/enclosure/k{k}", "SE(2) log(exp x) outside its enclosure", {"tv": tv})
    elif op == "zero":
        for rep in ("quat", "mrp", "dcm", "euler"):
            dM, dlog, M, lg = call(f_ad(cache, rep), np.zeros(3))
            finite(run, f"so3->{rep}/AD/finite/zero", [dM, dlog, M, lg], tv)
            cmp.vec(f"so3->{rep}/exp/zero", "exp(0) is not the identity", M, np.eye(3), tv)
            cmp.vec(f"so3->{rep}/log/zero", "log(exp 0) is not 0", lg, np.zeros((3, 1)), tv)
    elif op == "lin0":
        kind = tv["kind"]
        gens = [np.array(g, float) for g in tv["gens"]]
        want = np.column_stack([g.flatten(order="F") for g in gens])
        d = len(gens)
        L = E.groups()
        if kind == "se2":
            a = ca.SX.sym("a", 3)
            X = L.se2.elem(a).exp(L.SE2)
            f = ca.Function("f", [a], [ca.densify(ca.jacobian(ca.vec(X.to_Matrix()), a)), ca.densify(ca.jacobian(X.log().param, a))])
            dM, dlog = call(f, np.zeros(3))
            if finite(run, "se2/AD/finite/zero", [dM, dlog], tv):
                cmp.vec("se2/AD/generators", "D exp(0) is not the generator basis", dM, want, tv)
                cmp.vec("se2/AD/dlogexp", "D (log o exp)(0) is not I", dlog, np.eye(3), tv)
            return
        reps = ("quat", "mrp", "dcm", "euler") if kind == "so3" else ("quat", "mrp")
        for rep in reps:
            outs = call(f_lin(cache, kind, rep), np.zeros(d))
            if not finite(run, f"{kind}->{rep}/AD/finite/zero", outs, tv):
                continue
            cmp.vec(f"{kind}->{rep}/AD/generators", "D exp(0)[e_i] is not the generator E_i", outs[0], want, tv)
            cmp.vec(f"{kind}->{rep}/AD/dlogexp", "D (log o exp)(0) is not I", outs[1], np.eye(d), tv)
            for j, nm in enumerate(["left_jacobian", "right_jacobian", "left_jacobian_inv", "right_jacobian_inv"]):
                cmp.vec(f"{kind}/{nm}/zero", f"{nm}(0) is not I", outs[4 + j], np.eye(d), tv)


_re_mul = re.compile(r"(?<=[0-9x\)])\s+(?=[a-zA-Z0-9\(])")


def series_drift(run):
    """direct evaluation of every SERIES / SQUARED_SERIES entry against mpmath (50 digits) of the
    formula named by its key -- informational (SPEC-DRIFT): the property bounds exp/log/Jacobians,
    not the raw coefficients (high-order coefficients lose digits by cancellation just above the
    switch, harmlessly, because they are multiplied by theta^4..theta^6)."""
    import mpmath as mp
    from cyecca.symbolic import SERIES, SQUARED_SERIES
    mp.mp.dps = 50
    n = 0
    for sq, table in ((False, SERIES), (True, SQUARED_SERIES)):
        for key, fn in table.items():
            expr = _re_mul.sub("*", key.replace("^", "**"))
            while expr.count(")") > expr.count("("):
                expr = expr[:expr.rfind(")")] + expr[expr.rfind(")") + 1:]
            for arg in (1e-3 * (1 - 1e-6), 1e-3 * (1 + 1e-6), 9.99e-4, 1.001e-3, 5e-4, 2e-3, 1e-2, 0.1, 0.5, 1.0, 1e-5, 1e-8, 0.0):
                got = float(fn(arg))
                if arg == 0.0:
                    if not math.isfinite(got):     # e.g. "1/x^2": a genuine pole; informational only
                        run.spec_drift(f"series/{'sq' if sq else 'lin'}/{key}/finite_at_zero", "series entry not finite at 0")
                    continue
                x = mp.sqrt(mp.mpf(arg)) if sq else mp.mpf(arg)
                want = eval(expr, {"x": x, "sin": mp.sin, "cos": mp.cos, "tan": mp.tan, "atan": mp.atan})
                n += 1
                if abs(got - float(want)) > 1e-9 * max(1.0, abs(float(want))):
                    run.spec_drift(f"series/{'sq' if sq else 'lin'}/{key}", f"coefficient differs from its defining formula by > 1e-9 (arg {arg:g}: {got!r} vs {float(want)!r})")
    run.count("series_evaluations", n)


def main():
    tier = sys.argv[1] if len(sys.argv) > 1 else "quick"
    run = Run(PID, tier)
    cache = FnCache()
    from harness.lie import prelude as _prelude
    _prelude(run, report=())
    from harness import history as _history      # engine H: call histories in fresh interpreters (spec/LieHistory.tla)
    if _history.hook(run, tier, {"exp", "log", "Jl", "Jr", "Jli", "Jri"}):
        return run.finish()
    handlers = {"exp_so3": c02.replay, "exp_se3_gen": c02.replay, "exp_se23_gen": c02.replay,
                "log_so3": c03.replay, "log_se3": c03.replay, "log_se23": c03.replay,
                "jac_so3": c05.replay, "jac_se3": c05.replay, "jac_se23": c05.replay,
                "jac_se3_gen": c05.replay, "jac_se23_gen": c05.replay, "exp_se2": c02.replay, "log_se2": c03.replay}
    if "--replay" in sys.argv:
        d = json.load(open(sys.argv[sys.argv.index("--replay") + 1]))
        tv = d["data"]["tv"]
        handlers.get(tv["op"], replay_own)(run, cache, tv)
        return run.finish()
    E.selftest()
    res = run_tlc("SmallAngle.tla", f"SmallAngle_{tier}.cfg", workdir=run.workdir, dump=True)
    run.add_tlc("SmallAngle", res)
    n = 0; ops = {}; ms = set()
    for st in parse_dump(res["dump"]):
        tv = st["tv"]
        if tv["op"].startswith("seed"):
            continue
        n += 1
        ops[tv["op"]] = ops.get(tv["op"], 0) + 1
        if "h" in tv:
            ms.add((tv["h"][0], tuple(tv["h"][1:])))
        if ops[tv["op"]] == 2:
            run.sample({k: tv[k] for k in tv if k in ("op", "h", "rep", "k", "u", "kind", "rho")}, limit=14)
        handlers.get(tv["op"], replay_own)(run, cache, tv)
        if tv["op"].startswith("exp_"):          # log(exp x) = x on the same points
            c03.replay(run, cache, tv)
    series_drift(run)
    need = set(handlers) | {"ad_so3", "dyadic", "switchx", "zero", "lin0"}
    switch_pairs = [(63, 64), (31, 32), (1999, 2000), (999, 1000), (15, 16)]
    for a, b in switch_pairs:
        if (a, (1, 0, 0)) not in ms or (b, (1, 0, 0)) not in ms:
            raise MachineryError(f"vacuous coverage: switch neighbours {a}|{b} missing from the lattice")
    if not need <= set(ops):
        raise MachineryError(f"vacuous coverage: ops never exercised: {sorted(need - set(ops))}")
    run.assumptions += [
        "magnitudes: exact 0; dyadic 2^-12 .. 2^-1074 (second-order enclosure |f-f2| <= |x|^3 + 4e-15); half-angle lattice 2e-4 .. 1 rad on six axes with both integer neighbours of every switch; not a continuum sweep",
        "exact values from the closed forms of ExpLog/Jacobians (embedding doubles self-tested against mpmath)",
        "raw SERIES coefficients are compared with mpmath only as SPEC-DRIFT information: the property bounds the functions, not the coefficients",
    ]
    return run.finish({
        "traces_validated_against_impl": n, "evaluations": run.counts.get("evaluations", 0),
        "distinct_nontrivial": n - ops.get("zero", 0),
        "rule": "one TLC state = (function family, small rotation in half-angle or dyadic form, exact closed form or enclosure); non-trivial = non-zero magnitude",
        "per_op": ops, "lattice_points": len(ms), "exhaustive": True,
    })


if __name__ == "__main__":
    main_wrap(main)
