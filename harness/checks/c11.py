"""C11 -- contracts of one estimator step (spec/EstimatorStep.tla) + the same contracts evaluated
by TLC on every step of recorded closed-loop runs (spec/AttitudeLoopTrace.tla)."""
import sys, json, math
import numpy as np
import casadi as ca
from harness.core import Run, run_tlc, parse_dump, main_wrap, MachineryError
from harness.lie import so3_param, rot
from harness import explog as E, estloop, tracecheck

PID = "C11"
G = 9.8
STEP_CLAUSES = {"init_nan", "predict_nonpositive_dt", "predict_nan", "predict_mrp_outside_unit_ball",
                "predict_W_not_lower_triangular", "rejected_correction_changed_state", "accepted_correction_nan",
                "accepted_correction_increased_covariance", "exception_raised"}


def eqs():
    from cyecca.estimate.attitude import algorithms
    return algorithms.eqs()["mrp"]


def Wmat(name):
    W0 = np.diag([1, 1, 1, 5e-2, 5e-2, 5e-2]).astype(float)
    if name == "W0":
        return W0
    L = np.eye(6)
    if name == "small":
        return L * 2.0 ** -6
    if name == "tight":
        return np.diag([2.0 ** -10] * 3 + [2.0 ** -12] * 3)
    if name == "coupled":
        L = np.eye(6) * 2.0 ** -4
        L[1, 0] = 2.0 ** -6; L[3, 0] = -2.0 ** -7; L[4, 1] = 2.0 ** -7; L[5, 2] = 2.0 ** -8; L[2, 1] = -2.0 ** -6
        return L
    if name == "loose":
        return np.diag([0.5, 0.5, 0.5, 0.1, 0.1, 0.1])
    raise ValueError(name)


def mrp_rot(r):
    n2 = float(r @ r)
    q = np.concatenate([[1 - n2], 2 * r]) / (1 + n2)
    return estloop.rot_of(q)


def psd_dec(W, Wp):
    return estloop._pdec(W, Wp)


def replay(run, f, tv):
    cmp = E.Cmp(run)
    op = tv["op"]
    run.count("evaluations")
    q = tv["q"]
    if op == "init":
        N = float(tv["N"])
        scale = {"ok": 1.0, "half": 0.5, "double": 2.0, "low": 9.0 / G, "high": 10.7 / G, "std": 9.81 / G}[tv["gscale"]]
        g_b = G * scale * np.array(tv["gdir"], float) / N
        hd = tv["decl"][2] * tv["incl"][2]
        bmag = {"low": 0.05, "high": 0.3}.get(tv["gscale"], 0.1)       # the field strength is not part of the attitude either
        B_b = bmag * np.array(tv["bb"], float) / (N * hd)
        decl = math.atan2(tv["decl"][1], tv["decl"][0])
        x0, ret = f["initialize"](g_b, B_b, decl)
        x0 = np.array(x0).flatten(); ret = float(ret)
        data = {"tv": tv, "x0": x0.tolist(), "ret": ret}
        if not (np.all(np.isfinite(x0)) and ret == ret):
            run.violation(f"initialize/nan/{tv['gscale']}", "initialize returned NaN", data); return
        if ret == 0:
            run.count("init_accepted")
            cmp.vec(f"initialize/attitude/{tv['gscale']}", "initialize accepted but the attitude is not the one that produced the measurements",
                    mrp_rot(x0[:3]), rot(q), tv)
            if float(x0[:3] @ x0[:3]) > 1 + 1e-9:
                run.violation("initialize/mrp_norm", "initial MRP outside the unit ball", data)
            if tv["gscale"] in ("half", "double"):
                run.spec_drift("initialize/gross_gravity_accepted", "initialisation accepted a gravity vector of half/double magnitude")
        else:
            run.count("init_rejected")
            if tv["gscale"] == "ok" and tv["incl"][1] * 10 < tv["incl"][2] * 9:       # |incl| < 64 deg: consistent data
                run.spec_drift("initialize/consistent_rejected", "consistent measurements rejected")
    elif op == "init_degenerate":
        N = float(tv["N"])
        gd = np.array(tv["gdir"], float) / N
        g_b = G * gd
        B_b = {"field_up": 0.1 * gd, "field_down": -0.1 * gd, "zero_field": np.zeros(3), "zero_gravity": 0.1 * gd}[tv["deg"]]
        if tv["deg"] == "zero_gravity":
            g_b = np.zeros(3); B_b = 0.1 * np.array([0.6, 0.0, 0.8])
        decl = math.atan2(tv["decl"][1], tv["decl"][0])
        x0, ret = f["initialize"](g_b, B_b, decl)
        x0 = np.array(x0).flatten(); ret = float(ret)
        data = {"tv": tv, "x0": x0.tolist(), "ret": ret, "g_b": g_b.tolist(), "B_b": B_b.tolist()}
        if not np.all(np.isfinite(x0)) or ret != ret:
            run.violation(f"initialize/nan/{tv['deg']}", "initialize returned NaN for a degenerate measurement pair", data)
        elif ret == 0:
            run.violation(f"initialize/degenerate_accepted/{tv['deg']}",
                          "initialize reported success although the measurements do not determine the attitude", data)
        else:
            run.count("init_degenerate_rejected")
    elif op == "predict":
        b = np.array(tv["b"], float) / 100.0
        dt = tv["dt"] * 1e-3
        th, nu, mu, v, n = E.hscal(tv["h"])
        phi = nu * v
        om = b + phi / dt
        x = np.concatenate([so3_param("mrp", q), b])
        W = Wmat(tv["W"])
        x1, W1 = f["predict"](0.0, x, W, om, 1e-3, 1e-5, dt)
        x1 = np.array(x1).flatten(); W1 = np.array(W1)
        data = {"tv": tv, "x1": x1.tolist()}
        if not (np.all(np.isfinite(x1)) and np.all(np.isfinite(W1))):
            run.violation("predict/nan", "predict returned NaN", data); return
        if float(x1[:3] @ x1[:3]) > 1 + 1e-9:
            run.violation(f"predict/mrp_norm/{tv['cell']}", "MRP after predict outside the unit ball (shadow switch missing)", data)
        if np.max(np.abs(np.triu(W1, 1))) != 0:
            run.violation("predict/W_lower_triangular", "covariance factor after predict is not lower triangular", data)
        err = float(np.max(np.abs(mrp_rot(x1[:3]) - rot(tv["post"]))))
        tol = 1e-9 + 0.01 * th ** 5
        run.err(err)
        if not err <= tol:
            run.violation(f"predict/fourth_order/{tv['cell']}", f"attitude after predict differs from the gyro-integrated attitude by {err:.3e} > 1e-9 + 0.01 theta^5 = {tol:.3e}", data)
        if np.max(np.abs(x1[3:] - b)) > 1e-12:
            run.violation("predict/bias_constant", "bias changed in a noise-free prediction", data)
    elif op in ("accel", "mag", "magx"):
        b = np.array(tv["b"], float) / 100.0
        x = np.concatenate([so3_param("mrp", q), b])
        W = Wmat(tv["W"])
        if op == "accel":
            y = (tv["mag"] / 100.0) * np.array(tv["ydir"], float) / tv["yN"]
            out = f["correct_accel"](x, W, y, G, np.zeros(3), 35e-3, 0.0, 9.2)
            cell = f"{tv['gate']}/{tv['W']}"
        else:
            y = 0.1 * (tv.get("sc", 100) / 100.0) * np.array(tv["ydir"], float) / tv["yN"]
            decl = math.atan2(tv["decl"][1], tv["decl"][0])
            out = f["correct_mag"](x, W, y, decl, 2.5e-3, 6.6)
            cell = f"{tv['W']}" + (f"/{tv['kind']}" if op == "magx" else "")
            op = "mag"
        xo = np.array(out[0]).flatten(); Wo = np.array(out[1]); ret = float(out[5])
        data = {"tv": tv, "ret": ret, "x_out": xo.tolist()}
        if ret != ret:
            run.violation(f"correct_{op}/nan_code/{cell}", "error code is NaN", data); return
        if ret != 0:
            run.count(f"{op}_rejected")
            if not (estloop._same_bits(x, xo) and estloop._same_bits(W, Wo)):
                run.violation(f"correct_{op}/rejected_changed_state/{cell}", "non-zero error code but state/covariance not returned bit-for-bit unchanged", data)
        else:
            run.count(f"{op}_accepted")
            if not (np.all(np.isfinite(xo)) and np.all(np.isfinite(Wo))):
                run.violation(f"correct_{op}/accepted_nan/{cell}", "accepted correction returned non-finite values", data); return
            if not psd_dec(W, Wo):
                run.violation(f"correct_{op}/covariance_increased/{cell}", "accepted correction increased covariance (P - P+ not PSD)", data)
            if op == "accel" and tv["cls"] == "must_reject":
                run.violation(f"correct_accel/gross_magnitude_accepted/{tv['mag']}", "grossly wrong accelerometer magnitude was accepted", data)
        if op == "accel" and ((tv["gate"] == "reject") != (ret != 0)) and tv["gate"] != "edge":
            run.spec_drift("correct_accel/gate_position", "accept/reject differs from the | |y| - g | > 1 gate of the implementation-shaped model")


def main():
    tier = sys.argv[1] if len(sys.argv) > 1 else "quick"
    run = Run(PID, tier)
    from harness.lie import touch_all as _touch_all
    _touch_all()        # first uses of the Lie API happen BEFORE the models are derived (see harness/lie.py)
    from harness import history as _history      # derivation histories in fresh interpreters (spec/DeriveHistory.tla)
    _history.run_models(run, tier, ("estimator:mrp:",))
    f = eqs()
    from harness import cas as _cas
    for _f in f.values():       # every estimator function once by position and by its documented argument names
        if isinstance(_f, ca.Function):
            _cas.named_selfcheck(_f)
    if "--replay" in sys.argv:
        d = json.load(open(sys.argv[sys.argv.index("--replay") + 1]))
        replay(run, f, d["data"]["tv"])
        return run.finish()
    E.selftest()
    # deriving the equations is not a one-shot operation (code generation, the launcher and a notebook all call
    # algorithms.eqs()): module-level objects that one builder modifies in place are seen by the next derivation
    f_again = eqs()
    res = run_tlc("EstimatorStep.tla", f"EstimatorStep_{tier}.cfg", workdir=run.workdir, dump=True)
    run.add_tlc("EstimatorStep", res)
    n = 0; ops = {}
    for st in parse_dump(res["dump"]):
        tv = st["tv"]
        if tv["op"] == "seedq":
            continue
        n += 1
        ops[tv["op"]] = ops.get(tv["op"], 0) + 1
        if ops[tv["op"]] == 7:
            run.sample({k: tv[k] for k in tv if k in ("op", "q", "b", "h", "dt", "W", "mag", "tilt", "decl", "incl", "gscale", "yaw")}, limit=8)
        replay(run, f, tv)
        if tv["op"] == "predict":       # the same vectors on the equations derived a SECOND time in this process
            replay(run, f_again, tv)
            run.count("second_derivation_predicts")
    c = run.counts
    for k in ("init_accepted", "init_rejected", "accel_accepted", "accel_rejected", "mag_accepted", "mag_rejected"):
        if c.get(k, 0) == 0:
            raise MachineryError(f"vacuous coverage: outcome never observed: {k} ({c})")
    # engine C: the same contracts on every step of real closed-loop runs
    cfgs = []
    nrun = 3 if tier == "quick" else 16
    starts = [([0.1, 0.2, 0.3, 0.05, -0.05, 0.07], True), ([0.3, -0.2, 0.1, -0.07, 0.0, 0.03], False), ([0.0, 0.6, -0.3, 0.0, 0.07, -0.07], True)]
    for i in range(nrun):
        x0, init = starts[i % 3]
        x0 = list(x0); x0[0] += 0.01 * (i // 3)
        cfgs.append({"tid": i + 1, "x0": x0, "initialize": init, "decl": 0.3 * ((i // 3) % 2), "incl": 0.0, "dt_sim": 1 / 400, "dt_imu": 1 / 200,
                     "dt_mag": 1 / 50, "dt_log": 1 / 200, "tf": 8.0 if tier == "quick" else 20.0, "row_every": 20})
    results = estloop.run_many(cfgs, procs=8)
    traces = [ln for ln, _ in results]
    val = tracecheck.validate("AttitudeLoopTrace.tla", "AttitudeLoopTrace.cfg", traces, run.workdir, shards=3)
    run.tlc.append({"name": "AttitudeLoopTrace", "states": val["states"], "distinct": val["states"], "depth": val["lines"], "wall_s": round(val["wall_s"], 2)})
    for tid, line, clause in val["rejects"]:
        if clause in STEP_CLAUSES:
            run.violation(f"closed_loop/{clause}", f"step contract violated in a closed-loop run (trace line {line})", {"cfg": cfgs[tid - 1], "line": line})
        else:
            run.count("envelope_rejects_ignored_here(C12)")
    steps = sum(1 for t in traces for ln in t if ln["e"] in ("predict", "accel", "mag", "init"))
    run.assumptions += [
        "attitudes rational (integer quaternions, MRP in the unit ball), bias multiples of 0.01 rad/s, five covariance factors (default, scaled identity, tight, coupled off-diagonals, loose), steps 1-20 ms, rates up to 390 rad/s*ms per step (theta <= 0.4 rad)",
        "fourth-order accuracy is checked as the error bound 1e-9 + 0.01 theta^5 on the rotation matrix at lattice steps, not as an asymptotic order",
        "P+ <= P is checked numerically (min eigenvalue of P - P+ >= -1e-10 |P|)",
    ]
    return run.finish({
        "traces_validated_against_impl": n + len(traces), "evaluations": n + steps,
        "distinct_nontrivial": n,
        "rule": "one TLC state = one estimator step (operation, exact attitude/bias, covariance factor, measurement class); plus every step of recorded closed-loop runs validated by the trace spec",
        "per_op": ops, "outcomes": {k: v for k, v in c.items() if k.endswith("ed")}, "closed_loop_steps_validated": steps, "exhaustive": True,
    })


if __name__ == "__main__":
    main_wrap(main)
