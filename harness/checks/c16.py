"""C16 -- rigid-body physics invariants of the quadrotor model (spec/Quadrotor.tla).

TLC enumerates (parameter set x rational attitude x velocity/body rate x rotor speeds/commands),
proves the physical laws on the spec's exact derivative, and every state is replayed into the
real `derive_model()['f']`, `g_accel`, `g_gyro` (engine A).  Besides the entry-wise comparison
with the exact derivative, the clauses of the property are evaluated directly on the code's
outputs (q.q', hover, free fall, zero moment, equivariance f(g.x) = g.f(x), motor lag sign).

Embedding: q = Q/s, R = QMat(Q)/s^2; rationals <<n,d>> -> n/d; arm angle = atan2(s, c);
rotor speeds are counted in the parameter set's speed unit U (Omega = om*U, C_T = ct/U^2; for
the shipped defaults U = sqrt(ct/C_T shipped), so the hover speed 7 U is the physical 757 rad/s);
w' = wd + sqrt(2)*wd2 (the sqrt2 part is non-zero only for the shipped +-pi/4, +-3pi/4 arms).
"""
import sys, json, math, warnings
import numpy as np
from harness.core import Run, run_tlc, parse_dump, main_wrap, MachineryError
from harness.cas import batch_call

PID = "C16"
TOL = 1e-9
SQ2 = math.sqrt(2.0)
BLOCKS = {"position_dot": slice(0, 3), "velocity_dot": slice(3, 6), "quaternion_dot": slice(6, 10),
          "omega_dot": slice(10, 13), "motor_dot": slice(13, 17)}
AERO = {"CD0": 0.5, "Cl_p": -0.1, "Cm_q": -0.2, "Cn_r": -0.05}      # drag / damping: outside the property's force sum


def build():
    warnings.filterwarnings("ignore", category=FutureWarning)
    from cyecca.models import quadrotor
    return quadrotor.derive_model()


def fr(r):
    return r[0] / r[1]


def frv(v):
    return [a[0] / a[1] for a in v]


# ------------------------------------------------------------------------------------------
# embedding of parameters and states
# ------------------------------------------------------------------------------------------
def embed_params(run, model, P, aero=False):
    """spec parameter record -> (39-vector in the model's own ordering, speed unit U)"""
    idx, shipped = model["p_index"], model["p_defaults"]
    vec = np.zeros(len(idx))
    for k, v in shipped.items():
        vec[idx[k]] = float(v)
    if P["unit"] == 0:
        CT = float(shipped["CT"])
        U = math.sqrt(fr(P["ct"]) / CT)
    else:
        U = float(P["unit"])
        CT = fr(P["ct"]) / U ** 2
    want = {"tau_up": fr(P["tau_up"]), "tau_down": fr(P["tau_down"]), "CT": CT, "CM": fr(P["cm"]),
            "Cl_p": 0.0, "Cm_q": 0.0, "Cn_r": 0.0, "CD0": 0.0, "S": fr(P["S"]), "rho": fr(P["rho"]),
            "g": fr(P["g"]), "m": fr(P["m"]), "Jx": fr(P["J"][0]), "Jy": fr(P["J"][1]), "Jz": fr(P["J"][2])}
    for i in range(4):
        a = P["arm"][i]
        want[f"dir_motor_{i}"] = float(P["dir"][i])
        want[f"l_motor_{i}"] = fr(P["l"][i])
        want[f"theta_motor_{i}"] = math.atan2(a["s"], a["c"])
    for k, v in want.items():
        if k not in idx:
            raise MachineryError(f"model has no parameter {k}")
        if P["name"] == "default" and abs(vec[idx[k]] - v) <= 1e-12 * max(1.0, abs(v)):
            continue                      # keep the shipped bits: this IS the default parameter set
        if P["name"] == "default":
            run.spec_drift(f"defaults/{k}", f"shipped default {vec[idx[k]]!r} differs from the spec's default set {v!r}")
        vec[idx[k]] = v
    if aero:
        for k, v in AERO.items():
            vec[idx[k]] = v
    return vec, U


def embed_states(tvs, U, which="x"):
    n = len(tvs)
    X = np.empty((17, n))
    Uc = np.empty((4, n))
    for k, tv in enumerate(tvs):
        x = tv["x"]
        src = x if which == "x" else tv["gx"]
        X[0:3, k] = frv(src["p"])
        X[3:6, k] = x["v"]
        X[6:10, k] = np.array(src["Q"], float) / src["s"]
        X[10:13, k] = x["w"]
        X[13:17, k] = np.array(x["om"], float) * U
        Uc[:, k] = np.array(x["cmd"], float) * U
    return X, Uc


def expected(tvs, U):
    n = len(tvs)
    E = np.empty((17, n))
    A = np.empty((3, n))
    for k, tv in enumerate(tvs):
        d = tv["xd"]
        E[0:3, k] = frv(d["pd"])
        E[3:6, k] = frv(d["vd"])
        E[6:10, k] = frv(d["qd"])
        E[10:13, k] = np.array(frv(d["wd"])) + SQ2 * np.array(frv(d["wd2"]))
        E[13:17, k] = np.array(frv(d["md"])) * U
        A[:, k] = frv(d["acc"])
    return E, A


def qmul(a, b):
    """Hamilton product, columns (textbook: (a0 + av)(b0 + bv) = a0 b0 - av.bv + a0 bv + b0 av + av x bv)"""
    a0, av, b0, bv = a[0], a[1:4], b[0], b[1:4]
    return np.vstack([a0 * b0 - np.sum(av * bv, axis=0), a0 * bv + b0 * av + np.cross(av, bv, axis=0)])


def qrot(q):
    """rotation matrices (n,3,3) of unit quaternion columns: R = (w^2-|u|^2) I + 2 u u^T + 2 w [u]x"""
    w, u = q[0], q[1:4]
    n = q.shape[1]
    R = np.einsum("k,ij->kij", w * w - np.sum(u * u, axis=0), np.eye(3)) + 2 * np.einsum("ik,jk->kij", u, u)
    H = np.zeros((n, 3, 3))
    H[:, 0, 1], H[:, 0, 2], H[:, 1, 0], H[:, 1, 2], H[:, 2, 0], H[:, 2, 1] = -u[2], u[1], u[2], -u[0], -u[1], u[0]
    return R + 2 * w[:, None, None] * H


def within(got, exp):
    """entry-wise |got - exp| <= 1e-9 max(1, |exp|); returns (ok per column, err per column)"""
    with np.errstate(invalid="ignore"):
        e = np.abs(got - exp)
        ok = np.all(e <= TOL * np.maximum(1.0, np.abs(exp)), axis=0)
    return ok, np.max(np.where(np.isfinite(e), e, np.inf), axis=0)


# ------------------------------------------------------------------------------------------
# replay of the states of one parameter set
# ------------------------------------------------------------------------------------------
def replay_set(run, model, P, tvs):
    f, g_accel, g_gyro = model["f"], model["g_accel"], model["g_gyro"]
    pvec, U = embed_params(run, model, P)
    n = len(tvs)
    X, Uc = embed_states(tvs, U)
    E, Aexp = expected(tvs, U)
    pc = pvec[:, None]
    w0, dt = np.zeros((3, 1)), np.array([[0.01]])
    (F,) = batch_call(f, [X, Uc, pc])
    (Acc,) = batch_call(g_accel, [X, Uc, pc, w0, dt])
    (Gyr,) = batch_call(g_gyro, [X, Uc, pc, w0, dt])
    run.count("evaluations", 3 * n)

    def data(k, **kw):
        d = {"tv": tvs[k], "par": P, "x": X[:, k].tolist(), "u": Uc[:, k].tolist(), "p": pvec.tolist(),
             "f": F[:, k].tolist(), "expected": E[:, k].tolist(), "speed_unit": U}
        d.update(kw)
        return d

    om0 = np.array([tv["x"]["om"] == (0, 0, 0, 0) for tv in tvs])
    w0s = np.array([tv["x"]["w"] == (0, 0, 0) for tv in tvs])
    v0s = np.array([tv["x"]["v"] == (0, 0, 0) for tv in tvs])
    cells = [tv["cell"] for tv in tvs]
    sym = np.array([tv["sym"] for tv in tvs])
    eqsp = np.array([len(set(tv["x"]["om"])) == 1 for tv in tvs])

    # ---- 1. entry-wise comparison with the spec's exact derivative
    for blk, sl in BLOCKS.items():
        ok, e = within(F[sl], E[sl])
        if np.any(ok):
            run.err(float(np.max(e[ok])))
        for k in np.nonzero(~ok)[0]:
            if blk == "omega_dot":
                c = "rotor_moment" if w0s[k] else "euler"
            elif blk == "velocity_dot":
                c = "gravity" if om0[k] and (w0s[k] or v0s[k]) else ("thrust" if (w0s[k] or v0s[k]) else "coriolis")
            elif blk == "motor_dot":
                bad = np.abs(F[sl, k] - E[sl, k]) > TOL * np.maximum(1.0, np.abs(E[sl, k]))
                lag = [tvs[k]["lag"][i] for i in range(4) if bad[i] or not np.isfinite(F[13 + i, k])]
                c = {1: "spin_up", -1: "spin_down", 0: "hold"}[lag[0] if lag else 0]
            else:
                c = "kinematics"
            run.violation(f"f/{blk}/{c}", f"{blk} differs from the rigid-body derivative (sum over rotors, Newton/Euler, motor lag)",
                          data(k, block=blk, err=float(e[k])))
    # accelerometer: the property promises the free-fall reading; elsewhere specific force F/m (informational)
    ok, e = within(Acc, Aexp)
    for k in np.nonzero(~ok)[0]:
        if om0[k]:
            run.violation("g_accel/free_fall", "accelerometer output is not zero in free fall (rotors off)", data(k, g_accel=Acc[:, k].tolist()))
        else:
            run.spec_drift("g_accel/specific_force", "accelerometer output differs from (sum of rotor thrusts)/m along body z")
    ok, e = within(Gyr, X[10:13])
    for k in np.nonzero(~ok)[0]:
        run.spec_drift("g_gyro/body_rate", "noise-free gyro output differs from the body rate")

    # ---- 2. the property's clauses on the code's own outputs
    q, qd = X[6:10], F[6:10]
    with np.errstate(invalid="ignore"):
        dot = np.abs(np.sum(q * qd, axis=0))
        bad = ~(dot <= TOL * np.maximum(1.0, np.max(np.abs(qd), axis=0)))
    for k in np.nonzero(bad)[0]:
        run.violation("f/quaternion_dot/norm", "q . q' != 0: the derivative does not preserve the quaternion norm", data(k, q_dot_qd=float(dot[k])))
    run.count("clause_qnorm", n)

    hov = np.array([c == "hover" for c in cells])
    for k in np.nonzero(hov)[0]:
        z = F[:, k].copy()
        if not sym[k]:
            z[10:13] = 0.0            # asymmetric frame: forces balance, moments need not
        if not np.all(np.abs(z) <= TOL * max(1.0, fr(P["g"]))):
            run.violation("f/hover/equilibrium", "level hover with a quarter of the weight per rotor is not an equilibrium", data(k))
        run.count("clause_hover")

    ff = om0
    Rm = qrot(q)
    wv = np.cross(X[10:13], X[3:6], axis=0)
    aw = np.einsum("kij,jk->ik", Rm, F[3:6] + wv)                 # world-frame acceleration R (v' + w x v)
    gw = np.array([0.0, 0.0, -fr(P["g"])])[:, None]
    ok, _ = within(aw, np.repeat(gw, n, axis=1))
    for k in np.nonzero(ff & ~ok)[0]:
        run.violation("f/velocity_dot/free_fall_world", "rotors off: world-frame acceleration is not (0,0,-g)", data(k, a_world=aw[:, k].tolist()))
    run.count("clause_free_fall", int(np.sum(ff)))

    zm = sym & eqsp & w0s
    for k in np.nonzero(zm)[0]:
        if not np.all(np.abs(F[10:13, k]) <= TOL):
            run.violation("f/omega_dot/symmetric_zero_moment", "equal rotor speeds on a symmetric frame give a non-zero moment", data(k))
    run.count("clause_zero_moment", int(np.sum(zm)))

    lag = np.array([tv["lag"] for tv in tvs]).T
    with np.errstate(invalid="ignore"):
        badm = np.any(np.sign(F[13:17]) != lag, axis=0)
    for k in np.nonzero(badm)[0]:
        run.violation("f/motor_dot/sign", "a motor speed does not move toward its command (or moves while on command)", data(k))
    run.count("clause_motor", 4 * n)
    # both sides of the spin-up / spin-down switch, arbitrarily close to the command (off the lattice: the law is
    # homogeneous in cmd - Omega, so the comparison is relative): d Omega/dt = (cmd - Omega)/tau_up|down
    for sgn in (np.array([1.0, -1.0, 1.0, -1.0]), np.array([-1.0, 1.0, -1.0, 1.0])):
        Ub = X[13:17] + sgn[:, None] * 2.0 ** -20
        (Fb,) = batch_call(f, [X, Ub, pc])
        e = Ub - X[13:17]
        tau = np.where(e > 0, fr(P["tau_up"]), fr(P["tau_down"]))
        with np.errstate(invalid="ignore"):
            badb = ~np.all(np.abs(Fb[13:17] - e / tau) <= TOL * np.abs(e / tau), axis=0)
        for k in np.nonzero(badb)[0]:
            run.violation("f/motor_dot/boundary", "command within 1e-6 of the speed: derivative is not (cmd - Omega)/tau of the direction",
                          data(k, u=Ub[:, k].tolist(), f=Fb[:, k].tolist()))
        run.count("evaluations", n)

    equivariance(run, model, P, tvs, pvec, U, X, Uc, F, Acc, "", data)

    # ---- 3. ground-contact branch (z < 0): outside the property's domain, finiteness only
    Xg = X.copy()
    Xg[2] = -Xg[2] - 0.25
    (Fg,) = batch_call(f, [Xg, Uc, pc])
    run.count("evaluations", n)
    run.count("ground_contact_evals", n)
    for k in np.nonzero(~np.all(np.isfinite(Fg), axis=0))[0]:
        run.spec_drift("f/ground_contact/non_finite", "derivative is not finite below ground (outside the property's domain)")

    # ---- 4. with drag / aerodynamic damping switched on only the clauses that do not speak about the force sum
    if P["name"] in ("default", "skew"):
        pa, _ = embed_params(run, model, P, aero=True)
        (Fa,) = batch_call(f, [X, Uc, pa[:, None]])
        (Aa,) = batch_call(g_accel, [X, Uc, pa[:, None], w0, dt])
        run.count("evaluations", 2 * n)

        def data_a(k, **kw):
            d = data(k, **kw)
            d.update({"p": pa.tolist(), "f": Fa[:, k].tolist(), "aero": AERO})
            return d
        with np.errstate(invalid="ignore"):
            dota = np.abs(np.sum(q * Fa[6:10], axis=0))
            bad = ~(dota <= TOL * np.maximum(1.0, np.max(np.abs(Fa[6:10]), axis=0)))
        for k in np.nonzero(bad)[0]:
            run.violation("f/quaternion_dot/norm", "q . q' != 0 (drag and damping on)", data_a(k))
        ok, _ = within(Fa[13:17], F[13:17])
        for k in np.nonzero(~ok)[0]:
            run.violation("f/motor_dot/aero", "motor lag changes with the aerodynamic coefficients", data_a(k))
        equivariance(run, model, P, tvs, pa, U, X, Uc, Fa, Aa, "+aero", data_a)
    return F


def equivariance(run, model, P, tvs, pvec, U, X, Uc, F, Acc, tag, data):
    """f(g.x) = g.f(x) on the code's outputs: g = yaw rotation G (about the world vertical) + horizontal shift t"""
    f, g_accel = model["f"], model["g_accel"]
    n = len(tvs)
    pc = pvec[:, None]
    w0, dt = np.zeros((3, 1)), np.array([[0.01]])
    X2, _ = embed_states(tvs, U, "gx")
    G = np.array([np.array(tv["g"]["G"], float) / tv["g"]["sG"] for tv in tvs]).T            # unit yaw quaternions
    Rz = np.array([np.array(tv["rz"], float) / tv["g"]["sG"] ** 2 for tv in tvs])            # (n,3,3)
    t = np.array([frv(tv["g"]["t"]) for tv in tvs]).T
    # self-test of the embedding of g (spec's integer g.x against the textbook action in doubles)
    if not (np.allclose(qmul(G, X[6:10]), X2[6:10], atol=1e-13) and np.allclose(np.einsum("kij,jk->ik", Rz, X[0:3]) + t, X2[0:3], atol=1e-9)
            and np.allclose(qrot(G), Rz, atol=1e-13) and np.all(X2[2] > 0) and np.all(X[2] > 0) and np.all(t[2] == 0)):
        raise MachineryError("embedding of the world symmetry g is inconsistent with the spec's g.x")
    (F2,) = batch_call(f, [X2, Uc, pc])
    (A2,) = batch_call(g_accel, [X2, Uc, pc, w0, dt])
    gF = F.copy()
    gF[0:3] = np.einsum("kij,jk->ik", Rz, F[0:3])
    gF[6:10] = qmul(G, F[6:10])
    ok, e = within(F2, gF)
    oka, _ = within(A2, Acc)
    for k in np.nonzero(~(ok & oka))[0]:
        run.violation(f"f/equivariance/yaw{tag}", "f(g.x) != g.f(x) for a rotation of the world frame about the vertical (+ horizontal shift)",
                      data(k, gx=X2[:, k].tolist(), f_gx=F2[:, k].tolist(), g_fx=gF[:, k].tolist()))
    X3 = X.copy()
    X3[0:2] += t[0:2] + 0.375
    (F3,) = batch_call(f, [X3, Uc, pc])
    ok, e = within(F3, F)
    for k in np.nonzero(~ok)[0]:
        run.violation(f"f/equivariance/translation{tag}", "derivative changes under a horizontal translation of the world frame",
                      data(k, x_shifted=X3[:, k].tolist(), f_shifted=F3[:, k].tolist()))
    run.count("evaluations", 3 * n)
    run.count("clause_equivariance", 2 * n)


def shipped_defaults(run, model):
    """hover and zero-moment clauses evaluated at the parameter vector exactly as shipped"""
    idx, sh = model["p_index"], model["p_defaults"]
    p = np.zeros(len(idx))
    for k, v in sh.items():
        p[idx[k]] = float(v)
    om = math.sqrt(sh["m"] * sh["g"] / (4 * sh["CT"]))
    for name, speed in (("hover", om), ("half", 0.5 * om), ("fast", 1.5 * om)):
        for yaw in (0.0, 0.7, math.pi):
            x = np.zeros(17)
            x[0:3] = (3.0, -2.0, 10.0)
            x[6], x[9] = math.cos(yaw / 2), math.sin(yaw / 2)
            x[13:17] = speed
            u = np.full(4, speed)
            xd = np.array(model["f"](x, u, p)).ravel()
            run.count("evaluations")
            dat = {"x": x.tolist(), "u": u.tolist(), "p": p.tolist(), "f": xd.tolist()}
            if not np.all(np.abs(xd[10:13]) <= TOL):
                run.violation("f/omega_dot/symmetric_zero_moment", "shipped frame: equal rotor speeds give a non-zero moment", dat)
            if name == "hover" and not np.all(np.abs(xd) <= TOL * max(1.0, sh["g"])):
                run.violation("f/hover/equilibrium", "shipped parameters: level hover with a quarter of the weight per rotor is not an equilibrium", dat)


def coverage(tvs_by, params):
    cov = {"cells": {}, "lag": {}, "param_sets": sorted(tvs_by)}
    need_cells = {"hover", "freefall", "equal", "single", "general"}
    nontrivial = 0
    r2 = 0
    for pn, tvs in tvs_by.items():
        cs = {}
        lags = [set(), set(), set(), set()]
        for tv in tvs:
            cs[tv["cell"]] = cs.get(tv["cell"], 0) + 1
            for i in range(4):
                lags[i].add(tv["lag"][i])
            x = tv["x"]
            tilted = x["Q"][1] != 0 or x["Q"][2] != 0
            if tilted and x["om"] != (0, 0, 0, 0) and len(set(x["om"])) > 1 and (x["v"] != (0, 0, 0) or x["w"] != (0, 0, 0)):
                nontrivial += 1
            if any(a[0] != 0 for a in tv["xd"]["wd2"]):
                r2 += 1
        cov["cells"][pn] = cs
        if not need_cells <= set(cs):
            raise MachineryError(f"vacuous coverage: parameter set {pn} never reaches cells {need_cells - set(cs)}")
        if any(l != {-1, 0, 1} for l in lags):
            raise MachineryError(f"vacuous coverage: parameter set {pn}: a rotor never sees spin-up/spin-down/hold: {lags}")
        if not any(tv["x"]["w"] != (0, 0, 0) and tv["x"]["v"] != (0, 0, 0) for tv in tvs):
            raise MachineryError(f"vacuous coverage: {pn}: no state with both velocity and body rate")
    if "default" not in tvs_by or len(tvs_by) < 4:
        raise MachineryError(f"vacuous coverage: parameter sets {sorted(tvs_by)} (need the default and >= 3 others)")
    if set(tvs_by) != set(params):
        raise MachineryError(f"parameter sets in seeds {sorted(params)} and in vectors {sorted(tvs_by)} differ")
    syms = {bool(P_sym) for P_sym in (tvs[0]["sym"] for tvs in tvs_by.values())}
    if syms != {True, False} or r2 == 0:
        raise MachineryError(f"vacuous coverage: symmetric/asymmetric frames {syms}, sqrt2 states {r2}")
    nonuni = [pn for pn, P in params.items() if pn != "default" and len({P["J"][0], P["J"][1], P["J"][2]}) == 3
              and P["tau_up"] != P["tau_down"]]
    if len(nonuni) < 3:
        raise MachineryError(f"fewer than 3 non-default parameter sets with Jx != Jy != Jz and tau_up != tau_down: {nonuni}")
    cov["distinct_nontrivial"] = nontrivial
    cov["sqrt2_states"] = r2
    return cov


def main():
    tier = sys.argv[1] if len(sys.argv) > 1 else "quick"
    run = Run(PID, tier)
    from harness.lie import touch_all as _touch_all
    _touch_all()        # first uses of the Lie API happen BEFORE the models are derived (see harness/lie.py)
    from harness import history as _history      # derivation histories in fresh interpreters (spec/DeriveHistory.tla)
    _history.run_models(run, tier, ("quadrotor:",))
    model = build()
    if "--replay" in sys.argv:
        d = json.load(open(sys.argv[sys.argv.index("--replay") + 1]))["data"]
        if "tv" in d:
            tv, P = d["tv"], d["par"]
            replay_set(run, model, P, [_tuplify(tv)])
        else:
            shipped_defaults(run, model)
        return run.finish()
    res = run_tlc("Quadrotor.tla", f"Quadrotor_{tier}.cfg", workdir=run.workdir, dump=True)
    run.add_tlc("Quadrotor", res)
    params, tvs_by = {}, {}
    n = 0
    for st in parse_dump(res["dump"]):
        tv = st["tv"]
        if tv["op"] == "seed":
            params[tv["par"]["name"]] = tv["par"]
            continue
        n += 1
        tvs_by.setdefault(tv["pn"], []).append(tv)
    cov = coverage(tvs_by, params)
    for pn in sorted(tvs_by):
        tvs = tvs_by[pn]
        tv = tvs[len(tvs) // 3]
        run.sample({"param_set": pn, "Q": tv["x"]["Q"], "v": tv["x"]["v"], "w": tv["x"]["w"], "om": tv["x"]["om"],
                    "cmd": tv["x"]["cmd"], "cell": tv["cell"], "xd": tv["xd"]}, limit=6)
        replay_set(run, model, params[pn], tvs)
    shipped_defaults(run, model)
    run.assumptions += [
        "attitudes are rational unit quaternions Q/s (|Q|^2 = s^2), velocities/body rates/rotor speeds integers, parameters rationals; "
        "validity between lattice points is not decided",
        "rotor speeds are embedded in a per-parameter-set speed unit U (Omega = om*U, C_T = ct/U^2), chosen so that the hover speed is an integer",
        "drag and aerodynamic damping coefficients (CD0, Cl_p, Cm_q, Cn_r) are zero in the exact comparison (the property's force/moment sum has "
        "no aerodynamic term); with them non-zero only q.q' = 0, motor lag and equivariance are checked",
        "inertia is principal-axis diag(Jx, Jy, Jz) as the model parameterises it; z > 0 (above ground); the ground-contact branch is only "
        "exercised for finiteness; accelerometer outside free fall and the gyro output are compared informationally (SPEC-DRIFT)",
    ]
    return run.finish({
        "traces_validated_against_impl": n,
        "evaluations": run.counts.get("evaluations", 0),
        "distinct_nontrivial": cov["distinct_nontrivial"],
        "rule": "one TLC state = (parameter set, attitude, velocity, body rate, rotor speeds, commands, world symmetry g) with the exact "
                "derivative; non-trivial = tilted attitude (roll/pitch != 0), unequal running rotors and non-zero velocity or body rate",
        "cells": cov["cells"], "param_sets": cov["param_sets"], "sqrt2_states": cov["sqrt2_states"],
        "tolerance": "|delta| <= 1e-9 * max(1, |expected|) entry-wise",
        "exhaustive": True,
    })


def _tuplify(o):
    """json lists -> tuples (states from a replay file compare like states from the dump)"""
    if isinstance(o, list):
        return tuple(_tuplify(a) for a in o)
    if isinstance(o, dict):
        return {k: _tuplify(v) for k, v in o.items()}
    return o


if __name__ == "__main__":
    main_wrap(main)
