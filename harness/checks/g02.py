"""G02 (growth) -- the element-level API of cyecca/lie/base.py and a few exported model helpers.

 (A) spec/LieSugar.tla: TLC enumerates exact test vectors for the operator sugar on group and algebra
     elements of every group family (SO2, SE2, R2, R3, SO3 quat/mrp/dcm/euler, SE3 quat/mrp, SE_2(3)
     quat/mrp, four direct products) and proves on every state the laws that make the expectation the
     right one ((X + x) - x = X, (X + x)^-1 = exp(-x) X^-1, X + 0 = X, to_Matrix of a product is the
     matrix product, vector-space axioms, == means ALL parameters equal, ...).  Every state is replayed
     into the real element API built from the working tree: numeric operations through ca.Function +
     batch_call, TypeError / assertion / repr clauses through plain Python calls.
 (B) spec/ModelsMisc.tla: rotate_vector_w_to_b / rotate_vector_b_to_w (rdd2.derive_common),
     attitude_covariance_propagation (rdd2.derive_attitude_estimator), dcm_to_quat
     (bezier.derive_dcm_to_quat).  cyecca/codegen.py is bound by C09 (spec/Codegen.tla);
     cyecca/graph.py renders a picture through graphviz -- the only decidable clause (the working
     directory is restored, a PNG appears) is checked by one plain call.

Two-sided comparison |delta| <= 1e-9 max(1, |expected|).  Keys <family>/<op>/<clause>/<cell>.
Growth specs never raise a property alarm: harness.core prints DEVIATION for ids starting with G.
VERIF_SEED seeds the real-valued algebra elements of the code-vs-code law clauses (cell "random")."""
import contextlib
import copy
import io
import json
import math
import os
import sys
from concurrent.futures import ThreadPoolExecutor

import numpy as np
import casadi as ca

from harness.core import Run, run_tlc, parse_dump, main_wrap, MachineryError, NCPU
from harness.cas import batch_call
from harness.lie import group_of, group_key, embed, rm_to_np, rot
from harness.explog import xvec, screw_rho, selftest

PID = "G02"
TOL = 1e-9
MISC_OPS = {"rot", "rot2", "cov_flow", "cov_int", "d2q"}
GROUPS = ["SO2", "SE2", "R2", "R3", "SO3quat", "SO3mrp", "SO3dcm", "SO3euler", "SE3quat", "SE3mrp", "SE23quat", "SE23mrp",
          "(SO2*R2)", "(SO3quat*R3)", "(SE2*SO3mrp*R3)", "(SE3mrp*SO3euler)"]
SIGS = ["so2", "se2", "so3", "se3", "se23", "r2", "r3", "so3+r3", "se2+so3+r3", "se3+so2", "so3+so3"]


# ------------------------------------------------------------------ embedding (gamma)
def xe_vec(xe):
    """double parameter vector (cyecca's order) of an algebra-element descriptor of spec/LieSugar.tla"""
    k = xe["k"]
    if k == "so3":
        return xvec(xe["h"])
    if k == "se3":
        return np.concatenate([screw_rho(xe["h"], xe["alpha"], xe["y"]), xvec(xe["h"])])
    if k == "se3t":
        return np.concatenate([np.array(xe["rho"], float), np.zeros(3)])
    if k == "se23":
        return np.concatenate([screw_rho(xe["h"], xe["a1"], xe["y1"]), screw_rho(xe["h"], xe["a2"], xe["y2"]), xvec(xe["h"])])
    if k == "se23t":
        return np.concatenate([np.array(xe["rho"], float), np.array(xe["rho2"], float), np.zeros(3)])
    if k == "so2":
        return np.array([math.atan2(xe["cs"][1], xe["cs"][0])])
    if k == "se2":
        th = math.atan2(xe["cs"][1], xe["cs"][0])
        return np.array([th * xe["u"][0], th * xe["u"][1], th])
    if k == "se2t":
        return np.array([xe["rho"][0], xe["rho"][1], 0.0], float)
    if k == "rn":
        return np.array(xe["x"], float) / xe["pd"]
    if k == "sum":
        return np.concatenate([xe_vec(p) for p in xe["parts"]])
    raise ValueError(k)


def mat_of(X):
    """exact matrix (as doubles) of an abstract element -- python mirror of LieGroups!Mat"""
    g = X["g"]
    if g == "SO3":
        return rot(X["q"])
    if g == "SE3":
        M = np.eye(4); M[:3, :3] = rot(X["q"]); M[:3, 3] = np.array(X["p"], float) / X["pd"]; return M
    if g == "SE23":
        M = np.eye(5); M[:3, :3] = rot(X["q"]); M[:3, 3] = np.array(X["v"], float) / X["pd"]
        M[:3, 4] = np.array(X["p"], float) / X["pd"]; return M
    if g == "SO2":
        c, s, h = X["cs"]; return np.array([[c, -s], [s, c]], float) / h
    if g == "SE2":
        c, s, h = X["cs"]; M = np.eye(3); M[:2, :2] = np.array([[c, -s], [s, c]], float) / h
        M[:2, 2] = np.array(X["p"], float) / X["pd"]; return M
    if g == "Rn":
        n = len(X["x"]); M = np.eye(n + 1); M[:n, n] = np.array(X["x"], float) / X["pd"]; return M
    if g == "Prod":
        Ms = [mat_of(f) for f in X["fs"]]
        n = sum(m.shape[0] for m in Ms); M = np.zeros((n, n)); o = 0
        for m in Ms:
            M[o:o + m.shape[0], o:o + m.shape[0]] = m; o += m.shape[0]
        return M
    raise ValueError(g)


def colF(M):
    return np.asarray(M, float).flatten(order="F")


def algebra_of(sig):
    import cyecca.lie as L
    tab = {"so2": L.so2, "se2": L.se2, "r2": L.r2, "r3": L.r3, "so3": L.so3, "se3": L.se3, "se23": L.se23}
    alg = tab[sig[0]]
    for k in sig[1:]:
        alg = alg * tab[k]
    return alg


def sig_key(sig):
    return "+".join(sig)


# ------------------------------------------------------------------ comparison
class Cmp:
    def __init__(self, run):
        self.run = run

    def cols(self, fam, op, clause, what, out, exp, tvs, cells=None, tol=TOL, skip=None):
        """column-wise two-sided comparison; one key per (fam, op, clause, cell)"""
        out = np.atleast_2d(np.asarray(out, float)); exp = np.atleast_2d(np.asarray(exp, float))
        if exp.shape[1] == 1 and out.shape[1] > 1:
            exp = np.repeat(exp, out.shape[1], axis=1)
        if out.shape != exp.shape:
            self.run.violation(f"{fam}/{op}/{clause}/shape", f"{what}: result has {out.shape[0]} entries, expected {exp.shape[0]}", {"tv": tvs[0]})
            return
        with np.errstate(invalid="ignore"):
            d = np.max(np.abs(out - exp), axis=0)
        sc = np.maximum(1.0, np.max(np.abs(exp), axis=0))
        bad = ~(d <= tol * sc)
        if skip is not None:
            bad &= ~skip
        ok = ~bad & np.isfinite(d)
        if np.any(ok):
            self.run.err(float(np.max(d[ok])))
        self.run.count("comparisons", int(out.shape[1]))
        for k in np.nonzero(bad)[0]:
            cell = cells[k] if cells is not None else tvs[k].get("cell", "-")
            self.run.violation(f"{fam}/{op}/{clause}/{cell}", what,
                               {"tv": tvs[k], "got": out[:, k].tolist(), "want": exp[:, k].tolist(), "err": float(d[k])})


def try_build(run, fam, op, builders, tv0):
    """builders: list of (name, thunk -> SX expression).  Returns (names, exprs) of those that could be built;
    a builder that raises is a deviation <fam>/<op-of-name>/raises:<Type>/build (NotImplementedError: counted, skipped)."""
    names, exprs = [], []
    for name, thunk in builders:
        try:
            buf = io.StringIO()
            with contextlib.redirect_stdout(buf):
                e = thunk()
            if buf.getvalue().strip():
                run.spec_drift("so2/to_Matrix/prints_to_stdout", "so2.to_Matrix prints the type of its argument to stdout at every call (left-over debugging output)")
            names.append(name); exprs.append(ca.densify(ca.SX(e)))
        except NotImplementedError:
            run.count("skipped_notimplemented")
        except Exception as e:      # noqa
            run.violation(f"{fam}/{name.split(':')[0]}/raises:{type(e).__name__}/build",
                          f"{name}: the call raises {type(e).__name__}: {str(e)[:160]}", {"tv": tv0})
    return names, exprs


def eval_fn(fn_inputs, names, exprs, cols):
    f = ca.Function("f", fn_inputs, exprs)
    outs = batch_call(f, cols)
    return dict(zip(names, outs))


# ------------------------------------------------------------------ (A) group side
def pm_builders(G):
    alg = G.algebra
    a = ca.SX.sym("a", G.n_param); b = ca.SX.sym("b", alg.n_param)
    X = G.elem(a); x = alg.elem(b)
    zero = lambda: alg.elem(ca.SX.zeros(alg.n_param, 1))
    M = lambda e: e.to_Matrix()
    B = [
        ("to_Matrix:X", lambda: M(X)),
        ("exp:sugar", lambda: M(x.exp(G))),
        ("exp:explicit", lambda: M(G.exp(x))),
        ("neg:exp", lambda: M((-x).exp(G))),
        ("plus:sugar", lambda: M(X + x)),
        ("plus:explicit", lambda: M(G.product(X, G.exp(x)))),
        ("minus:sugar", lambda: M(X - x)),
        ("minus:explicit", lambda: M(G.product(X, G.exp(alg.scalar_multiplication(-1, x))))),
        ("plus_minus:roundtrip", lambda: M((X + x) - x)),
        ("minus_plus:roundtrip", lambda: M((X - x) + x)),
        ("plus_inverse:sugar", lambda: M((X + x).inverse())),
        ("plus_inverse:rhs", lambda: M((-x).exp(G) * X.inverse())),
        ("plus_zero:sugar", lambda: M(X + zero()) + 0 * a[0]),
        ("minus_zero:sugar", lambda: M(X - zero()) + 0 * a[0]),
        ("to_Matrix:product", lambda: M(X * x.exp(G))),
        ("to_Matrix:matrix_product", lambda: M(X) @ M(x.exp(G))),
    ]
    return [a, b], B


def near_pole(Mcols, n):
    """columns whose (first) 3x3 rotation block is within 1e-2 of the Euler gimbal pole (|R20| ~ 1)"""
    return np.abs(Mcols[2, :]) > 1.0 - 5e-5


def replay_pm(run, cmp, cache, gk, tvs, rng):
    G = group_of(tvs[0]["a"][0])
    if ("pm", gk) not in cache:
        ins, B = pm_builders(G)
        names, exprs = try_build(run, gk, "pm", B, tvs[0])
        cache[("pm", gk)] = (ca.Function("f", ins, exprs), names)
    f, names = cache[("pm", gk)]
    A = np.array([embed(tv["a"][0]) for tv in tvs]).T
    Bv = np.array([xe_vec(tv["xe"]) for tv in tvs]).T
    out = dict(zip(names, batch_call(f, [A, Bv])))
    run.count("evaluations", len(tvs) * len(names))
    plus = np.array([colF(rm_to_np(tv["plus"])) for tv in tvs]).T
    minus = np.array([colF(rm_to_np(tv["minus"])) for tv in tvs]).T
    pinv = np.array([colF(rm_to_np(tv["pinv"])) for tv in tvs]).T
    mat = np.array([colF(rm_to_np(tv["mat"])) for tv in tvs]).T
    ME = np.array([colF(mat_of(tv["E"])) for tv in tvs]).T
    MEn = np.array([colF(mat_of(tv["En"])) for tv in tvs]).T

    def c(name, op, clause, what, exp):
        if name in out:
            e = out[exp] if isinstance(exp, str) else exp
            if isinstance(exp, str) and exp not in out:
                return
            cmp.cols(gk, op, clause, what, out[name], e, tvs)
    c("to_Matrix:X", "to_Matrix", "value", "X.to_Matrix() differs from the exact matrix of X", mat)
    c("exp:sugar", "exp", "value", "x.exp(G) differs from the exact exponential", ME)
    c("exp:sugar", "exp", "sugar_vs_explicit", "x.exp(G) differs from G.exp(x)", "exp:explicit")
    c("neg:exp", "neg", "exp_of_minus_x", "(-x).exp(G) is not the exact exp(-x) = exp(x)^-1", MEn)
    c("plus:sugar", "plus", "value", "X + x differs from the matrix product Mat(X) expm(x)", plus)
    c("plus:sugar", "plus", "sugar_vs_explicit", "X + x differs from G.product(X, G.exp(x))", "plus:explicit")
    c("minus:sugar", "minus", "value", "X - x differs from the matrix product Mat(X) expm(-x)", minus)
    c("minus:sugar", "minus", "sugar_vs_explicit", "X - x differs from G.product(X, G.exp(-x))", "minus:explicit")
    c("plus_minus:roundtrip", "plus_minus", "roundtrip", "(X + x) - x is not X", mat)
    c("minus_plus:roundtrip", "minus_plus", "roundtrip", "(X - x) + x is not X", mat)
    c("plus_inverse:sugar", "plus_inverse", "value", "(X + x).inverse() differs from expm(-x) Mat(X)^-1", pinv)
    c("plus_inverse:sugar", "plus_inverse", "law", "(X + x).inverse() differs from (-x).exp(G) * X.inverse()", "plus_inverse:rhs")
    c("plus_zero:sugar", "plus_zero", "value", "X + 0 is not X", mat)
    c("minus_zero:sugar", "minus_zero", "value", "X - 0 is not X", mat)
    c("to_Matrix:product", "to_Matrix", "product_is_matrix_product", "to_Matrix(X * Y) differs from to_Matrix(X) @ to_Matrix(Y)", "to_Matrix:matrix_product")
    # ---- real-valued algebra elements (seeded): the same laws code-vs-code, no exact expectation needed
    nr = min(len(tvs), 48)
    idx = rng.choice(len(tvs), size=nr, replace=False)
    Ar = A[:, idx]
    Br = rng.normal(size=(Bv.shape[0], nr))
    Br *= rng.uniform(0.05, 2.4, size=(1, nr)) / np.maximum(1e-9, np.linalg.norm(Br, axis=0, keepdims=True))
    outr = dict(zip(names, batch_call(f, [Ar, Br])))
    run.count("evaluations", nr * len(names))
    tvr = [{"cell": "random", "a": tvs[i]["a"], "x_real": Br[:, j].tolist(), "seed": run.seed} for j, i in enumerate(idx)]
    skip = np.zeros(nr, bool)
    if "euler" in gk:
        for nm in ("plus:sugar", "minus:sugar", "plus_inverse:sugar", "exp:sugar", "neg:exp"):
            if nm in outr:
                d = int(round(math.sqrt(outr[nm].shape[0])))
                blk = outr[nm].reshape(d, d, -1, order="F")
                o = d - 3 if gk.startswith("(") else 0         # (SE3mrp*SO3euler): the Euler block is the last one
                skip |= np.abs(blk[o + 2, o + 0, :]) > 1.0 - 5e-5
    for (nm, ref, op, clause, what) in [
            ("plus:sugar", "plus:explicit", "plus", "sugar_vs_explicit", "X + x differs from G.product(X, G.exp(x))"),
            ("minus:sugar", "minus:explicit", "minus", "sugar_vs_explicit", "X - x differs from G.product(X, G.exp(-x))"),
            ("plus_minus:roundtrip", "to_Matrix:X", "plus_minus", "roundtrip", "(X + x) - x is not X"),
            ("minus_plus:roundtrip", "to_Matrix:X", "minus_plus", "roundtrip", "(X - x) + x is not X"),
            ("plus_inverse:sugar", "plus_inverse:rhs", "plus_inverse", "law", "(X + x).inverse() differs from (-x).exp(G) * X.inverse()"),
            ("plus_zero:sugar", "to_Matrix:X", "plus_zero", "value", "X + 0 is not X"),
            ("to_Matrix:product", "to_Matrix:matrix_product", "to_Matrix", "product_is_matrix_product", "to_Matrix(X * Y) differs from the matrix product"),
            ("plus:sugar", "to_Matrix:matrix_product", "plus", "value", "X + x differs from to_Matrix(X) @ to_Matrix(exp x)")]:
        if nm in outr and ref in outr:
            cmp.cols(gk, op, clause, what, outr[nm], outr[ref], tvr, skip=skip)
    return len(tvs) + nr


def replay_un(run, cmp, cache, gk, tvs):
    G = group_of(tvs[0]["a"][0])
    n = G.matrix_shape[0]
    if ("un", gk) not in cache:
        a = ca.SX.sym("a", G.n_param); X = G.elem(a)
        M = lambda e: e.to_Matrix()
        B = [("to_Matrix:sugar", lambda: M(X)), ("to_Matrix:explicit", lambda: G.to_Matrix(X)),
             ("inverse:sugar", lambda: M(X.inverse())), ("inverse:explicit", lambda: M(G.inverse(X))),
             ("Ad:sugar", lambda: X.Ad()), ("Ad:explicit", lambda: G.adjoint(X)),
             ("log:sugar", lambda: X.log().param), ("log:explicit", lambda: G.log(X).param),
             ("log:exp_log", lambda: M(X.log().exp(G))),
             ("from_Matrix:roundtrip", lambda: M(G.from_Matrix(M(X)))),
             ("identity:right", lambda: M(X * G.identity())), ("identity:plus_log", lambda: M(G.identity() + X.log()))]
        names, exprs = try_build(run, gk, "un", B, tvs[0])
        cache[("un", gk)] = (ca.Function("f", [a], exprs), names)
    f, names = cache[("un", gk)]
    A = np.array([embed(tv["a"][0]) for tv in tvs]).T
    out = dict(zip(names, batch_call(f, [A])))
    run.count("evaluations", len(tvs) * len(names))
    mat = np.array([colF(rm_to_np(tv["mat"])) for tv in tvs]).T
    inv = np.array([colF(rm_to_np(tv["inv"])) for tv in tvs]).T
    notpi = np.array([tv["cell"] in ("pi", "nearpi") for tv in tvs])     # log within 0.01 rad of pi is outside C03's domain

    def c(name, op, clause, what, exp, skip=None):
        if name in out and (not isinstance(exp, str) or exp in out):
            cmp.cols(gk, op, clause, what, out[name], out[exp] if isinstance(exp, str) else exp, tvs, skip=skip)
    c("to_Matrix:sugar", "to_Matrix", "value", "X.to_Matrix() differs from the exact matrix", mat)
    c("to_Matrix:sugar", "to_Matrix", "sugar_vs_explicit", "X.to_Matrix() differs from G.to_Matrix(X)", "to_Matrix:explicit")
    c("inverse:sugar", "inverse", "value", "X.inverse() differs from the exact inverse matrix", inv)
    c("inverse:sugar", "inverse", "sugar_vs_explicit", "X.inverse() differs from G.inverse(X)", "inverse:explicit")
    if tvs[0]["hasAd"]:
        Ad = np.array([colF(rm_to_np(tv["Ad"])) for tv in tvs]).T
        c("Ad:sugar", "Ad", "value", "X.Ad() differs from the conjugation matrix", Ad)
    c("Ad:sugar", "Ad", "sugar_vs_explicit", "X.Ad() differs from G.adjoint(X)", "Ad:explicit")
    c("log:sugar", "log", "sugar_vs_explicit", "X.log() differs from G.log(X)", "log:explicit", skip=notpi)
    c("log:exp_log", "log", "exp_log_roundtrip", "X.log().exp(G) is not X", mat, skip=notpi)
    c("from_Matrix:roundtrip", "from_Matrix", "roundtrip", "G.from_Matrix(X.to_Matrix()) is not X", mat)
    c("identity:right", "identity", "right_neutral", "X * G.identity() is not X", mat)
    c("identity:plus_log", "identity", "plus_log", "G.identity() + X.log() is not X", mat, skip=notpi)
    return len(tvs)


def eq_class(pa, pb):
    ne = int(np.sum(pa == pb))
    return "all" if ne == len(pa) else ("some" if ne > 0 else "none")


def replay_geq(run, cmp, cache, gk, tvs, stats):
    G = group_of(tvs[0]["a"][0])
    if ("geq", gk) not in cache:
        a = ca.SX.sym("a", G.n_param); b = ca.SX.sym("b", G.n_param)
        X = G.elem(a); Y = G.elem(b)
        names, exprs = try_build(run, gk, "geq", [("eq:xy", lambda: X == Y), ("eq:yx", lambda: Y == X)], tvs[0])
        cache[("geq", gk)] = (ca.Function("f", [a, b], exprs), names)
        r = X == Y
        if not isinstance(r, ca.SX) or r.shape != (1, 1):
            run.violation(f"{gk}/eq/returns_casadi_truth_value/-", f"X == Y returns {type(r).__name__} of shape {getattr(r, 'shape', None)}, not a scalar CasADi truth value", {"tv": tvs[0]})
    f, names = cache[("geq", gk)]
    A = np.array([embed(tv["a"][0]) for tv in tvs]).T
    Bm = np.array([embed(tv["a"][1]) for tv in tvs]).T
    keep = []
    cells = []
    for k, tv in enumerate(tvs):
        cl = eq_class(A[:, k], Bm[:, k])
        if (cl == "all") != bool(tv["exp"]):       # the double embedding cannot express this pair faithfully (rounding)
            run.count("eq_embedding_mismatch")
            continue
        keep.append(k); cells.append(f"{tv['cell']}:{cl}_params_equal")
        stats.setdefault(("geq", gk), set()).add(cl)
    if not keep:
        return 0
    tv2 = [tvs[k] for k in keep]
    out = dict(zip(names, batch_call(f, [A[:, keep], Bm[:, keep]])))
    run.count("evaluations", len(keep) * len(names))
    exp = np.array([[1.0 if tv["exp"] else 0.0 for tv in tv2]])
    for nm in names:
        cmp.cols(gk, "eq", "true_iff_all_params_equal" if nm == "eq:xy" else "symmetric",
                 "X == Y is not (all parameters equal)", out[nm], exp, tv2, cells=cells)
    return len(keep)


def plain_group_family(run, gk, tv_gadd, tv_shapes):
    """plain Python clauses per family: X + Y / X - Y on two group elements, rejection of non-elements,
    elem() shape contract, repr"""
    n = 0
    X0 = tv_gadd["a"][0]; Y0 = tv_gadd["a"][1]
    G = group_of(X0)
    X = G.elem(ca.DM(embed(X0))); Y = G.elem(ca.DM(embed(Y0)))
    for opn, meth, field in (("group_add", "addition", "sum"), ("group_sub", "subtraction", "diff")):
        n += 1
        defined = hasattr(G, meth)
        if tv_gadd["vector_group"] and not defined:
            run.spec_drift(f"{gk}/{opn}/not_defined", f"R^n is a vector group (its group law is addition) but defines no `{meth}`: X {'+' if meth == 'addition' else '-'} Y raises TypeError")
        try:
            r = (X + Y) if meth == "addition" else (X - Y)
            if not defined:
                run.violation(f"{gk}/{opn}/typeerror/-", f"the group defines no `{meth}` but X {opn} Y returned {type(r).__name__} instead of raising TypeError", {"tv": tv_gadd})
            else:
                got = np.array(ca.DM(r.to_Matrix()))
                want = rm_to_np(tv_gadd[field])
                if got.shape != want.shape or not np.max(np.abs(got - want)) <= TOL * max(1.0, np.max(np.abs(want))):
                    run.violation(f"{gk}/{opn}/value/-", f"group-defined {meth} differs from the vector-group sum/difference", {"tv": tv_gadd, "got": got.tolist()})
        except TypeError as e:
            if defined:
                run.violation(f"{gk}/{opn}/delegates/-", f"the group defines `{meth}` but the operator raised TypeError: {e}", {"tv": tv_gadd})
            elif type(G).__name__ not in str(e):
                run.spec_drift(f"{gk}/{opn}/message", "the TypeError message does not name the group class")
        except Exception as e:  # noqa
            run.violation(f"{gk}/{opn}/typeerror/-", f"X {opn} Y raises {type(e).__name__} instead of TypeError: {str(e)[:120]}", {"tv": tv_gadd})
        # delegation: a group object that DOES define the method (shallow copy with an instance attribute)
        n += 1
        G2 = copy.copy(G)
        calls = []
        if meth == "addition":
            G2.addition = lambda l, r, G2=G2: (calls.append("add"), G2.product(l, r))[1]
        else:
            G2.subtraction = lambda l, r, G2=G2: (calls.append("sub"), G2.product(l, G2.inverse(r)))[1]
        try:
            X2 = G2.elem(ca.DM(embed(X0))); Y2 = G2.elem(ca.DM(embed(Y0)))
            r = (X2 + Y2) if meth == "addition" else (X2 - Y2)
            got = np.array(ca.DM(r.to_Matrix()))
            want = rm_to_np(tv_gadd[field])
            if not calls:
                run.violation(f"{gk}/{opn}/delegates/-", f"a group that defines `{meth}`: the operator did not call it", {"tv": tv_gadd})
            elif got.shape != want.shape or not np.max(np.abs(got - want)) <= (2e-3 if "euler" in gk else TOL) * max(1.0, np.max(np.abs(want))):
                run.violation(f"{gk}/{opn}/delegates_value/-", f"a group that defines `{meth}`: the operator result differs from what `{meth}` returns", {"tv": tv_gadd, "got": got.tolist()})
        except Exception as e:  # noqa
            run.violation(f"{gk}/{opn}/delegates/-", f"a group that defines `{meth}`: the operator raises {type(e).__name__}: {str(e)[:120]}", {"tv": tv_gadd})
    # non-elements are rejected, never silently turned into None
    for opn, thunk in (("plus", lambda: X + 1.0), ("minus", lambda: X - 1.0), ("plus", lambda: X + ca.DM(embed(X0)))):
        n += 1
        try:
            r = thunk()
            run.violation(f"{gk}/{opn}/rejects_non_element/-", f"X {opn} <number/DM> returned {type(r).__name__} instead of raising", {"tv": tv_gadd})
        except Exception:
            pass
    # elem() shape contract
    alg = G.algebra
    for tv in tv_shapes:
        n += 1
        side = tv["side"]; obj = G if side == "group" else alg
        if obj.n_param != tv["n"]:
            run.violation(f"{gk}/elem/n_param/{side}", f"{side} n_param is {obj.n_param}, the family has {tv['n']} parameters", {"tv": tv})
            continue
        if tuple(obj.matrix_shape) != (tv["matdim"], tv["matdim"]):
            run.violation(f"{gk}/elem/matrix_shape/{side}", f"matrix_shape is {tuple(obj.matrix_shape)}, expected {tv['matdim']} x {tv['matdim']}", {"tv": tv})
        shp = (1, tv["m"]) if tv["row"] else (tv["m"], 1)
        cellname = f"{side}:m=n{tv['m'] - tv['n']:+d}{':row' if tv['row'] else ''}"
        for kind, p in (("DM", ca.DM.zeros(*shp)), ("SX", ca.SX.sym("p", *shp))):
            try:
                e = obj.elem(p)
                ok = True               # accepted
                if tv["accept"] and tuple(e.param.shape) != (tv["n"], 1):
                    run.violation(f"{gk}/elem/param_shape/{cellname}", f"accepted parameter is stored with shape {tuple(e.param.shape)}", {"tv": tv})
            except AssertionError:
                ok = False
            except Exception as ex:  # noqa
                ok = False
                run.spec_drift(f"{gk}/elem/rejects_with:{type(ex).__name__}", "a wrong-size parameter is rejected by an exception other than AssertionError")
            if ok != bool(tv["accept"]):
                run.violation(f"{gk}/elem/{'accepts_wrong_size' if ok else 'rejects_right_size'}/{cellname}",
                              f"elem({kind} of shape {shp}) {'accepted' if ok else 'rejected'}; the {side} has {tv['n']} parameters", {"tv": tv})
    # element-level from_Matrix(): takes no matrix and hands the element itself to group.from_Matrix
    try:
        X.from_Matrix()
    except NotImplementedError:
        pass
    except Exception:
        run.spec_drift("element/from_Matrix/always_raises", "LieGroupElement.from_Matrix() / LieAlgebraElement.from_Matrix() take no matrix and pass the element where a matrix is expected: every call raises")
    # repr
    for what, obj, e in (("group", G, X), ("algebra", alg, alg.elem(ca.DM.zeros(alg.n_param, 1)))):
        n += 1
        try:
            r = repr(e); ro = repr(obj)
            if not isinstance(r, str) or not isinstance(ro, str) or not r or ro not in r or repr(e.param) not in r:
                run.violation(f"{gk}/repr/names_group_and_param/{what}", f"repr of a {what} element does not contain repr of its {what} and of its parameter: {r!r}", {"tv": tv_gadd})
            elif tv_shapes and ro.count(" x ") != tv_shapes[0]["nfac"] - 1:
                run.violation(f"{gk}/repr/factors/{what}", f"repr {ro!r} does not list the {tv_shapes[0]['nfac']} factors", {"tv": tv_gadd})
            elif r != f"{ro}: {repr(e.param)}":
                run.spec_drift(f"{gk}/repr/format", "repr is not '<group>: <param>'")
        except Exception as ex:  # noqa
            run.violation(f"{gk}/repr/raises:{type(ex).__name__}/{what}", f"repr raises {ex}", {"tv": tv_gadd})
    return n


def plain_pstruct(run, gk, tvs):
    n = 0
    try:        # group-level `__add__` of the product GROUP object (not of its elements)
        G0 = group_of(tvs[0]["a"][0])
        G0 + G0.algebra.elem(ca.DM.zeros(G0.algebra.n_param, 1))
    except AttributeError:
        run.spec_drift("direct_product/group_object__add__/AttributeError", "LieGroupDirectProduct.__add__ (on the group object) refers to a non-existent self.group")
    except Exception:
        pass
    for tv in tvs:
        n += 1
        X = tv["a"][0]
        G = group_of(X)
        p = ca.DM(embed(X))
        try:
            E = G.elem(p)
            bad = []
            if G.n_param != tv["n"] or G.algebra.n_param != tv["nalg"]:
                bad.append(("n_param", f"n_param {G.n_param}/{G.algebra.n_param}, expected {tv['n']}/{tv['nalg']}"))
            if list(G.subparam_start[:len(tv["offs"])]) != list(tv["offs"]) or list(G.algebra.subparam_start[:len(tv["aoffs"])]) != list(tv["aoffs"]):
                bad.append(("offsets", f"sub-parameter offsets {G.subparam_start} / {G.algebra.subparam_start}, expected {tv['offs']} / {tv['aoffs']}"))
            subs = G.sub_elems(E)
            if len(subs) != len(tv["mats"]):
                bad.append(("factors", f"{len(subs)} factors, expected {len(tv['mats'])}"))
            for i, (S, Mi, fi) in enumerate(zip(subs, tv["mats"], X["fs"])):
                got = np.array(ca.DM(S.to_Matrix())); want = rm_to_np(Mi)
                if S.group is not group_of(fi):
                    bad.append(("factor_group", f"factor {i} is an element of {S.group!r}, expected {group_of(fi)!r}"))
                if got.shape != want.shape or not np.max(np.abs(got - want)) <= TOL * max(1.0, np.max(np.abs(want))):
                    bad.append(("sub_elems", f"factor {i}: matrix of the sliced sub-element differs from the factor's matrix"))
                sp = np.array(ca.DM(G.sub_param(i, E.param))).flatten()
                if not np.array_equal(sp, embed(fi)):
                    bad.append(("sub_param", f"factor {i}: sub_param slice differs from the factor's parameters"))
                try:                    # PARAM_TYPE admits a DM as well
                    sd = np.array(ca.DM(G.sub_param(i, p))).flatten()
                    if not np.array_equal(sd, embed(fi)):
                        bad.append(("sub_param_DM", f"factor {i}: sub_param slice of a DM differs from the factor's parameters"))
                except Exception as e:  # noqa
                    if i == 0:
                        bad.append(("sub_param_DM", f"sub_param(i, <DM>) raises {type(e).__name__} although its param argument is declared Union[SX, DM]"))
            for nm, got, want in (("to_Matrix", E.to_Matrix(), tv["mat"]), ("identity", G.identity().to_Matrix(), tv["ident"]),
                                  ("inverse", E.inverse().to_Matrix(), tv["inv"]),
                                  ("exp_log", E.log().exp(G).to_Matrix(), tv["mat"])):
                got = np.array(ca.DM(got)); want = rm_to_np(want)
                if got.shape != want.shape or not np.max(np.abs(got - want)) <= TOL * max(1.0, np.max(np.abs(want))):
                    bad.append((nm, f"{nm} of the product element differs from the block-diagonal matrix of the factors"))
            for clause, msg in bad:
                run.violation(f"{gk}/direct_product/{clause}/-", msg, {"tv": tv})
        except Exception as e:  # noqa
            run.violation(f"{gk}/direct_product/raises:{type(e).__name__}/-", str(e)[:160], {"tv": tv})
    return n


# ------------------------------------------------------------------ (A) algebra side
def replay_alg(run, cmp, cache, op, sk, tvs, rng, stats):
    sig = tvs[0]["sig"]
    alg = algebra_of(sig)
    n = alg.n_param
    V = lambda nm: np.array([tv[nm] for tv in tvs], float).T
    if op == "avs":
        if (op, sk) not in cache:
            a, b, c_ = [ca.SX.sym(s, n) for s in "abc"]; s = ca.SX.sym("s"); t = ca.SX.sym("t")
            x, y, z = alg.elem(a), alg.elem(b), alg.elem(c_)
            B = [("add:xy", lambda: (x + y).param), ("add:yx", lambda: (y + x).param),
                 ("add:explicit", lambda: alg.addition(x, y).param),
                 ("sub:xy", lambda: (x - y).param), ("neg:x", lambda: (-x).param),
                 ("scalar_mul:sx", lambda: (s * x).param), ("scalar_mul:xs", lambda: (x * s).param),
                 ("scalar_mul:explicit", lambda: alg.scalar_multiplication(s, x).param),
                 ("add:assoc_l", lambda: ((x + y) + z).param), ("add:assoc_r", lambda: (x + (y + z)).param),
                 ("scalar_mul:s_xy", lambda: (s * (x + y)).param), ("scalar_mul:st_x", lambda: ((s + t) * x).param),
                 ("scalar_mul:s_tx", lambda: (s * (t * x)).param),
                 ("neg:x_plus_negx", lambda: (x + (-x)).param + 0 * a), ("sub:x_minus_x", lambda: (x - x).param + 0 * a)]
            names, exprs = try_build(run, sk, op, B, tvs[0])
            cache[(op, sk)] = (ca.Function("f", [a, b, c_, s, t], exprs), names)
        f, names = cache[(op, sk)]
        cols = [V("x"), V("y"), V("z"), np.array([[tv["s"] for tv in tvs]], float), np.array([[tv["t"] for tv in tvs]], float)]
        out = dict(zip(names, batch_call(f, cols)))
        run.count("evaluations", len(tvs) * len(names))
        Z = 0 * V("x")
        for nm, opn, clause, what, exp in [
                ("add:xy", "add", "value", "x + y is not the component-wise sum", V("add")),
                ("add:yx", "add", "commutative", "y + x differs from x + y", V("add")),
                ("add:explicit", "add", "sugar_vs_explicit", "algebra.addition(x, y) differs from x + y", V("add")),
                ("sub:xy", "sub", "value", "x - y is not the component-wise difference", V("sub")),
                ("neg:x", "neg", "value", "-x is not the component-wise negative", V("neg")),
                ("scalar_mul:sx", "scalar_mul", "left", "s * x is not the scaled vector", V("sx")),
                ("scalar_mul:xs", "scalar_mul", "right", "x * s is not the scaled vector", V("sx")),
                ("scalar_mul:explicit", "scalar_mul", "sugar_vs_explicit", "algebra.scalar_multiplication(s, x) differs from s * x", V("sx")),
                ("add:assoc_l", "add", "associative_left", "(x + y) + z differs", V("add3")),
                ("add:assoc_r", "add", "associative_right", "x + (y + z) differs", V("add3")),
                ("scalar_mul:s_xy", "scalar_mul", "distributes_over_vectors", "s (x + y) differs from s x + s y", V("sxy")),
                ("scalar_mul:st_x", "scalar_mul", "distributes_over_scalars", "(s + t) x differs from s x + t x", V("stx")),
                ("scalar_mul:s_tx", "scalar_mul", "compatible", "s (t x) differs from (s t) x", V("s_tx")),
                ("neg:x_plus_negx", "neg", "additive_inverse", "x + (-x) is not 0", Z),
                ("sub:x_minus_x", "sub", "x_minus_x", "x - x is not 0", Z)]:
            if nm in out:
                cmp.cols(sk, opn, clause, what, out[nm], exp, tvs)
        # seeded real-valued vectors and scalars: the axioms code-vs-code
        nr = 32
        R = [rng.normal(size=(n, nr)) for _ in range(3)] + [rng.normal(size=(1, nr)) * 3, rng.normal(size=(1, nr)) * 3]
        o = dict(zip(names, batch_call(f, R)))
        run.count("evaluations", nr * len(names))
        tvr = [{"cell": "random", "sig": sig, "x": R[0][:, j].tolist(), "y": R[1][:, j].tolist(), "s": float(R[3][0, j]), "seed": run.seed} for j in range(nr)]
        for nm, ref, opn, clause in [("add:xy", R[0] + R[1], "add", "value"), ("add:yx", "add:xy", "add", "commutative"),
                                     ("sub:xy", R[0] - R[1], "sub", "value"), ("neg:x", -R[0], "neg", "value"),
                                     ("scalar_mul:sx", R[3] * R[0], "scalar_mul", "left"), ("scalar_mul:xs", R[3] * R[0], "scalar_mul", "right"),
                                     ("add:assoc_l", "add:assoc_r", "add", "associative_left"),
                                     ("scalar_mul:st_x", (R[3] + R[4]) * R[0], "scalar_mul", "distributes_over_scalars"),
                                     ("scalar_mul:s_tx", R[3] * R[4] * R[0], "scalar_mul", "compatible")]:
            if nm in o and (not isinstance(ref, str) or ref in o):
                cmp.cols(sk, opn, clause, "vector-space law on real-valued vectors", o[nm], o[ref] if isinstance(ref, str) else ref, tvr)
        return len(tvs) + nr
    if op == "abr":
        if (op, sk) not in cache:
            a, b, c_ = [ca.SX.sym(s, n) for s in "abc"]; s = ca.SX.sym("s")
            x, y, z = alg.elem(a), alg.elem(b), alg.elem(c_)
            B = [("bracket:xy", lambda: (x * y).param), ("bracket:yx", lambda: (y * x).param),
                 ("bracket:explicit", lambda: alg.bracket(x, y).param),
                 ("bracket:additive", lambda: ((x + z) * y).param - (x * y).param - (z * y).param + 0 * a),
                 ("bracket:homogeneous", lambda: ((s * x) * y).param - (s * (x * y)).param + 0 * a),
                 ("bracket:ad", lambda: x.ad() @ b)]
            names, exprs = try_build(run, sk, op, B, tvs[0])
            cache[(op, sk)] = (ca.Function("f", [a, b, c_, s], exprs), names)
        f, names = cache[(op, sk)]
        out = dict(zip(names, batch_call(f, [V("x"), V("y"), V("z"), np.array([[tv["s"] for tv in tvs]], float)])))
        run.count("evaluations", len(tvs) * len(names))
        br = V("br")
        for nm, clause, what, exp in [("bracket:xy", "value", "x * y is not the matrix commutator", br),
                                      ("bracket:yx", "antisymmetric", "y * x is not -(x * y)", -br),
                                      ("bracket:explicit", "sugar_vs_explicit", "algebra.bracket(x, y) differs from x * y", br),
                                      ("bracket:additive", "bilinear_add", "(x + z) * y differs from x * y + z * y", 0 * br),
                                      ("bracket:homogeneous", "bilinear_scale", "(s x) * y differs from s (x * y)", 0 * br),
                                      ("bracket:ad", "ad_x_y", "ad_x y differs from [x, y]", br)]:
            if nm in out:
                cmp.cols(sk, "bracket", clause, what, out[nm], exp, tvs)
        return len(tvs)
    if op == "aeq":
        if (op, sk) not in cache:
            a, b = ca.SX.sym("a", n), ca.SX.sym("b", n)
            x, y = alg.elem(a), alg.elem(b)
            names, exprs = try_build(run, sk, op, [("eq:xy", lambda: x == y), ("eq:yx", lambda: y == x)], tvs[0])
            cache[(op, sk)] = (ca.Function("f", [a, b], exprs), names)
            r = x == y
            if not isinstance(r, ca.SX) or r.shape != (1, 1):
                run.violation(f"{sk}/eq/returns_casadi_truth_value/-", f"x == y returns {type(r).__name__}, not a scalar CasADi truth value", {"tv": tvs[0]})
        f, names = cache[(op, sk)]
        out = dict(zip(names, batch_call(f, [V("x"), V("y")])))
        run.count("evaluations", len(tvs) * len(names))
        exp = np.array([[1.0 if tv["exp"] else 0.0 for tv in tvs]])
        for tv in tvs:
            stats.setdefault(("aeq", sk), set()).add(tv["cell"])
        for nm in names:
            cmp.cols(sk, "eq", "true_iff_all_params_equal" if nm == "eq:xy" else "symmetric", "x == y is not (all components equal)", out[nm], exp, tvs)
        return len(tvs)
    if op == "amat":
        if (op, sk) not in cache:
            a = ca.SX.sym("a", n); x = alg.elem(a)
            B = [("to_Matrix:sugar", lambda: x.to_Matrix()), ("to_Matrix:explicit", lambda: alg.to_Matrix(x)),
                 ("ad:sugar", lambda: x.ad()), ("ad:explicit", lambda: alg.adjoint(x)),
                 ("vee:sugar", lambda: x.vee()), ("wedge:param", lambda: alg.wedge(a).param),
                 ("from_Matrix:roundtrip", lambda: alg.from_Matrix(ca.densify(x.to_Matrix())).param)]
            names, exprs = try_build(run, sk, op, B, tvs[0])
            cache[(op, sk)] = (ca.Function("f", [a], exprs), names)
        f, names = cache[(op, sk)]
        X = V("x")
        out = dict(zip(names, batch_call(f, [X])))
        run.count("evaluations", len(tvs) * len(names))
        W = np.array([colF(tv["wedge"]) for tv in tvs]).T
        AD = np.array([colF(tv["ad"]) for tv in tvs]).T
        for nm, opn, clause, what, exp in [("to_Matrix:sugar", "to_Matrix", "value", "x.to_Matrix() is not the wedge matrix", W),
                                           ("to_Matrix:explicit", "to_Matrix", "sugar_vs_explicit", "algebra.to_Matrix(x) differs", W),
                                           ("ad:sugar", "ad", "value", "x.ad() is not the commutator matrix", AD),
                                           ("ad:explicit", "ad", "sugar_vs_explicit", "algebra.adjoint(x) differs from x.ad()", AD),
                                           ("vee:sugar", "vee", "value", "x.vee() is not the parameter vector", X),
                                           ("wedge:param", "wedge", "value", "algebra.wedge(p).param is not p", X),
                                           ("from_Matrix:roundtrip", "from_Matrix", "roundtrip", "algebra.from_Matrix(x.to_Matrix()) is not x", X)]:
            if nm in out:
                cmp.cols(sk, opn, clause, what, out[nm], exp, tvs)
        return len(tvs)
    raise ValueError(op)


def plain_alg_family(run, sk, sig):
    """python-number scalars (int, float, numpy, DM) on both sides, rejection of foreign operands"""
    alg = algebra_of(sig)
    n = alg.n_param
    p = np.arange(1, n + 1, dtype=float) * np.array([(-1) ** i for i in range(n)])
    x = alg.elem(ca.DM(p))
    cnt = 0
    for s in (3, -2, 0.5, np.float64(1.5), ca.DM(2.0)):
        for side, thunk in (("left", lambda: s * x), ("right", lambda: x * s)):
            cnt += 1
            try:
                r = thunk()
                got = np.array(ca.DM(r.param)).flatten()
                if type(r) is not type(x) or not np.allclose(got, float(s) * p, rtol=0, atol=1e-12):
                    run.violation(f"{sk}/scalar_mul/{side}/{type(s).__name__}", f"{side} multiplication by a {type(s).__name__} gives {got.tolist()}, expected {(float(s) * p).tolist()}", {"sig": list(sig), "s": float(s)})
            except Exception as e:  # noqa
                if isinstance(s, np.floating) and side == "left":
                    run.spec_drift(f"{sk}/scalar_mul/numpy_left", "numpy scalar * element is not supported")
                else:
                    run.violation(f"{sk}/scalar_mul/{side}/raises:{type(e).__name__}", f"{side} multiplication by a {type(s).__name__} raises: {str(e)[:120]}", {"sig": list(sig), "s": float(s)})
    import cyecca.lie as L
    other = L.r3 if sig != ("r3",) else L.so3
    for opn, thunk in (("add", lambda: x + other.elem(ca.DM.zeros(3, 1))), ("add", lambda: x + 1.0), ("scalar_mul", lambda: x * "a")):
        cnt += 1
        try:
            r = thunk()
            run.violation(f"{sk}/{opn}/rejects_foreign_operand/-", f"a foreign operand was accepted and returned {type(r).__name__}", {"sig": list(sig)})
        except Exception:
            pass
    return cnt


# ------------------------------------------------------------------ (B) exported model helpers
def build_models():
    from cyecca.models import rdd2, bezier
    c = rdd2.derive_common()
    return {"common": c, "cov": rdd2.derive_attitude_estimator(), "d2q": bezier.derive_dcm_to_quat()}


def sym6(M):
    M = np.asarray(M, float)
    return np.array([M[0, 0], M[0, 1], M[0, 2], M[1, 1], M[1, 2], M[2, 2]])


def unsym6(v):
    return np.array([[v[0], v[1], v[2]], [v[1], v[3], v[4]], [v[2], v[4], v[5]]])


def replay_misc(run, cmp, F, op, tvs, stats):
    if op in ("rot", "rot2"):
        fb = F["common"].get("rotate_vector_b_to_w"); fw = F["common"].get("rotate_vector_w_to_b")
        if fb is None or fw is None:
            run.violation("rotate_vector/export/missing/-", "derive_common does not export both rotate_vector functions", {"tv": tvs[0]}); return 0
        for key, f in (("rotate_vector_b_to_w", fb), ("rotate_vector_w_to_b", fw)):
            if f.name() != key:
                run.spec_drift(f"{key}/export_name", f"the CasADi function exported under '{key}' is named '{f.name()}'")
        N = np.array([tv["N"] for tv in tvs], float)
        v = np.array([tv["v"] for tv in tvs], float).T
        if op == "rot":
            q = np.array([tv["q"] for tv in tvs], float).T / np.sqrt(N)
            b2w = batch_call(fb, [q, v])[0]; w2b = batch_call(fw, [q, v])[0]
            back = batch_call(fw, [q, b2w])[0]; forth = batch_call(fb, [q, w2b])[0]
            run.count("evaluations", 4 * len(tvs))
            cmp.cols("rotate_vector_b_to_w", "value", "R(q)v", "b_to_w(q, v) is not R(q) v", b2w, np.array([tv["b2w"] for tv in tvs], float).T / N, tvs)
            cmp.cols("rotate_vector_w_to_b", "value", "R(q)^T v", "w_to_b(q, v) is not R(q)^T v", w2b, np.array([tv["w2b"] for tv in tvs], float).T / N, tvs)
            cmp.cols("rotate_vector", "mutual_inverse", "w_to_b(b_to_w)", "w_to_b(q, b_to_w(q, v)) is not v", back, v, tvs)
            cmp.cols("rotate_vector", "mutual_inverse", "b_to_w(w_to_b)", "b_to_w(q, w_to_b(q, v)) is not v", forth, v, tvs)
            cmp.cols("rotate_vector", "isometry", "norm", "|b_to_w(q, v)| differs from |v|", np.linalg.norm(b2w, axis=0)[None], np.linalg.norm(v, axis=0)[None], tvs)
        else:
            qp = np.array([tv["qp"] for tv in tvs], float).T / np.sqrt(N)
            qq = np.array([np.array(tv["q"], float) / math.sqrt(sum(c * c for c in tv["q"])) for tv in tvs]).T
            pp = np.array([np.array(tv["p"], float) / math.sqrt(sum(c * c for c in tv["p"])) for tv in tvs]).T
            one = batch_call(fb, [qp, v])[0]
            two = batch_call(fb, [qq, batch_call(fb, [pp, v])[0]])[0]
            run.count("evaluations", 3 * len(tvs))
            E = np.array([tv["b2w"] for tv in tvs], float).T / N
            cmp.cols("rotate_vector_b_to_w", "compose", "R(qp)v", "b_to_w(q p, v) is not R(q p) v", one, E, tvs)
            cmp.cols("rotate_vector_b_to_w", "compose", "R(q)R(p)v", "b_to_w(q, b_to_w(p, v)) is not R(q p) v", two, E, tvs)
        return len(tvs)
    if op == "d2q":
        g = F["d2q"]["dcm_to_quat"]
        R = np.array([colF(rm_to_np(tv["exp"])) for tv in tvs]).T
        r = batch_call(g, [R])[0]
        run.count("evaluations", len(tvs))
        cells = [f"branch{tv['branch']}:{tv['cell']}" for tv in tvs]
        cmp.cols("dcm_to_quat", "unit_norm", "-", "the returned quaternion does not have unit norm", np.sum(r * r, axis=0)[None], np.ones((1, len(tvs))), tvs, cells=cells)
        w, x, y, z = r
        Rr = np.array([w*w + x*x - y*y - z*z, 2*(x*y + w*z), 2*(x*z - w*y), 2*(x*y - w*z), w*w - x*x + y*y - z*z, 2*(y*z + w*x),
                       2*(x*z + w*y), 2*(y*z - w*x), w*w - x*x - y*y + z*z])
        cmp.cols("dcm_to_quat", "same_rotation", "-", "the returned quaternion is a different rotation than the DCM", Rr, R, tvs, cells=cells)
        for tv in tvs:
            stats.setdefault("d2q", set()).add(f"branch{tv['branch']}"); stats["d2q"].add(tv["cell"])
        return len(tvs)
    # ---- covariance propagation
    f = F["cov"]["attitude_covariance_propagation"]
    dt = np.array([tv["dt"][0] / tv["dt"][1] for tv in tvs])
    P = [np.array(tv["P"], float) for tv in tvs]; Q = [np.array(tv["Q"], float) for tv in tvs]
    if op == "cov_flow":
        w = np.array([xvec(tv["h"]) for tv in tvs]).T / dt          # w dt = nu v  (half-angle element h)
    else:
        w = np.array([tv["w"] for tv in tvs], float).T
    out = batch_call(f, [np.array([sym6(p) for p in P]).T, np.array([sym6(q) for q in Q]).T, w, dt[None]])[0]
    run.count("evaluations", len(tvs))
    if out.shape[0] != 6:
        run.violation("attitude_covariance_propagation/sym/shape/-", f"the result has {out.shape[0]} entries, not the 6 of a symmetric 3x3 matrix", {"tv": tvs[0]})
        return 0
    fam = "attitude_covariance_propagation"
    for k, tv in enumerate(tvs):
        P1 = unsym6(out[:, k])
        cell = f"P:{tv['pclass']}/{tv['rate']}"
        stats.setdefault("cov", set()).add(cell)
        stats.setdefault("cov_dt", set()).add('=0' if dt[k] == 0 else ('=1' if dt[k] == 1 else ('<1' if dt[k] < 1 else '>1')))
        scale = max(1.0, np.max(np.abs(P[k])), np.max(np.abs(Q[k])))
        data = {"tv": tv, "P1": P1.tolist(), "w": w[:, k].tolist(), "dt": float(dt[k])}
        if not np.all(np.isfinite(P1)):
            run.violation(f"{fam}/finite/{cell}", "non-finite covariance", data); continue
        # ---------------- promise clauses
        ev = np.linalg.eigvalsh(P1)
        if ev[0] < -1e-9 * scale:
            run.violation(f"{fam}/psd/{cell}", "positive semidefinite P and Q give a result that is not positive semidefinite (negative variance along some direction)", dict(data, min_eig=float(ev[0])))
        qzero = not np.any(Q[k])
        if qzero and tv["rate"] == "w0" and np.max(np.abs(P1 - P[k])) > TOL * scale:
            run.violation(f"{fam}/zero_rate_zero_noise/{cell}", "zero rate and zero noise must leave P unchanged", data)
        if qzero and tv["commutes"] and np.max(np.abs(P1 - P[k])) > TOL * scale:
            run.violation(f"{fam}/commuting_rotation/{cell}", "P commutes with [w]x (e.g. isotropic P): rotating the error frame must leave P unchanged", data)
        if qzero and abs(np.trace(P1) - np.trace(P[k])) > TOL * scale:
            run.violation(f"{fam}/trace/{cell}", "without noise the trace of P (total variance) must be preserved by the rotation", data)
        if dt[k] == 0 and np.max(np.abs(P1 - P[k])) > TOL * scale:
            run.violation(f"{fam}/dt_zero/{'Q=0' if qzero else 'Q'}/{tv['rate']}", "dt = 0 (no time elapses) must leave P unchanged; the dt input is ignored", data)
        # ---------------- implementation shape (never a deviation)
        if op == "cov_flow":
            flow = rm_to_np(tv["flow"])
            th = 2.0 * math.atan2(math.sqrt(sum(c * c for c in tv["v"])), tv["h"][0])
            nu = th / math.sqrt(sum(c * c for c in tv["v"])) if any(tv["v"]) else 0.0
            gen = np.array(tv["gen"], float)
            fo_dt = P[k] + nu * gen + Q[k] * dt[k]                       # first order, dt-aware
            fo_nodt = P[k] + (nu / dt[k]) * gen + Q[k]                   # the pinned code: generator applied once, dt unused
            if np.max(np.abs(P1 - flow)) > TOL * scale:
                run.spec_drift(f"{fam}/value/not_the_exact_flow", "the result is not F P F^T + Q dt with the rotation F = exp(-[w]x dt)")
            if np.max(np.abs(P1 - fo_dt)) > TOL * scale:
                run.spec_drift(f"{fam}/value/not_first_order_in_dt", "the result is not P + dt (A P + P A^T + Q)")
            if np.max(np.abs(P1 - fo_nodt)) > 1e-9 * scale * max(1.0, nu / dt[k]):
                run.spec_drift(f"{fam}/value/not_the_pinned_shape", "the result is not P + A P + P A^T + Q (shape of the pinned implementation)")
        else:
            if np.max(np.abs(P1 - np.array(tv["impl"], float))) > TOL * scale:
                run.spec_drift(f"{fam}/value/not_the_pinned_shape", "the result is not P + A P + P A^T + Q (shape of the pinned implementation)")
            if np.max(np.abs(P1 - rm_to_np(tv["fo"]))) > TOL * scale:
                run.spec_drift(f"{fam}/value/not_first_order_in_dt", "the result is not P + dt (A P + P A^T + Q)")
            if bool(tv["implpsd"]) != bool(ev[0] >= -1e-9 * scale):
                run.spec_drift(f"{fam}/psd_prediction", "positive semidefiniteness differs from what the implementation-shaped model predicts")
    return len(tvs)


def graph_clause(run):
    """cyecca.graph.draw_casadi: the only decidable behaviour -- cwd restored, a PNG written"""
    try:
        import cyecca.graph as Gr
    except Exception:   # IPython / pydot missing: not a property of cyecca
        run.count("graph_skipped"); return 0
    import tempfile
    cwd = os.getcwd()
    d = tempfile.mkdtemp(prefix="g02_graph_", dir=run.workdir)
    png = os.path.join(d, "g.png")
    x = ca.SX.sym("x")
    try:
        Gr.draw_casadi(ca.sin(x) + x, filename=png)
    except Exception:   # graphviz binary missing etc.
        os.chdir(cwd); run.count("graph_skipped"); return 0
    if os.getcwd() != cwd:
        run.violation("graph/draw_casadi/cwd_restored/-", f"draw_casadi left the process in {os.getcwd()}", {}); os.chdir(cwd)
    if not (os.path.exists(png) and open(png, "rb").read(4) == b"\x89PNG"):
        run.violation("graph/draw_casadi/png_written/-", "no PNG file was written", {})
    return 1


# ------------------------------------------------------------------ driver
def fam_of(tv):
    if "a" in tv:
        return group_key(tv["a"][0])
    return sig_key(tv["sig"])


def replay_sugar(run, cmp, cache, by, rng, stats):
    n = 0
    per = {}
    shapes = {}
    gadd = {}
    for (op, fam), tvs in sorted(by.items()):
        if op == "shape":
            shapes[fam] = tvs
        elif op == "gadd":
            gadd[fam] = tvs[0]
    for (op, fam), tvs in sorted(by.items()):
        tvs.sort(key=lambda t: json.dumps(t, sort_keys=True, default=str))
        if op == "pm":
            k = replay_pm(run, cmp, cache, fam, tvs, rng)
        elif op == "un":
            k = replay_un(run, cmp, cache, fam, tvs)
        elif op == "geq":
            k = replay_geq(run, cmp, cache, fam, tvs, stats)
        elif op == "pstruct":
            k = plain_pstruct(run, fam, tvs)
        elif op == "gadd":
            k = plain_group_family(run, fam, tvs[0], shapes.get(fam, []))
        elif op == "shape":
            k = 0                   # consumed by plain_group_family
        elif op in ("avs", "abr", "aeq", "amat"):
            k = replay_alg(run, cmp, cache, op, fam, tvs, rng, stats)
            if op == "amat":
                k += plain_alg_family(run, fam, tuple(tvs[0]["sig"]))
        else:
            raise MachineryError(f"unknown op {op}")
        per[f"{fam}/{op}"] = len(tvs)
        n += k
    return n, per


def main():
    tier = sys.argv[1] if len(sys.argv) > 1 else "quick"
    run = Run(PID, tier)
    cmp = Cmp(run)
    rng = np.random.default_rng(1000 + run.seed)
    cache, stats = {}, {}
    if "--replay" in sys.argv:
        d = json.load(open(sys.argv[sys.argv.index("--replay") + 1]))
        tv = d["data"].get("tv")
        if not tv or "op" not in tv:
            print("this finding came from a plain-Python or seeded clause; re-run the check with the same VERIF_SEED")
            return run.finish()
        if tv["op"] in MISC_OPS:
            replay_misc(run, cmp, build_models(), tv["op"], [tv], stats)
        else:
            by = {(tv["op"], fam_of(tv)): [tv]}
            if tv["op"] == "gadd":
                by[("shape", fam_of(tv))] = []
            replay_sugar(run, cmp, cache, by, rng, stats)
        return run.finish()
    # the two model-checking runs go side by side with the (slow) import of cyecca.models
    with ThreadPoolExecutor(max_workers=2) as ex:
        f1 = ex.submit(run_tlc, "LieSugar.tla", f"LieSugar_{tier}.cfg", workdir=run.workdir, dump=True, workers=max(2, NCPU - 2))
        f2 = ex.submit(run_tlc, "ModelsMisc.tla", f"ModelsMisc_{tier}.cfg", workdir=run.workdir, dump=True, workers=2)
        selftest()
        F = build_models()
        res2 = f2.result(); res1 = f1.result()
    run.add_tlc("LieSugar", res1)
    run.add_tlc("ModelsMisc", res2)
    # ---- (A)
    by, cells = {}, {}
    for st in parse_dump(res1["dump"]):
        tv = st["tv"]
        if tv["op"].startswith("seed"):
            continue
        by.setdefault((tv["op"], fam_of(tv)), []).append(tv)
        cells[(tv["op"], tv.get("cell", "-"))] = cells.get((tv["op"], tv.get("cell", "-")), 0) + 1
    os.remove(res1["dump"])
    for (op, fam), tvs in sorted(by.items()):
        if op in ("pm", "geq", "avs") and fam in ("SE3mrp", "(SE2*SO3mrp*R3)", "se3", "SO3euler"):
            t = tvs[len(tvs) // 3]
            run.sample({k: t[k] for k in ("op", "a", "xe", "cell", "sig", "x", "y", "s", "exp") if k in t}, limit=10)
    nA, per = replay_sugar(run, cmp, cache, by, rng, stats)
    # vacuity guards: every op x family must occur, and the discriminating cells must be present
    need = {(op, g) for g in GROUPS for op in ("pm", "un", "geq", "gadd", "shape")}
    need |= {("pstruct", g) for g in GROUPS if g.startswith("(")}
    need |= {(op, s) for s in SIGS for op in ("avs", "aeq", "amat")}
    need |= {("abr", s) for s in SIGS if "+" not in s}
    if not need <= set(by):
        raise MachineryError(f"vacuous coverage: op x family never produced by the model: {sorted(need - set(by))[:12]}")
    for g in GROUPS:
        if g != "SO2" and "some" not in stats.get(("geq", g), set()):
            raise MachineryError(f"vacuous coverage: {g}: no == vector with SOME (not all) parameters equal")
        if "all" not in stats.get(("geq", g), set()):
            raise MachineryError(f"vacuous coverage: {g}: no == vector with all parameters equal")
    for s in SIGS:
        if s != "so2" and "partial" not in stats.get(("aeq", s), set()):
            raise MachineryError(f"vacuous coverage: {s}: no == vector with some (not all) components equal")
    needcells = {("pm", c) for c in ("zero", "small", "regular", "pi", "beyondpi", "nearpi", "transl", "mixed")} | \
                {("geq", c) for c in ("same", "samerot", "antipodal", "partial", "other")}
    if not needcells <= set(cells):
        raise MachineryError(f"vacuous coverage: cells never reached: {sorted(needcells - set(cells))}")
    # ---- (B)
    bym = {}
    for st in parse_dump(res2["dump"]):
        tv = st["tv"]
        if tv["op"].startswith("seed"):
            continue
        bym.setdefault(tv["op"], []).append(tv)
    os.remove(res2["dump"])
    if set(bym) != MISC_OPS:
        raise MachineryError(f"vacuous coverage: model-helper ops never produced: {sorted(MISC_OPS - set(bym))}")
    nB = 0
    for op, tvs in sorted(bym.items()):
        tvs.sort(key=lambda t: json.dumps(t, sort_keys=True, default=str))
        t = tvs[len(tvs) // 3]
        run.sample({k: t[k] for k in ("op", "q", "v", "h", "w", "dt", "P", "Q", "pclass", "cell", "branch") if k in t}, limit=16)
        nB += replay_misc(run, cmp, F, op, tvs, stats)
        per[f"models/{op}"] = len(tvs)
    covcells = stats.get("cov", set())
    if stats.get("cov_dt", set()) != {"=0", "=1", "<1", ">1"}:
        raise MachineryError(f"vacuous coverage: covariance dt classes: {sorted(stats.get('cov_dt', set()))}")
    for pc in ("zero", "iso", "commuting", "pd", "singular"):
        if not any(c.startswith(f"P:{pc}/") for c in covcells):
            raise MachineryError(f"vacuous coverage: covariance class {pc} never reached")
    if not {"branch1", "branch2", "branch3", "branch4", "tie_trace", "tie_pivot"} <= stats.get("d2q", set()):
        raise MachineryError(f"vacuous coverage: dcm_to_quat branches/ties: {sorted(stats.get('d2q', set()))}")
    nB += graph_clause(run)
    run.assumptions += [
        "group elements are rational points (integer quaternions, Pythagorean angles, rational translations); algebra elements of the group-side vectors are of half-angle / screw type so that exp(x) is an exact rational element; algebra-side vectors are integer",
        "trusted: harness/lie.py embedding, the doubles nu = theta/sigma of harness/explog.py (self-tested against mpmath.expm at start-up), CasADi numeric evaluation, tolerance 1e-9 max(1,|expected|)",
        "excluded: MRP products on the 360-degree singularity, Euler elements/results exactly on a gimbal pole (seeded real-valued vectors within 5e-5 of it), log within the pi cells; operations that raise NotImplementedError (bracket/Ad/from_Matrix of direct products, some from_Matrix) are counted as skipped",
        "X + Y / X - Y on two group elements: the law is delegation to group.addition / group.subtraction where defined, TypeError otherwise; that no group (not even R^n) defines them is reported as SPEC-DRIFT",
        "attitude_covariance_propagation: only sym/psd/zero/commuting/trace/dt0 are promises; every numerical value is implementation shape (SPEC-DRIFT)",
        "cyecca/codegen.py is bound by C09; cyecca/graph.py only for cwd restoration and PNG creation",
    ]
    nontriv = sum(v for (op, c), v in cells.items() if op in ("pm", "geq", "avs", "abr", "aeq") and c not in ("zero", "same"))
    return run.finish({
        "traces_validated_against_impl": nA + nB,
        "evaluations": run.counts.get("evaluations", 0),
        "distinct_nontrivial": nontriv + sum(len(v) for k, v in bym.items()),
        "rule": "one TLC state = (operation, exact operands, exact expected result, cell); non-trivial = group/algebra vectors whose cell is not zero/same, plus every model-helper vector; seeded real-valued law vectors are counted in traces_validated only",
        "per_family_op": per,
        "cells": {f"{op}/{c}": v for (op, c), v in sorted(cells.items())},
        "covariance_cells": sorted(covcells),
        "exhaustive": True,
    })


if __name__ == "__main__":
    main_wrap(main)
