"""C19 -- SymPy <-> CasADi expression conversion (spec/Expr.tla).

TLC enumerates expression trees x environments and evaluates them exactly (checking the
operator laws of the evaluator on every state).  Every distinct tree is replayed into
cyecca.symbolic in both directions and in two variants:

  literal : constants are literals of the source library (sympy Integer/Rational/Float,
            casadi constants) -- exercises number conversion and whatever the source
            library folds / simplifies at construction time;
  lifted  : every constant leaf is a fresh symbol p_i whose value is supplied through the
            environment -- nothing folds, so every operator is converted as such and is
            evaluated on the exact operand values of the tree (negative, fractional...).

Expected value: the spec's exact rational ("val"); for opaque results (transcendental
nodes, irrational roots, beyond the 32-bit guard) the SOURCE expression's own numeric value
(differential).  A construct the converter does not accept must raise; a silently different
value is the violation.  Also: user function maps (f_dict), shared symbol tables, cse path,
matrices element-wise.
"""
import sys, json, math, os, signal, time, collections, traceback, warnings
from fractions import Fraction
import multiprocessing as mp
from harness.core import Run, run_tlc, parse_dump, main_wrap, MachineryError

PID = "C19"
RTOL = 1e-9
NPROC = int(os.environ.get("VERIF_WORKERS", "16"))
TREE_TIMEOUT = 20        # seconds per tree (all directions and variants); SymPy occasionally does not return

UN = ("neg", "sqrt", "sin", "cos", "tan", "atan")
BIN = ("add", "sub", "mul", "div", "lt", "le", "eq", "ne", "min", "max", "fmod", "rem")
LEAF = ("int", "rat", "flt", "sym")
JUMPY = ("fmod", "rem", "lt", "le", "eq", "ne", "ite")      # discontinuous operators

# operand classes used in the keys of failures that only show up under nesting
KIND = {**{t: "leaf" for t in ("int", "rat", "flt", "sym")}, **{t: "arith" for t in ("neg", "pow", "add", "sub", "mul", "div", "sqrt")},
        **{t: "logical" for t in ("lt", "le", "eq", "ne")}, **{t: "select" for t in ("min", "max", "fmod", "rem", "ite")},
        **{t: "transcendental" for t in ("sin", "cos", "tan", "atan")}, "call": "call"}

# construct names used in violation keys ------------------------------------------------
SP_NAME = {"int": "Integer", "rat": "Rational", "flt": "Float", "sym": "Symbol", "neg": "Neg", "sqrt": "sqrt",
           "pow": "Pow", "sin": "sin", "cos": "cos", "tan": "tan", "atan": "atan", "add": "Add", "sub": "Sub",
           "mul": "Mul", "div": "Div", "lt": "Lt", "le": "Le", "eq": "Eq", "ne": "Ne", "min": "Min", "max": "Max",
           "fmod": "Mod", "ite": "Piecewise", "call": "f_dict"}
CA_NAME = {"int": "OP_CONST", "rat": "OP_CONST", "flt": "OP_CONST", "sym": "OP_PARAMETER", "neg": "OP_NEG",
           "sqrt": "OP_SQRT", "sin": "OP_SIN", "cos": "OP_COS", "tan": "OP_TAN", "atan": "OP_ATAN",
           "add": "OP_ADD", "sub": "OP_SUB", "mul": "OP_MUL", "div": "OP_DIV", "lt": "OP_LT", "le": "OP_LE",
           "eq": "OP_EQ", "ne": "OP_NE", "min": "OP_FMIN", "max": "OP_FMAX", "fmod": "OP_FMOD",
           "rem": "OP_REMAINDER", "ite": "OP_IF_ELSE_ZERO"}
CA_POW = {2: "OP_SQ", -1: "OP_INV", 3: "OP_POW", -2: "OP_POW"}


def frac(q):
    return Fraction(q[0], q[1])


def totuple(o):
    return tuple(totuple(x) for x in o) if isinstance(o, (list, tuple)) else o


def children(t):
    tag = t[0]
    if tag in LEAF:
        return ()
    if tag in UN or tag == "pow":
        return (t[1],)
    if tag in BIN:
        return (t[1], t[2])
    if tag == "ite":
        return (t[1], t[2], t[3])
    if tag == "call":
        return (t[2],)
    raise MachineryError(f"unknown tree tag {tag}")


def nodes(t):
    yield t
    for c in children(t):
        yield from nodes(c)


def size(t):
    return sum(1 for _ in nodes(t))


def construct(t, direction, variant):
    """name of the converter construct a tree node exercises"""
    tag = t[0]
    if variant == "lifted" and tag in ("int", "rat", "flt"):
        tag = "sym"
    if direction == "s2c":
        return SP_NAME.get(tag)
    if tag == "pow":
        return CA_POW[t[2]] if variant == "lifted" else {2: "OP_SQ", -1: "OP_INV"}.get(t[2], f"pow({t[2]})")
    return CA_NAME.get(tag)


# ------------------------------------------------------------------------------------------
# workers (everything touching sympy / casadi objects lives in the worker processes)
# ------------------------------------------------------------------------------------------
_W = {}


def _init_worker():
    import casadi as ca, sympy
    from cyecca import symbolic
    _W.update(ca=ca, sp=sympy, sym=symbolic, x=ca.SX.sym("x"), y=ca.SX.sym("y"))
    warnings.filterwarnings("ignore")


class NotRepresentable(Exception):
    """the source library has no such construct / refuses to build it (not a converter matter)"""


def user_fns():
    """the function table of the spec (UserFn): f1(t) = t + 1, f2(t) = 3 t, f3(t) = 1/2 - t"""
    return {"f1": lambda t: t + 1, "f2": lambda t: 3 * t, "f3": lambda t: 0.5 - t}


def sp_supported(z, f_dict):
    """does sympy_to_casadi have a branch for this sympy node?"""
    sp = _W["sp"]
    if isinstance(z, (sp.Integer, sp.Rational, sp.Float, sp.Add, sp.Mul, sp.Pow, sp.Symbol, sp.sin, sp.cos, sp.tan, sp.atan,
                      sp.MutableDenseMatrix)):
        return True
    return isinstance(z, sp.core.function.AppliedUndef) and f_dict is not None and z.func.__name__ in f_dict


def sp_build(t, lifted, vals):
    """tree -> sympy expression; vals collects {symbol name: Fraction} of lifted constants"""
    sp = _W["sp"]
    tag = t[0]
    if tag in ("int", "rat", "flt"):
        v = Fraction(t[1]) if tag == "int" else Fraction(t[1], t[2]) if tag == "rat" else Fraction(t[1], 2 ** t[2])
        if lifted:
            name = f"p{len(vals)}"
            vals[name] = v
            return sp.Symbol(name)
        return sp.Integer(t[1]) if tag == "int" else sp.Rational(t[1], t[2]) if tag == "rat" else sp.Float(float(v))
    if tag == "sym":
        return sp.Symbol(t[1])
    if tag == "rem":
        raise NotRepresentable("sympy has no IEEE remainder")
    a = [sp_build(c, lifted, vals) for c in children(t)]
    try:
        if tag == "neg": return -a[0]
        if tag == "sqrt": return sp.sqrt(a[0])
        if tag == "pow": return a[0] ** t[2]
        if tag in ("sin", "cos", "tan", "atan"): return getattr(sp, tag)(a[0])
        if tag == "add": return a[0] + a[1]
        if tag == "sub": return a[0] - a[1]
        if tag == "mul": return a[0] * a[1]
        if tag == "div": return a[0] / a[1]
        if tag == "lt": return sp.Lt(a[0], a[1])
        if tag == "le": return sp.Le(a[0], a[1])
        if tag == "eq": return sp.Eq(a[0], a[1])
        if tag == "ne": return sp.Ne(a[0], a[1])
        if tag == "min": return sp.Min(a[0], a[1])
        if tag == "max": return sp.Max(a[0], a[1])
        if tag == "fmod": return sp.Mod(a[0], a[1])
        if tag == "ite": return sp.Piecewise((a[1], a[0]), (a[2], True))
        if tag == "call": return sp.Function(f"f{t[1]}")(a[0])
    except NotRepresentable:
        raise
    except Exception as e:       # e.g. relational + number: sympy itself refuses
        raise NotRepresentable(f"{type(e).__name__}: {e}")
    raise MachineryError(f"sp_build: {tag}")


def ca_build(t, lifted, vals, syms):
    """tree -> casadi SX; syms collects {name: SX symbol}, vals the values of lifted constants"""
    ca = _W["ca"]
    tag = t[0]
    if tag in ("int", "rat", "flt"):
        v = Fraction(t[1]) if tag == "int" else Fraction(t[1], t[2]) if tag == "rat" else Fraction(t[1], 2 ** t[2])
        if lifted:
            name = f"p{len(vals)}"
            vals[name] = v
            syms[name] = ca.SX.sym(name)
            return syms[name]
        return ca.SX(t[1]) if tag == "int" else ca.SX(t[1]) / t[2] if tag == "rat" else ca.SX(float(v))
    if tag == "sym":
        syms[t[1]] = _W[t[1]]
        return syms[t[1]]
    if tag == "call":
        raise NotRepresentable("no user function nodes in SX")
    a = [ca_build(c, lifted, vals, syms) for c in children(t)]
    if tag == "neg": return -a[0]
    if tag == "sqrt": return ca.sqrt(a[0])
    if tag == "pow":
        n = t[2]
        if lifted and n in (3, -2):                      # symbolic exponent -> OP_POW
            name = f"p{len(vals)}"
            vals[name] = Fraction(n)
            syms[name] = ca.SX.sym(name)
            return a[0] ** syms[name]
        return a[0] ** n
    if tag in ("sin", "cos", "tan", "atan"): return getattr(ca, tag)(a[0])
    if tag == "add": return a[0] + a[1]
    if tag == "sub": return a[0] - a[1]
    if tag == "mul": return a[0] * a[1]
    if tag == "div": return a[0] / a[1]
    if tag == "lt": return a[0] < a[1]
    if tag == "le": return a[0] <= a[1]
    if tag == "eq": return ca.eq(a[0], a[1])
    if tag == "ne": return ca.ne(a[0], a[1])
    if tag == "min": return ca.fmin(a[0], a[1])
    if tag == "max": return ca.fmax(a[0], a[1])
    if tag == "fmod": return ca.fmod(a[0], a[1])
    if tag == "rem": return ca.remainder(a[0], a[1])
    if tag == "ite": return ca.if_else(a[0], a[1], a[2])
    raise MachineryError(f"ca_build: {tag}")


def sp_value(e, sub):
    """numeric value of a sympy object (or python number / bool) under substitution; None when the
    result is not a finite real number"""
    sp = _W["sp"]
    if isinstance(e, (bool, int, float)):
        return float(e)
    r = e.subs(sub) if sub else e
    if r is sp.true or r is True:
        return 1.0
    if r is sp.false or r is False:
        return 0.0
    if isinstance(r, (int, float)):
        return float(r)
    if getattr(r, "free_symbols", None):
        raise ValueError(f"free symbols left after substitution: {r}")
    r = sp.N(r, 17)
    if not r.is_real or r.is_finite is False or r is sp.nan:
        return None
    return float(r)


def ca_eval(expr, names, syms, valmaps):
    """evaluate an SX expression for each value map; returns list of floats"""
    ca = _W["ca"]
    f = ca.Function("f", [syms[n] for n in names], [ca.SX(expr)])
    out = []
    for vm in valmaps:
        r = f.call([float(vm[n]) for n in names])
        out.append(float(r[0]))
    return out


def close(got, exp):
    return got is not None and math.isfinite(got) and abs(got - exp) <= RTOL * max(1.0, abs(exp))


def valmaps_of(envs, vals):
    out = []
    for env, _ in envs:
        vm = dict(vals)
        vm["x"] = frac(env[0]); vm["y"] = frac(env[1])
        out.append(vm)
    return out


def expected(exp):
    return float(Fraction(exp[1], exp[2])) if exp[0] == "val" else None


def check_s2c(tree, nf, envs, variant, fd_order, cse, res):
    """sympy -> casadi on one tree, all its environments"""
    sp, ca, S = _W["sp"], _W["ca"], _W["sym"]
    C = res["counts"]
    lifted = variant == "lifted"
    vals = {}
    _W["phase"] = f"s2c/{variant}/cse={cse}"
    try:
        src = sp_build(tree, lifted, vals)
    except NotRepresentable:
        C["s2c/not_representable"] += 1
        return
    vms = valmaps_of(envs, vals)
    has_fmod = any(n[0] == "fmod" for n in nodes(tree))
    has_call = any(n[0] == "call" for n in nodes(tree))
    fns = user_fns()
    # source's own value (user functions applied exactly as the table says)
    own = []
    for vm in vms:
        sub = {sp.Symbol(k): sp.Rational(v.numerator, v.denominator) for k, v in vm.items()}
        try:
            e = src
            if has_call:
                e = e.replace(lambda z: isinstance(z, sp.core.function.AppliedUndef),
                              lambda z: {"f1": z.args[0] + 1, "f2": 3 * z.args[0], "f3": sp.Rational(1, 2) - z.args[0]}[z.func.__name__])
                e = e.replace(lambda z: isinstance(z, sp.core.function.AppliedUndef),
                              lambda z: {"f1": z.args[0] + 1, "f2": 3 * z.args[0], "f3": sp.Rational(1, 2) - z.args[0]}[z.func.__name__])
            own.append(sp_value(e, sub))
        except Exception:
            own.append(None)
    f_dict = None
    if has_call:
        names = [f"f{i}" for i in range(1, nf + 1)]
        if fd_order == "rev":
            names = names[::-1]
        f_dict = {n: fns[n] for n in names}
    symbols = {}
    try:
        conv, table = S.sympy_to_casadi(src, f_dict=f_dict, symbols=symbols, cse=cse)
    except Exception as ex:
        # sympy folds constants at construction (sqrt(-3) -> sqrt(3)*I, 1/0 -> zoo, atan(1) -> pi/4, Lt(2, 3) -> true):
        # what the converter is given then contains constructs it has no branch for, and raising is the contract
        foreign = sorted({type(z).__name__ for z in sp.preorder_traversal(src) if not sp_supported(z, f_dict)})
        res["raised"].append(("s2c", variant, tree, nf, type(ex).__name__, str(ex)[:120], fd_order, cse, foreign))
        C["s2c/raised"] += 1
        return
    got = None
    err = None
    try:
        if table is not symbols:
            raise ValueError("returned symbol table is not the table passed in")
        names = sorted(table)
        extra = [n for n in names if n not in vms[0]]
        if extra:
            raise ValueError(f"symbol table has entries that are not symbols of the expression: {extra}")
        got = ca_eval(conv, names, table, vms)
    except Exception as ex:
        err = f"{type(ex).__name__}: {str(ex)[:200]}"
    for k, (env, exp) in enumerate(envs):
        if exp[0] == "und":
            C["s2c/undefined_skipped"] += 1
            continue
        e = expected(exp)
        if e is not None and not has_fmod:
            if own[k] is not None and not close(own[k], e):
                res["selfcheck"].append(("s2c", variant, tree, env, e, own[k], str(src)))
            ref = e
        else:
            ref = own[k]                 # opaque / sympy Mod (floored): differential against the source
        if ref is None:
            C["s2c/source_not_finite_skipped"] += 1
            continue
        C["s2c/evaluations"] += 1
        g = got[k] if got is not None else None
        if err is not None or not close(g, ref):
            res["bad"].append({"dir": "s2c", "variant": variant, "tree": tree, "nf": nf, "env": env, "exp": exp,
                               "expected": ref, "got": g, "error": err, "source": str(src), "converted": str(conv)[:300],
                               "fd_order": fd_order, "cse": cse, "envs": envs})
        else:
            res["maxerr"] = max(res["maxerr"], abs(g - ref))
    res["done"].add(("s2c", variant, tree))


def check_c2s(tree, nf, envs, variant, res):
    """casadi -> sympy on one tree, all its environments"""
    sp, ca, S = _W["sp"], _W["ca"], _W["sym"]
    C = res["counts"]
    lifted = variant == "lifted"
    vals, syms = {}, {}
    _W["phase"] = f"c2s/{variant}"
    try:
        src = ca_build(tree, lifted, vals, syms)
    except NotRepresentable:
        C["c2s/not_representable"] += 1
        return
    vms = valmaps_of(envs, vals)
    names = sorted(syms)
    own = ca_eval(src, names, syms, vms)
    jumpy = any(n[0] in JUMPY for n in nodes(tree))
    table = {}
    try:
        conv = S.casadi_to_sympy(src, table)
    except Exception as ex:
        res["raised"].append(("c2s", variant, tree, nf, type(ex).__name__, str(ex)[:120], "", False, []))
        C["c2s/raised"] += 1
        return
    for k, (env, exp) in enumerate(envs):
        if exp[0] == "und":
            C["c2s/undefined_skipped"] += 1
            continue
        e = expected(exp)
        if e is not None and not close(own[k], e):
            # the source itself, evaluated in doubles, leaves the exact value: a jump of fmod / remainder /
            # a comparison hit exactly by non-dyadic rationals (1/3, -7/3).  Not usable as a test vector.
            if jumpy:
                C["c2s/embedding_sensitive_skipped"] += 1
            else:
                res["selfcheck"].append(("c2s", variant, tree, env, e, own[k], str(src)))
            continue
        if not math.isfinite(own[k]):
            C["c2s/source_not_finite_skipped"] += 1
            continue
        if e is not None:
            ref = e
        else:
            ref = own[k]
        C["c2s/evaluations"] += 1
        g, err = None, None
        try:
            sub = {sp.Symbol(n): sp.Rational(v.numerator, v.denominator) for n, v in vms[k].items()}
            g = sp_value(conv, sub)
        except Exception as ex:
            err = f"{type(ex).__name__}: {str(ex)[:200]}"
        if jumpy and err is None and not close(g, ref) and margin(tree, vms[k])[1] < 1e-9 and (e is None or nondyadic(tree, vms[k])):
            # exactly on a jump, and either the operands are opaque (two roundings of one number) or a non-dyadic
            # rational (1/3, -7/3) meets a float constant inside SymPy: fmod(fmod(x, 2.5), x) at x = 1/3 is
            # Mod(0.333.., 1/3) there.  Jumps with dyadic operands (ties of remainder, fmod(a, a)) are exact in
            # doubles and stay fully checked.
            C["c2s/ill_conditioned_skipped"] += 1
            C["c2s/evaluations"] -= 1
            continue
        if err is not None or not close(g, ref):
            res["bad"].append({"dir": "c2s", "variant": variant, "tree": tree, "nf": nf, "env": env, "exp": exp,
                               "expected": ref, "got": g, "error": err, "source": str(src), "converted": str(conv)[:300],
                               "fd_order": "", "cse": False, "envs": envs})
        else:
            res["maxerr"] = max(res["maxerr"], abs(g - ref))
    res["done"].add(("c2s", variant, tree))


class TreeTimeout(BaseException):      # BaseException: must not be swallowed by "except Exception"
    pass


def _on_alarm(*_a):
    raise TreeTimeout()


def nondyadic(tree, vm):
    for n in nodes(tree):
        if n[0] in LEAF:
            d = (leaf_value(n) if n[0] != "sym" else vm[n[1]]).denominator
            if d & (d - 1):
                return True
    return False


def margin(tree, vm):
    """(float value, smallest relative distance of any discontinuous node from its jump) -- plain double
    evaluation, used ONLY to recognise ill-conditioned vectors among differential (opaque) comparisons:
    cos(2.5) < cos(x) at x = -5/2 compares two roundings of one number and cannot be decided at 1e-9."""
    tag = t = tree[0]
    if tag in ("int", "rat", "flt"):
        return float(leaf_value(tree, None)), math.inf
    if tag == "sym":
        return float(vm[tree[1]]), math.inf
    kids = [margin(c, vm) for c in children(tree)]
    v = [k[0] for k in kids]
    m = min(k[1] for k in kids)
    try:
        if tag == "neg": r = -v[0]
        elif tag == "sqrt": r = math.sqrt(v[0])
        elif tag == "pow": r = v[0] ** tree[2]
        elif tag in ("sin", "cos", "tan", "atan"): r = getattr(math, tag)(v[0])
        elif tag == "add": r = v[0] + v[1]
        elif tag == "sub": r = v[0] - v[1]
        elif tag == "mul": r = v[0] * v[1]
        elif tag == "div": r = v[0] / v[1]
        elif tag in ("lt", "le", "eq", "ne"):
            m = min(m, abs(v[0] - v[1]) / max(1.0, abs(v[0]), abs(v[1])))
            r = float({"lt": v[0] < v[1], "le": v[0] <= v[1], "eq": v[0] == v[1], "ne": v[0] != v[1]}[tag])
        elif tag == "min": r = min(v)
        elif tag == "max": r = max(v)
        elif tag == "fmod":
            q = v[0] / v[1]
            m = min(m, abs(q - round(q)))
            r = math.fmod(v[0], v[1])
        elif tag == "rem":
            q = v[0] / v[1]
            m = min(m, abs(q - math.floor(q) - 0.5))
            r = math.remainder(v[0], v[1])
        elif tag == "ite": r = v[1] if v[0] != 0 else v[2]
        else: r = math.nan
    except (ValueError, ZeroDivisionError, OverflowError):
        return math.nan, 0.0
    return r, m


def new_res():
    return {"counts": collections.Counter(), "raised": [], "bad": [], "selfcheck": [], "done": set(), "maxerr": 0.0,
            "matbad": [], "crash": [], "timeout": [], "slowest": (0.0, None)}


def work(chunk):
    """chunk: list of (idx, tree, nf, envs) -> result dict of plain data"""
    if not _W:
        _init_worker()
    res = new_res()
    signal.signal(signal.SIGALRM, _on_alarm)
    for idx, tree, nf, envs in chunk:
        t0 = time.time()
        signal.alarm(TREE_TIMEOUT)
        try:
            has_call = any(n[0] == "call" for n in nodes(tree))
            for variant in ("literal", "lifted"):
                check_s2c(tree, nf, envs, variant, "fwd", False, res)
                if has_call and nf > 1:
                    check_s2c(tree, nf, envs, variant, "rev", False, res)
                check_c2s(tree, nf, envs, variant, res)
            kids = children(tree)
            if size(tree) >= 4 and (idx % 4 == 0 or (len(kids) == 2 and kids[0] == kids[1])):
                check_s2c(tree, nf, envs, "literal", "fwd", True, res)      # common-subexpression path
                res["counts"]["s2c/cse_trees"] += 1
        except MachineryError:
            raise
        except TreeTimeout:
            res["timeout"].append((tree, _W.get("phase")))
        except Exception:
            res["crash"].append((tree, traceback.format_exc()[-1500:]))
        finally:
            signal.alarm(0)
        dt = time.time() - t0
        if dt > res["slowest"][0]:
            res["slowest"] = (round(dt, 2), tree)
    res["done"] = list(res["done"])
    return res


# ------------------------------------------------------------------------------------------
# matrices, symbol tables, extra operators (run in the parent: small)
# ------------------------------------------------------------------------------------------
def check_matrices(run, mats, culprit_s2c, culprit_c2s, cov):
    sp, ca, S = _W["sp"], _W["ca"], _W["sym"]
    for (tree, envs) in mats:
        _, r, c, ents = tree
        for variant in ("literal", "lifted"):
            lifted = variant == "lifted"
            # sympy -> casadi
            vals = {}
            M = sp.Matrix(r, c, [sp_build(e, lifted, vals) for e in ents])
            vms = valmaps_of(envs, vals)
            try:
                conv, table = S.sympy_to_casadi(M, symbols={})
                if tuple(conv.shape) != (r, c):
                    run.violation("sympy_to_casadi/Matrix/shape", f"{r}x{c} matrix converted to shape {conv.shape}", {"tree": tree})
                else:
                    names = sorted(table)
                    f = ca.Function("f", [table[n] for n in names], [ca.densify(conv)])
                    for vm, (env, exps) in zip(vms, envs):
                        got = f.call([float(vm[n]) for n in names])[0].full()
                        for i in range(r):
                            for j in range(c):
                                ex = exps[i * c + j]
                                cov["matrix_elements"] += 1
                                if ex[0] != "val":
                                    continue
                                run.count("evaluations")
                                if not close(float(got[i, j]), expected(ex)):
                                    ent = ents[i * c + j]
                                    cul = [construct(n, "s2c", variant) for n in nodes(ent) if construct(n, "s2c", variant) in culprit_s2c]
                                    key = f"sympy_to_casadi/{cul[0]}/value" if cul else "sympy_to_casadi/Matrix/element"
                                    run.violation(key, "matrix entry evaluates to a different value after conversion",
                                                  {"tree": tree, "entry": [i, j], "env": env, "expected": expected(ex), "got": float(got[i, j])})
            except Exception as ex:
                run.violation(f"sympy_to_casadi/Matrix/raises:{type(ex).__name__}", f"matrix conversion raises: {ex}", {"tree": tree})
            # casadi -> sympy (dense r x c built from rows)
            vals, syms = {}, {}
            el = [ca_build(e, lifted, vals, syms) for e in ents]
            A = ca.vertcat(*[ca.horzcat(*el[i * c:(i + 1) * c]) for i in range(r)])
            A = ca.densify(A)
            vms = valmaps_of(envs, vals)
            try:
                conv = S.casadi_to_sympy(A, {})
                if r * c == 1:
                    conv = sp.Matrix([[conv]])
                if tuple(conv.shape) != (r, c):
                    run.violation("casadi_to_sympy/Matrix/shape", f"{r}x{c} matrix converted to shape {conv.shape}", {"tree": tree})
                    continue
                for vm, (env, exps) in zip(vms, envs):
                    sub = {sp.Symbol(n): sp.Rational(v.numerator, v.denominator) for n, v in vm.items()}
                    for i in range(r):
                        for j in range(c):
                            ex = exps[i * c + j]
                            cov["matrix_elements"] += 1
                            if ex[0] != "val":
                                continue
                            run.count("evaluations")
                            try:
                                g = sp_value(conv[i, j], sub)
                            except Exception:
                                g = None
                            if not close(g, expected(ex)):
                                ent = ents[i * c + j]
                                cul = [construct(n, "c2s", variant) for n in nodes(ent) if construct(n, "c2s", variant) in culprit_c2s]
                                key = f"casadi_to_sympy/{cul[0]}/value" if cul else "casadi_to_sympy/Matrix/element"
                                run.violation(key, "matrix entry evaluates to a different value after conversion",
                                              {"tree": tree, "entry": [i, j], "env": env, "expected": expected(ex), "got": g})
            except Exception as ex:
                run.violation(f"casadi_to_sympy/Matrix/raises:{type(ex).__name__}", f"matrix conversion raises: {ex}", {"tree": tree})
        cov["matrices"] += 1
    # a matrix with structural zeros: must raise or convert element-wise
    x, y = _W["x"], _W["y"]
    A = ca.SX(2, 2); A[0, 0] = x; A[1, 1] = y; A[1, 0] = x * y
    try:
        conv = S.casadi_to_sympy(A, {})
        ok = tuple(conv.shape) == (2, 2)
        if ok:
            sub = {sp.Symbol("x"): 3, sp.Symbol("y"): 5}
            ok = [sp_value(conv[i, j], sub) for i in range(2) for j in range(2)] == [3.0, 0.0, 15.0, 5.0]
        if not ok:
            run.violation("casadi_to_sympy/Matrix/sparse", "matrix with structural zeros converted to different entries",
                          {"casadi": str(A), "sympy": str(conv)})
        cov["sparse_matrix"] = "converted"
    except Exception as ex:
        cov["sparse_matrix"] = f"raises {type(ex).__name__}"


def check_symbol_tables(run, cov):
    sp, ca, S = _W["sp"], _W["ca"], _W["sym"]
    X, Y, Z = sp.symbols("x y z")
    # (1) two conversions sharing a table map equal names to the identical SX
    pairs = [(X + 2 * Y, sp.sin(X) * Y), (X ** 2, X * Z + Y), (sp.Matrix([[X, Y], [Y, X]]), Y - X), (sp.sqrt(X) + X, X / Y)]
    for A, B in pairs:
        table = {}
        a, t1 = S.sympy_to_casadi(A, symbols=table)
        first = dict(table)
        b, t2 = S.sympy_to_casadi(B, symbols=table)
        cov["symbol_table_pairs"] += 1
        if t1 is not table or t2 is not table:
            run.violation("sympy_to_casadi/symbols/table_identity", "the returned table is not the shared table", {"A": str(A), "B": str(B)})
        for n, s in first.items():
            if not (table[n] is s or ca.is_equal(table[n], s)):
                run.violation("sympy_to_casadi/symbols/shared", f"name {n} re-bound by the second conversion", {"A": str(A), "B": str(B)})
        want = {str(s) for s in A.free_symbols | B.free_symbols}
        if set(table) != want:
            run.violation("sympy_to_casadi/symbols/names", f"table names {sorted(table)} != symbols of the expressions {sorted(want)}", {"A": str(A), "B": str(B)})
            continue
        # every free variable of both results is a table entry (same name -> same variable)
        for e, src in ((a, A), (b, B)):
            fv = ca.symvar(ca.SX(e))
            for v in fv:
                if not any(ca.is_equal(v, s) for s in table.values()):
                    run.violation("sympy_to_casadi/symbols/foreign_variable", f"result depends on a variable {v} that is not in the shared table", {"expr": str(src)})
            if len({v.name() for v in fv}) != len(fv):
                run.violation("sympy_to_casadi/symbols/duplicate_name", "two distinct variables with one name in a single result", {"expr": str(src)})
    # (2) a pre-populated table is honoured
    mine = ca.SX.sym("x")
    e, table = S.sympy_to_casadi(X * 3 + sp.cos(X), symbols={"x": mine})
    fv = ca.symvar(ca.SX(e))
    cov["symbol_table_prepopulated"] += 1
    if len(fv) != 1 or not ca.is_equal(fv[0], mine):
        run.violation("sympy_to_casadi/symbols/prepopulated", "supplied variable for x was not used", {})
    # (3) cse path: temporaries do not stay in the table; value unchanged; table variable used
    E = (X + Y) ** 2 + sp.sin(X + Y) * (X + Y) + sp.sqrt((X + Y) ** 2 + 1)
    table = {}
    e1, _ = S.sympy_to_casadi(E, symbols=table, cse=True)
    e0, _ = S.sympy_to_casadi(E, symbols=table, cse=False)
    cov["cse_table"] += 1
    if set(table) != {"x", "y"}:
        run.violation("sympy_to_casadi/cse/table", f"table after cse conversion: {sorted(table)}", {})
    else:
        try:
            f = ca.Function("f", [table["x"], table["y"]], [e1, e0])
        except RuntimeError as ex:      # the converted expression depends on something that is not a variable of the table
            free = [str(v) for v in ca.symvar(ca.vertcat(e1, e0)) if str(v) not in ("x", "y")]
            run.violation("sympy_to_casadi/cse/foreign_variable", f"with cse=True the result depends on variables that are not in the symbol table: {free}",
                          {"expr": str(E), "free": free, "error": str(ex)[-200:]})
            f = None
        for xv, yv in ((0.3, 1.1), (-2.5, 2.0), (2.0, 2.0)) if f is not None else ():
            r1, r0 = [float(v) for v in f(xv, yv)]
            run.count("evaluations")
            if not close(r1, r0):
                run.violation("sympy_to_casadi/cse/value", "cse=True changes the value", {"x": xv, "y": yv, "cse": r1, "plain": r0})
    # (4) casadi -> sympy: same variable -> identical symbol across calls sharing syms; equal names -> equal symbol
    x, y = _W["x"], _W["y"]
    syms = {}
    s1 = S.casadi_to_sympy(x + 2 * y, syms)
    s2 = S.casadi_to_sympy(ca.sin(x) * y, syms)
    cov["c2s_table"] += 1
    fs = s1.free_symbols | s2.free_symbols
    if {str(s) for s in fs} != {"x", "y"} or len(fs) != 2:
        run.violation("casadi_to_sympy/symbols/shared", f"symbols of two conversions sharing a table: {fs}", {})
    if len(syms) != 2 or {str(v) for v in syms.values()} != {"x", "y"}:
        run.violation("casadi_to_sympy/symbols/table", f"table after two conversions: {syms}", {})
    # (5) a LONG history on one shared table whose earlier casadi variables are dead by the time later ones are made
    #     (a table that remembers a variable by something the allocator hands out again confuses v_i with v_0)
    import gc
    syms = {}
    for i in range(120):
        v = ca.SX.sym(f"v{i}")
        e = 2 * v + i
        try:
            s5 = S.casadi_to_sympy(e, syms)
        except Exception as ex:     # noqa
            run.violation("casadi_to_sympy/symbols/history/raises", f"{type(ex).__name__}: {ex}", {"round": i}); break
        names = {str(q) for q in s5.free_symbols}
        cov["c2s_table"] += 1
        if names != {f"v{i}"} or s5.subs({q: 3 for q in s5.free_symbols}) != 6 + i:
            run.violation("casadi_to_sympy/symbols/history", f"round {i} of conversions sharing one table: casadi {e} became sympy {s5}",
                          {"round": i, "casadi": str(e), "sympy": str(s5)})
            break
        del v, e, s5
        if i % 7 == 0:
            gc.collect()
    x2 = ca.SX.sym("x")
    s3 = S.casadi_to_sympy(x * x2, {})
    if len(s3.free_symbols) != 1:
        run.violation("casadi_to_sympy/symbols/same_name", f"two variables named x gave {s3.free_symbols}", {})


EXTRA_UN = ["exp", "log", "asin", "acos", "sinh", "cosh", "tanh", "asinh", "acosh", "atanh", "floor", "ceil", "fabs",
            "sign", "erf", "log1p", "expm1", "erfinv"]
EXTRA_BIN = ["atan2", "hypot", "copysign", "constpow"]
NUMERIC_CONDITION_CASES = {"if_else_numeric_condition", "if_else_symbol_condition", "if_else_zero_numeric_condition", "logic_not_of_number",
                           "logic_and_of_numbers", "logic_or_of_numbers"}


def check_extras(run, cov, culprit_c2s, culprit_s2c=frozenset()):
    """operators outside the TLA+ grammar that casadi_to_sympy has a branch for: differential only
    (value of the source at a few points); a raise is allowed (reported as information)."""
    sp, ca, S = _W["sp"], _W["ca"], _W["sym"]
    x, y = _W["x"], _W["y"]
    pts = [(-2.5, 2.0), (0.5, -0.75), (1.5, 1.5), (3.5, 0.25), (-0.25, -3.0),
           (0.0, 2.0), (2.5, 0.0), (0.0, 0.0), (0.0, -1.0), (1.0, 1.0), (-1.0, 1.0)]     # zeros, ties, unit arguments (sign(0), floor/ceil of integers, ...)
    cases = [(n, getattr(ca, n)(x)) for n in EXTRA_UN] + [(n, getattr(ca, n)(x, y)) for n in EXTRA_BIN]
    cases += [("sign_of_difference", 3 + y * ca.sign(x - y)), ("sign_of_product", ca.sign(x * y) + ca.cos(x)), ("fabs_of_difference", ca.fabs(x - y)),
              ("fmin", ca.fmin(x, y)), ("fmax", ca.fmax(x, y)), ("le", x <= y), ("ge_as_le", y <= x), ("eq", ca.eq(x, y)), ("ne", ca.ne(x, y)),
              ("if_else", ca.if_else(x <= y, x + 1, y - 1))]
    # conditions that are NUMBERS, not comparisons (C: any non-zero value is true, negative ones included)
    cases += [("if_else_numeric_condition", ca.if_else(x * y - 1, x + 1, y)), ("if_else_symbol_condition", ca.if_else(x, y, 2 * y)),
              ("if_else_zero_numeric_condition", ca.if_else(x + y, x, 0)), ("logic_not_of_number", ca.if_else(ca.logic_not(x + y), x, y)),
              ("logic_and_of_numbers", ca.logic_and(x, y)), ("logic_or_of_numbers", ca.logic_or(x + 2.5, y))]
    # sums of one-sided conditional terms governed by DIFFERENT conditions (must not be folded into one two-way choice)
    cases += [("sum_of_conditionals_xy", ca.if_else(x < 0, x + 1, 0) + ca.if_else(y < 0, 0, y - 1)),
              ("sum_of_conditionals_mixed", ca.if_else(x < y, 2 * x, 0) + ca.if_else(ca.logic_not(y < 1), 3 * y, 0)),
              ("sum_of_three_conditionals", ca.if_else(x < 0, 1, 0) + ca.if_else(ca.logic_not(y < 0), 2, 0) + ca.if_else(ca.logic_not(x < y), 4, 0)),
              ("nested_if_else", ca.if_else(x < 0, ca.if_else(y < 0, 1, 2), ca.if_else(y < 1, 3, 4)))]
    cases += [("logic_not", ca.logic_not(x < y)), ("logic_and", ca.logic_and(x < y, y < 1)), ("logic_or", ca.logic_or(x < y, y < 1)), ("twice", 2 * x), ("pow_noninteger_const", x ** 2.5),
              ("pow_symbolic", ca.fabs(x) ** y), ("if_else_zero", ca.if_else(x < y, x, 0))]
    for name, e in cases:
        f = ca.Function("f", [x, y], [e])
        cov["extra_ops"] += 1
        try:
            s = S.casadi_to_sympy(e, {})
        except Exception as ex:
            run.spec_drift(f"casadi_to_sympy/extra:{name}/raises:{type(ex).__name__}",
                           "operator outside the C19 grammar is rejected (allowed: it raises)")
            continue
        for xv, yv in pts:
            ref = float(f(xv, yv))
            if not math.isfinite(ref):
                continue
            if name == "atan2" and xv == 0.0 and yv == 0.0:
                continue        # outside the mathematical domain: C returns 0, sympy leaves atan2(0, 0) undefined (not a conversion matter)
            run.count("evaluations")
            try:
                g = sp_value(s, {sp.Symbol("x"): sp.Rational(xv), sp.Symbol("y"): sp.Rational(yv)})
                err = None
            except Exception as ex:
                g, err = None, f"{type(ex).__name__}: {ex}"
            if err is not None and name in NUMERIC_CONDITION_CASES:
                # a number used as a truth value: sympy refuses to evaluate it (TypeError) -- the construct is rejected, not altered
                run.spec_drift(f"casadi_to_sympy/extra:{name}/refused_at_evaluation", "a numeric condition is refused when the converted expression is evaluated (allowed: it raises)")
                break
            if not close(g, ref):
                run.violation(f"casadi_to_sympy/{ca_opname(e)}/value", f"{name}: converted expression evaluates to a different value",
                              {"extra": name, "x": xv, "y": yv, "expected": ref, "got": g, "error": err, "sympy": str(s)})
                break
    # sympy side: constructs without a branch must raise; Pow with rational / symbolic exponent is accepted
    X, Y = sp.symbols("x y")
    for name, E in [("exp", sp.exp(X)), ("pi", sp.pi * X), ("Abs", sp.Abs(X)), ("Pow_rational", X ** sp.Rational(3, 2)),
                    ("Pow_third", X ** sp.Rational(1, 3)), ("Pow_neg_half", X ** sp.Rational(-1, 2)), ("Pow_symbolic", X ** Y),
                    ("Pow_float", X ** sp.Float(2.5)), ("ImmutableMatrix", sp.ImmutableMatrix([[X, 1]]))]:
        cov["extra_ops"] += 1
        try:
            c, table = S.sympy_to_casadi(E, symbols={})
        except Exception as ex:
            run.spec_drift(f"sympy_to_casadi/extra:{name}/raises:{type(ex).__name__}", "construct outside the C19 grammar is rejected (allowed: it raises)")
            continue
        names = sorted(table)
        f = ca.Function("f", [table[n] for n in names], [ca.densify(ca.SX(c))])
        for xv, yv in ((2.25, 1.5), (0.5, 3.0), (6.25, -2.0)):
            vm = {"x": xv, "y": yv}
            ref = E.subs({X: sp.Rational(xv), Y: sp.Rational(yv)})
            ref = [float(sp.N(v)) for v in ref] if hasattr(ref, "shape") else [float(sp.N(ref))]
            got = [float(v) for v in f(*[vm[n] for n in names]).full().ravel()]
            run.count("evaluations")
            if len(got) != len(ref) or not all(close(g, r) for g, r in zip(got, ref)):
                cul = "Float" if "Float" in culprit_s2c and any(isinstance(z, sp.Float) for z in sp.preorder_traversal(E)) else name
                run.violation(f"sympy_to_casadi/{cul}/value", f"{E}: converted expression evaluates to a different value",
                              {"extra": name, "x": xv, "y": yv, "expected": ref, "got": got})
                break


def ca_opname(e):
    ca = _W["ca"]
    tab = {getattr(ca, n): n for n in dir(ca) if n.startswith("OP_")}
    return tab.get(e.op(), f"op{e.op()}")


# ------------------------------------------------------------------------------------------
# attribution of failing trees to converter constructs
# ------------------------------------------------------------------------------------------
def fd_cell(rec):
    """position (in the f_dict) of the called name(s)"""
    ks = sorted({n[1] for n in nodes(rec["tree"]) if n[0] == "call"})
    nf = rec["nf"]
    pos = sorted({(k if rec["fd_order"] == "fwd" else nf + 1 - k) for k in ks})
    if len(pos) == 1:
        return ["first", "second", "third"][pos[0] - 1] + "_key"
    return "several_keys"


def attribute(bad):
    """bad: list of failure records -> dict key -> (what, data, count); culprit sets per direction.
    Failing trees are processed smallest first.  A failing tree all of whose proper subtrees are
    leaves names its own construct (a failing constant leaf names the number class); a larger failing
    tree is attributed to a construct already known to fail if it contains one, else it gets a key of
    its own (nested:<root>(<children>))."""
    out = {}
    culprit = {"s2c": set(), "c2s": set()}
    fn = {"s2c": "sympy_to_casadi", "c2s": "casadi_to_sympy"}
    groups = collections.OrderedDict()
    for r in sorted(bad, key=lambda r: (size(r["tree"]), r["variant"] != "lifted", str(r["tree"]), str(r["env"]))):
        groups.setdefault((r["dir"], r["variant"], r["tree"], r["fd_order"], r["cse"]), []).append(r)
    for (d, variant, tree, fd_order, cse), recs in groups.items():
        r = recs[0]
        cons = [construct(n, d, variant) for n in nodes(tree)]
        root = cons[0]
        kids = children(tree)
        if any(n[0] == "call" for n in nodes(tree)) and d == "s2c":
            inner = [c for n, c in zip(nodes(tree), cons) if n[0] != "call" and c in culprit[d]]
            key = f"{fn[d]}/{inner[0]}/value" if inner else f"{fn[d]}/f_dict/{fd_cell(r)}"
        else:
            known = [c for c in cons if c in culprit[d]]
            minimal = all(k[0] in LEAF for k in kids) or (tree[0] == "ite" and all(k[0] in LEAF for k in kids[1:])
                                                           and all(k[0] in LEAF for k in children(kids[0])))
            if cse and not known:
                key = f"{fn[d]}/cse/value"
            elif known:
                key = f"{fn[d]}/{known[0]}/value"
            elif minimal:
                # a failing literal leaf below an operator that is fine in lifted form: the number class
                leafc = [c for n, c in zip(nodes(tree), cons) if n[0] in ("int", "rat", "flt")]
                if variant == "literal" and leafc and size(tree) > 1 and ((d, "lifted", tree) not in {(g[0], g[1], g[2]) for g in groups}):
                    nonint = [c for c in leafc if c != "Integer"]
                    key = f"{fn[d]}/{(nonint or leafc)[0]}/value"
                    culprit[d].add((nonint or leafc)[0])
                else:
                    key = f"{fn[d]}/{root}/value"
                    culprit[d].add(root)
            else:
                key = f"{fn[d]}/nested:{root}({','.join(KIND[k[0]] for k in kids)})/value"
        what = ("converted expression evaluates to a different value than the source"
                if r["error"] is None else f"converted expression cannot be evaluated ({r['error']})")
        o = out.setdefault(key, {"what": what, "data": None, "count": 0})
        o["count"] += len(recs)
        if o["data"] is None:
            o["data"] = {k: r[k] for k in ("dir", "variant", "tree", "nf", "env", "expected", "got", "error", "source",
                                            "converted", "fd_order", "cse", "envs")}
    return out, culprit


# ------------------------------------------------------------------------------------------
def run_chunks(items):
    chunks = [items[i::NPROC * 4] for i in range(NPROC * 4)]
    chunks = [c for c in chunks if c]
    tot = new_res()
    tot["done"] = set()
    if NPROC > 1 and len(items) > 64:
        ctx = mp.get_context("fork")
        with ctx.Pool(NPROC) as pool:
            results = pool.map(work, chunks, chunksize=1)
    else:
        results = [work(c) for c in chunks]
    for r in results:
        tot["counts"].update(r["counts"])
        for k in ("raised", "bad", "selfcheck", "crash", "timeout"):
            tot[k] += r[k]
        if r["slowest"][0] > tot["slowest"][0]:
            tot["slowest"] = r["slowest"]
        tot["done"].update(r["done"])
        tot["maxerr"] = max(tot["maxerr"], r["maxerr"])
    return tot


def leaf_value(l, env=None):
    if l[0] == "int": return Fraction(l[1])
    if l[0] == "rat": return Fraction(l[1], l[2])
    if l[0] == "flt": return Fraction(l[1], 2 ** l[2])
    return frac(env[0]) if l[1] == "x" else frac(env[1])


def check_constants(run, consts):
    """a bare constant must convert EXACTLY (to the nearest double) in both directions, alone and inside a
    product / sum / comparison with a variable: the 1e-9*max(1,|v|) tolerance of the tree comparison would let a
    converter snap 2^-30 to 0 or 1 + 2^-30 to 1 (found by a seeded change)"""
    sp, ca, S = _W["sp"], _W["ca"], _W["sym"]
    if not consts:
        raise MachineryError("vacuous coverage: no constant-fidelity vectors")
    x = ca.SX.sym("x"); X = sp.Symbol("x")
    for tree, exp in consts:
        if exp[0] != "val":
            raise MachineryError(f"constant leaf without exact value: {tree}")
        v = Fraction(exp[1], exp[2]); fv = float(v)
        run.count("evaluations", 6)
        data = {"tree": tree, "exact": [exp[1], exp[2]]}
        # casadi -> sympy
        for name, e, at, want in (("alone", ca.SX(fv), None, v), ("times_x", ca.SX(fv) * x, Fraction(3), 3 * v),
                                  ("x_plus", x + ca.SX(fv), Fraction(0), v)):
            try:
                s = S.casadi_to_sympy(e, {})
                got = Fraction(float(sp.N(sp.sympify(s).subs({sp.Symbol("x"): sp.Rational(at.numerator, at.denominator)}) if at is not None else sp.sympify(s), 30)))
            except Exception as ex:     # noqa
                run.violation("casadi_to_sympy/OP_CONST/raises", f"{type(ex).__name__}: {ex}", data); continue
            if abs(got - Fraction(float(want))) > abs(Fraction(float(want))) * Fraction(1, 10 ** 13):
                run.violation(f"casadi_to_sympy/OP_CONST/exact/{name}", f"constant {fv!r} became {float(got)!r}", dict(data, got=float(got)))
        # sympy -> casadi
        lit = sp.Integer(exp[1]) if exp[2] == 1 else (sp.Float(fv, 17) if tree[0] == "flt" else sp.Rational(exp[1], exp[2]))
        for name, E, at, want in (("alone", lit, None, v), ("times_x", lit * X, Fraction(3), 3 * v), ("x_plus", X + lit, Fraction(0), v)):
            try:
                c, table = S.sympy_to_casadi(E, symbols={})
                names = sorted(table)
                f = ca.Function("f", [table[n] for n in names], [ca.SX(c)])
                got = Fraction(float(f(*[float(at) for _ in names]))) if names else Fraction(float(ca.DM(ca.SX(c))))
            except Exception as ex:     # noqa
                run.violation("sympy_to_casadi/constant/raises", f"{type(ex).__name__}: {ex}", data); continue
            if abs(got - Fraction(float(want))) > abs(Fraction(float(want))) * Fraction(1, 10 ** 13):
                run.violation(f"sympy_to_casadi/constant/exact/{name}", f"constant {fv!r} became {float(got)!r}", dict(data, got=float(got)))


def main():
    tier = sys.argv[1] if len(sys.argv) > 1 else "quick"
    run = Run(PID, tier)
    _init_worker()                                  # import cyecca once; forked workers inherit it
    if "--replay" in sys.argv:
        d = json.load(open(sys.argv[sys.argv.index("--replay") + 1]))["data"]
        tree = totuple(d["tree"])
        if "envs" not in d:                         # matrix / table findings: re-run the small parent-side checks
            cov = collections.Counter()
            check_symbol_tables(run, cov)
            check_extras(run, cov, set())
            return run.finish()
        envs = [(totuple(e), totuple(x)) for e, x in d["envs"]]
        res = new_res(); res["done"] = set()
        if d["dir"] == "s2c":
            check_s2c(tree, d["nf"], envs, d["variant"], d["fd_order"] or "fwd", bool(d["cse"]), res)
        else:
            check_c2s(tree, d["nf"], envs, d["variant"], res)
        for t in res["raised"]:
            print("raised:", t)
        for b in res["bad"]:
            print(f"  {b['dir']} {b['variant']} env={b['env']} expected={b['expected']} got={b['got']} error={b['error']}\n"
                  f"     source={b['source']}\n     converted={b['converted']}")
        out, _ = attribute(res["bad"])
        for key, o in out.items():
            run.viol[key] = o
        return run.finish({"traces_validated_against_impl": len(envs), "evaluations": sum(res["counts"].values())})

    res = run_tlc("Expr.tla", f"Expr_{tier}.cfg", workdir=run.workdir, dump=True)
    run.add_tlc("Expr", res)
    bytree = collections.OrderedDict()
    mats = collections.OrderedDict()
    consts = []
    nstates = 0
    tags = collections.Counter()
    cells = collections.Counter()
    for st in parse_dump(res["dump"]):
        tv = st["tv"]
        if tv["op"] == "seed":
            continue
        nstates += 1
        if tv["op"] == "mat":
            mats.setdefault(tv["tree"], []).append((tv["env"], tv["exp"]))
            continue
        if tv["op"] == "const":
            consts.append((tv["tree"], tv["exp"]))
            continue
        tree = tv["tree"]
        bytree.setdefault((tree, tv["nf"]), []).append((tv["env"], tv["exp"]))
        tags[tv["exp"][0]] += 1
        t = tree[0]
        if t in ("fmod", "rem") and tree[1][0] in LEAF and tree[2][0] in LEAF and tv["exp"][0] == "val":
            a, b = leaf_value(tree[1], tv["env"]), leaf_value(tree[2], tv["env"])
            sg = lambda v: "-" if v < 0 else "+" if v > 0 else "0"
            cells[f"{t}:{sg(a)}{sg(b)}"] += 1
            if t == "rem" and abs(Fraction(tv["exp"][1], tv["exp"][2])) * 2 == abs(b):
                cells["rem:tie"] += 1
            if a.denominator > 1 or b.denominator > 1:
                cells[f"{t}:fractional"] += 1
        if t in ("eq", "ne") and tv["exp"][0] == "val":
            cells[f"{t}:{tv['exp'][1]}"] += 1
        if t == "ite" and tv["exp"][0] == "val":
            cells["ite:val"] += 1
    check_constants(run, consts)
    items = [(i, tree, nf, envs) for i, ((tree, nf), envs) in enumerate(bytree.items())]
    for i in (0, len(items) // 3, 2 * len(items) // 3, len(items) - 1):
        run.sample({"tree": items[i][1], "env": items[i][3][0][0], "exp": items[i][3][0][1]})
    tot = run_chunks(items)
    if tot["crash"]:
        raise MachineryError(f"harness crashed on {len(tot['crash'])} trees; first: {tot['crash'][0]}")
    for tree, phase in tot["timeout"]:
        run.spec_drift(f"harness/timeout/{phase}", f"a tree did not finish within {TREE_TIMEOUT} s (SymPy evaluation); it is not counted as replayed")
    if len(tot["timeout"]) > max(5, len(items) // 1000):
        raise MachineryError(f"{len(tot['timeout'])} trees timed out; first: {tot['timeout'][:5]}")
    if tot["selfcheck"]:
        raise MachineryError(f"binding self-check: the source expression's own value differs from the spec's exact value "
                             f"on {len(tot["selfcheck"])} vectors; first: " + "\n".join(map(str, tot["selfcheck"][:60])))
    run.maxerr = tot["maxerr"]
    for k, v in tot["counts"].items():
        run.count(k, v)
    run.count("evaluations", tot["counts"]["s2c/evaluations"] + tot["counts"]["c2s/evaluations"])

    out, culprit = attribute(tot["bad"])
    for key, o in out.items():
        run.viol[key] = o
    # a construct the converter has a branch for must not raise on well-formed input
    done = set(tot["done"])
    raised_roots = collections.Counter()
    raise_samples = {}
    for d, variant, tree, nf, exc, msg, fd_order, cse, foreign in tot["raised"]:
        fn = "sympy_to_casadi" if d == "s2c" else "casadi_to_sympy"
        raised_roots[(d, tree[0], exc)] += 1
        if d == "s2c" and not foreign:
            run.violation(f"{fn}/{construct(tree, d, variant)}/raises:{exc}", f"accepted construct raises: {msg}",
                          {"dir": d, "variant": variant, "tree": tree, "nf": nf, "fd_order": fd_order, "cse": cse})
        if d == "c2s" and exc != "NotImplementedError":
            # an accidental exception (TypeError from Python/SymPy operators...) still is "raises an error":
            # allowed by the property; reported as information
            run.spec_drift(f"{fn}/rejects/{exc}", "conversion is rejected by an incidental exception rather than NotImplementedError (allowed: it raises)")
            raise_samples.setdefault(exc, (variant, tree, msg))
    cov = collections.Counter()
    check_matrices(run, [(t, e) for t, e in mats.items()], culprit["s2c"], culprit["c2s"], cov)
    check_symbol_tables(run, cov)
    check_extras(run, cov, culprit["c2s"], culprit["s2c"])

    # ---- vacuity control: every grammar construct exercised, in both directions where representable
    roots_done = {(d, v, t[0]) for (d, v, t) in done}
    inner_done = {(d, v, n[0]) for (d, v, t) in done for n in nodes(t) if n is not t}
    need_tags = set(UN) | set(BIN) | {"pow", "ite"} | set(LEAF)
    missing = []
    for v in ("literal", "lifted"):
        for t in need_tags:
            if ("c2s", v, t) not in roots_done:
                missing.append(("c2s", v, t))
            if t not in ("lt", "le", "eq", "ne", "min", "max", "fmod", "rem", "ite") and ("s2c", v, t) not in roots_done:
                missing.append(("s2c", v, t))
        if ("s2c", v, "call") not in roots_done:
            missing.append(("s2c", v, "call"))
    for t in (set(UN) | set(BIN) | {"pow", "ite"}):
        if ("c2s", "lifted", t) not in inner_done:
            missing.append(("c2s-inner", "lifted", t))
    # the unsupported sympy constructs were attempted (converted correctly or raised)
    attempted = {(d, t) for (d, t, _e) in raised_roots} | {(d, t) for (d, _v, t) in roots_done}
    for t in ("lt", "min", "max", "fmod", "ite"):
        if ("s2c", t) not in attempted:
            missing.append(("s2c-attempt", t))
    need_cells = {f"{o}:{s}" for o in ("fmod", "rem") for s in ("++", "+-", "-+", "--", "fractional")} | \
                 {"rem:tie", "eq:0", "eq:1", "ne:0", "ne:1", "ite:val"}
    nfs = {nf for (_t, nf) in bytree}
    ks = {n[1] for (t, _nf) in bytree for n in nodes(t) if n[0] == "call"}
    shapes = {(t[1], t[2]) for t in mats}
    if missing or not need_cells <= set(cells) or not {1, 2, 3} <= nfs or ks != {1, 2, 3} or len(shapes) < 5 \
            or tags["val"] < 1000 or tags["opq"] < 100 or cov["symbol_table_pairs"] < 4:
        raise MachineryError(f"vacuous coverage: missing={missing[:12]} cells={sorted(need_cells - set(cells))} nfs={nfs} ks={ks} "
                             f"shapes={shapes} tags={dict(tags)}")
    ntriv = sum(1 for (t, _nf) in bytree if t[0] not in LEAF and any((d, v, t) in done for d in ("s2c", "c2s") for v in ("literal", "lifted")))
    run.assumptions += [
        "trees: all of depth <= 1 over 11 leaves (incl. 0, 1, -1, 1/2, -7/3, 2.5, 13/128, x, y); depth 2 one-sided nestings over "
        "a 3-leaf set (thorough: 5 leaves, plus both-sided nestings and a thinned depth-3 sample); nothing deeper",
        "environments: x, y in {-5/2, -1, 0, 1/3, 2, 7/2}; validity at other points and for other constants is not decided",
        "opaque results (transcendental nodes, irrational roots) are compared with the source library's own value, not an exact one",
        "a failing tree that contains a construct already known to fail is attributed to that construct (a second defect on the same tree can be masked)",
        "sympy has no IEEE-remainder construct and casadi SX no user-function node: those trees are replayed in one direction only",
    ]
    return run.finish({
        "traces_validated_against_impl": nstates,
        "evaluations": run.counts.get("evaluations", 0),
        "distinct_nontrivial": ntriv,
        "rule": "one TLC state = (tree, environment, exact value); distinct trees replayed once per direction and variant "
                "(literal / lifted constants) for all their environments; non-trivial = distinct non-leaf trees converted in at least one direction",
        "distinct_trees": len(bytree), "result_tags": dict(tags), "cells": dict(cells),
        "raised": {f"{d}/{t}/{e}": n for (d, t, e), n in sorted(raised_roots.items())},
        "timeouts": [list(t) for t in tot["timeout"][:20]], "slowest_tree": list(tot["slowest"]),
        "incidental_exception_samples": {k: list(v) for k, v in raise_samples.items()},
        "parent_side": dict(cov), "exhaustive": True,
    })


if __name__ == "__main__":
    main_wrap(main)
