"""C20 -- the simulation bus (cyecca/sim/uros.py) and the estimator node's scheduling.

Model checking   spec/UrosBus.tla   (AcyclicRelays: every invariant; free: order only unless re-entrant;
                                     free+InOrder: the expected counterexample, classified and
                                     reproduced on the real classes)
                 spec/EstimatorNode.tla
Engine B         tlc -simulate behaviours of UrosBus / EstimatorNode replayed into the real classes
Engine C         randomised wirings / timing patterns run on the real classes, recorded as NDJSON and
                 validated by TLC against spec/UrosBusTrace.tla / spec/EstimatorNodeTrace.tla
Self-test        corrupted / truncated traces must be rejected, known-bad in-memory variants of uros and
                 of the estimator must be flagged (exit 2 otherwise)
"""
from __future__ import annotations

import concurrent.futures as cf
import copy
import glob
import json
import os
import random
import re
import sys
import time

from harness.core import Run, run_tlc, parse_sim_file, main_wrap, MachineryError, _state, SPEC
from harness import uros_rec
from harness.uros_rec import World, Q

PID = "C20"


# ======================================================================================
# small utilities
# ======================================================================================
def norm(x):
    """tuples -> lists recursively (JSON round trip safe comparison)"""
    if isinstance(x, (tuple, list)):
        return [norm(v) for v in x]
    if isinstance(x, dict):
        return {k: norm(v) for k, v in x.items()}
    return x


def parse_error_trace(out: str):
    """states of the counterexample TLC printed on stdout: list of (action, state)"""
    steps = []
    blocks = re.split(r"\nState \d+: ", "\n" + out)
    for b in blocks[1:]:
        head, _, body = b.partition("\n")
        lines = []
        for ln in body.split("\n"):
            if not ln.strip():
                break
            lines.append(ln)
        am = re.match(r"<(\w+)", head)
        steps.append((am.group(1) if am else head.strip(), _state(lines)))
    return steps


def hook_present():
    import cyecca.sim.uros as uros
    return hasattr(uros, "_verif_emit")


# ======================================================================================
# Engine B: a TLC behaviour of UrosBus replayed into the real classes
# ======================================================================================
class Mismatch(Exception):
    def __init__(self, key, what):
        super().__init__(what)
        self.key, self.what = key, what


SCALE = 1      # model ticks -> time quanta (exhaustive configurations count in abstract ticks: LDT0 = 1 <-> 640)


def exec_action(w: World, a: dict):
    """perform the API call of one top-level model action"""
    k = a["a"]
    if k == "CreatePublisher":
        w.create_publisher(a["topic"], a["ty"])
    elif k == "CreateSubscriber":
        w.create_subscriber(a["sub"], a["topic"], a["kind"], a["out"], a["budget"])
    elif k == "DeclareParam":
        w.declare_param(a["p"], a["owner"], a["v"])
    elif k == "CreateLogger":
        w.create_logger()
    elif k == "InitParams":
        w.init_params()
    elif k == "SetParam":
        w.set_param(a["p"], a["v"] * (SCALE if a["p"] == "ldt" else 1))
    elif k == "Run":
        w.run()
    elif k == "PublishBegin":
        w.publish(a["topic"], a["ty"])
    elif k == "LoggerRow":
        n = len(w.rows)
        w.step()
        if len(w.rows) != n + 1:
            raise Mismatch("logger/row/step", f"one simpy step appended {len(w.rows) - n} rows (expected one)")
    else:
        raise MachineryError("engine B cannot execute action " + k)


FIELDS = {"CreatePublisher": ("err",), "CreateSubscriber": ("err",), "DeclareParam": ("err",), "CreateLogger": ("err",),
          "InitParams": (), "SetParam": ("err",), "Run": (), "PublishBegin": ("err",),
          "Deliver": ("topic", "msg", "sub", "depth"), "PublishEnd": ("topic", "msg"), "LoggerRow": ("t_now", "dt")}


def compare_idle(w: World, st: dict):
    """compare the observable state of the real objects with an idle model state"""
    ns = len(st["recv"])
    for s in range(1, ns + 1):
        if list(st["recv"][s - 1]) != w.recv.get(s, []):
            raise Mismatch("bus/recv", f"subscriber {s}: model received {list(st['recv'][s-1])}, real {w.recv.get(s, [])}")
    for t, q in st["lrecv"].items():
        if list(q) != w.lrecv.get(t, []):
            raise Mismatch("bus/logger-recv", f"logger/{t}: model {list(q)}, real {w.lrecv.get(t, [])}")
    if st["locked"] != bool(w.core.pub_sub_locked):
        raise Mismatch("bus/locked", f"model locked={st['locked']}, real {w.core.pub_sub_locked}")
    caches = w.caches()
    sc = lambda p, v: v * SCALE if (p == "ldt" and v >= 0) else v
    for p, v in st["cache"].items():
        v = sc(p, v)
        if v != caches.get(p, -1):
            raise Mismatch("params/cache", f"Param {p}: model {v}, real {caches.get(p, -1)}")
    if st["inited"]:
        core = w.core_params()
        for p, v in st["params"].items():
            v = sc(p, v)
            if v != core.get(p, -1):
                raise Mismatch("params/core", f"core value of {p}: model {v}, real {core.get(p, -1)}")
    if len(st["rows"]) != len(w.rows):
        raise Mismatch("logger/row/count", f"model has {len(st['rows'])} rows, real {len(w.rows)}")
    for k, (mr, rr) in enumerate(zip(st["rows"], w.rows)):
        if mr["t"] * SCALE != rr["t"] or mr["dt"] * SCALE != rr["dt"]:
            raise Mismatch("logger/row/period", f"row {k}: model (t={mr['t']}, dt={mr['dt']}), real (t={rr['t']}, dt={rr['dt']})")
        for t, mid in rr["latest"].items():
            if mr["latest"][t] != mid:
                raise Mismatch("logger/row/latest", f"row {k} topic {t}: model {mr['latest'][t]}, real {mid}")
        for p, v in rr["lpar"].items():
            if sc(p, mr["lpar"].get(p, -1)) != v and rr["hl"].get("params", -1) != -1:
                raise Mismatch("logger/row/params", f"row {k} param {p}: model {mr['lpar'].get(p)}, real {v}")
    if st["now"] * SCALE != w.now() and st["rows"]:
        raise Mismatch("time/now", f"model now={st['now']}, real {w.now()}")


def replay_behaviour(steps, stats=None):
    """steps: list of (action_name, state) from TLC.  Returns (problems, world summary).
    problems = list of (key, what)."""
    w = World()
    probs = []
    i = 0           # next unconsumed recorded event
    try:
        for name, st in steps[1:]:
            a = st["act"]
            k = a["a"]
            if k not in ("Deliver", "PublishEnd"):
                if i != len(w.ev):
                    raise Mismatch("bus/sync", f"model starts {k} while the real call still has undelivered events {w.ev[i:i+3]}")
                exec_action(w, a)
                if w.callback_error:
                    raise Mismatch("bus/callback-exception", w.callback_error)
            while i < len(w.ev) and w.ev[i]["a"] == "Nested":
                i += 1          # the model's Deliver already pushed the relay's frame
            if i >= len(w.ev):
                raise Mismatch(f"bus/{k}/missing", f"model step {a} has no counterpart in the real execution")
            e = w.ev[i]
            i += 1
            if e["a"] != k:
                raise Mismatch(f"bus/{k}/event", f"model step {a}, real event {e}")
            for f in FIELDS[k]:
                if e.get(f) != (a.get(f) * SCALE if f in ("t_now", "dt") else a.get(f)):
                    key = "publish/wrong-type/accepted" if (k == "PublishBegin" and a["err"] == "type") else f"bus/{k}/{f}"
                    raise Mismatch(key, f"model {a}, real {e}")
            if stats is not None:
                stats[k + ("" if a.get("err", "ok") == "ok" else "/" + a["err"])] = stats.get(k + ("" if a.get("err", "ok") == "ok" else "/" + a["err"]), 0) + 1
            if not st["stack"]:
                while i < len(w.ev) and w.ev[i]["a"] == "Nested":
                    i += 1
                if i != len(w.ev):
                    raise Mismatch("bus/sync", f"model is idle, real execution has further events {w.ev[i:i+3]}")
                compare_idle(w, st)
                probs += w.check_props()
                if probs:
                    break
        if not probs:       # the real calls are atomic: the world is idle even if the behaviour stops mid fan-out
            probs += w.check_props() + w.final_log_check()
    except Exception as ex:     # noqa: the real classes raised where the model allows the action (the expected refusals are handled by World._try)
        if isinstance(ex, Mismatch):
            probs.append((ex.key, ex.what))
        else:
            probs.append((f"bus/raises/{type(ex).__name__}", f"the real uros classes raised on an action the model allows: {str(ex)[:300]}"))
        try:                # the real calls are atomic, so the world is idle: what the property itself says about it
            probs += [p for p in w.check_props() if p not in probs]
        except Exception:   # noqa
            pass
    finally:
        w.close()
    return probs, {"events": len(w.ev), "reent": w.reent, "rows": len(w.rows), "nmsg": w.nmsg}


def acts_of(steps):
    return [norm(st["act"]) for _, st in steps[1:]]


# ======================================================================================
# Engine C: randomised wirings on the real classes -> NDJSON -> TLC (UrosBusTrace)
# ======================================================================================
TOPICS = ["a", "b", "c"]
PARAMS = ["p1", "p2", "p3"]
PROCS = ["p1", "p2", "p3"]
TICK = 125            # 2**-10 s in quanta: dyadic, sums of floats are exact


def random_world(rng: random.Random, acyclic: bool, mutate=None):
    """build and run one random wiring; returns the World (closed)"""
    w = World()
    if mutate:
        mutate(w)
    try:
        topics = rng.sample(TOPICS, rng.randint(1, 3))
        types = {t: rng.choice(["A", "B"]) for t in topics}
        early = rng.random() < 0.3
        for t in topics:
            w.create_publisher(t, types[t])
            if rng.random() < 0.1:
                w.create_publisher(t, types[t])           # duplicate: rejected
        if early and topics:
            w.publish(rng.choice(topics), types[topics[0]] if rng.random() < 0.5 else "X")   # before anyone listens
        nsub = rng.randint(1, 5)
        followers = []
        edges = set()

        def reach(src, dst):
            seen, todo = set(), [src]
            while todo:
                x = todo.pop()
                for (u, v) in edges:
                    if u == x and v not in seen:
                        seen.add(v)
                        todo.append(v)
            return dst in seen
        for s in range(1, nsub + 1):
            kind = rng.choice(["sink", "sink", "relay", "relay", "follower"])
            if kind == "follower":
                w.create_subscriber(s, "params", "follower")
                followers.append(s)
            elif kind == "relay":
                t, o = rng.choice(topics), rng.choice(topics)
                if acyclic and (t == o or reach(o, t)):
                    w.create_subscriber(s, t, "sink")
                else:
                    edges.add((t, o))
                    w.create_subscriber(s, t, "relay", o, rng.choice([1, 2, 3, 50]))
            else:
                w.create_subscriber(s, rng.choice(topics + ["params"]), "sink")
        for p in rng.sample(PARAMS, rng.randint(0, 3)):
            w.declare_param(p, rng.choice(followers) if followers and rng.random() < 0.8 else -2, rng.randint(1, 5))
        if rng.random() < 0.15:
            w.set_param("p1", 7)                           # before init: rejected
        has_logger = rng.random() < 0.8
        if has_logger:
            w.create_logger()
            # post-lock attempts: all rejected
            for _ in range(rng.randint(0, 2)):
                c = rng.randint(0, 3)
                if c == 0:
                    w.create_publisher("c" if "c" not in topics else "a", "A")
                elif c == 1:
                    w.create_subscriber(nsub + 1, rng.choice(topics), "sink")
                elif c == 2:
                    w.declare_param("p3", -2, 1)
                else:
                    w.create_logger()
        if rng.random() < 0.7:
            w.init_params()
        if w.inited:
            for _ in range(rng.randint(0, 2)):
                p = rng.choice(list(w.param) or ["p1"])
                w.set_param(uros_rec.mname(p), TICK * rng.choice([1, 2, 4]) if p == uros_rec.LDT else rng.randint(1, 9))
                w.obs()
        # processes: dyadic periods, equal offsets (simultaneous events), bursts (delay 0), irregular rates
        horizon = TICK * rng.choice([8, 16, 24])
        for name in rng.sample(PROCS, rng.randint(0, 3)):
            off = TICK * rng.choice([0, 0, 1, 2])
            base = TICK * rng.choice([1, 2, 4])
            script, t = [], off
            while t <= horizon and len(script) < 40:
                r = rng.random()
                d = 0 if r < 0.15 else (base if r < 0.8 else TICK * rng.choice([1, 3, 5]))
                c = rng.random()
                if c < 0.12 and w.param:
                    p = rng.choice(list(w.param))
                    cmd = ("set", uros_rec.mname(p), TICK * rng.choice([1, 2, 4]) if p == uros_rec.LDT else rng.randint(1, 9))
                elif c < 0.17:
                    cmd = ("nop",)
                else:
                    cmd = ("pub", rng.choice(topics))
                script.append((cmd, d))
                t += d
            w.start_proc(name, off, script)
        w.run()
        w.obs()
        if rng.random() < 0.5 and topics:
            w.publish(rng.choice(topics), rng.choice(["A", "B", "X"]))       # direct publishes, right or wrong type
        w.run_until(horizon + 1)
        w.obs()
    finally:
        w.close()
    return w


def write_traces(path, worlds, header=None):
    with open(path, "w") as f:
        f.write(json.dumps(header or {"a": "Header", "topics": TOPICS, "params": PARAMS, "procs": PROCS, "ns": 6}) + "\n")
        for tid, evs in worlds:
            f.write(json.dumps({"a": "Begin", "tid": tid, "n": len(evs)}) + "\n")
            for e in evs:
                e = {k: v for k, v in e.items() if k != "exc"}
                f.write(json.dumps(e) + "\n")


CLAUSE = {
    "Deliver": "Deliver: (topic, msg, sub, depth) is not the next delivery of the innermost fan-out",
    "PublishEnd": "PublishEnd: the innermost publish returned before every subscriber was served (or a different one ended)",
    "PublishBegin": "PublishBegin: outcome (accepted / rejected by type) or message id differs",
    "Nested": "Nested: a callback published although the model's node would not (or another message)",
    "LoggerRow": "LoggerRow: time, period or row content (latest message per topic, parameter copy) differs",
    "Obs": "Obs: a node-local parameter cache differs from the model after the broadcast",
    "Wake": "Wake: a process ran at a time that is not its due time / not the earliest due time",
    "SetParam": "SetParam: outcome differs", "Run": "Run: not enabled", "InitParams": "InitParams: not enabled",
}


def tlc_trace(spec, cfg, workdir, trace_file, tag):
    """single-worker TLC run of a *Trace spec (run_tlc treats a false POSTCONDITION as tool failure)"""
    import subprocess
    from harness.core import JAR, _re_states, _re_depth
    meta = os.path.join(workdir, "meta_trace_" + tag)
    os.makedirs(meta, exist_ok=True)
    cmd = ["java", "-XX:+UseSerialGC", "-Xmx4g", "-Xss64m", "-cp", JAR, "tlc2.TLC", "-metadir", meta, "-noGenerateSpecTE",
           "-config", os.path.join(SPEC, cfg), "-workers", "1", os.path.join(SPEC, spec)]
    t0 = time.time()
    env = dict(os.environ)
    env["TRACE_FILE"] = trace_file
    try:
        p = subprocess.run(cmd, capture_output=True, text=True, timeout=3000, env=env, cwd=SPEC)
    except subprocess.TimeoutExpired as ex:
        raise MachineryError(f"TLC timeout on {spec}") from ex
    out = p.stdout + p.stderr
    res = {"out": out, "wall_s": time.time() - t0, "rc": p.returncode}
    m = None
    for m in _re_states.finditer(out):
        pass
    if m:
        res["states"], res["distinct"] = int(m.group(1)), int(m.group(2))
    md = _re_depth.search(out)
    res["depth"] = int(md.group(1)) if md else 0
    if "states generated" not in out or "Finished in" not in out:
        raise MachineryError(f"TLC failed on {spec}:\n" + "\n".join(out.splitlines()[-40:]))
    bad = [ln for ln in out.splitlines() if ln.startswith("Error:") and "Postcondition" not in ln
           and "is violated" not in ln and "behavior up to this point" not in ln]
    if bad:
        raise MachineryError(f"TLC error on {spec}: {bad[:3]}\n" + "\n".join(out.splitlines()[-30:]))
    return res


def validate_traces(run, spec, cfg, worlds, name, header=None):
    """worlds: list of (tid, events).  Returns dict tid -> (line_in_trace, event) of rejected traces.
    An invariant violation inside TLC is returned as {"invariant": name, "tid": ...}."""
    path = os.path.join(run.workdir, f"{name}.ndjson")
    write_traces(path, worlds, header)
    res = tlc_trace(spec, cfg, run.workdir, path, name)
    out = res["out"]
    rejected = {}
    by_tid = dict(worlds)
    for m in re.finditer(r'<<"REJECT", (\d+), (\d+), (\d+)>>', out):
        tid, rel = int(m.group(1)), int(m.group(2))
        evs = by_tid[tid]
        rejected[tid] = (rel, evs[rel - 1] if 0 < rel <= len(evs) else None)
    inv = None
    mi = re.search(r"Error: Invariant (\w+) is violated|Error: Action property (\w+) is violated", out)
    if mi:
        st = parse_error_trace(out)
        inv = {"invariant": mi.group(1) or mi.group(2), "tid": st[-1][1].get("tid") if st else None,
               "line": (st[-1][1].get("l") if st else None)}
    return res, rejected, inv


# ======================================================================================
# the re-entrancy finding: classify TLC's counterexample, reproduce it on the real classes
# ======================================================================================
def classify_history(steps):
    """re-entrant on the same topic <=> some publish happened on a topic with a frame on the stack"""
    return "reentrant-same-topic" if steps[-1][1]["reent"] else "non-reentrant"


def scripted_two_topic():
    """the cyclic wiring of DESIGN section 10, run on the real classes"""
    w = World()
    try:
        w.create_publisher("a", "A"); w.create_publisher("b", "A")
        w.create_subscriber(1, "b", "relay", "a", 1)
        w.create_subscriber(2, "a", "relay", "b", 1)
        w.create_subscriber(3, "b", "sink")
        w.publish("b", "A")
        return w.check_props(), w.recv[3], w.reent
    finally:
        w.close()


# ======================================================================================
# estimator node
# ======================================================================================
class Proxy:
    """proxy `eqs` dictionary: logs which equations ran and with which dt"""
    def __init__(self):
        import numpy as np
        self.np = np
        self.calls = []
        self.init_ok = True
        # the node unpacks as many results as the shipped equations return: results appended to a function of the
        # equation set (a gain, a diagnostic) are padded with zeros here
        self.n_out = {}
        try:
            import io, contextlib
            with contextlib.redirect_stdout(io.StringIO()):
                from cyecca.estimate.attitude import algorithms
                real = algorithms.eqs()["mrp"]
            self.n_out = {k: f.n_out() for k, f in real.items()}
        except Exception:       # noqa
            pass

    def _pad(self, name, tup):
        n = self.n_out.get(name, len(tup))
        return tuple(tup) + tuple(0.0 for _ in range(max(0, n - len(tup))))

    def eqs(self):
        np = self.np
        x = np.zeros(6)
        W = np.eye(6)

        def constants():
            return {"x0": x.copy(), "W0": W.copy()}

        def initialize(g, b, decl):
            self.calls.append(("initialize",))
            return self._pad("initialize", (x.copy(), 0 if self.init_ok else 1))

        def predict(t, x_, W_, om, sg, sn, dt):
            self.calls.append(("predict", float(dt)))
            return self._pad("predict", (x_, W_))

        def get_state(x_):
            self.calls.append(("get_state",))
            return self._pad("get_state", (np.array([1.0, 0, 0, 0]), np.zeros(3), np.zeros(3)))

        def correct_accel(*a):
            self.calls.append(("correct_accel",))
            return self._pad("correct_accel", (a[0], a[1], 0.0, np.zeros(2), np.ones(2), 0))

        def correct_mag(*a):
            self.calls.append(("correct_mag",))
            return self._pad("correct_mag", (a[0], a[1], 0.0, np.zeros(1), np.ones(1), 0))
        return {"constants": constants, "initialize": initialize, "predict": predict, "get_state": get_state,
                "correct_accel": correct_accel, "correct_mag": correct_mag}


class EstWorld:
    """the real AttitudeEstimator on a real Core, fed with chosen time stamps"""
    def __init__(self, start_init: bool, est_cls=None):
        import io
        import contextlib
        import cyecca.sim.uros as uros
        import cyecca.sim.msgs as msgs
        from cyecca.estimate.attitude.estimator import AttitudeEstimator
        self.msgs = msgs
        self.proxy = Proxy()
        self.core = uros.Core()
        self.pub_imu = uros.Publisher(self.core, "imu", msgs.Imu)
        self.pub_mag = uros.Publisher(self.core, "mag", msgs.Mag)
        self.est = (est_cls or AttitudeEstimator)(self.core, "e", self.proxy.eqs(), not start_init)
        self.out = []
        uros.Subscriber(self.core, "e_attitude", msgs.Attitude, lambda m: self.out.append(("att", float(m.data["time"]))))
        uros.Subscriber(self.core, "e_status", msgs.EstimatorStatus, lambda m: self.out.append(("status", float(m.data["time"]))))
        self.core.init_params()
        self.sink = io.StringIO()
        self.ctx = contextlib.redirect_stdout(self.sink)
        self.ev = []
        self.pa = self.pm = None          # time (us) of the previous accel / mag correction
        self.dma = self.dmm = 5000

    def params(self, da, dm):
        self.core.set_param("e/dt_min_accel", da * 1e-6)
        self.core.set_param("e/dt_min_mag", dm * 1e-6)
        self.dma, self.dmm = da, dm
        self.ev.append({"a": "params", "dma": da, "dmm": dm})

    def imu(self, t_us, ok=True):
        m = self.msgs.Imu()
        m.data["time"] = t_us * 1e-6
        m.data["gyro"] = 0.0
        m.data["accel"] = [0, 0, 9.8]
        self.proxy.init_ok = ok
        self.proxy.calls.clear()
        self.out.clear()
        with self.ctx:
            self.pub_imu.publish(m)
        c = [x[0] for x in self.proxy.calls]
        dts = [x[1] for x in self.proxy.calls if x[0] == "predict"]
        e = {"a": "imu", "t": t_us, "ok": 1 if ok else 0, "init": c.count("initialize"), "predict": c.count("predict"),
             "acc": c.count("correct_accel"), "dt": int(round(dts[0] * 1e6)) if dts else 0, "dt_pos": 1 if (dts and dts[0] > 0) else 0,
             "pub": len(self.out), "initialized": 1 if self.est.initialized else 0, "order": c}
        self.ev.append(e)
        return e

    def mag(self, t_us):
        m = self.msgs.Mag()
        m.data["time"] = t_us * 1e-6
        m.data["mag"] = [0.2, 0, 0.4]
        self.proxy.calls.clear()
        with self.ctx:
            self.pub_mag.publish(m)
        c = [x[0] for x in self.proxy.calls]
        e = {"a": "mag", "t": t_us, "corr": c.count("correct_mag"), "other": len(c) - c.count("correct_mag")}
        self.ev.append(e)
        return e


def est_props(events):
    """the second sentence of C20 evaluated directly on an observed decision sequence"""
    out = []
    pa = pm = None
    dma = dmm = 5000
    for k, e in enumerate(events):
        if e["a"] == "params":
            dma, dmm = e["dma"], e["dmm"]
        elif e["a"] == "imu":
            if e["predict"] and not e["dt_pos"]:
                out.append(("estimator/predict/dt<=0", f"event {k}: predict ran with dt={e['dt']} us"))
            if e["predict"] > 1 or e["acc"] > 1:
                out.append(("estimator/predict/twice", f"event {k}: {e['order']}"))
            if e["acc"]:
                if pa is not None and e["t"] - pa < dma - 1000 - 1:
                    out.append(("estimator/accel/rate", f"event {k}: accel corrections at {pa} and {e['t']} us, dt_min_accel={dma} us"))
                pa = e["t"]
        elif e["a"] == "mag":
            if e["corr"]:
                if pm is not None and e["t"] - pm < dmm - 1000 - 1:
                    out.append(("estimator/mag/rate", f"event {k}: mag corrections at {pm} and {e['t']} us, dt_min_mag={dmm} us"))
                pm = e["t"]
    return out


def replay_est_behaviour(steps, est_cls=None):
    """engine B for EstimatorNode: TLC's inputs into the real node, decisions compared (implementation-shaped
    => SPEC-DRIFT only) and the property evaluated on what the node really did (=> violations)"""
    w = EstWorld(steps[0][1]["initialized"], est_cls)
    drift = []
    for name, st in steps[1:]:
        d = st["dec"]
        if d["a"] == "params":
            w.params(d["dma"], d["dmm"])
        elif d["a"] == "imu":
            ok = d["d"] != "init-fail"
            e = w.imu(d["t"], ok)
            exp_init = 1 if d["d"] in ("init-ok", "init-fail") else 0
            if (e["init"], e["predict"], e["acc"]) != (exp_init, d["predict"], d["acc"]) or \
               (d["predict"] and e["dt"] != d["dt"]) or e["initialized"] != (1 if st["initialized"] else 0) or \
               e["pub"] != (2 if d["predict"] else 0):
                drift.append((f"estimator/imu/{d['d']}", f"model {d}, real {e}"))
        elif d["a"] == "mag":
            e = w.mag(d["t"])
            if e["corr"] != d["corr"] or e["other"]:
                drift.append((f"estimator/mag/{d['d']}", f"model {d}, real {e}"))
    return est_props(w.ev), drift, w.ev


def random_est_trace(rng: random.Random, est_cls=None):
    """engine C for the estimator: seeded timing patterns incl. duplicates, non-increasing stamps, bursts"""
    w = EstWorld(rng.random() < 0.3, est_cls)
    t = 0
    n = rng.randint(20, 60)
    mode = rng.choice(["nominal", "burst", "jitter", "backwards"])
    for _ in range(n):
        r = rng.random()
        if r < 0.08:
            w.params(rng.choice([0, 1000, 2000, 5000, 10000, 20000]), rng.choice([0, 2000, 5000, 20000]))
            continue
        if mode == "nominal":
            t += rng.choice([2500, 5000])
        elif mode == "burst":
            t += rng.choice([0, 0, 250, 500, 5000])
        elif mode == "jitter":
            t += rng.choice([1000, 3000, 3999, 4000, 4001, 4500, 5000, 9000])
        else:
            t += rng.choice([-5000, -1, 0, 1, 2500, 4000, 5000, 6000])
        if rng.random() < 0.3:
            w.mag(t)
        else:
            w.imu(t, ok=rng.random() < 0.85)
    return w.ev


# ======================================================================================
# in-memory mutants (self-test of the binding)
# ======================================================================================
def mutant_fanout_first_only(w: World):
    """Publisher.publish that stops after the first subscriber"""
    def bad(self, msg):
        if not isinstance(msg, self.msg_type):
            raise ValueError("type")
        for s in self.core._subscribers.get(self.topic, [])[:1]:
            s.callback(msg)
    uros_rec.MUTANT_PUBLISH = bad


def mutant_no_typecheck(w: World):
    def bad(self, msg):
        for s in self.core._subscribers.get(self.topic, []):
            s.callback(msg)
    uros_rec.MUTANT_PUBLISH = bad


def mutant_logger_nocopy(w: World):
    """uros without deep copies: logger rows alias the live `data_latest` record"""
    import types
    w._saved_copy = w.uros.copy
    w.uros.copy = types.SimpleNamespace(deepcopy=lambda x: x)


def restore_mutant(w):
    uros_rec.MUTANT_PUBLISH = None
    if hasattr(w, "_saved_copy"):
        w.uros.copy = w._saved_copy


def make_bad_estimator():
    """AttitudeEstimator subclass whose imu_callback lacks the dt <= 0 guard (source-level mutation of the
    real method, compiled in this process only)"""
    import inspect
    import textwrap
    from cyecca.estimate.attitude import estimator as em
    src = textwrap.dedent(inspect.getsource(em.AttitudeEstimator.imu_callback))
    if "if dt <= 0:" not in src:
        return None         # the method was restructured: this sensitivity self-test cannot be built (not a verdict, not a failure)
    bad = src.replace("if dt <= 0:", "if False:")
    ns = {}
    exec(compile(bad, "<mutant imu_callback>", "exec"), vars(em).copy(), ns)
    return type("BadEstimator", (em.AttitudeEstimator,), {"imu_callback": ns["imu_callback"]})


def make_bad_rate_estimator():
    """rate limit compared against the imu time stamp instead of the last accel correction"""
    import inspect
    import textwrap
    from cyecca.estimate.attitude import estimator as em
    src = textwrap.dedent(inspect.getsource(em.AttitudeEstimator.imu_callback))
    if "if t - self.t_last_accel >=" not in src:
        return None
    bad = src.replace("if t - self.t_last_accel >=", "if t - (t - 1.0) >=")
    ns = {}
    exec(compile(bad, "<mutant imu_callback>", "exec"), vars(em).copy(), ns)
    return type("BadRateEstimator", (em.AttitudeEstimator,), {"imu_callback": ns["imu_callback"]})


# ======================================================================================
# main
# ======================================================================================
TIERS = {
    "quick":    dict(sim_num=12, sim_depth=70, est_num=10, est_depth=60, traces=60, est_traces=60, mc="quick"),
    "thorough": dict(sim_num=220, sim_depth=90, est_num=100, est_depth=80, traces=1500, est_traces=1500, mc="thorough"),
}


def report(run, probs, data, prefix=""):
    seen = set()
    for key, what in probs:
        if key in seen:
            continue
        seen.add(key)
        run.violation(prefix + key, what, data)


def model_checking(run, tier):
    """all exhaustive TLC runs, side by side"""
    mc = TIERS[tier]["mc"]
    jobs = {
        "UrosBus/AcyclicRelays": ("UrosBusMC.tla", f"UrosBus_acyclic_{mc}.cfg", False),
        "UrosBus/free(order unless re-entrant)": ("UrosBusMC.tla", f"UrosBus_free_{mc}.cfg", False),
        "UrosBus/free+InOrder(counterexample)": ("UrosBusMC.tla", "UrosBus_free_order.cfg", True),
        "EstimatorNode": ("EstimatorNode.tla", f"EstimatorNode_{mc}.cfg", False),
    }
    if tier == "thorough":
        # liveness under fairness, no state constraint, no VIEW (spec/UrosBusLive.tla): a design-level
        # statement (every publish returns, every owed message arrives, time is not Zeno, rows keep
        # coming); it has no code binding of its own, so a failure is a machinery error, not a verdict
        jobs["UrosBusLive/fairness"] = ("UrosBusLive.tla", "UrosBusLive.cfg", False)
    res = {}
    with cf.ThreadPoolExecutor(len(jobs)) as ex:
        futs = {name: ex.submit(run_tlc, spec, cfg, workdir=run.workdir, workers=8, allow_violation=allow, timeout=3000)
                for name, (spec, cfg, allow) in jobs.items()}
        for name, f in futs.items():
            res[name] = f.result()
            run.add_tlc(name, res[name])
    return res


def reentrancy_finding(run, res):
    r = res["UrosBus/free+InOrder(counterexample)"]
    if r["violated"] != "InOrder":
        raise MachineryError("the unrestricted configuration no longer violates InOrder: expected counterexample missing "
                             f"(violated={r['violated']})")
    steps = parse_error_trace(r["out"])
    if len(steps) < 3:
        raise MachineryError("could not parse TLC's counterexample")
    cls = classify_history(steps)
    global SCALE
    SCALE = 640
    try:
        probs, info = replay_behaviour(steps)
    finally:
        SCALE = 1
    keys = {k for k, _ in probs}
    data = {"engine": "B", "steps": norm(steps), "classification": cls, "script": uros_rec.REENTRANT_SCRIPT}
    run.sample({"counterexample_actions": acts_of(steps), "classification": cls, "real_uros": probs[:2]})
    if cls != "reentrant-same-topic":
        run.violation("publish/order/" + cls, "TLC found an order violation on a history that is NOT re-entrant on the same topic", data)
    if not any(k.startswith("publish/order/") for k in keys):
        # the real bus no longer follows the model on TLC's counterexample.  The verdict comes from the property
        # (World.check_props: exactly once, to the right nodes, in order); a different event SHAPE alone (e.g. a
        # queued delivery that repairs the order) is an implementation detail
        prop = [(k, wh) for k, wh in probs if k.split("/")[0] in ("publish", "params", "logger")]
        if prop:
            report(run, prop, data, prefix="reentrant/")
        else:
            run.spec_drift("reentrant/replay", f"TLC's InOrder counterexample no longer reproduces on the real uros classes: {probs[:2]}")
    else:
        report(run, probs, data)
    # the two-topic cyclic wiring of the design document as a fixed script
    p2, got, reent = scripted_two_topic()
    if sorted(got) != [1, 3]:
        run.violation("reentrant/publish/exactly-once/script", f"cyclic two-topic wiring: the sink is owed messages 1 and 3 of topic b, it received {got}",
                      {"engine": "script", "script": uros_rec.REENTRANT_SCRIPT, "received": got, "problems": [list(x) for x in p2[:3]]})
    elif got != [3, 1] or not reent:
        run.spec_drift("reentrant/script", f"scripted cyclic wiring no longer shows the known order inversion: {got} {p2}")
    report(run, p2, {"engine": "script", "script": uros_rec.REENTRANT_SCRIPT})
    run.count("reentrant_reproductions", 2)


def _sim_counts(res):
    m = re.search(r"number of states generated: (\d+)", res["out"])
    if m:
        res["states"], res["distinct"] = int(m.group(1)), 0      # random walks: transitions, not distinct states


def engine_b_bus(run, tier, seed):
    T = TIERS[tier]
    prefix = os.path.join(run.workdir, "simb")
    res = run_tlc("UrosBusMC.tla", "UrosBus_sim.cfg", workdir=run.workdir, simulate=f"file={prefix},num={T['sim_num']}",
                  depth=T["sim_depth"], seed=seed, timeout=1200)
    _sim_counts(res)
    run.add_tlc("UrosBus/simulate", res)
    stats = {}
    n = 0
    for f in sorted(glob.glob(prefix + "_*")):
        steps = parse_sim_file(f)
        if len(steps) < 2:
            continue
        probs, info = replay_behaviour(steps, stats)
        n += 1
        run.count("engineB_events", info["events"])
        run.count("engineB_reentrant_behaviours", 1 if info["reent"] else 0)
        if probs:
            report(run, probs, {"engine": "B", "steps": norm(steps)})
        if n % 97 == 1:
            run.sample({"engineB_behaviour": acts_of(steps)[:12], "events": info["events"]})
    need = ["CreatePublisher", "CreatePublisher/dup", "CreatePublisher/locked", "CreateSubscriber", "CreateSubscriber/locked",
            "DeclareParam", "CreateLogger", "InitParams", "SetParam", "SetParam/noinit", "Run", "PublishBegin",
            "PublishBegin/type", "Deliver", "PublishEnd", "LoggerRow"]
    missing = [k for k in need if not stats.get(k)]
    if missing:
        raise MachineryError(f"engine B: vacuous coverage, actions never replayed: {missing}")
    return n, stats


def engine_b_est(run, tier, seed):
    T = TIERS[tier]
    prefix = os.path.join(run.workdir, "sime")
    res = run_tlc("EstimatorNode.tla", "EstimatorNode_sim.cfg", workdir=run.workdir,
                  simulate=f"file={prefix},num={T['est_num']}", depth=T["est_depth"], seed=seed, timeout=1200)
    _sim_counts(res)
    run.add_tlc("EstimatorNode/simulate", res)
    n = 0
    cells = {}
    for f in sorted(glob.glob(prefix + "_*")):
        steps = parse_sim_file(f)
        if len(steps) < 2:
            continue
        probs, drift, ev = replay_est_behaviour(steps)
        n += 1
        for _, st in steps[1:]:
            d = st["dec"]
            c = d["a"] + "/" + str(d.get("d", "")) + ("/acc" if d.get("acc") else "")
            cells[c] = cells.get(c, 0) + 1
        report(run, probs, {"engine": "B-est", "steps": norm(steps)})
        for k, wht in drift[:3]:
            run.spec_drift(k, wht[:300])
        if n % 97 == 1:
            run.sample({"estimator_behaviour": [st["dec"] for _, st in steps[1:8]]})
    need = ["imu/skip-uninit", "imu/init-ok", "imu/init-fail", "imu/skip-dt", "imu/predict", "imu/predict/acc",
            "mag/skip-uninit", "mag/skip-rate", "mag/correct", "params/"]
    missing = [k for k in need if not cells.get(k)]
    if missing:
        raise MachineryError(f"engine B (estimator): decision cells never reached: {missing}")
    return n, cells


def engine_c_bus(run, tier, seed):
    T = TIERS[tier]
    rng = random.Random(seed * 7919 + 17)
    worlds = []
    meta = {}
    for tid in range(1, T["traces"] + 1):
        s = rng.getrandbits(32)
        acyc = rng.random() < 0.6
        w = random_world(random.Random(s), acyc)
        if w.callback_error:
            raise MachineryError(f"engine C: a harness callback raised: {w.callback_error}")
        probs = w.check_props() + w.final_log_check()
        report(run, probs, {"engine": "C", "wiring_seed": s, "acyclic": acyc, "events": w.ev[:400]})
        if acyc and w.reent:
            raise MachineryError("engine C: acyclic wiring turned out re-entrant")
        worlds.append((tid, w.ev))
        meta[tid] = (s, acyc, w.reent)
        run.count("engineC_events", len(w.ev))
        run.count("engineC_reentrant_traces", 1 if w.reent else 0)
        run.count("engineC_rows", len(w.rows))
    kinds = {}
    for _, evs in worlds:
        for e in evs:
            k = e["a"] + ("" if e.get("err", "ok") == "ok" else "/" + e["err"]) + ("/" + e["k"] if e["a"] == "Wake" else "")
            kinds[k] = kinds.get(k, 0) + 1
    need = ["Wake/pub", "Wake/set", "Wake/nop", "StartProc", "LoggerRow", "Nested", "Deliver", "PublishEnd", "SetParam", "Obs", "Run",
            "PublishBegin", "PublishBegin/type", "CreateLogger", "CreatePublisher/locked", "CreateSubscriber/locked", "SetParam/noinit"]
    missing = [k for k in need if not kinds.get(k)]
    if missing:
        raise MachineryError(f"engine C: vacuous coverage, event kinds never recorded: {missing}")
    run.cov["engineC_event_kinds"] = kinds
    nval = 0
    shards = [worlds[i::4] for i in range(4)] if len(worlds) > 200 else [worlds]
    with cf.ThreadPoolExecutor(len(shards)) as ex:
        futs = [ex.submit(validate_traces, run, "UrosBusTrace.tla", "UrosBusTrace.cfg", sh, f"bus{i}") for i, sh in enumerate(shards)]
        outs = [f.result() for f in futs]
    for (res, rejected, inv), sh in zip(outs, shards):
        run.add_tlc("UrosBusTrace", res)
        if inv:
            s, acyc, reent = meta.get(inv["tid"], (None, None, None))
            run.violation(f"trace/invariant/{inv['invariant']}", f"real execution (wiring seed {s}) violates {inv['invariant']} at trace line {inv['line']}",
                          {"engine": "C", "wiring_seed": s, "acyclic": acyc})
        for tid, (line, e) in rejected.items():
            s, acyc, reent = meta[tid]
            a = e["a"] if e else "end"
            run.violation(f"trace/rejected/{a}", f"trace of wiring seed {s} rejected at line {line}: {e}; clause: {CLAUSE.get(a, a)}",
                          {"engine": "C", "wiring_seed": s, "acyclic": acyc, "line": line, "event": e})
        nval += len(sh) - len(rejected) - (1 if inv else 0)
    run.sample({"engineC_trace_head": worlds[0][1][:10]})
    return nval


def write_est_traces(path, traces):
    with open(path, "w") as f:
        f.write(json.dumps({"a": "Header"}) + "\n")
        for tid, start, evs in traces:
            f.write(json.dumps({"a": "Begin", "tid": tid, "n": len(evs), "start": 1 if start else 0}) + "\n")
            for e in evs:
                f.write(json.dumps({k: v for k, v in e.items() if k != "order"}) + "\n")


def engine_c_est(run, tier, seed, est_cls=None, name="est"):
    T = TIERS[tier]
    rng = random.Random(seed * 104729 + 3)
    traces = []
    for tid in range(1, T["est_traces"] + 1):
        r = random.Random(rng.getrandbits(32))
        start = r.random() < 0.3
        # random_est_trace draws its own start flag: keep both in sync by re-seeding
        w_ev = _est_trace(r, start, est_cls)
        report(run, est_props(w_ev), {"engine": "C-est", "events": w_ev})
        traces.append((tid, start, w_ev))
        run.count("estimator_events", len(w_ev))
    path = os.path.join(run.workdir, name + ".ndjson")
    write_est_traces(path, traces)
    res = tlc_trace("EstimatorNodeTrace.tla", "EstimatorNodeTrace.cfg", run.workdir, path, name)
    run.add_tlc("EstimatorNodeTrace", res)
    out = res["out"]
    rej = {int(m.group(1)): int(m.group(2)) for m in re.finditer(r'<<"REJECT", (\d+), (\d+), (\d+)>>', out)}
    mi = re.search(r"Error: Invariant (\w+) is violated", out)
    if mi:
        st = parse_error_trace(out)
        tid = st[-1][1].get("tid")
        run.violation(f"estimator/trace/invariant/{mi.group(1)}", f"real estimator run violates {mi.group(1)}",
                      {"engine": "C-est", "events": traces[tid - 1][2] if tid else None})
    for tid, line in rej.items():
        e = traces[tid - 1][2][line - 1] if 0 < line <= len(traces[tid - 1][2]) else None
        # the trace spec carries the implementation-shaped guards: a rejection alone is drift, the property is est_props
        run.spec_drift(f"estimator/trace/{e['a'] if e else 'end'}", f"decision differs from EstimatorNode at line {line}: {e}")
    return len(traces) - len(rej), rej


def _est_trace(r, start, est_cls):
    w = EstWorld(start, est_cls)
    t = 0
    mode = r.choice(["nominal", "burst", "jitter", "backwards"])
    for _ in range(r.randint(20, 60)):
        x = r.random()
        if x < 0.08:
            w.params(r.choice([0, 1000, 2000, 5000, 10000, 20000]), r.choice([0, 2000, 5000, 20000]))
            continue
        if mode == "nominal":
            t += r.choice([2500, 5000])
        elif mode == "burst":
            t += r.choice([0, 0, 250, 500, 5000])
        elif mode == "jitter":
            t += r.choice([1000, 3000, 3999, 4000, 4001, 4500, 5000, 9000])
        else:
            t += r.choice([-5000, -1, 0, 1, 2500, 4000, 5000, 6000])
        if r.random() < 0.3:
            w.mag(t)
        else:
            w.imu(t, ok=r.random() < 0.85)
    return w.ev


# ======================================================================================
# self-test of the binding (DESIGN section 7): failure => MachineryError (exit 2)
# ======================================================================================
def selftest(run, seed):
    results = {}
    rng = random.Random(seed + 99)
    # ---- (a)/(b) trace corruption: a corrupted field / a dropped line must be rejected by TLC
    base = []
    for tid in range(1, 9):
        w = random_world(random.Random(rng.getrandbits(32)), True)
        base.append((tid, w.ev))
    bad = []
    kinds = {}
    tid = 100
    for _, evs in base:
        idx_d = [i for i, e in enumerate(evs) if e["a"] == "Deliver"]
        idx_r = [i for i, e in enumerate(evs) if e["a"] == "LoggerRow" and i > 0]
        idx_e = [i for i, e in enumerate(evs) if e["a"] == "PublishEnd"]
        idx_o = [i for i, e in enumerate(evs) if e["a"] == "Obs" and e["cache"]]
        if idx_d:
            ev = copy.deepcopy(evs); i = rng.choice(idx_d); ev[i]["msg"] += 1
            tid += 1; bad.append((tid, ev)); kinds[tid] = "Deliver.msg+1"
            ev = copy.deepcopy(evs); i = rng.choice(idx_d); ev[i]["sub"] = 0 if ev[i]["sub"] else 1
            tid += 1; bad.append((tid, ev)); kinds[tid] = "Deliver.sub changed"
            ev = copy.deepcopy(evs); i = rng.choice(idx_d); del ev[i]
            tid += 1; bad.append((tid, ev)); kinds[tid] = "Deliver line dropped"
        if idx_e:
            ev = copy.deepcopy(evs); i = rng.choice(idx_e); del ev[i]
            tid += 1; bad.append((tid, ev)); kinds[tid] = "PublishEnd line dropped"
        if len(idx_r) > 1:
            ev = copy.deepcopy(evs); i = idx_r[-1]; ev[i]["t_now"] += 1
            tid += 1; bad.append((tid, ev)); kinds[tid] = "LoggerRow.t_now+1"
            ev = copy.deepcopy(evs); i = idx_r[len(idx_r) // 2]; del ev[i]
            tid += 1; bad.append((tid, ev)); kinds[tid] = "LoggerRow line dropped"
        if idx_o:
            ev = copy.deepcopy(evs); i = rng.choice(idx_o); k = sorted(ev[i]["cache"])[0]; ev[i]["cache"][k] += 1
            tid += 1; bad.append((tid, ev)); kinds[tid] = "Obs.cache+1"
    res, rejected, inv = validate_traces(run, "UrosBusTrace.tla", "UrosBusTrace.cfg", base + bad, "selftest")
    run.add_tlc("UrosBusTrace/selftest", res)
    if inv:
        raise MachineryError(f"selftest: unexpected invariant violation {inv}")
    good_rej = [t for t, _ in base if t in rejected]
    missed = [(t, kinds[t]) for t, _ in bad if t not in rejected]
    if good_rej or missed or not bad:
        raise MachineryError(f"selftest(trace corruption) failed: pristine traces rejected {good_rej}, corrupted traces accepted {missed}")
    results["trace_corruptions_rejected"] = f"{len(bad)}/{len(bad)} ({sorted(set(kinds.values()))}); {len(base)} pristine traces accepted"

    # estimator traces: flip a decision / drop a line
    est = []
    r2 = random.Random(seed + 5)
    for t in range(1, 7):
        st = r2.random() < 0.3
        est.append((t, st, _est_trace(r2, st, None)))
    badest = []
    t = 100
    for _, st, evs in est:
        idx = [i for i, e in enumerate(evs) if e["a"] == "imu" and e["predict"] == 1]
        if idx:
            ev = copy.deepcopy(evs); i = r2.choice(idx); ev[i]["acc"] = 1 - ev[i]["acc"]
            t += 1; badest.append((t, st, ev))
            ev = copy.deepcopy(evs); i = r2.choice(idx); ev[i]["dt"] += 7
            t += 1; badest.append((t, st, ev))
    path = os.path.join(run.workdir, "selftest_est.ndjson")
    # tids must be 1..N for the register bookkeeping: renumber
    allest = [(k + 1, st, ev) for k, (_, st, ev) in enumerate(est + badest)]
    write_est_traces(path, allest)
    r = tlc_trace("EstimatorNodeTrace.tla", "EstimatorNodeTrace.cfg", run.workdir, path, "selftest_est")
    rej = {int(m.group(1)) for m in re.finditer(r'<<"REJECT", (\d+), (\d+), (\d+)>>', r["out"])}
    want = set(range(len(est) + 1, len(allest) + 1))
    # an acc flip exactly at a tie is legitimately accepted: tolerate at most ties
    if rej - want or len(want - rej) > len(want) // 4 or not want:
        raise MachineryError(f"selftest(estimator traces) failed: rejected {sorted(rej)}, expected {sorted(want)}")
    results["estimator_trace_corruptions_rejected"] = f"{len(rej & want)}/{len(want)}"

    # ---- (c) known-bad variants of the code, in this process only
    def mutant_run(mut, wanted, n=12, acyclic=True):
        found = set()
        tr_rej = 0
        worlds = []
        for k in range(n):
            s = rng.getrandbits(32)
            box = {}

            def m(w):
                box["w"] = w
                mut(w)
            try:
                w = random_world(random.Random(s), acyclic, mutate=m)
            except MachineryError:
                raise
            except BaseException as e:          # a mutant may make a callback raise: the trace so far still counts
                w = box["w"]
                w.close()
                found.add("crash/" + type(e).__name__)
            finally:
                restore_mutant(box["w"]) if "w" in box else None
            found |= {key for key, _ in w.check_props() + w.final_log_check()}
            worlds.append((k + 1, w.ev))
        return found, worlds
    f1, w1 = mutant_run(mutant_fanout_first_only, None)
    if "publish/exactly-once/missing" not in f1:
        raise MachineryError(f"selftest: fan-out that stops after the first subscriber was not flagged ({f1})")
    _, rej1, inv1 = validate_traces(run, "UrosBusTrace.tla", "UrosBusTrace.cfg", w1, "mut1")
    if not rej1 and not inv1:
        raise MachineryError("selftest: TLC accepted every trace of the first-subscriber-only fan-out")
    results["mutant fan-out stops after first subscriber"] = f"flagged {sorted(f1)}; TLC rejected {len(rej1)}/{len(w1)} traces"
    f2, w2 = mutant_run(mutant_no_typecheck, None, n=20)
    _, rej2, inv2 = validate_traces(run, "UrosBusTrace.tla", "UrosBusTrace.cfg", w2, "mut2")
    if not rej2 and not inv2:
        raise MachineryError("selftest: publish without type check was not flagged by trace validation")
    results["mutant publish without type check"] = f"TLC rejected {len(rej2)}/{len(w2)} traces at PublishBegin"
    f3, _ = mutant_run(mutant_logger_nocopy, None)
    if not any(k.startswith("logger/row/") for k in f3):
        raise MachineryError(f"selftest: logger without deep copy was not flagged ({f3})")
    results["mutant logger without deepcopy"] = f"flagged {sorted(k for k in f3 if k.startswith('logger/'))}"
    # engine B must flag the first mutant too (model vs code)
    steps = _fixed_behaviour()
    try:
        mutant_fanout_first_only(None)
        probs, _ = replay_behaviour(steps)
    finally:
        restore_mutant(None)
    if not probs:
        raise MachineryError("selftest: engine B did not flag the first-subscriber-only fan-out")
    results["engine B on mutant fan-out"] = f"flagged {probs[0][0]}"
    probs, _ = replay_behaviour(steps)
    if probs:
        raise MachineryError(f"selftest: engine B flags the pristine code on the fixed behaviour: {probs}")
    # estimator mutants
    r3 = random.Random(seed + 11)
    try:
        Bad = make_bad_estimator()
    except Exception:       # noqa: source-level mutation of a restructured method may not compile
        Bad = None
    if Bad is None:
        results["mutant estimator without dt<=0 guard"] = "skipped: the guard is not locatable in the source text of imu_callback"
    else:
        found = set()
        for _ in range(30):
            found |= {k for k, _ in est_props(_est_trace(r3, r3.random() < 0.5, Bad))}
        if "estimator/predict/dt<=0" not in found:
            raise MachineryError(f"selftest: estimator without the dt <= 0 guard was not flagged ({found})")
        results["mutant estimator without dt<=0 guard"] = f"flagged {sorted(found)}"
    try:
        Bad2 = make_bad_rate_estimator()
    except Exception:       # noqa
        Bad2 = None
    if Bad2 is None:
        results["mutant estimator rate limit vs wrong time stamp"] = "skipped: the rate limit is not locatable in the source text of imu_callback"
    else:
        found = set()
        for _ in range(30):
            found |= {k for k, _ in est_props(_est_trace(r3, r3.random() < 0.5, Bad2))}
        if "estimator/accel/rate" not in found:
            raise MachineryError(f"selftest: estimator with a broken accel rate limit was not flagged ({found})")
        results["mutant estimator rate limit vs wrong time stamp"] = f"flagged {sorted(found)}"
    return results


def _fixed_behaviour():
    """a hand-written model behaviour (act records + idle states) used by the engine-B self-test:
    two sinks on one topic, one publish"""
    def st(act, stack, recv, nmsg, sent):
        return {"act": act, "stack": stack, "recv": recv, "lrecv": {}, "locked": False, "cache": {}, "inited": False,
                "params": {}, "rows": (), "now": 0, "nmsg": nmsg, "sent": sent, "reent": False}
    f = lambda i: ({"topic": "a", "msg": 1, "i": i},)
    return [("Init", st({"a": "Init", "err": "ok"}, (), ((), ()), 0, {})),
            ("CreatePublisher", st({"a": "CreatePublisher", "topic": "a", "ty": "A", "err": "ok"}, (), ((), ()), 0, {})),
            ("CreateSubscriber", st({"a": "CreateSubscriber", "sub": 1, "topic": "a", "kind": "sink", "out": "none", "budget": 0, "err": "ok"}, (), ((), ()), 0, {})),
            ("CreateSubscriber", st({"a": "CreateSubscriber", "sub": 2, "topic": "a", "kind": "sink", "out": "none", "budget": 0, "err": "ok"}, (), ((), ()), 0, {})),
            ("PublishBegin", st({"a": "PublishBegin", "topic": "a", "ty": "A", "err": "ok"}, f(1), ((), ()), 1, {})),
            ("Deliver", st({"a": "Deliver", "topic": "a", "msg": 1, "sub": 1, "depth": 1, "err": "ok"}, f(2), ((1,), ()), 1, {})),
            ("Deliver", st({"a": "Deliver", "topic": "a", "msg": 1, "sub": 2, "depth": 1, "err": "ok"}, f(3), ((1,), (1,)), 1, {})),
            ("PublishEnd", st({"a": "PublishEnd", "topic": "a", "msg": 1, "err": "ok"}, (), ((1,), (1,)), 1, {}))]


# ======================================================================================
# real nodes on the bus (Simulator + AttitudeEstimator + Logger), API-level and through the hook
# ======================================================================================
def real_nodes_trace(tf=0.05):
    """the object graph of launch_sim built here (so that recorders can be attached before the logger locks
    the bus), with proxy equations; returns the World"""
    import numpy as np
    import cyecca.sim.msgs as msgs
    from cyecca.estimate.attitude.estimator import AttitudeEstimator
    from cyecca.estimate.attitude.simulator import Simulator
    import io
    import contextlib
    w = World(type_map={"Imu": msgs.Imu, "Mag": msgs.Mag, "Attitude": msgs.Attitude, "EstimatorStatus": msgs.EstimatorStatus})
    try:
        prox = Proxy()
        eq = prox.eqs()
        x6 = np.zeros(6)
        eq["sim"] = {"simulate": lambda t, x, om, sn, wn, dt: x, "get_state": eq["get_state"],
                     "measure_gyro": lambda x, om, s, n: np.zeros(3), "measure_accel": lambda x, g, s, n: np.array([0, 0, 9.8]),
                     "measure_mag": lambda x, a, b, c, d, n: np.array([0.2, 0, 0.4])}
        # creation events are emitted by hand in the order the constructors perform them
        def pub(topic, ty):
            w.emit(a="CreatePublisher", topic=topic, ty=ty, err="ok")
            w.ptype[topic] = ty
            w.sent.setdefault(topic, [])
        sid = [0]

        def sub(obj, topic, kind):
            sid[0] += 1
            s = sid[0]
            w.emit(a="CreateSubscriber", sub=s, topic=topic, kind=kind, out="none", budget=0, err="ok")
            w.sub[s] = {"topic": topic, "kind": kind, "since": 0, "params": []}
            w.recv[s] = []
            obj.callback = w._wrap(s, topic, obj.callback)
            return s

        def params(plist, owner):
            for p in plist:
                v = float(p.get())
                w.emit(a="DeclareParam", p=p.name, owner=owner, v=int(round(v * 1e6)), err="ok")
                w.param[p.name] = p
                w.owner[p.name] = owner
        w.content_ids = False
        w.enc = lambda name, v: uros_rec.quanta(v) if name == uros_rec.LDT else int(round(float(v) * 1e6))
        w.dec = lambda name, v: v / Q if name == uros_rec.LDT else v * 1e-6
        with contextlib.redirect_stdout(io.StringIO()):
            sim = Simulator(w.core, eq, x6)
            for t, ty in (("sim_attitude", "Attitude"), ("imu", "Imu"), ("mag", "Mag")):
                pub(t, ty)
            s = sub(sim.sub_params, "params", "follower")
            params(sim.param_list, s)
            est = AttitudeEstimator(w.core, "mrp", eq, True)
            sub(est.sub_imu, "imu", "free")
            sub(est.sub_mag, "mag", "sink")
            pub("mrp_status", "EstimatorStatus"); pub("mrp_attitude", "Attitude")
            s = sub(est.sub_params, "params", "follower")
            params(est.param_list, s)
            w.pubs.update({"imu": sim.pub_imu, "mag": sim.pub_mag})
            lg = w.uros.Logger(w.core)
            w.emit(a="CreateLogger", err="ok")
            w.adopt_logger(lg)
            w.init_params()
            w.set_param("mrp/dt_min_mag", 20000)
            w.obs()
            # every top-level publish after Run comes from the Simulator's process
            w.run()
            w.proc_mode = True
            import simpy
            w.absorb_factory = True
            simpy.Environment.run(w.core, until=tf)
            w.obs()
        w.prox = prox
    finally:
        w.close()
    return w


def real_nodes(run):
    w = real_nodes_trace(0.1)
    probs = w.check_props() + w.final_log_check()
    report(run, probs, {"engine": "C-real-nodes"})
    hdr = {"a": "Header", "topics": sorted(t for t in w.ptype if t != "params"),
           "params": sorted(n for n in w.param if n != uros_rec.LDT), "procs": [], "ns": len(w.sub)}
    res, rej, inv = validate_traces(run, "UrosBusTrace.tla", "UrosBusTrace.cfg", [(1, w.ev)], "realnodes", hdr)
    run.add_tlc("UrosBusTrace/real-nodes", res)
    if inv:
        run.violation(f"trace/invariant/{inv['invariant']}", "Simulator+AttitudeEstimator+Logger run violates " + inv["invariant"],
                      {"engine": "C-real-nodes"})
    for tid, (line, e) in rej.items():
        a = e["a"] if e else "end"
        run.violation(f"trace/rejected/{a}", f"Simulator+AttitudeEstimator+Logger trace rejected at line {line}: {e}; clause: {CLAUSE.get(a, a)}",
                      {"engine": "C-real-nodes", "line": line, "event": e})
    nested = sum(1 for e in w.ev if e["a"] == "Nested")
    if nested == 0:
        raise MachineryError("real-node run: the estimator never published from inside its callback (vacuous)")
    run.count("real_node_events", len(w.ev))
    return 0 if (rej or inv) else 1


def replay_file(run, path):
    d = json.load(open(path))
    data = d.get("data") or {}
    eng = data.get("engine")
    if eng == "B":
        steps = [(a, s) for a, s in data["steps"]]
        probs, info = replay_behaviour(steps)
        report(run, probs, data)
    elif eng == "C":
        w = random_world(random.Random(data["wiring_seed"]), data["acyclic"])
        report(run, w.check_props() + w.final_log_check(), data)
        res, rej, inv = validate_traces(run, "UrosBusTrace.tla", "UrosBusTrace.cfg", [(1, w.ev)], "replay")
        for tid, (line, e) in rej.items():
            run.violation(f"trace/rejected/{e['a'] if e else 'end'}", f"rejected at line {line}: {e}", data)
        if inv:
            run.violation(f"trace/invariant/{inv['invariant']}", "replayed trace violates " + inv["invariant"], data)
    elif eng == "B-est":
        probs, drift, ev = replay_est_behaviour([(a, s) for a, s in data["steps"]])
        report(run, probs, data)
    elif eng == "C-est":
        report(run, est_props(data["events"]), data)
    elif eng == "script":
        p2, got, reent = scripted_two_topic()
        report(run, p2, data)
    elif eng == "C-real-nodes":
        real_nodes(run)
    elif eng == "hook":
        if not hook_present():
            raise MachineryError("this replay needs the source hook (hooks/uros_hooks.patch); run with VERIF_REPO=<patched tree>")
        from harness import uros_hook
        uros_hook.run_hooked(run, validate_traces, tlc_trace)
    else:
        raise MachineryError(f"replay file {path} has no replayable engine tag")
    return run.finish({"traces_validated_against_impl": 1, "replay_of": path})


def shared_objects_check(run):
    """subscribers are counted as OBJECTS, not as distinct callbacks or distinct cores: several Subscriber objects may share
    one callable (a recorder tap), and several Core objects live in one process.  Every subscriber of a topic receives
    every message of that topic of ITS core exactly once, in registration order."""
    import cyecca.sim.uros as uros
    import cyecca.sim.msgs as msgs
    log = []

    class Rec:
        def __init__(self, name):
            self.name = name

        def cb(self, m):
            log.append((self.name, float(m.data["time"])))
    rec, other = Rec("rec"), Rec("other")

    def tap(m):
        log.append(("tap", float(m.data["time"])))
    cores = [uros.Core(), uros.Core()]
    pubs = []
    for ci, core in enumerate(cores):
        pa = uros.Publisher(core, "a", msgs.Imu); pb = uros.Publisher(core, "b", msgs.Imu)
        pubs.append((pa, pb))
    # core 0: topic a has [rec.cb, other.cb, rec.cb, tap, tap]; topic b has [rec.cb, tap];  core 1: topic a has [other.cb]
    for cb in (rec.cb, other.cb, rec.cb, tap, tap):
        uros.Subscriber(cores[0], "a", msgs.Imu, cb)
    for cb in (rec.cb, tap):
        uros.Subscriber(cores[0], "b", msgs.Imu, cb)
    uros.Subscriber(cores[1], "a", msgs.Imu, other.cb)
    want = []
    t = 0.0
    for rnd in range(3):
        for ci, topic, names in ((0, "a", ["rec", "other", "rec", "tap", "tap"]), (0, "b", ["rec", "tap"]), (1, "a", ["other"]), (1, "b", [])):
            t += 1.0
            m = msgs.Imu(); m.data["time"] = t
            (pubs[ci][0] if topic == "a" else pubs[ci][1]).publish(m)
            want += [(nm, t) for nm in names]
    run.count("shared_object_deliveries", len(want))
    if log != want:
        extra = [x for x in log if log.count(x) > want.count(x)][:4]
        missing = [x for x in want if want.count(x) > log.count(x)][:4]
        run.violation("publish/exactly_once/shared_callback_or_core", "with Subscriber objects that share one callable, or with two Core objects in one process, "
                      f"deliveries differ from one per subscriber object of the topic of that core, in registration order (missing {missing}, extra {extra})",
                      {"engine": "script", "expected": want[:24], "got": log[:24], "n_expected": len(want), "n_got": len(log)})


def main():
    tier = sys.argv[1] if len(sys.argv) > 1 and not sys.argv[1].startswith("-") else "quick"
    if tier not in TIERS:
        raise MachineryError(f"unknown tier {tier}")
    run = Run(PID, tier)
    try:
        return _main(run, tier)
    except BaseException:
        import shutil
        shutil.rmtree(run.workdir, ignore_errors=True)      # scratch never survives a failed run
        raise


def _main(run, tier):
    seed = run.seed
    if "--replay" in sys.argv:
        return replay_file(run, sys.argv[sys.argv.index("--replay") + 1])
    if "--selftest" in sys.argv:
        r = selftest(run, seed)
        for k, v in r.items():
            print(f"selftest: {k}: {v}")
        import shutil
        shutil.rmtree(run.workdir, ignore_errors=True)
        return 0
    hook = hook_present()
    # model checking runs in the background while the conformance engines work
    ex = cf.ThreadPoolExecutor(1)
    fut_mc = ex.submit(model_checking, run, tier)
    st = selftest(run, seed) if (tier == "thorough" or os.environ.get("VERIF_SELFTEST") == "1") else None
    shared_objects_check(run)
    nB, statsB = engine_b_bus(run, tier, seed)
    nBe, cellsE = engine_b_est(run, tier, seed)
    nC = engine_c_bus(run, tier, seed)
    nCe, _ = engine_c_est(run, tier, seed)
    nR = real_nodes(run)
    nH = 0
    hook_note = "hook absent: API-level observation only (callback wrappers, in-process publish wrapper, proxy eqs, row list)"
    if hook:
        from harness import uros_hook
        nH = uros_hook.run_hooked(run, validate_traces, tlc_trace)
        hook_note = f"hook present (CYECCA_VERIF={os.environ.get('CYECCA_VERIF')}): {nH} launch_sim traces recorded through uros._verif_emit"
    res = fut_mc.result()
    reentrancy_finding(run, res)
    run.assumptions += [
        "set-up calls are made at top level and before Core.run; callbacks return normally (an exception in a callback aborts the fan-out: outside the model)",
        "parameters are declared before init_params (a later declaration leaves core._params with a stale dtype: run() then raises TypeError in the logger / Param.update raises ValueError)",
        "exhaustive models are bounded (see tlc_runs / constants in the cfg files); larger wirings only through -simulate behaviours and randomised traces",
        "time is quantised to 1/128000 s; harness processes use dyadic periods (multiples of 2^-10 s) so that float sums are exact",
        "estimator: only scheduling decisions (proxy equations); exact ties of a rate limit (gap == dt_min - 1 ms in whole microseconds) may fall either way in double arithmetic and are accepted both ways",
        "Param.set() calls the non-existent Core._set_param (AttributeError after changing the local value): not covered by the property text, noted only",
        hook_note,
    ]
    total = nB + nBe + nC + nCe + nR + nH
    return run.finish({
        "traces_validated_against_impl": total,
        "engineB_bus_behaviours": nB, "engineB_estimator_behaviours": nBe,
        "engineC_bus_traces": nC, "engineC_estimator_traces": nCe, "engineC_real_node_traces": nR, "hook_traces": nH,
        "engineB_action_counts": statsB, "estimator_decision_cells": cellsE,
        "selftest": st if st is not None else "run with --selftest (always part of the thorough tier)",
        "hook": hook_note,
        "rule": "one behaviour = one TLC -simulate trace replayed call by call into real uros objects; one trace = one real execution validated by TLC",
        "exhaustive": True,
    })


if __name__ == "__main__":
    main_wrap(main)
