"""C14 -- attitude set-points (spec/Setpoints.tla).

TLC enumerates (and proves the frame / rate / Euler laws on) three kinds of test vectors:
  frame : demanded force T/den + Pythagorean heading (+ the split of the force into PD part,
          trim and integrator for the two controllers, saturated and se_2(3)-rotation variants)
  traj  : polynomial trajectory at a rational time (flatness references): exact a, j, s, exact
          thrust axis, exact roll/pitch rate numerators
  euler : Euler triples given by axis quaternions (auto-level, Euler -> quaternion helpers)
Every state is replayed (engine A) into position_control, se23_position_control, f_ref,
mr_ref_traj, input_auto_level, eulerB321_to_quat built from the working tree.

Sign convention of the rates (also derived in the spec header): a frame with body angular
velocity w = (p, q, r) has  dz_b/dt = w x z_b = -p y_b + q x_b,  hence  p = -dz/dt . y_b,
q = dz/dt . x_b.  It is validated below against a five-point finite difference of the code's
own attitude output along the trajectory (fd_selfcheck)."""
import sys, json, math, io, contextlib
import numpy as np
import casadi as ca
from harness.core import Run, run_tlc, parse_dump, main_wrap, MachineryError
from harness.cas import batch_call

PID = "C14"
TOL = 1e-9
FD_H = 1e-3
FD_TOL = 1e-6          # finite-difference self-check of the p/q sign convention
DRIFT_TOL = 1e-5       # informational comparison of r and omega_dot with the frame's true rates


# ------------------------------------------------------------------------------ build
class Fns:
    def __init__(self):
        with contextlib.redirect_stdout(io.StringIO()):      # the modules print at import
            from cyecca.models import rdd2, rdd2_loglinear as ll, bezier, mr_ref_traj as mr
            from cyecca.lie.group_se23 import se23
        self.pc = rdd2.derive_position_control()["position_control"]
        self.sc = ll.derive_outerloop_control()["se23_position_control"]
        self.fr = bezier.derive_ref()["f_ref"]
        self.mr = mr.derive_mr_ref_traj()["mr_ref_traj"]
        self.al = rdd2.derive_input_auto_level()["input_auto_level"]
        self.e2q = bezier.derive_eulerB321_to_quat()["eulerB321_to_quat"]
        self.degraded = []
        self.k_pc = dict(m=rdd2.m, g=rdd2.g, kp=rdd2.kp_pos, kv=rdd2.kp_vel, ki=rdd2.ki_z)
        self.k_sc = dict(m=ll.m, g=ll.g, kp=ll.kp_pos, kv=ll.kp_vel, ki=ll.ki_z)
        self.k_al = dict(rp=rdd2.rollpitch_max * rdd2.deg2rad, yr=rdd2.yaw_rate_max * rdd2.deg2rad)
        self.k_fl = dict(m=float(bezier.m), g=float(bezier.g),
                         J=np.array([[bezier.J_xx, 0, bezier.J_xz], [0, bezier.J_yy, 0], [bezier.J_xz, 0, bezier.J_zz]], float))
        z = ca.SX.sym("z", 9)
        self.jl = ca.Function("jl", [z], [ca.densify(se23.elem(z).left_jacobian())])
        for k in (self.k_pc, self.k_sc):
            psat = 0.3 * k["m"] * k["g"]
            if min(k["kp"], k["kv"], k["ki"], k["m"]) <= 0:
                raise MachineryError(f"controller constants are not positive: {k}")
            if not (6.0 < psat < 7.0):
                # a re-tuned vehicle (mass, gravity): the force lattice was built around a saturation radius of 6.5856 N.  Not
                # a verdict and not a failure: vectors whose saturation state changes are checked for properness only
                self.degraded.append(f"saturation radius 0.3 m g = {psat:.4f} N outside (6, 7)")
            k["psat"] = psat
        if self.k_fl["g"] != 49 / 5:
            self.degraded.append("bezier.g is not 49/5 (spec/Setpoints.tla hard-codes it for the flatness references)")
        names = [f.name() for f in (self.pc, self.sc, self.fr, self.mr, self.al, self.e2q)]
        if names != ["position_control", "se23_position_control", "f_ref", "mr_ref_traj", "input_auto_level", "eulerB321_to_quat"]:
            raise MachineryError(f"unexpected function names {names}")


# ------------------------------------------------------------------------------ numpy helpers
def qmul(a, b):
    return np.array([a[0]*b[0] - a[1]*b[1] - a[2]*b[2] - a[3]*b[3],
                     a[0]*b[1] + a[1]*b[0] + a[2]*b[3] - a[3]*b[2],
                     a[0]*b[2] + a[2]*b[0] + a[3]*b[1] - a[1]*b[3],
                     a[0]*b[3] + a[3]*b[0] + a[1]*b[2] - a[2]*b[1]])


def quat_to_R(Q):
    """(4,N) -> (3,3,N) rotation matrices of the normalised quaternions (textbook formula)"""
    with np.errstate(invalid="ignore", divide="ignore"):
        w, x, y, z = Q / np.sqrt(np.sum(Q * Q, axis=0))
    return np.array([[w*w + x*x - y*y - z*z, 2*(x*y - w*z), 2*(x*z + w*y)],
                     [2*(x*y + w*z), w*w - x*x + y*y - z*z, 2*(y*z - w*x)],
                     [2*(x*z - w*y), 2*(y*z + w*x), w*w - x*x - y*y + z*z]])


def mat_from_cols(C9):
    """(9,N) column-major -> (3,3,N)"""
    return C9.reshape(3, 3, -1).transpose(1, 0, 2)


def quat_residual(Q):
    """| |q|^2 - 1 | per column (nan when not finite)"""
    with np.errstate(invalid="ignore", over="ignore"):
        r = np.abs(np.sum(Q * Q, axis=0) - 1.0)
    r[~np.all(np.isfinite(Q), axis=0)] = np.nan
    return r


def mat_residual(R):
    """max(|R^T R - I|, |det R - 1|) per column (nan when not finite)"""
    with np.errstate(invalid="ignore", over="ignore"):
        G = np.einsum("kin,kjn->ijn", R, R) - np.eye(3)[:, :, None]
        det = np.einsum("in,in->n", R[:, 0, :], np.cross(R[:, 1, :], R[:, 2, :], axis=0))
        r = np.maximum(np.max(np.abs(G), axis=(0, 1)), np.abs(det - 1.0))
    r[~np.all(np.isfinite(R), axis=(0, 1))] = np.nan
    return r


def mass_band_sweep(run, fns):
    """mr_ref_traj takes the MASS as an input: thrust = m |g e3 - a| and specific force |g e3 - a| cross the 1e-6 guard at
    different accelerations unless m = 1.  Setpoints.tla ("zero"/"tiny": a finite proper rotation, nothing else; above the
    fallback band z_B = F/|F|) holds for every mass: sweep the specific force through 1e-8 .. 1e-2 for light and heavy vehicles."""
    K = fns.k_fl
    g = K["g"]; J = K["J"]
    dirs = [np.array(d, float) / np.linalg.norm(d) for d in ((0.3, -0.5, 0.8), (0, 0, 1), (1, 0, 0), (0, 0, -1), (-0.6, 0.0, 0.8))]
    cases = [(m, f, u, psi) for m in (0.027, 0.3, 1.0, 5.0, 40.0) for f in (1e-8, 1e-7, 4e-7, 9e-7, 2e-6, 6e-6, 2e-5, 1e-4, 1e-3, 1e-2)
             for u in dirs for psi in (0.0, 2.0)]
    n = len(cases)
    psi = np.array([c[3] for c in cases])
    a = np.array([np.array([0.0, 0.0, g]) - c[1] * c[2] for c in cases]).T
    z1 = np.zeros((1, n)); z3 = np.zeros((3, n)); v = np.repeat(np.array([[0.3], [-1.0], [0.5]]), n, axis=1)
    m = np.array([[c[0] for c in cases]])
    cols = [psi[None], z1, z1, v, a, z3, z3, m, np.full((1, n), g), np.full((1, n), J[0, 0]), np.full((1, n), J[1, 1]), np.full((1, n), J[2, 2]), np.full((1, n), J[0, 2])]
    o = batch_call(fns.mr, cols)
    R = mat_from_cols(o[1])
    res = mat_residual(R)
    run.count("evaluations", n)
    run.count("mass_band_points", n)
    for k, (mk, f, u, ps) in enumerate(cases):
        data = {"mass": mk, "specific_force": f, "direction": u.tolist(), "psi": ps, "a_e": a[:, k].tolist(), "C": R[:, :, k].tolist()}
        if not (res[k] <= 1e-9):
            run.violation("mr_ref_traj/orthonormal/mass_band", "returned attitude matrix is not orthonormal with det +1 (near free fall, mass != 1)", data)
        elif min(f, mk * f) >= 1e-5 and np.max(np.abs(R[:, 2, k] - u)) > 1e-6:
            run.violation("mr_ref_traj/thrust_axis/mass_band", "body z axis is not the normalised demanded force (small but non-degenerate thrust, mass != 1)", data)


def yaw_quat(psi, k):
    """camera orientation with heading psi; odd k: additional camera pitch/roll (the heading is
    the B321 yaw angle of the quaternion whatever the other two angles are)"""
    qz = np.array([math.cos(psi / 2), 0, 0, math.sin(psi / 2)])
    if k % 2 == 0:
        return qz if k % 4 == 0 else -qz
    qy = np.array([math.cos(0.1), 0, math.sin(0.1), 0])         # pitch 0.2
    qx = np.array([math.cos(-0.15), math.sin(-0.15), 0, 0])     # roll -0.3
    return qmul(qmul(qz, qy), qx)


def expected_frame(tvs):
    """normalise the integer columns of the spec: (3,3,N); nan columns where a norm is zero"""
    n = len(tvs)
    R = np.full((3, 3, n), np.nan)
    for k, tv in enumerate(tvs):
        if "nx" in tv and tv["nx"] > 0:
            R[:, 0, k] = np.array(tv["xt"], float) / math.sqrt(tv["nx"])
            R[:, 1, k] = np.array(tv["yt"], float) / math.sqrt(tv["ny"])
            R[:, 2, k] = np.array(tv["zt"], float) / math.sqrt(tv["nz"])
    return R


def float_cell(F, xC):
    """cell of a float force (used to cross-check the spec's exact classification)"""
    nF = np.linalg.norm(F)
    if nF == 0:
        return "zero"
    if nF * nF <= 1e-6:
        return "tiny"
    s = np.linalg.norm(np.cross(F / nF, xC))
    return "parallel" if s * s <= 1e-6 else "generic"


CELLKEY = {"generic": "generic", "parallel": "parallel", "zero": "zero", "tiny": "tiny"}


def keycell(tv):
    if tv.get("sat"):
        return "saturated" if tv["cell"] == "generic" else "saturated_" + tv["cell"]
    if tv["cell"] == "inexact":
        return "se23_rotation"
    if tv["op"] == "traj" and tv["cell"] == "generic" and tv["U"][2] == 0:
        return "horizontal_thrust"       # tilt exactly 90 deg: regular for the frame and for p, q
    return tv["cell"]


# ------------------------------------------------------------------------------ clause checker
def check_attitude(run, fn, kind, att, tvs, F, xC, thrust, Rexp, cover, extra):
    """kind 'quat' (4,N) or 'mat' (9,N).  F (3,N) demanded force (float), xC (3,N) unit heading vector,
    thrust (N,) returned magnitude, Rexp (3,3,N) spec frame (nan where not applicable).
    Returns (R, ok) : rotation matrices and the mask of columns whose attitude is proper."""
    n = len(tvs)
    if kind == "quat":
        res = quat_residual(att)
        R = quat_to_R(att)
        clause = "unit_quaternion"
        what = "returned attitude quaternion is not a unit quaternion"
    else:
        R = mat_from_cols(att)
        res = mat_residual(R)
        clause = "orthonormal"
        what = "returned attitude matrix is not orthonormal with det +1"
    run.count("evaluations", n)
    with np.errstate(invalid="ignore", divide="ignore"):
        nF = np.linalg.norm(F, axis=0)
        zhat = F / nF
        dz = np.max(np.abs(R[:, 2, :] - zhat), axis=0)
        dy = np.abs(np.einsum("in,in->n", R[:, 1, :], xC))
        dx = np.einsum("in,in->n", R[:, 0, :], xC)
        dT = np.abs(thrust - nF)
        dR = np.max(np.abs(R - Rexp), axis=(0, 1))
    ok = np.zeros(n, bool)
    for k, tv in enumerate(tvs):
        cell = tv["cell"]
        kc = keycell(tv)
        cover[(fn, kc)] = cover.get((fn, kc), 0) + 1

        def data(**kw):
            d = {"tv": tv, "fn": fn, "attitude": att[:, k].tolist(), "thrust": float(thrust[k]),
                 "force": F[:, k].tolist(), "residual": float(res[k])}
            d.update(extra(k))
            d.update(kw)
            return d
        if not np.isfinite(res[k]):
            run.violation(f"{fn}/finite/{kc}", "returned attitude is not finite", data())
            continue
        if not (res[k] <= TOL):
            run.violation(f"{fn}/{clause}/{kc}", what, data())
            continue
        ok[k] = True
        run.err(float(res[k]))
        if cell in ("zero", "tiny"):
            continue
        if not (dz[k] <= TOL):
            run.violation(f"{fn}/zB_alignment/{kc}", "body z axis is not the normalised demanded force", data(err=float(dz[k])))
            continue
        run.err(float(dz[k]))
        if cell == "parallel":
            continue
        if not (dy[k] <= TOL):
            run.violation(f"{fn}/yB_perp_heading/{kc}", "body y axis is not perpendicular to the commanded heading direction", data(err=float(dy[k])))
        if not (dT[k] <= TOL * max(1.0, nF[k])):
            run.violation(f"{fn}/thrust_magnitude/{kc}", "returned thrust is not the norm of the demanded force", data(err=float(dT[k])))
        else:
            run.err(float(dT[k]))
        if np.isfinite(dR[k]):
            if not (dR[k] <= TOL):
                run.violation(f"{fn}/heading_frame/{kc}", "attitude differs from the frame (x_B towards the heading, y_B = z_B x x_C normalised)", data(err=float(dR[k])))
            else:
                run.err(float(dR[k]))
        elif not (dx[k] > 0):
            run.violation(f"{fn}/heading_frame/{kc}", "body x axis points away from the commanded heading", data(err=float(dx[k])))
    return R, ok


DEGRADED = []       # reasons why the repository's constants left the range the exact lattice was built for (see Fns)


# ------------------------------------------------------------------------------ frame vectors
def controller_inputs(fn, K, jl, tvs):
    """embed the spec's split of the force into the controller's inputs; returns (cols, F_float, xC)"""
    n = len(tvs)
    F = np.zeros((3, n)); xC = np.zeros((3, n))
    trim = np.zeros(n); zi = np.zeros(n); ep = np.zeros((3, n)); ev = np.zeros((3, n)); at = np.zeros((3, n))
    qc = np.zeros((4, n)); w = np.zeros((3, n)); base = np.zeros((3, n))
    for k, tv in enumerate(tvs):
        den = float(tv["den"])
        c, s, h = tv["hd"]
        psi = math.atan2(s, c)
        xC[:, k] = (c / h, s / h, 0.0)
        qc[:, k] = yaw_quat(psi, k)
        trim[k] = tv["tr"] / den
        zi[k] = tv["zi"] / den / K["ki"]
        ep[:, k] = np.array(tv["pt"], float) / den / K["kp"]
        ev[:, k] = np.array(tv["vt"], float) / den / K["kv"]
        at[:, k] = np.array(tv["at"], float) / den / K["m"]
        w[:, k] = np.array(tv["w"], float) / 4.0
        if den <= 256 and k % 3 == 0:
            base[:, k] = (1.0, -2.0, 0.5)
    # harness-side demanded force: F = sat(PD) + (trim + ki z_i) e3 with the gains read from the code
    if fn == "position_control":
        PD = K["kp"] * ep + K["kv"] * ev + K["m"] * at          # (-kp e_p - kv e_v + m a with e = -ep, -ev)
    else:
        zeta = np.vstack([ep, ev, w])
        PD = K["kp"] * ep + K["kv"] * ev + K["m"] * at
        rot = np.nonzero(np.any(w != 0, axis=0))[0]
        if len(rot):
            kp3 = np.array([2.0, 1.5, 1.0])
            J = batch_call(jl, [zeta[:, rot]])[0]
            for i, k in enumerate(rot):
                Jm = J[:, i].reshape(9, 9, order="F")
                u = Jm @ (np.concatenate([[K["kp"]] * 3, [K["kv"]] * 3, kp3]) * zeta[:, k])
                PD[:, k] = u[0:3] + u[3:6] + K["m"] * at[:, k]
    nPD = np.linalg.norm(PD, axis=0)
    sat = nPD > K["psat"]
    with np.errstate(invalid="ignore", divide="ignore"):
        PDs = np.where(sat, K["psat"] * PD / nPD, PD)
    F = PDs + np.vstack([np.zeros((2, n)), (trim + K["ki"] * zi)[None]])
    for k, tv in enumerate(tvs):       # machinery self-checks: the embedding realises the spec's vector
        if tv["cell"] == "inexact":
            fc = float_cell(F[:, k], xC[:, k])
            tv["_skip"] = not (fc == "generic" and np.linalg.norm(np.cross(F[:, k], xC[:, k])) > 1e-2 * np.linalg.norm(F[:, k]))
            continue
        if bool(sat[k]) != bool(tv["sat"]):
            if DEGRADED:
                tv["_skip"] = True
                continue
            raise MachineryError(f"saturation state differs from the spec's for {tv}")
        if not tv["sat"]:
            Fx = np.array(tv["T"], float) / tv["den"]
            if np.max(np.abs(F[:, k] - Fx)) > 1e-12 * max(1.0, np.max(np.abs(Fx))):
                raise MachineryError(f"embedded force {F[:, k]} is not the spec's {Fx}")
            F[:, k] = Fx
        if float_cell(F[:, k], xC[:, k]) != tv["cell"]:
            raise MachineryError(f"cell classification differs: spec {tv['cell']} float {float_cell(F[:, k], xC[:, k])} for {tv}")
    if fn == "position_control":
        cols = [trim[None], base, np.zeros((3, n)) + 0.25, at, qc, base - ep, 0.25 - ev, zi[None], np.full((1, n), 0.01)]
    else:
        cols = [trim[None], np.repeat(np.array([[2.0], [1.5], [1.0]]), n, axis=1), np.vstack([ep, ev, w]), at, qc,
                zi[None], np.full((1, n), 0.01)]
    return cols, F, xC


def check_frames(run, fns, tvs, cover):
    if not tvs:
        return
    Rexp_all = expected_frame(tvs)
    # --- the two controllers
    for fn, f, K in (("position_control", fns.pc, fns.k_pc), ("se23_position_control", fns.sc, fns.k_sc)):
        idx = [k for k, tv in enumerate(tvs) if not (fn == "position_control" and tv["cell"] == "inexact")]
        sub = [tvs[k] for k in idx]
        cols, F, xC = controller_inputs(fn, K, fns.jl, sub)
        keep = [i for i, tv in enumerate(sub) if not tv.pop("_skip", False)]
        run.count("skipped_inexact_not_generic", len(sub) - len(keep))
        sub = [sub[i] for i in keep]
        cols = [c[:, keep] for c in cols]
        F, xC = F[:, keep], xC[:, keep]
        nT, q, _ = batch_call(f, cols)
        Rexp = Rexp_all[:, :, [idx[i] for i in keep]].copy()
        for i, tv in enumerate(sub):
            if tv["sat"] or tv["cell"] == "inexact":
                Rexp[:, :, i] = np.nan

        def extra(k, cols=cols, f=f):
            return {"inputs": {f.name_in(i): cols[i][:, k].tolist() for i in range(f.n_in())}}
        check_attitude(run, fn, "quat", q, sub, F, xC, nT[0], Rexp, cover, extra)
    # --- the flatness references at constant acceleration (thrust_e = m (g e3 - a) = F)
    seen, sub = set(), []
    for tv in tvs:                       # one vector per distinct (force, heading)
        key = (tv["T"], tv["den"], tv["hd"])
        if not tv["sat"] and tv["cell"] != "inexact" and key not in seen:
            seen.add(key)
            sub.append(tv)
    if sub:
        n = len(sub)
        K = fns.k_fl
        F = np.array([np.array(tv["T"], float) / tv["den"] for tv in sub]).T
        xC = np.array([[tv["hd"][0] / tv["hd"][2], tv["hd"][1] / tv["hd"][2], 0.0] for tv in sub]).T
        psi = np.array([math.atan2(tv["hd"][1], tv["hd"][0]) for tv in sub])
        a = np.array([[0.0], [0.0], [K["g"]]]) - F / K["m"]
        z1 = np.zeros((1, n)); z3 = np.zeros((3, n)); v = np.repeat(np.array([[0.3], [-1.0], [0.5]]), n, axis=1)
        Rexp = expected_frame(sub)
        cols = [psi[None], z1, z1, v, a, z3, z3]
        ext = lambda k: {"inputs": {"psi": float(psi[k]), "a_e": a[:, k].tolist(), "j_e": [0, 0, 0], "s_e": [0, 0, 0]}}
        o = batch_call(fns.fr, cols)
        check_attitude(run, "f_ref", "quat", o[1], sub, F, xC, o[5][0], Rexp, cover, ext)
        o = batch_call(fns.mr, cols + [np.full((1, n), K["m"]), np.full((1, n), K["g"]), np.full((1, n), K["J"][0, 0]),
                                       np.full((1, n), K["J"][1, 1]), np.full((1, n), K["J"][2, 2]), np.full((1, n), K["J"][0, 2])])
        check_attitude(run, "mr_ref_traj", "mat", o[1], sub, F, xC, o[5][0], Rexp, cover, ext)


# ------------------------------------------------------------------------------ trajectory vectors
def poly_derivs(co, t):
    """v, a, j, s of p(t) = sum_k co[axis][k-2] t^k / 10 (k = 2..5) in floats"""
    out = np.zeros((4, 3))
    for ax in range(3):
        c = {k: co[ax][k - 2] / 10.0 for k in range(2, 6)}
        out[0, ax] = sum(k * c[k] * t ** (k - 1) for k in c)
        out[1, ax] = sum(k * (k - 1) * c[k] * t ** (k - 2) for k in c)
        out[2, ax] = sum(k * (k - 1) * (k - 2) * c[k] * t ** (k - 3) for k in c if k >= 3)
        out[3, ax] = sum(k * (k - 1) * (k - 2) * (k - 3) * c[k] * t ** (k - 4) for k in c if k >= 4)
    return out


def traj_cols(fns, tvs, dt=0.0):
    """inputs of f_ref / mr_ref_traj at time t + dt (dt = 0: from the spec's exact integers)"""
    n = len(tvs)
    K = fns.k_fl
    psi = np.zeros(n); psd = np.zeros(n); psdd = np.zeros(n)
    v = np.zeros((3, n)); a = np.zeros((3, n)); j = np.zeros((3, n)); s = np.zeros((3, n))
    for k, tv in enumerate(tvs):
        tn, td = tv["t"]
        c, sn, h = tv["hd"]
        p1, p2, pd = tv["psir"]
        psi[k] = math.atan2(sn, c) + (p1 / pd) * dt + 0.5 * (p2 / pd) * dt * dt
        psd[k] = p1 / pd + (p2 / pd) * dt
        psdd[k] = p2 / pd
        d = poly_derivs(tv["co"], tn / td + dt)
        v[:, k] = d[0]
        if dt == 0.0:
            a[:, k] = np.array(tv["A"], float) / (5 * td ** 3)
            j[:, k] = np.array(tv["Jn"], float) / (5 * td ** 2)
            s[:, k] = np.array(tv["Sn"], float) / (5 * td)
            if max(np.max(np.abs(a[:, k] - d[1])), np.max(np.abs(j[:, k] - d[2])), np.max(np.abs(s[:, k] - d[3]))) > 1e-11:
                raise MachineryError(f"spec derivatives differ from the polynomial's: {tv}")
        else:
            a[:, k], j[:, k], s[:, k] = d[1], d[2], d[3]
    base = [psi[None], psd[None], psdd[None], v, a, j, s]
    J = K["J"]
    par = [np.full((1, n), x) for x in (K["m"], K["g"], J[0, 0], J[1, 1], J[2, 2], J[0, 2])]
    return base, base + par


def fd_rates(fns, tvs, which):
    """true body rates / angular acceleration of the code's own attitude along the trajectory by
    five-point finite differences: omega^ = R^T dR/dt, omega_dot^ = skew part of R^T d2R/dt2"""
    h = FD_H
    Rs = {}
    for i in (-2, -1, 0, 1, 2):
        cf, cm = traj_cols(fns, tvs, dt=i * h)
        if which == "f_ref":
            Rs[i] = quat_to_R(batch_call(fns.fr, cf)[1])
        else:
            Rs[i] = mat_from_cols(batch_call(fns.mr, cm)[1])
    R = Rs[0]
    dR = (8 * (Rs[1] - Rs[-1]) - (Rs[2] - Rs[-2])) / (12 * h)
    ddR = (-Rs[2] + 16 * Rs[1] - 30 * Rs[0] + 16 * Rs[-1] - Rs[-2]) / (12 * h * h)
    W = np.einsum("kin,kjn->ijn", R, dR)
    A = np.einsum("kin,kjn->ijn", R, ddR)
    om = np.array([W[2, 1] - W[1, 2], W[0, 2] - W[2, 0], W[1, 0] - W[0, 1]]) / 2
    al = np.array([A[2, 1] - A[1, 2], A[0, 2] - A[2, 0], A[1, 0] - A[0, 1]]) / 2
    return om, al


def check_traj(run, fns, tvs, cover, stats):
    if not tvs or any("bezier.g" in w for w in DEGRADED):      # the trajectory vectors are exact only for g = 49/5
        return
    n = len(tvs)
    K = fns.k_fl
    cf, cm = traj_cols(fns, tvs)
    xC = np.array([[tv["hd"][0] / tv["hd"][2], tv["hd"][1] / tv["hd"][2], 0.0] for tv in tvs]).T
    F = np.array([K["m"] * tv["G"] * np.array(tv["U"], float) / tv["D"] for tv in tvs]).T        # exact thrust vector
    Fa = K["m"] * (np.array([[0.0], [0.0], [K["g"]]]) - cf[4])
    if np.max(np.abs(F - Fa)) > 1e-11:
        raise MachineryError("spec thrust vector differs from m (g e3 - a)")
    for k, tv in enumerate(tvs):
        if float_cell(F[:, k], xC[:, k]) != tv["cell"]:
            raise MachineryError(f"cell classification differs for {tv}")
    Rexp = expected_frame(tvs)
    with np.errstate(invalid="ignore", divide="ignore"):
        pe = np.array([tv["pnum"] / math.sqrt(tv["nz"] * tv["ny"]) if tv["ny"] > 0 else np.nan for tv in tvs])
        qe = np.array([tv["qnum"] / (tv["nz"] * math.sqrt(tv["ny"])) if tv["ny"] > 0 else np.nan for tv in tvs])
    outs = {}
    ext = lambda k: {"inputs": {nm: cm[i][:, k].tolist() for i, nm in enumerate(
        ["psi", "psi_dot", "psi_ddot", "v_e", "a_e", "j_e", "s_e", "m", "g", "J_xx", "J_yy", "J_zz", "J_xz"])}}
    for fn, f, cols, kind in (("f_ref", fns.fr, cf, "quat"), ("mr_ref_traj", fns.mr, cm, "mat")):
        o = batch_call(f, cols)
        vb, att, om, omd, M, T = o
        R, ok = check_attitude(run, fn, kind, att, tvs, F, xC, T[0], Rexp, cover, ext)
        outs[fn] = (vb, R, om, omd, M, T[0], ok)
        gen = np.array([tv["cell"] == "generic" for tv in tvs]) & ok
        with np.errstate(invalid="ignore"):
            fin = np.all(np.isfinite(om), axis=0) & np.all(np.isfinite(omd), axis=0) & np.all(np.isfinite(M), axis=0)
            dp = np.abs(om[0] - pe); dq = np.abs(om[1] - qe)
            Mx = K["J"] @ omd + np.cross(om, K["J"] @ om, axis=0)
            dM = np.max(np.abs(M - Mx), axis=0)
            sM = np.maximum(1.0, np.max(np.abs(Mx), axis=0))
        for k in np.nonzero(gen)[0]:
            tv = tvs[k]
            kc = keycell(tv)

            def data(**kw):
                d = {"tv": tv, "fn": fn, "omega": om[:, k].tolist(), "omega_dot": omd[:, k].tolist(), "M": M[:, k].tolist(),
                     "expected_pq": [float(pe[k]), float(qe[k])]}
                d.update(ext(k)); d.update(kw)
                return d
            stats["rate_points"] = stats.get("rate_points", 0) + 1
            if not (np.isfinite(om[0, k]) and dp[k] <= TOL * max(1.0, abs(pe[k]))):
                run.violation(f"{fn}/roll_rate/{kc}", "returned roll rate p is not the rotation rate of the thrust axis (-dz/dt . y_b)", data(err=float(dp[k])))
            else:
                run.err(float(dp[k]))
            if not (np.isfinite(om[1, k]) and dq[k] <= TOL * max(1.0, abs(qe[k]))):
                run.violation(f"{fn}/pitch_rate/{kc}", "returned pitch rate q is not the rotation rate of the thrust axis (dz/dt . x_b)", data(err=float(dq[k])))
            else:
                run.err(float(dq[k]))
            if not fin[k]:
                run.violation(f"{fn}/finite_rates_moment/{kc}", "returned rates / angular acceleration / moment are not finite at a regular trajectory point", data())
            elif not (dM[k] <= TOL * sM[k]):
                run.violation(f"{fn}/euler_equation/{kc}", "returned moment is not J omega_dot + omega x J omega for the returned rates", data(err=float(dM[k])))
            else:
                run.err(float(dM[k]))
        # finite-difference validation of the sign convention + informational r / omega_dot comparison
        idx = np.nonzero(gen & fin)[0]
        if len(idx):
            sub = [tvs[k] for k in idx]
            om_fd, al_fd = fd_rates(fns, sub, fn)
            with np.errstate(invalid="ignore"):
                e_pq = np.maximum(np.abs(om_fd[0] - pe[idx]), np.abs(om_fd[1] - qe[idx])) / np.maximum(1.0, np.abs(pe[idx]) + np.abs(qe[idx]))
                e_r = np.abs(om_fd[2] - om[2, idx])
                e_al = np.max(np.abs(al_fd - omd[:, idx]), axis=0) / np.maximum(1.0, np.max(np.abs(al_fd), axis=0))
            good = np.isfinite(e_pq) & (e_pq <= FD_TOL)
            stats[f"fd_points_{fn}"] = stats.get(f"fd_points_{fn}", 0) + int(len(idx))
            stats[f"fd_agree_{fn}"] = stats.get(f"fd_agree_{fn}", 0) + int(np.sum(good))
            stats[f"fd_max_err_{fn}"] = max(stats.get(f"fd_max_err_{fn}", 0.0), float(np.nanmax(np.where(good, e_pq, 0.0))))
            for i in np.nonzero(good & (e_r > DRIFT_TOL))[0]:
                run.spec_drift(f"{fn}/yaw_rate_r", "returned yaw rate r differs from the true z-rate of the returned frame (not promised by C14)")
                stats["max_r_drift"] = max(stats.get("max_r_drift", 0.0), float(e_r[i]))
            for i in np.nonzero(good & (e_al > DRIFT_TOL))[0]:
                run.spec_drift(f"{fn}/omega_dot", "returned angular acceleration differs from the derivative of the frame's true rate (not promised by C14)")
                stats["max_omega_dot_drift"] = max(stats.get("max_omega_dot_drift", 0.0), float(e_al[i]))
    # --- mr_ref_traj takes the full inertia incl. the product of inertia J_xz as an input (f_ref hard-codes
    #     J_xz = 0): Euler's equation must hold for the inertia the function is GIVEN, so re-run the generic
    #     vectors with non-zero J_xz (found missing by a seeded change that dropped J_xz from the gyroscopic term)
    for jxz_rel in (0.3, -0.45):
        cmx = [c.copy() for c in cm]
        jxz = jxz_rel * math.sqrt(float(K["J"][0, 0]) * float(K["J"][2, 2]))
        cmx[12] = np.full_like(cmx[12], jxz)
        Jx = np.array(K["J"], float).copy(); Jx[0, 2] = Jx[2, 0] = jxz
        vb, att, om, omd, M, T = batch_call(fns.mr, cmx)
        gen = np.array([tv["cell"] == "generic" for tv in tvs])
        with np.errstate(invalid="ignore"):
            fin = np.all(np.isfinite(om), axis=0) & np.all(np.isfinite(omd), axis=0) & np.all(np.isfinite(M), axis=0)
            Mx = Jx @ omd + np.cross(om, Jx @ om, axis=0)
            dM = np.max(np.abs(M - Mx), axis=0)
            sM = np.maximum(1.0, np.max(np.abs(Mx), axis=0))
        for k in np.nonzero(gen & fin)[0]:
            stats["euler_jxz_points"] = stats.get("euler_jxz_points", 0) + 1
            if not (dM[k] <= TOL * sM[k]):
                run.violation(f"mr_ref_traj/euler_equation_Jxz/{keycell(tvs[k])}",
                              "returned moment is not J omega_dot + omega x J omega for the given inertia with J_xz != 0",
                              {"tv": tvs[k], "J_xz": jxz, "M": M[:, k].tolist(), "expected_M": Mx[:, k].tolist(), "err": float(dM[k])})
    # --- the two shipped variants agree at identical inputs
    a, b = outs["f_ref"], outs["mr_ref_traj"]
    names = ["v_b", "attitude", "omega", "omega_dot", "M", "T"]
    for k, tv in enumerate(tvs):
        if tv["cell"] != "generic" or not (a[6][k] and b[6][k]):
            continue
        cover[("variants", "generic")] = cover.get(("variants", "generic"), 0) + 1
        for i, nm in enumerate(names):
            x = a[i][..., k]; y = b[i][..., k]
            with np.errstate(invalid="ignore"):
                d = np.max(np.abs(x - y)); sc = max(1.0, float(np.max(np.abs(y)))) if np.all(np.isfinite(y)) else 1.0
            if np.all(np.isfinite(x)) and np.all(np.isfinite(y)):
                if not (d <= TOL * sc):
                    run.violation(f"variants/agree_{nm}/generic", f"f_ref and mr_ref_traj return different {nm} at identical inputs",
                                  {"tv": tv, "f_ref": np.ravel(x).tolist(), "mr_ref_traj": np.ravel(y).tolist(), **ext(k)})
                else:
                    run.err(float(d))
            elif not (np.all(np.isfinite(x)) == np.all(np.isfinite(y))):
                run.violation(f"variants/agree_{nm}/generic", f"only one of f_ref / mr_ref_traj returns a finite {nm}",
                              {"tv": tv, "f_ref": np.ravel(x).tolist(), "mr_ref_traj": np.ravel(y).tolist(), **ext(k)})


# ------------------------------------------------------------------------------ Euler vectors
def ang(a, b):
    return 2.0 * math.atan2(b, a)


def check_euler(run, fns, tvs, cover):
    if not tvs:
        return
    n = len(tvs)
    Rexp = np.array([np.array(tv["exp"]["num"], float) / tv["exp"]["den"] for tv in tvs]).transpose(1, 2, 0)
    yaw0 = np.array([ang(tv["z0"][0], tv["z0"][3]) for tv in tvs])
    dyaw = np.array([ang(tv["zd"][0], tv["zd"][3]) for tv in tvs])
    pitch = np.array([ang(tv["y"][0], tv["y"][2]) for tv in tvs])
    roll = np.array([ang(tv["x"][0], tv["x"][1]) for tv in tvs])
    # eulerB321_to_quat(yaw, pitch, roll)
    q = batch_call(fns.e2q, [(yaw0 + dyaw)[None], pitch[None], roll[None]])[0]
    # input_auto_level(thrust_trim, thrust_delta, aetr, q): yaw_r = yaw(q) + yr*rudder, pitch_r = rp*elevator, roll_r = rp*aileron
    qc = np.array([np.array(tv["qcur"], float) / math.sqrt(sum(c * c for c in tv["qcur"])) * (1 if k % 2 == 0 else -1)
                   for k, tv in enumerate(tvs)]).T
    aetr = np.vstack([roll / fns.k_al["rp"], pitch / fns.k_al["rp"], np.linspace(-1, 1, n), dyaw / fns.k_al["yr"]])
    trim, delta = 21.952, 19.7568
    qr, th = batch_call(fns.al, [np.full((1, n), trim), np.full((1, n), delta), aetr, qc])
    for fn, Q, ins in (("eulerB321_to_quat", q, lambda k: {"yaw": yaw0[k] + dyaw[k], "pitch": pitch[k], "roll": roll[k]}),
                       ("input_auto_level", qr, lambda k: {"input_aetr": aetr[:, k].tolist(), "q": qc[:, k].tolist(),
                                                           "thrust_trim": trim, "thrust_delta": delta})):
        res = quat_residual(Q)
        R = quat_to_R(Q)
        run.count("evaluations", n)
        with np.errstate(invalid="ignore"):
            dR = np.max(np.abs(R - Rexp), axis=(0, 1))
        for k, tv in enumerate(tvs):
            cell = tv["cell"]
            cover[(fn, cell)] = cover.get((fn, cell), 0) + 1
            data = {"tv": tv, "fn": fn, "inputs": ins(k), "attitude": Q[:, k].tolist(), "residual": float(res[k])}
            if not np.isfinite(res[k]):
                run.violation(f"{fn}/finite/{cell}", "returned quaternion is not finite", data)
            elif not (res[k] <= TOL):
                run.violation(f"{fn}/unit_quaternion/{cell}", "returned attitude quaternion is not a unit quaternion", data)
            elif not (dR[k] <= TOL):
                run.violation(f"{fn}/rotation/{cell}", "returned rotation is not Rz(yaw) Ry(pitch) Rx(roll)", {**data, "err": float(dR[k])})
            else:
                run.err(float(max(res[k], dR[k])))
    with np.errstate(invalid="ignore"):
        bad = ~(np.abs(th[0] - (aetr[2] * delta + trim)) <= 1e-9 * 50)
    for k in np.nonzero(bad)[0]:
        run.spec_drift("input_auto_level/thrust", "thrust output is not thrust_trim + stick * thrust_delta")


def near_level_sweep(run, fns):
    """headings beyond 120 deg with a tilt of 1e-7 .. 1e-4 rad (and exactly level): trace(R) <= 0 with two nearly equal
    diagonal entries, where the matrix -> quaternion step inside the set-point functions chooses between nearly
    degenerate pivots.  The integers of such attitudes do not fit TLC's 32 bits, so the expectation is the closed
    form q = qz(yaw) qy(pitch) qx(roll) evaluated here (unit norm, rotation equal up to the sign of q)."""
    yaws = [2.2, 2.6, 3.0, -2.4, -2.9, math.pi, 2.0944, -2.0945]
    tilts = [0.0, 1e-7, -1e-6, 1e-5, -1e-4, 3e-6]
    Y, P, R_ = [], [], []
    for y in yaws:
        for a in tilts:
            for b in tilts:
                if a == 0.0 and b == 0.0 and y != yaws[0]:
                    continue
                Y.append(y); P.append(a); R_.append(b)
    Y, P, R_ = np.array(Y), np.array(P), np.array(R_)
    q = batch_call(fns.e2q, [Y[None], P[None], R_[None]])[0]
    cy, sy, cp, sp_, cr, sr = np.cos(Y / 2), np.sin(Y / 2), np.cos(P / 2), np.sin(P / 2), np.cos(R_ / 2), np.sin(R_ / 2)
    want = np.array([cy * cp * cr + sy * sp_ * sr, cy * cp * sr - sy * sp_ * cr, cy * sp_ * cr + sy * cp * sr, sy * cp * cr - cy * sp_ * sr])
    run.count("evaluations", len(Y)); run.count("near_level_sweep", len(Y))
    for k in range(len(Y)):
        data = {"fn": "eulerB321_to_quat", "inputs": {"yaw": float(Y[k]), "pitch": float(P[k]), "roll": float(R_[k])}, "attitude": q[:, k].tolist(),
                "expected": want[:, k].tolist()}
        nrm = float(np.sum(q[:, k] ** 2))
        if not np.all(np.isfinite(q[:, k])):
            run.violation("eulerB321_to_quat/finite/near_level", "returned quaternion is not finite", data)
        elif abs(nrm - 1.0) > 1e-9:
            run.violation("eulerB321_to_quat/unit_quaternion/near_level", "returned attitude quaternion is not a unit quaternion", data)
        elif min(np.max(np.abs(q[:, k] - want[:, k])), np.max(np.abs(q[:, k] + want[:, k]))) > 1e-9:
            run.violation("eulerB321_to_quat/rotation/near_level", "returned rotation is not Rz(yaw) Ry(pitch) Rx(roll)", data)
    # position controller hovering at such headings with a tiny horizontal force demand (tiny tilt of the thrust axis)
    try:
        K = fns.k_pc
    except AttributeError:
        return


# ------------------------------------------------------------------------------ main
NEED = {
    "position_control": {"generic", "parallel", "zero", "tiny", "saturated", "saturated_parallel"},
    "se23_position_control": {"generic", "parallel", "zero", "tiny", "saturated", "saturated_parallel", "se23_rotation"},
    "f_ref": {"generic", "parallel", "zero", "tiny", "horizontal_thrust"},
    "mr_ref_traj": {"generic", "parallel", "zero", "tiny", "horizontal_thrust"},
    "input_auto_level": {"level", "steep", "pitch90"},
    "eulerB321_to_quat": {"level", "steep", "pitch90"},
    "variants": {"generic"},
}


def replay(run, fns, tvs, cover, stats):
    check_frames(run, fns, [tv for tv in tvs if tv["op"] == "frame"], cover)
    check_traj(run, fns, [tv for tv in tvs if tv["op"] == "traj"], cover, stats)
    check_euler(run, fns, [tv for tv in tvs if tv["op"] == "euler"], cover)
    near_level_sweep(run, fns)


def detuple(x):
    if isinstance(x, list):
        return tuple(detuple(y) for y in x)
    if isinstance(x, dict):
        return {k: detuple(v) for k, v in x.items()}
    return x


def main():
    tier = sys.argv[1] if len(sys.argv) > 1 else "quick"
    run = Run(PID, tier)
    from harness.lie import touch_all as _touch_all
    _touch_all()        # first uses of the Lie API happen BEFORE the models are derived (see harness/lie.py)
    from harness import history as _history      # derivation histories in fresh interpreters (spec/DeriveHistory.tla)
    _history.run_models(run, tier, ("rdd2:position_control", "rdd2:input_auto_level", "rdd2_loglinear:se23_position_control", "bezier:f_ref", "bezier:eulerB321_to_quat", "mr_ref_traj:"))
    fns = Fns()
    DEGRADED.extend(fns.degraded)
    for why in fns.degraded:
        run.spec_drift("constants/outside_lattice_range", "the repository's vehicle constants left the range the exact force lattice was built for (" + why +
                       "): vectors whose classification changes are not compared with the spec's frame")
    cover, stats = {}, {}
    if "--replay" in sys.argv:
        d = json.load(open(sys.argv[sys.argv.index("--replay") + 1]))
        replay(run, fns, [detuple(d["data"]["tv"])], cover, stats)
        return run.finish({"replayed_key": d.get("key")})
    res = run_tlc("Setpoints.tla", f"Setpoints_{tier}.cfg", workdir=run.workdir, dump=True)
    run.add_tlc("Setpoints", res)
    tvs = []
    ops = {}
    for st in parse_dump(res["dump"]):
        tv = st["tv"]
        if tv["op"].startswith("seed"):
            continue
        tvs.append(tv)
        ops[tv["op"]] = ops.get(tv["op"], 0) + 1
        if len(tvs) % 1499 == 1:
            run.sample({k: tv[k] for k in tv if k in ("op", "T", "den", "hd", "cell", "sat", "co", "t", "U", "Ud", "pnum", "qnum", "q")}, limit=6)
    replay(run, fns, tvs, cover, stats)
    mass_band_sweep(run, fns)
    missing = {fn: sorted(c - {cell for (f, cell) in cover if f == fn}) for fn, c in NEED.items()}
    missing = {fn: c for fn, c in missing.items() if c}
    if missing and not DEGRADED:
        raise MachineryError(f"vacuous coverage: cells never exercised: {missing}")
    for fn in ("f_ref", "mr_ref_traj"):
        pts, agree = stats.get(f"fd_points_{fn}", 0), stats.get(f"fd_agree_{fn}", 0)
        if DEGRADED:
            break
        if pts == 0 or stats.get("rate_points", 0) == 0:
            raise MachineryError("vacuous coverage: no roll/pitch-rate point was checked")
        if not run.viol and agree < 0.98 * pts:
            raise MachineryError(f"finite-difference validation of the p/q sign convention failed for {fn}: {agree}/{pts} agree")
    run.assumptions += [
        "forces are dyadic lattice vectors, headings Pythagorean points of the unit circle, trajectories polynomial with "
        "coefficients in Z/10 at t in {-2..2, 1/2 multiples}; validity between lattice points is not decided",
        "saturated PD term and se_2(3) errors with rotation: the demanded force is evaluated in the harness from the same "
        "saturation formula / the library's own left Jacobian (gains read from the code), not by TLC",
        "only roll and pitch rate are asserted for the flatness references; yaw rate r and omega_dot are compared with a "
        "finite difference of the returned frame and reported as SPEC-DRIFT only",
        "zero / tiny-thrust cells assert only a finite proper rotation; the thrust-parallel-to-heading cell asserts properness and z_B alignment",
    ]
    nontriv = sum(v for (fn, cell), v in cover.items() if cell not in ("generic", "level"))
    return run.finish({
        "traces_validated_against_impl": len(tvs),
        "evaluations": run.counts.get("evaluations", 0),
        "distinct_nontrivial": nontriv,
        "rule": "one TLC state = one vector (frame / trajectory point / Euler triple) replayed into every applicable function; "
                "non-trivial = (function, vector) pairs in a non-generic cell (zero, tiny, parallel, saturated, se23 rotation, steep, pitch 90)",
        "vectors_by_kind": ops,
        "cells": {f"{fn}/{cell}": v for (fn, cell), v in sorted(cover.items())},
        "rate_stats": stats,
        "exhaustive": True,
    })


if __name__ == "__main__":
    main_wrap(main)
